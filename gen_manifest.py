#!/usr/bin/env python3
"""Regenerates MANIFEST.json from the table below; CLAIMED lists the properties whose checks exist."""
import json, os, subprocess

V = os.path.dirname(os.path.abspath(__file__))

# id -> (technique, level text, design ref)
P = {
 "C01": ("who-may-write / call-order / value-flow rules over SSA + call graph (sipvet)",
         "Decides structural necessary conditions only: single serialisation funnel for all 5 network writes, emit order and emit-all loop of Write/encodeHeader, Content-Length = len(body) through the canonical header comparator, who may insert/delete/rewrite headers (owned set Via/Route/Record-Route), payload immutability on the relay path, raw capture at parse, no message data as format string. Does not decide byte equality of relayed messages for all inputs. Also (shared rules): pooled buffers freed once, every decoded message owns its header list and body. Rounds 4: decimal parse of Content-Length, receive buffers hold a maximal datagram, header values trimmed of SP/HTAB only, printers do not modify what they print, package structs printed through fmt have String in their method set.", "4/C01"),
 "C02": ("CFG must-pass/guard/count rules + phi-resolved value provenance on SSA (sipvet)",
         "Decides structural necessary conditions only: exactly one PopVia before the hop lookup on every response path, dispatch guarded by the same lookup's success with its results as arguments, drop on failure, provenance of host/port/transport inside the hop function (received over sent-by, numeric rport over sent-by port), pop-one structure, default port constants, unsupported transport ends in an error. Does not decide the end-to-end history property. Also: the stamp the hop is read from (shared with C07), key/value accessors and GetHeader take the first matching entry, no per-datagram closure captures a variable shared by the iterations. Round 4: host alias table, decimal/wide number parsing of Via port and rport, receive buffers hold a maximal datagram.", "4/C02"),
 "C03": ("CFG path counting, guard polarity and value provenance on SSA (sipvet)",
         "Decides structural necessary conditions only: at most one dispatch per request on every CFG path, precedence Route -> static route -> backend -> drop as guard polarity, destination taken from the same lookup call, at most one successful write per dispatch (retry-aware), URI defaults, listener-address match clause. Does not decide service-name matching semantics. Also (shared with C13): the own-Route consumption guard and isSameAddress. Round 4: static-route table filing, next-hop port parsing and configuration wiring, URI host and port taken as received.", "4/C03"),
 "C04": ("guard/provenance rules + key-producer agreement over field-based value flow (sipvet)",
         "Decides structural necessary conditions only: pin lookup precedes the pool, bind sites exist under the right method guards with the right key/backend arguments, one key producer per namespace at put/get/remove, order of the loop steps, method gate. Does not decide stickiness over histories. Also: the transaction pin is read before it is dropped; requests from backends are stamped (shared with C07).", "4/C04"),
 "C05": ("lockset analysis + idiom recognition (cursor, paired update) on SSA (sipvet)",
         "Decides structural necessary conditions only: every access to index/backends/backendMap under the pool mutex, add/remove keep list, map and notification in step, cursor advanced by exactly +1 modulo the current length, selection backends[i % n] with n read in the same critical section, empty pool -> error without dispatch. Does not compute the floor/ceil counts. Also: outside Add/RemoveBackend nothing writes into the backing array of the rotation; a connection closed by a backend's Close was created for that backend alone. Round 4: no send on an unbuffered channel under a lock its receiver needs; subscribers of a host are notified from addressResolved only; the UDP backend socket is unconnected.", "4/C05"),
 "C06": ("CFG exactly-once/ordering rules + argument provenance on SSA (sipvet)",
         "Decides structural necessary conditions only: addVia/addRecordRoute exactly once before the send on the backend path, guarded by the learned-route lookup on the routed path and absent otherwise; Via content (listener protocol/address/port, branch = z9hG4bK + fresh UUID part); insert position = first Via / first Record-Route; record-route policy guard; learning sites. Does not decide statistical branch uniqueness. Also: AddRoute replaces a stored transport unless it is the same listener by protocol, address and port. Round 4: Via decoders fail when a sub-decoder fails (no skipped entry); learned-table keys are the text as received.", "4/C06"),
 "C07": ("interprocedural field-based value-flow (provenance with negation parity) + guard rules (sipvet)",
         "Decides structural necessary conditions only: every RawMessage.ReceivedSupport bit derives from the YAML field no-received through exactly one negation, stamp guarded by IsRequest and ReceivedSupport with the socket peer address/port as arguments and before dispatch, stamp content (entry 0, received always, rport only when present). Does not decide socket behaviour. Also: HasParam/SetParam/GetParam and GetHeader take the first matching entry whatever its value or spelling; no per-datagram closure captures a shared variable. Round 4: no Via parameter makes the Via decoder give up; a TCP table entry expires by age only; no cached Via text.", "4/C07"),
 "C08": ("panic-obligation inventory with an interval/linear bounds prover over SSA; taint of allocation sizes (sipvet)",
         "Decides structural necessary conditions only: every index/slice/make/division/type-assertion in network-reachable code is proved in range from dominating guards and library facts, network-derived allocation sizes are bounded, parse errors discard (UDP) or close-and-leave (TCP), no exit/panic calls, no recursion. Does not decide stalls, CPU or RSS. Also: a pointer/interface result of a fallible call is not kept (typed nil) where the failure is not excluded; lock order acyclic and non-reentrant (shared with C09). Named constructor assumptions are re-validated on the source. Round 4: typed-nil aware nil guards; receive buffers hold a maximal datagram; no decision on a read result before its error check.", "4/C08"),
 "C09": ("goroutine-root reachability + must-hold lockset + confinement classification of every field of the package's shared struct types (sipvet)",
         "Decides structural necessary conditions only: each map/slice-typed field or package variable is immutable after construction, protected by one lock on all accesses, or confined to one message loop and not shared between listeners; lock order acyclic and non-reentrant; payload hand-off on channels. Does not decide delivery/liveness. Scalar, pointer and interface fields are classified too (additionally: atomic access, or published before the reading threads start). Round 4: send-under-lock on unbuffered channels; blocking hand-off to the loop; queued messages share no storage with the reader.", "4/C09"),
 "C10": ("buffer-extent and use-after-free typestate on SSA (sipvet)",
         "Decides structural necessary conditions only: only b[:n] of a received pooled buffer is parsed, Free exactly once after the parse with no later use, nothing aliasing the buffer is stored in a Message, handler runs only on parse success, pool Alloc/Free shapes. The isolation conclusion is an argument from these rules, not a computed equality. Also: every decoded message owns its storage (NewMessage). Round 4: receive buffers hold a maximal datagram; the empty-line test follows the read's error check; serialisation into own storage.", "4/C10"),
 "C11": ("borrowed-slice lifetime analysis + API discipline on the framing path (sipvet)",
         "Decides structural necessary conditions only: a slice borrowed from bufio.Reader.ReadLine is not used after the next read, the framing path uses only full-read APIs, one reader per connection hoisted out of the loop, body length = Content-Length read from the same reader, keep-alive skipping. Does not decide value-level decoding. Round 4: blocking hand-off to the loop; no read deadline on any connection; the length header is found in its compact spelling; the empty-line test follows the read's error check.", "4/C11"),
 "C12": ("guard/ordering rules + key-class agreement over value flow (sipvet)",
         "Decides structural necessary conditions only: the inbound connection is registered as primary before dispatch under the request/TCP/hop/transaction guards, register/lookup/remove build the table key from the same producer with the same host resolution class, removal only on final responses, primary tried before secondary. Does not decide affinity over real interleavings. Round 4: IsExpired by age only; the CSeq method is cut with strings.Fields.", "4/C12"),
 "C13": ("guard polarity / at-most-once / provenance rules on SSA (sipvet)",
         "Decides structural necessary conditions only: the own-entry pop is guarded by port equality and same-address test on Route entry 0, at most once per message; next-hop pop guarded by !keepNextHopRoute wired from YAML; pop-one structure. Value-level re-encoding is C14. Also: the alias table (AddHostIP unconditional, GetIp table-first), GetRoute consults the header list on every call. Round 4: default port of a port-less Route URI (shared with C03).", "4/C13"),
 "C14": ("format-taint flow, dropped-error detection, decoder/printer field and delimiter agreement (sipvet)",
         "Decides structural necessary conditions only: no network-derived string is used as a fmt format, no decoder error is discarded, every decoded field is printed and vice versa, printers do not substitute defaults, stripped separators are re-emitted, accessor keys agree, lists are appended and printed in order. Does not decide the round-trip law itself. Also: package structs printed through fmt have String in the printed type's method set; a separator the decoder requires is written for every element; accessors do not mutate decoded values. Round 4: blank-separated tokens cut with strings.Fields; fixed parts of strings.Split only where further parts are excluded; printers are pure; a failing sub-decoder makes the decoder fail. Two open findings: IPv6 references (decoder-grammar).", "4/C14"),
 "C15": ("guard polarity, max idiom and taint-free sweep schedule on SSA value flow (sipvet)",
         "Decides structural necessary conditions only: expiry comparisons have the right polarity, lifetime = max(timeout, Expires), the sweep schedule does not derive from message data and the sweep is called from AddBackend, BYE / NOTIFY-terminated removal sites under their guards, timeout wiring from configuration. Does not decide anything about elapsed time. Also: the transaction pin is read before it is dropped in getBackendOfResponse. Round 4: the CSeq method is cut with strings.Fields; one canonical spelling of a backend's address.", "4/C15"),
 "C16": ("backward slice of the dialog key + symmetry/injectivity shape rules (sipvet)",
         "Decides structural necessary conditions only: the dialog key depends on exactly Call-ID, both tags and both addresses (SIP URIs without params/headers), the canonical ordering compares the swapped halves themselves, the join is injective, missing tags yield no dialog. Does not decide URI equivalence beyond the included components. Also: ParseFromSpec and ParseTo cut the same pieces out of the header text; ParseSipURI cuts at the first '?', then the first ';', then the first '@'. Round 4: fixed parts of strings.Split only where further parts are excluded (tags containing '=').", "4/C16"),
 "C17": ("comparator-discipline lint over every string comparison on Header.name + table checks (sipvet)",
         "Decides structural necessary conditions only: every header-name comparison goes through the case/compact-insensitive comparator, comparator internals (EqualFold + compact table through one normaliser), compact table vs registry for queried names, the Via walk visits every matching header. Does not decide the metamorphic relation on full pipelines. Also: GetHeader returns the first line the comparator accepts; every Via entry of every line teaches a route (shared with C06). Round 4: blank-separated tokens cut with strings.Fields (an entry after ', ' starts with a blank); printers do not cache their text.", "4/C17"),
 "C18": ("guard-order rules + map-iteration-order dependence detection (sipvet)",
         "Decides structural necessary conditions only: exact hit before wildcard scan before default before error, no answer depends on map iteration order, next-hop port split/defaults, pattern anchoring and escaping order. Does not decide regexp semantics for other metacharacters. Also: AddRouteItem files each entry once under its unmodified destination and records first-seen destinations in order. Round 4: the To host is looked up as received; createPreConfigRoute passes protocol, destinations and next hop as configured.", "4/C18"),
 "C19": ("argument provenance + counter-threshold idiom recognition on SSA (sipvet)",
         "Decides structural necessary conditions only: added = resolved minus known and removed = known minus resolved, failure counter +1 with emptying on the 4th consecutive failure and reset, success reset and notify-on-change, add/remove events keyed consistently, close on remove. Does not decide DNS behaviour or notify ordering. Also: hostIPChanged walks both the added and the removed addresses on every notification; no resolver callback captures a variable shared by loop iterations. Round 4: canonical backend addresses (isIPv6, createHostPort, UDPBackend.GetAddress, static u.Host); TCPBackend.Close always closes; a new host's first addresses go through addressResolved.", "4/C19"),
 "C20": ("CFG rules on the send loops: success-only-after-write, bounded retry, cleanup (sipvet)",
         "Decides structural necessary conditions only: nil is returned only on the err==nil edge of a write of the full serialised message, the retry loop has a constant bound, a failed connection is closed and forgotten before the next attempt, dial errors surface, primary forgotten then secondary tried. Does not decide socket behaviour. Round 4: RoundRobinBackend.Send returns the chosen backend's result; backends are dialled at the configured address.", "4/C20"),
}

CLAIMED = [l.strip() for l in open(os.path.join(V, "CLAIMED")).read().split() if l.strip()]

checks = []
for pid in sorted(P):
    if pid not in CLAIMED:
        continue
    tech, text, ref = P[pid]
    checks.append({
        "property_id": pid,
        "quick_cmd": f"./check {pid} quick",
        "thorough_cmd": f"./check {pid} thorough",
        "evidence_file": f"/verif/evidence/{pid}.json",
        "replay_cmd_template": "./check replay {path}",
        "engine": "sipvet",
        "level_claimed": {"category": "other", "text": text, "design_ref": "DESIGN.md section " + ref},
        "level_note": "Trusted: Go type checker, go/ssa and the VTA call graph of golang.org/x/tools v0.29.0 (vendored); the standard-library contracts listed in the evidence (strings/bufio/io/net/sync); heap objects are conflated per type (no pointer analysis); named assumptions are printed in the evidence. The check reads /repo's current source on every run and executes nothing from it.",
        "technique": "static analysis: " + tech,
    })

na = [{"property_id": pid, "reason": "check not built yet in this session; DESIGN.md section 4 describes the structural clauses that will be claimed"} for pid in sorted(P) if pid not in CLAIMED]

m = {
    "version": 1,
    "setup_cmd": "cd /verif/sipvet && GOFLAGS=-mod=vendor GOPROXY=off GOSUMDB=off GOTOOLCHAIN=local GOWORK=off go build -o /verif/bin/sipvet .",
    "hooks": {
        "guard": "verif",
        "enable": "none needed: the checker only reads source; no hook or instrumentation exists in /repo",
        "baseline_off_cmd": "cd /repo && GOFLAGS=-mod=mod GOPROXY=off GOSUMDB=off go test -vet=off -count=1 -timeout 25m ./...",
        "source_commits": [],
        "add_only": True,
    },
    "engines": [{"name": "sipvet", "path": "/verif/sipvet", "serves_properties": CLAIMED,
                 "kind_free_text": "repository-specific static analyser: go/packages + go/ssa + VTA call graph; CFG guard/ordering/count rules, field-based value flow, locksets, bounds prover, borrow/extent typestate"}],
    "checks": checks,
    "not_applicable": na,
    "notes": "All claims are at level 'other': each check decides named structural necessary conditions of its property from /repo's source (see DESIGN.md section 4) and states what it does not decide. Known findings: /verif/KNOWN_FINDINGS.txt. Seeded breaking changes and which checks catch them: /verif/seeded and DESIGN.md.",
}
json.dump(m, open(os.path.join(V, "MANIFEST.json"), "w"), indent=1)
print("claimed:", CLAIMED, "not_applicable:", [x["property_id"] for x in na])
