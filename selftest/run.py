#!/usr/bin/env python3
"""Sensitivity self-test: apply each seeded variant to a scratch copy of /repo's current tree
(outside /repo and /verif), check that it still compiles, run sipvet on it and require that
the expected rule fires. Also requires silence on an unmodified copy.

usage: run.py [--prop C02] [--id name] [--jobs 8] [--nobuild] [--json out]
"""
import argparse, json, os, shutil, subprocess, sys, tempfile, concurrent.futures as cf

VERIF = os.path.dirname(os.path.dirname(os.path.abspath(__file__)))
REPO = os.environ.get("SIPVET_REPO", "/repo")
BIN = os.environ.get("SIPVET_BIN", os.path.join(VERIF, "bin", "sipvet"))
ENV = dict(os.environ, GOFLAGS="-mod=readonly", GOPROXY="off", GOSUMDB="off", GOTOOLCHAIN="local", GOWORK="off")


def load_variants():
    out = []
    d = os.path.join(VERIF, "selftest")
    for fn in sorted(os.listdir(d)):
        if fn.endswith(".jsonl"):
            for ln, line in enumerate(open(os.path.join(d, fn)), 1):
                line = line.strip()
                if not line or line.startswith("#"):
                    continue
                try:
                    out.append(json.loads(line))
                except Exception as e:
                    print(f"bad line {fn}:{ln}: {e}", file=sys.stderr)
                    sys.exit(2)
    return out


def scratch_copy():
    tmp = tempfile.mkdtemp(prefix="sipvet-st-")
    dst = os.path.join(tmp, "repo")
    os.mkdir(dst)
    for f in os.listdir(REPO):
        if os.path.isfile(os.path.join(REPO, f)) and not f.startswith(".git"):
            shutil.copy(os.path.join(REPO, f), dst)
    vd = os.path.join(tmp, "verif")
    os.mkdir(vd)
    kf = os.path.join(VERIF, "KNOWN_FINDINGS.txt")
    if os.path.exists(kf):
        shutil.copy(kf, vd)
    return tmp, dst, vd


def run_variant(v, build=True):
    tmp, dst, vd = scratch_copy()
    try:
        res = {"id": v["id"], "prop": v["prop"], "expect": v.get("rule", "")}
        # "rename": [[regex, replacement], ...] applied to every non-test .go file (identifier renames)
        for pat, rep in v.get("rename", []):
            import re
            for f in os.listdir(dst):
                if f.endswith(".go"):
                    fp = os.path.join(dst, f)
                    src = open(fp).read()
                    open(fp, "w").write(re.sub(pat, rep, src))
        edits = v.get("edits") or ([{"file": v["file"], "old": v["old"], "new": v["new"]}] if "file" in v else [])
        for e in edits:
            p = os.path.join(dst, e["file"])
            s = open(p).read()
            if s.count(e["old"]) < 1:
                res["status"] = "skipped"
                res["why"] = "anchor text not found in " + e["file"]
                return res
            s = s.replace(e["old"], e["new"], 1)
            open(p, "w").write(s)
        if build:
            b = subprocess.run(["go", "build", "-o", os.devnull, "."], cwd=dst, env=ENV, capture_output=True, text=True)
            if b.returncode != 0:
                res["status"] = "nocompile"
                res["why"] = b.stderr[-400:]
                return res
        r = subprocess.run([BIN, "-repo", dst, "-verif", vd, "-prop", v["prop"]], env=ENV, capture_output=True, text=True)
        out = r.stdout + r.stderr
        rules = [l.split()[1] for l in out.splitlines() if l.startswith("  rule ")]
        res["rules"] = sorted(set(rules))
        fired = r.returncode == 1 and "VIOLATION property=" + v["prop"] in out
        undec = "[undecided]" in out
        res["undecided"] = undec
        if v.get("benign"):
            res["status"] = "FALSE-ALARM" if r.returncode != 0 else "silent-ok"
        elif not fired:
            res["status"] = "MISSED"
        elif v.get("rule") and v["rule"] not in rules:
            res["status"] = "fired-other"
        else:
            res["status"] = "fired"
        res["out"] = out[-1500:]
        return res
    finally:
        shutil.rmtree(tmp, ignore_errors=True)


def run_clean(props):
    tmp, dst, vd = scratch_copy()
    try:
        bad = []
        r = subprocess.run([BIN, "-repo", dst, "-verif", vd, "-prop", "all"], env=ENV, capture_output=True, text=True)
        if r.returncode != 0:
            bad.append(r.stdout[-3000:])
        return bad
    finally:
        shutil.rmtree(tmp, ignore_errors=True)


def main():
    ap = argparse.ArgumentParser()
    ap.add_argument("--prop")
    ap.add_argument("--id")
    ap.add_argument("--jobs", type=int, default=6)
    ap.add_argument("--nobuild", action="store_true")
    ap.add_argument("--json")
    ap.add_argument("-v", action="store_true")
    a = ap.parse_args()
    vs = load_variants()
    if a.prop:
        vs = [v for v in vs if v["prop"] == a.prop]
    if a.id:
        vs = [v for v in vs if a.id in v["id"]]
    results = []
    with cf.ThreadPoolExecutor(max_workers=a.jobs) as ex:
        for res in ex.map(lambda v: run_variant(v, not a.nobuild), vs):
            results.append(res)
            line = f"{res['status']:12s} {res['prop']} {res['id']:40s} expect={res['expect']} got={res.get('rules')}"
            if res["status"] in ("skipped", "nocompile"):
                line += " :: " + res.get("why", "")[:200].replace("\n", " ")
            print(line)
            if a.v and res["status"] in ("MISSED", "fired-other", "FALSE-ALARM"):
                print(res.get("out", ""))
    clean_bad = [] if (a.prop or a.id) else run_clean(None)
    n = {}
    for r in results:
        n[r["status"]] = n.get(r["status"], 0) + 1
    print("summary:", n, "clean-copy alarms:", len(clean_bad))
    for b in clean_bad:
        print(b)
    if a.json:
        json.dump({"results": results, "summary": n}, open(a.json, "w"), indent=1)
    failed = n.get("FALSE-ALARM", 0) + n.get("MISSED", 0) + n.get("fired-other", 0) + n.get("nocompile", 0) + len(clean_bad)
    sys.exit(1 if failed else 0)


if __name__ == "__main__":
    main()
