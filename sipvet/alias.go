package main

import (
	"go/types"
	"strings"

	"golang.org/x/tools/go/ssa"
)

// ALIAS: slices borrowed from a bufio.Reader are views of its internal buffer and are valid only until the
// next read on that reader.

var bufioBorrowCalls = map[string]bool{"(*bufio.Reader).ReadLine": true, "(*bufio.Reader).ReadSlice": true, "(*bufio.Reader).Peek": true}

func isBufioReaderType(t types.Type) bool {
	return strings.HasSuffix(types.TypeString(t, nil), "*bufio.Reader")
}

// readerArg returns the *bufio.Reader argument of a call (receiver of bufio methods, or any argument of that type,
// also when boxed into an io.Reader).
func readerArg(c ssa.CallInstruction) ssa.Value {
	for _, a := range c.Common().Args {
		if isBufioReaderType(strip(a).Type()) {
			return strip(a)
		}
	}
	if c.Common().IsInvoke() && isBufioReaderType(strip(c.Common().Value).Type()) {
		return strip(c.Common().Value)
	}
	return nil
}

// readsReader: the call may consume bytes from (and so refill the buffer of) a bufio.Reader it is given.
func (w *World) readsReader(c ssa.CallInstruction) bool {
	if readerArg(c) == nil {
		return false
	}
	name := w.calleeName(c)
	switch name {
	case "(*bufio.Reader).UnreadByte", "(*bufio.Reader).UnreadRune", "(*bufio.Reader).Buffered", "(*bufio.Reader).Size":
		return false
	}
	if strings.HasPrefix(name, "(*bufio.Reader).") {
		return true
	}
	callee := c.Common().StaticCallee()
	if callee != nil && w.isMain(callee) {
		return w.fnReadsReader(callee, map[*ssa.Function]bool{})
	}
	return true // library function given the reader (io.ReadFull, io.ReadAll, io.LimitReader consumers...)
}

func (w *World) fnReadsReader(fn *ssa.Function, seen map[*ssa.Function]bool) bool {
	if seen[fn] {
		return false
	}
	seen[fn] = true
	for _, cs := range w.callsIn(fn) {
		if readerArg(cs.In) == nil {
			continue
		}
		name := w.calleeName(cs.In)
		if strings.HasPrefix(name, "(*bufio.Reader).") && !strings.Contains(name, "Unread") && !strings.HasSuffix(name, ".Buffered") {
			return true
		}
		callee := cs.In.Common().StaticCallee()
		if callee != nil && w.isMain(callee) {
			if w.fnReadsReader(callee, seen) {
				return true
			}
		} else if !strings.HasPrefix(name, "(*bufio.Reader).") {
			return true
		}
	}
	return false
}

// borrowSources: functions of the package that return (as result 0) an un-copied view of a bufio buffer.
func (w *World) borrowSourceFns() map[*ssa.Function]bool {
	out := map[*ssa.Function]bool{}
	for changed := true; changed; {
		changed = false
		for _, fn := range w.All {
			if out[fn] || fn.Signature.Results().Len() == 0 {
				continue
			}
			if _, isSl := fn.Signature.Results().At(0).Type().Underlying().(*types.Slice); !isSl {
				continue
			}
			b := w.borrowedValues(fn, out)
			for _, r := range returnsUnder(fn, nil) {
				for _, v := range phiLeaves(r.Results[0]) {
					if _, ok := b[v]; ok {
						out[fn] = true
						changed = true
					}
				}
			}
		}
	}
	return out
}

// borrowedValues: value -> the call that produced the underlying view (definition D). Derived values (phi, slice,
// append with a borrowed first operand) are borrowed too.
func (w *World) borrowedValues(fn *ssa.Function, srcFns map[*ssa.Function]bool) map[ssa.Value][]ssa.CallInstruction {
	b := map[ssa.Value][]ssa.CallInstruction{}
	add := func(v ssa.Value, d ...ssa.CallInstruction) bool {
		changed := false
		for _, x := range d {
			found := false
			for _, y := range b[v] {
				if y == x {
					found = true
				}
			}
			if !found {
				b[v] = append(b[v], x)
				changed = true
			}
		}
		return changed
	}
	for _, cs := range w.callsIn(fn) {
		call, ok := cs.In.(*ssa.Call)
		if !ok {
			continue
		}
		isSrc := bufioBorrowCalls[cs.Name]
		if callee := call.Common().StaticCallee(); callee != nil && srcFns[callee] {
			isSrc = true
		}
		if !isSrc {
			continue
		}
		if e := extractOf(call, 0); e != nil {
			add(e, call)
		} else if _, isTuple := call.Type().(*types.Tuple); !isTuple {
			add(call, call)
		}
	}
	for changed := true; changed; {
		changed = false
		eachInstr(fn, func(in ssa.Instruction) {
			switch x := in.(type) {
			case *ssa.Phi:
				for _, e := range x.Edges {
					if d, ok := b[e]; ok && add(x, d...) {
						changed = true
					}
				}
			case *ssa.Slice:
				if d, ok := b[x.X]; ok && add(x, d...) {
					changed = true
				}
			case *ssa.ChangeType:
				if d, ok := b[x.X]; ok && add(x, d...) {
					changed = true
				}
			case *ssa.Call:
				if bi, ok := x.Call.Value.(*ssa.Builtin); ok && bi.Name() == "append" {
					// append(borrowed, ...) may write into, and returns a view of, the borrowed buffer
					if d, ok := b[x.Call.Args[0]]; ok && add(x, d...) {
						changed = true
					}
				}
			}
		})
	}
	return b
}

type borrowFinding struct {
	Use   ssa.Instruction
	Def   ssa.CallInstruction
	Inval ssa.CallInstruction
	Kind  string // "stale-use" | "stored"
	Val   ssa.Value
}

// isCopyUse: the use copies the bytes out (and so ends the dependence on the buffer).
func isCopyUse(use ssa.Instruction, v ssa.Value) bool {
	switch x := use.(type) {
	case *ssa.Convert:
		return true // string(b)
	case *ssa.Call:
		if bi, ok := x.Call.Value.(*ssa.Builtin); ok {
			switch bi.Name() {
			case "len", "cap":
				return true
			case "append":
				return x.Call.Args[0] != v // spread operand: content is copied
			case "copy":
				return len(x.Call.Args) > 1 && x.Call.Args[1] == v && x.Call.Args[0] != v
			}
		}
	case *ssa.Index, *ssa.IndexAddr, *ssa.Lookup:
		return false
	}
	return false
}

// borrowViolations finds uses of a borrowed view after the reader was read again, and stores of views.
func (w *World) borrowViolations(fn *ssa.Function, srcFns map[*ssa.Function]bool) []borrowFinding {
	var out []borrowFinding
	b := w.borrowedValues(fn, srcFns)
	if len(b) == 0 {
		return nil
	}
	// invalidators per reader
	var invals []ssa.CallInstruction
	for _, cs := range w.callsIn(fn) {
		if w.readsReader(cs.In) {
			invals = append(invals, cs.In)
		}
	}
	for v, defs := range b {
		if v.Referrers() == nil {
			continue
		}
		for _, use := range *v.Referrers() {
			if _, isDbg := use.(*ssa.DebugRef); isDbg {
				continue
			}
			// derived values are tracked on their own
			if uv, ok := use.(ssa.Value); ok {
				if _, derived := b[uv]; derived {
					if c, isCall := use.(*ssa.Call); !isCall || c.Call.Args[0] != v {
						continue
					} // append(borrowed, ...) is itself a use (it writes/reads the buffer): fall through
				}
			}
			// stores into longer-lived places
			switch x := use.(type) {
			case *ssa.Store:
				if x.Val == v {
					if _, isLocal := x.Addr.(*ssa.Alloc); !isLocal {
						out = append(out, borrowFinding{Use: use, Def: defs[0], Kind: "stored", Val: v})
					}
				}
				continue
			case *ssa.Send:
				out = append(out, borrowFinding{Use: use, Def: defs[0], Kind: "stored", Val: v})
				continue
			case *ssa.MapUpdate:
				out = append(out, borrowFinding{Use: use, Def: defs[0], Kind: "stored", Val: v})
				continue
			case *ssa.Return:
				continue // summarised by borrowSourceFns; the caller is checked
			}
			for _, d := range defs {
				rd := readerArg(d)
				for _, iv := range invals {
					if iv == d {
						// the same call site invalidates values of a previous execution only if D is not re-executed
						// in between: a value always comes from the latest execution of D, so D itself never stales it
						continue
					}
					if ri := readerArg(iv); ri != nil && rd != nil && ri != rd {
						if _, isP := ri.(*ssa.Parameter); isP {
							if _, isP2 := rd.(*ssa.Parameter); isP2 {
								continue // two different reader parameters
							}
						}
					}
					// path D -> I -> U without re-executing D between I and U
					if !canReach(at(d), nil, isInstr(iv), nil) {
						continue
					}
					if canReach(at(iv), nil, isInstr(use), isInstr(d)) {
						out = append(out, borrowFinding{Use: use, Def: d, Inval: iv, Kind: "stale-use", Val: v})
					}
				}
			}
		}
	}
	return out
}
