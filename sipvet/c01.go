package main

import (
	"fmt"
	"go/token"
	"go/types"
	"sort"
	"strings"

	"golang.org/x/tools/go/ssa"
)

func init() {
	register(&propDef{ID: "C01", Run: runC01,
		Explain:    "Structural necessary conditions of 'relaying leaves everything the proxy does not own untouched', decided on SSA/CFG/value flow of /repo: (1) funnel: the payload of every network write primitive in the package is result 0 of Message.Bytes, which returns the buffer written only by Message.Write; (2) emit-order: Write emits start line, headers, the Content-Length line and the body, each exactly once, in that order, to its writer; (3) cl-value: the integer printed as Content-Length is len(m.body) and the body write writes that same m.body; exactly one format literal in the package carries the header name; (4) emit-all: in encodeHeader every element of m.headers is emitted with its own name and value in the literal form 'name: value CRLF', the only suppressing guard is the Content-Length test, the loop ends only by exhaustion or on a write error; (5) cl-comparator: that test uses the canonical comparator; (6) list-effects: every store to Message.headers is append-one (parse), insert-one or delete-one; inserted names are the constants Via/Record-Route, deleted names the constants Via/Route; AddHeader is called only by the parser; (7) value-effects: Header.name is stored only at construction, Header.value outside construction only with the decoded form of that same header's raw string; (8) payload-immutability: relay-reachable code writes fields of the start line, From/To/CSeq and URI types only on freshly allocated objects; body/request/response are stored only by constructors and the parser; (9) parse-capture: header names are pure substrings, values TrimSpace of a substring, one AddHeader per header line, request-line fields in order; (10) format-taint (shared with C14); (11) delimiter-agreement (shared with C14): the start line's Request-URI and the From/To values are decoded and printed again, so every separator a decoder strips must be written back by the printer; (12) full-write / bounded-attempts / failure-cleanup (shared with C20): each attempt writes the whole serialisation, and after a failed write the connection is closed and forgotten before the next attempt.",
		NotDecided: "byte equality of relayed and received messages for every input (value-level decoder/printer behaviour beyond the C14 rules); collapse of blank runs in start lines."})
}

func runC01(c *Ctx) {
	c01Funnel(c)
	c01EmitOrder(c)
	c01EmitAll(c)
	c01ListEffects(c)
	c01ValueEffects(c)
	c01PayloadImmutability(c)
	c01ParseCapture(c)
	ruleFormatTaint(c, "format-taint")
	// what is stored in the message must not alias the receive buffers, and decoded components must be kept
	// byte-identical (rules shared with C10/C11 and C14)
	ruleBorrow(c, "borrow-lifetime")
	c10CopyOut(c)
	rulePureCapture(c, "pure-capture")
	ruleFmtStringer(c, "emit-all")
	rulePurePrinters(c, "value-effects")
	ruleNumberParsing(c, "cl-value", 1, "(*Message).GetHeaderInt")
	ruleDatagramBuffer(c, "funnel")
	c10Free(c)
	c10Pool(c)
	c10FreshMessage(c)
	// the Request-URI of the start line and the From/To values the proxy looks into are decoded and printed again:
	// every separator a decoder strips is written back by the printer (shared with C14)
	c14Delimiters(c)
	// on a byte stream, what reaches the next hop is what was written: a write that failed part-way is never followed by
	// another write on the same connection (the connection is closed and forgotten first), and each attempt writes the
	// whole serialisation - otherwise the peer reads a fragment followed by the whole message (rules shared with C20)
	for _, sp := range sendFns {
		f := c.fn("failure-cleanup", sp.Fn)
		if f == nil {
			continue
		}
		if len(c.w.netWriteSites(f)) > 0 {
			c20FullWrite(c, f)
		}
		if sp.Retry {
			c20Retry(c, f, sp)
		}
	}
}

func c01Funnel(c *Ctx) {
	w := c.w
	rule := "funnel"
	n := 0
	for _, fn := range w.All {
		for _, ws := range w.netWriteSites(fn) {
			n++
			c.Fns[w.fname(fn)] = true
			key := fmt.Sprintf("%s/%s", w.fname(fn), ws.Name)
			payload := ws.In.Common().Args[0]
			if ws.In.Common().IsInvoke() {
				payload = ws.In.Common().Args[0]
			} else if len(ws.In.Common().Args) > 1 {
				payload = ws.In.Common().Args[1] // Args[0] is the receiver
			}
			ok := true
			for _, v := range phiLeaves(payload) {
				bc := w.resultOfCallTo(v, "(*Message).Bytes", 0)
				if bc == nil {
					ok = false
				}
			}
			c.check(ok, rule, key, w.ipos(ws.In), "payload is the result of Message.Bytes()", "a network write sends "+w.termKey(payload)+" which is not the serialisation produced by Message.Bytes(): this path can alter or re-serialise the message differently")
		}
	}
	if n < 5 {
		c.undecided(rule, "floor", "-", fmt.Sprintf("only %d network write sites found (confirmed by hand: 5)", n))
	}
	// Bytes(): fresh buffer, written only by m.Write, returned through buf.Bytes()
	if bf := c.fn(rule, "(*Message).Bytes"); bf != nil {
		wr := w.callsIn(bf, "(*Message).Write")
		if len(wr) != 1 || !isParam(bf, callArg(wr[0].In, -1), 0) {
			c.bad(rule, "Bytes/Write", w.pos(bf.Pos()), "Bytes() does not serialise its own message through exactly one Write call")
		} else {
			buf := strip(callArg(wr[0].In, 0))
			nb := w.resultOfCallTo(buf, "bytes.NewBuffer", 0)
			fresh := nb != nil && isEmptyList(nb.Call.Args[0])
			if _, isAlloc := buf.(*ssa.Alloc); isAlloc {
				fresh = true
			}
			c.check(fresh, rule, "Bytes/fresh-buffer", w.ipos(wr[0].In), "serialises into a fresh empty buffer", "Bytes() does not serialise into a fresh, empty bytes.Buffer")
			// other uses of the buffer: only .Bytes()
			okUses := true
			for _, cs := range w.callsIn(bf) {
				if cs.In == wr[0].In || cs.Name == "bytes.NewBuffer" {
					continue
				}
				for _, a := range cs.In.Common().Args {
					if strip(a) == buf && cs.Name != "(*bytes.Buffer).Bytes" {
						okUses = false
					}
				}
			}
			c.check(okUses, rule, "Bytes/buffer-only-written-by-Write", w.pos(bf.Pos()), "nothing else writes the buffer", "the serialisation buffer is also passed to another call than m.Write / buf.Bytes()")
			for _, r := range returnsUnder(bf, w.under(assumeAtom(errNil(wr[0].In), true))) {
				vs := valuesUnder(bf, r.Results[0], w.under(assumeAtom(errNil(wr[0].In), true)))
				c.check(allVals(vs, func(v ssa.Value) bool {
					bc := w.resultOfCallTo(v, "(*bytes.Buffer).Bytes", 0)
					return bc != nil && strip(bc.Call.Args[0]) == buf
				}), rule, "Bytes/result", w.ipos(r), "returns exactly the buffer's content", "Bytes() returns "+describe(w, vs)+", not the content of the buffer Write filled")
			}
		}
	}
}

func c01EmitOrder(c *Ctx) {
	w := c.w
	rule := "emit-order"
	f := c.fn(rule, "(*Message).Write")
	if f == nil {
		return
	}
	writer := func(v ssa.Value) bool { return isParam(f, v, 1) }
	self := func(v ssa.Value) bool { return isParam(f, v, 0) }
	first := w.callsIn(f, "(*Message).encodeFirstLine")
	hdrs := w.callsIn(f, "(*Message).encodeHeader")
	var cl, body ssa.CallInstruction
	nCL := 0
	for _, cs := range w.callsIn(f, "fmt.Fprintf") {
		if s, _, ok := w.foldFormat(cs.In); ok && strings.Contains(strings.ToLower(s), "content-length") {
			cl = cs.In
			nCL++
		}
	}
	nBody := 0
	for _, cs := range w.callsIn(f, "(io.Writer).Write") {
		body = cs.In
		nBody++
	}
	if len(first) != 1 || len(hdrs) != 1 || nCL != 1 || nBody != 1 {
		c.bad(rule, "Write/steps", w.pos(f.Pos()), fmt.Sprintf("Write must have exactly one start-line step, one header step, one Content-Length emission and one body write (found %d, %d, %d, %d)", len(first), len(hdrs), nCL, nBody))
		return
	}
	steps := []ssa.CallInstruction{first[0].In, hdrs[0].In, cl, body}
	names := []string{"start-line", "headers", "content-length", "body"}
	for i, s := range steps {
		mn, mx, inf := countSites(entryPt(f), nil, isInstr(s))
		c.check(mn == 1 && mx == 1 && !inf, rule, "Write/"+names[i]+"-once", w.ipos(s), names[i]+" emitted exactly once on every path", fmt.Sprintf("%s is emitted min=%d max=%d times (loop=%v)", names[i], mn, mx, inf))
		if i > 0 {
			c.check(mustPrecede(f, []ssa.Instruction{steps[i-1]}, s, nil) && !canReach(at(s), nil, isInstr(steps[i-1]), nil), rule, "Write/"+names[i-1]+"-before-"+names[i], w.ipos(s), "order kept", names[i]+" can be emitted before "+names[i-1])
		}
	}
	c.check(self(callArg(steps[0], -1)) && writer(callArg(steps[0], 0)) && self(callArg(steps[1], -1)) && writer(callArg(steps[1], 0)) && writer(cl.Common().Args[0]) && writer(body.Common().Value),
		rule, "Write/same-writer", w.pos(f.Pos()), "all four steps write this message to the given writer", "a step of Write does not write this message to Write's own writer argument")
	// cl-value
	rule = "cl-value"
	fs, args, _ := w.foldFormat(cl)
	c.check(fs == "Content-Length: %d\r\n\r\n", rule, "Write/cl-format", w.ipos(cl), "literal is 'Content-Length: %d CRLF CRLF'", fmt.Sprintf("the Content-Length line is printed with the literal %q, expected \"Content-Length: %%d\\r\\n\\r\\n\" (one field, then the blank line)", fs))
	okLen := false
	var lenArg ssa.Value
	if len(args) == 1 && args[0] != nil {
		if x, isLen := lenOf(args[0]); isLen {
			if b, isL := isLoadOf(x, "Message.body"); isL && self(b) {
				okLen = true
				lenArg = x
			}
		}
	}
	c.check(okLen, rule, "Write/cl-is-len-body", w.ipos(cl), "value printed is len(m.body)", "the Content-Length value is "+describeArgs(w, args)+", expected len(m.body)")
	bb, isL := isLoadOf(body.Common().Args[0], "Message.body")
	c.check(isL && self(bb), rule, "Write/body-is-m.body", w.ipos(body), "the bytes written are m.body", "the body write sends "+w.termKey(body.Common().Args[0])+", expected m.body unchanged")
	c.check(len(w.fieldStores(f, "Message.body")) == 0, rule, "Write/body-not-modified", w.pos(f.Pos()), "Write does not replace m.body", "Write stores to m.body between computing the length and writing the body")
	_ = lenArg
	// unique emission in the package
	n := 0
	for _, fn := range w.All {
		for _, cs := range w.callsIn(fn) {
			if !isFmtPrintf(cs.Name) || cs.Name == "fmt.Errorf" { // the text of an error value is never written to a peer
				continue
			}
			format, args, ok := w.fmtArgs(cs.In)
			if !ok {
				continue
			}
			hit := false
			if s, isC := constString(format); isC && strings.Contains(strings.ToLower(s), "content-length") {
				hit = true
			}
			for _, a := range args {
				if a == nil {
					continue
				}
				if s, isC := constString(a); isC && strings.Contains(strings.ToLower(s), "content-length") {
					hit = true
				}
			}
			if hit && cs.In != cl {
				n++
				c.bad(rule, fmt.Sprintf("%s/second-cl-emission#%d", w.fname(fn), n), w.ipos(cs.In), "a second place prints a Content-Length field")
			}
		}
		// headers named Content-Length must not be added by the proxy
		for _, st := range storesIn(fn) {
			if fa, ok := st.Addr.(*ssa.FieldAddr); ok && fieldRef(fa) == "Header.name" {
				if s, isC := constString(st.Val); isC && strings.EqualFold(s, "content-length") {
					c.bad(rule, w.fname(fn)+"/cl-header-inserted", w.ipos(st), "a Content-Length header is inserted into the header list: it would be emitted in addition to the computed one or suppressed inconsistently")
				}
			}
		}
	}
	c.okTrivial(rule, "package/single-emission", "-", "exactly one Content-Length emission in the package")
}

func describeArgs(w *World, args []ssa.Value) string {
	var out []string
	for _, a := range args {
		if a == nil {
			out = append(out, "?")
		} else {
			out = append(out, w.termKey(a))
		}
	}
	return "[" + strings.Join(out, ", ") + "]"
}

func c01EmitAll(c *Ctx) {
	w := c.w
	rule := "emit-all"
	f := c.fn(rule, "(*Message).encodeHeader")
	if f == nil {
		return
	}
	var loop *rangeLoop
	for _, rl := range rangeLoops(f) {
		if b, ok := isLoadOf(rl.Over, "Message.headers"); ok && isParam(f, b, 0) {
			loop = rl
		}
	}
	if loop == nil {
		c.bad(rule, "encodeHeader/loop", w.pos(f.Pos()), "encodeHeader does not range over m.headers")
		return
	}
	var emit ssa.CallInstruction
	for _, cs := range w.callsIn(f, "fmt.Fprintf") {
		if loop.inLoop(cs.In.Block()) {
			if emit != nil {
				c.bad(rule, "encodeHeader/emission#2", w.ipos(cs.In), "more than one emission per header")
			}
			emit = cs.In
		}
	}
	if emit == nil {
		c.bad(rule, "encodeHeader/emission", w.pos(f.Pos()), "no header emission inside the loop")
		return
	}
	format, args, _ := w.fmtArgs(emit)
	fs, _ := constString(format)
	c.check(fs == "%s: %v\r\n" || fs == "%s: %s\r\n", rule, "encodeHeader/format", w.ipos(emit), "literal is 'name: value CRLF'", fmt.Sprintf("header lines are printed with the literal %q, expected \"%%s: %%v\\r\\n\"", fs))
	okArgs := len(args) == 2 && args[0] != nil && args[1] != nil
	if okArgs {
		b0, ok0 := isLoadOf(args[0], "Header.name")
		b1, ok1 := isLoadOf(args[1], "Header.value")
		okArgs = ok0 && ok1 && loop.isElem(b0) && loop.isElem(b1)
	}
	c.check(okArgs && isParam(f, emit.Common().Args[0], 1), rule, "encodeHeader/operands", w.ipos(emit), "operands are the element's own name and value, written to the given writer", "the emission does not print (element.name, element.value) of the current element to the writer: "+describeArgs(w, args))
	// guards: within one iteration, the emission is skipped only by the Content-Length test
	isCL := func(a Atom) bool {
		if a.Kind == "bool" {
			if cc := w.resultOfCallTo(a.X, comparatorFn, 0); cc != nil {
				s0, ok0 := constString(callArg(cc, 0))
				s1, ok1 := constString(callArg(cc, 1))
				return (ok0 && strings.EqualFold(s0, "content-length")) || (ok1 && strings.EqualFold(s1, "content-length"))
			}
		}
		if a.Kind == "eqstr" && strings.EqualFold(a.Str, "content-length") {
			return true
		}
		return false
	}
	// one iteration: the loop header is a sink (nothing leaves it), so a `continue` counts as a path without emission
	notCL := w.under(assumeAtom(isCL, false))
	mn, mx, _ := countSites(blockStart(loop.Body), func(b *ssa.BasicBlock, i int) bool { return notCL(b, i) && b != loop.Header }, isInstr(emit))
	c.check(mn == 1 && mx == 1, rule, "encodeHeader/every-other-header-emitted", w.ipos(emit), "every header that is not Content-Length is emitted exactly once", fmt.Sprintf("a header other than Content-Length is emitted min=%d max=%d times per iteration: some condition filters or repeats headers", mn, mx))
	isCLtrue := w.under(assumeAtom(isCL, true))
	_, mx2, _ := countSites(blockStart(loop.Body), func(b *ssa.BasicBlock, i int) bool { return isCLtrue(b, i) && b != loop.Header }, isInstr(emit))
	c.check(mx2 == 0, rule, "encodeHeader/received-cl-dropped", w.ipos(emit), "the received Content-Length is not re-emitted", "the received Content-Length header is emitted as well as the computed one")
	// exits: exhaustion or the emission's own error
	for i, b := range loop.earlyExits() {
		good := false
		if idom := b; idom != nil {
			// the exit block must be controlled by err != nil of the emission
			for _, in := range b.Instrs {
				if r, ok := in.(*ssa.Return); ok {
					good = w.requires(f, r, errNil(emit), false)
				}
			}
			if len(b.Succs) > 0 {
				if ifi, ok := b.Instrs[len(b.Instrs)-1].(*ssa.If); ok && errNil(emit)(w.atom(ifi.Cond)) {
					good = true
				}
			}
		}
		c.check(good, rule, fmt.Sprintf("encodeHeader/exit#%d", i+1), w.pos(f.Pos()), "the loop is left early only when the writer failed", "the header loop can be left before all headers are emitted for a reason other than a write error")
	}
	// cl-comparator
	rule = "cl-comparator"
	usesCmp := false
	direct := false
	for _, a := range w.atomsOf(f) {
		if !isCL(a) {
			continue
		}
		if a.Kind == "bool" {
			cc := w.resultOfCallTo(a.X, comparatorFn, 0)
			b0, ok0 := isLoadOf(callArg(cc, 0), "Header.name")
			b1, ok1 := isLoadOf(callArg(cc, 1), "Header.name")
			if (ok0 && loop.isElem(b0)) || (ok1 && loop.isElem(b1)) {
				usesCmp = true
			}
		} else {
			direct = true
		}
	}
	c.check(usesCmp && !direct, rule, "encodeHeader/cl-test", w.pos(f.Pos()), "the received Content-Length is recognised through the canonical comparator", "the received Content-Length is not recognised with the canonical comparator on the element's name: 'content-length:' or 'l:' would be relayed next to the computed field")
}

// ---- append-chain shapes ----

type seg struct {
	spread ssa.Value   // a slice spread into the result (append(x, s...)), or the base
	elems  []ssa.Value // explicit elements
}

// appendChain flattens append(append(base, a...), b, c) into segments, base first.
func appendChain(v ssa.Value) []seg {
	v = strip(v)
	call, ok := v.(*ssa.Call)
	if !ok {
		return []seg{{spread: v}}
	}
	b, ok := call.Call.Value.(*ssa.Builtin)
	if !ok || b.Name() != "append" {
		return []seg{{spread: v}}
	}
	out := appendChain(call.Call.Args[0])
	if el := varargs(call.Call.Args[1]); el != nil {
		out = append(out, seg{elems: el})
	} else {
		out = append(out, seg{spread: strip(call.Call.Args[1])})
	}
	return out
}

// sliceOfField: v == (load ref)[lo:hi] ; lo/hi nil when absent.
func sliceOfField(v ssa.Value, ref string) (lo, hi ssa.Value, ok bool) {
	sl, isS := strip(v).(*ssa.Slice)
	if !isS {
		return nil, nil, false
	}
	if _, isL := isLoadOf(sl.X, ref); !isL {
		return nil, nil, false
	}
	return sl.Low, sl.High, true
}

func isZeroOrNil(v ssa.Value) bool {
	if v == nil {
		return true
	}
	k, ok := constInt(v)
	return ok && k == 0
}

// classifyListStore recognises append-one / insert-one / delete-one / delete-first / init on list field ref.
func classifyListStore(w *World, v ssa.Value, ref string) (kind string, elem ssa.Value, pos ssa.Value) {
	if isEmptyList(v) {
		return "init", nil, nil
	}
	if sl, ok := strip(v).(*ssa.Slice); ok {
		if _, isL := isLoadOf(sl.X, ref); isL && sl.High == nil {
			if k, isK := constInt(sl.Low); isK && k == 1 {
				return "delete-first", nil, nil
			}
		}
	}
	if elem, pos, ok := makeCopyInsert(v, ref); ok {
		return "insert-one", elem, pos
	}
	ch := appendChain(v)
	switch len(ch) {
	case 2:
		if _, isL := isLoadOf(ch[0].spread, ref); isL && len(ch[1].elems) == 1 {
			return "append-one", ch[1].elems[0], nil
		}
		// delete-one: append(ref[0:i], ref[i+1:]...)
		lo0, hi0, ok0 := sliceOfField(ch[0].spread, ref)
		lo1, hi1, ok1 := sliceOfField(ch[1].spread, ref)
		if ok0 && ok1 && isZeroOrNil(lo0) && hi0 != nil && hi1 == nil && lo1 != nil && isPlusOne(lo1, hi0) {
			return "delete-one", nil, hi0
		}
	case 3:
		// delete-one into storage of its own: append(append(empty, ref[0:i]...), ref[i+1:]...)
		if ch[0].spread != nil && isEmptyList(ch[0].spread) {
			lo1, hi1, ok1 := sliceOfField(ch[1].spread, ref)
			lo2, hi2, ok2 := sliceOfField(ch[2].spread, ref)
			if ok1 && ok2 && isZeroOrNil(lo1) && hi1 != nil && hi2 == nil && lo2 != nil && isPlusOne(lo2, hi1) {
				return "delete-one", nil, hi1
			}
		}
	case 4:
		// insert-one: append(append(append(empty, ref[0:p]...), x), ref[p:]...)
		if ch[0].spread != nil && isEmptyList(ch[0].spread) && len(ch[2].elems) == 1 {
			lo1, hi1, ok1 := sliceOfField(ch[1].spread, ref)
			lo3, hi3, ok3 := sliceOfField(ch[3].spread, ref)
			if ok1 && ok3 && isZeroOrNil(lo1) && hi1 != nil && hi3 == nil && lo3 != nil && strip(lo3) == strip(hi1) {
				return "insert-one", ch[2].elems[0], hi1
			}
		}
	}
	return "other", nil, nil
}

// makeCopyInsert: v is a new list of len(ref)+1 elements filled, before anything else sees it, by
// copy(v, ref[0:p]); v[p] = x; copy(v[p+1:], ref[p:]) - the insert-one idiom written with make and copy. Every use of
// v is one of these three or the final store; all three are there, with one and the same p.
func makeCopyInsert(v ssa.Value, ref string) (elem, pos ssa.Value, ok bool) {
	mk, isMk := strip(v).(*ssa.MakeSlice)
	if !isMk || mk.Referrers() == nil {
		return nil, nil, false
	}
	// length len(ref)+1
	add, isAdd := strip(mk.Len).(*ssa.BinOp)
	if !isAdd || add.Op != token.ADD {
		return nil, nil, false
	}
	one, isK := constInt(add.Y)
	src, isLen := lenOf(add.X)
	if !isK || one != 1 || !isLen {
		return nil, nil, false
	}
	if _, isL := isLoadOf(src, ref); !isL {
		return nil, nil, false
	}
	if strip(mk.Cap) != strip(mk.Len) {
		if _, capK := constInt(mk.Cap); capK {
			return nil, nil, false
		}
	}
	isCopy := func(in ssa.Instruction) (*ssa.Call, bool) {
		call, isCall := in.(*ssa.Call)
		if !isCall {
			return nil, false
		}
		b, isB := call.Call.Value.(*ssa.Builtin)
		return call, isB && b.Name() == "copy" && len(call.Call.Args) == 2
	}
	var head, tail *ssa.Call
	var tailLow ssa.Value
	var elemStore *ssa.Store
	var elemIdx ssa.Value
	stores := 0
	for _, r := range *mk.Referrers() {
		switch x := r.(type) {
		case *ssa.DebugRef:
		case *ssa.Store:
			if x.Val != ssa.Value(mk) {
				return nil, nil, false
			}
			stores++
		case *ssa.Call:
			call, isC := isCopy(x)
			if !isC || call.Call.Args[0] != ssa.Value(mk) || head != nil {
				return nil, nil, false
			}
			head = call
		case *ssa.Slice:
			// v[p+1:] as the destination of the second copy
			if x.X != ssa.Value(mk) || x.High != nil || x.Low == nil || x.Referrers() == nil || len(*x.Referrers()) != 1 || tail != nil {
				return nil, nil, false
			}
			call, isC := isCopy((*x.Referrers())[0])
			if !isC || call.Call.Args[0] != ssa.Value(x) {
				return nil, nil, false
			}
			tail, tailLow = call, x.Low
		case *ssa.IndexAddr:
			if x.X != ssa.Value(mk) || x.Referrers() == nil || len(*x.Referrers()) != 1 || elemStore != nil {
				return nil, nil, false
			}
			st, isSt := (*x.Referrers())[0].(*ssa.Store)
			if !isSt || st.Addr != ssa.Value(x) {
				return nil, nil, false
			}
			elemStore, elemIdx = st, x.Index
		default:
			return nil, nil, false
		}
	}
	if head == nil || tail == nil || elemStore == nil || stores != 1 {
		return nil, nil, false
	}
	lo1, hi1, ok1 := sliceOfField(head.Call.Args[1], ref)
	lo3, hi3, ok3 := sliceOfField(tail.Call.Args[1], ref)
	if !ok1 || !ok3 || !isZeroOrNil(lo1) || hi1 == nil || hi3 != nil || lo3 == nil {
		return nil, nil, false
	}
	p := strip(hi1)
	if strip(lo3) != p || strip(elemIdx) != p || !isPlusOne(tailLow, p) {
		return nil, nil, false
	}
	return elemStore.Val, hi1, true
}

// constHeaderNameOf returns the constant name stored into the Header literal v (&Header{name: "..."}).
func headerLiteralName(v ssa.Value) (string, bool) {
	al, ok := strip(v).(*ssa.Alloc)
	if !ok {
		return "", false
	}
	for _, r := range *al.Referrers() {
		if fa, ok := r.(*ssa.FieldAddr); ok && fieldRef(fa) == "Header.name" {
			for _, rr := range *fa.Referrers() {
				if st, ok := rr.(*ssa.Store); ok {
					return constString(st.Val)
				}
			}
		}
	}
	return "", false
}

func c01ListEffects(c *Ctx) {
	w := c.w
	rule := "list-effects"
	g := w.Flow()
	ref := "Message.headers"
	n := 0
	for _, fn := range w.All {
		for i, st := range w.fieldStores(fn, ref) {
			n++
			c.Fns[w.fname(fn)] = true
			key := fmt.Sprintf("%s/store#%d", w.fname(fn), i+1)
			kind, elem, _ := classifyListStore(w, st.Val, ref)
			if kind != "init" && kind != "other" {
				if esc := chainEscapes(st.Val); esc != nil {
					c.bad(rule, key+"/list-escapes", w.ipos(esc), "the header list under construction is handed to another operation ("+esc.String()+") before it is stored: it may be reordered or edited in place")
				}
			}
			switch kind {
			case "init":
				// only constructors: the base must be a fresh allocation
				fa := st.Addr.(*ssa.FieldAddr)
				_, fresh := strip(fa.X).(*ssa.Alloc)
				c.check(fresh, rule, key+"/init", w.ipos(st), "header list initialised at construction", "the header list of an existing message is reset to empty")
			case "append-one":
				name, isConst := headerLiteralName(elem)
				if isConst {
					c.bad(rule, key+"/append-const", w.ipos(st), "a header named "+name+" is appended by the proxy: only Via and Record-Route may be inserted (through the insert-one paths)")
				} else {
					c.ok(rule, key+"/append-one", w.ipos(st), "append-one (parser)")
				}
			case "insert-one":
				name, isConst := headerLiteralName(elem)
				c.check(isConst && (name == "Via" || name == "Record-Route"), rule, key+"/insert-one", w.ipos(st), "inserts one owned header ("+name+")", fmt.Sprintf("a header is inserted whose name is not the constant Via or Record-Route (const=%v name=%q): the proxy adds a header it does not own", isConst, name))
			case "delete-one":
				c.ok(rule, key+"/delete-one", w.ipos(st), "delete-one")
				// the deleted element is selected by name through a parameter whose constants are owned names
				if len(fn.Params) >= 2 {
					r := g.backward([]ssa.Value{fn.Params[1]}, nil)
					var names []string
					okNames := true
					for l := range r.Leaves {
						body := l[1:]
						if strings.HasPrefix(body, "const:\"") {
							s := strings.Trim(strings.TrimPrefix(body, "const:"), "\"")
							names = append(names, s)
							if s != "Via" && s != "Route" {
								okNames = false
							}
						} else {
							okNames = false
							names = append(names, body)
						}
					}
					sort.Strings(names)
					c.check(okNames && len(names) > 0, rule, key+"/deleted-names", w.ipos(st), "only owned headers are ever removed: "+strings.Join(names, ","), "headers removed by name are "+strings.Join(names, ", ")+": only the constants Via and Route may be removed from a relayed message")
				} else {
					c.undecided(rule, key+"/deleted-names", w.ipos(st), "delete-one outside a by-name remover")
				}
			default:
				c.bad(rule, key, w.ipos(st), "store to Message.headers is neither append-one, insert-one nor delete-one: "+w.termKey(st.Val)+" (headers may be reordered, dropped or duplicated)")
			}
		}
	}
	if n < 5 {
		c.undecided(rule, "floor", "-", fmt.Sprintf("only %d stores to Message.headers (expected >= 5: constructors, AddHeader, AddVia, AddRecordRoute, RemoveHeader)", n))
	}
	// element stores into the list (m.headers[i] = x) are not allowed at all
	for _, fn := range w.All {
		for _, st := range storesIn(fn) {
			if ia, ok := st.Addr.(*ssa.IndexAddr); ok {
				if _, isL := isLoadOf(ia.X, ref); isL {
					c.bad(rule, w.fname(fn)+"/element-store", w.ipos(st), "an element of Message.headers is overwritten in place")
				}
			}
		}
	}
	// who may call AddHeader: the parser only
	if ah := w.Fn("(*Message).AddHeader"); ah != nil {
		if node := w.CG.Nodes[ah]; node != nil {
			for _, e := range node.In {
				caller := e.Caller.Func
				if !w.isMain(caller) {
					continue
				}
				c.check(w.fname(caller) == "ParseMessage", rule, "AddHeader<-"+w.fname(caller), w.ipos(e.Site), "AddHeader is called by the parser", "AddHeader is called from "+w.fname(caller)+": the proxy appends a header to a relayed message")
			}
		}
	}
}

func c01ValueEffects(c *Ctx) {
	w := c.w
	rule := "value-effects"
	n := 0
	for _, fn := range w.All {
		for _, st := range storesIn(fn) {
			fa, ok := st.Addr.(*ssa.FieldAddr)
			if !ok {
				continue
			}
			ref := fieldRef(fa)
			if ref != "Header.name" && ref != "Header.value" {
				continue
			}
			n++
			c.Fns[w.fname(fn)] = true
			_, fresh := strip(fa.X).(*ssa.Alloc)
			key := fmt.Sprintf("%s/%s@%s", w.fname(fn), ref, w.termKey(st.Val))
			if fresh {
				c.ok(rule, key, w.ipos(st), "set at construction of the header")
				continue
			}
			if ref == "Header.name" {
				c.bad(rule, key, w.ipos(st), "the name of an existing header is overwritten: spelling is not preserved")
				continue
			}
			// lazy decode: value = Parse*(header.value.(string)) of the same header
			good := false
			if pc, idx := callOfResult(st.Val); pc != nil && idx == 0 {
				callee := pc.Common().StaticCallee()
				if callee != nil && w.isMain(callee) && strings.HasPrefix(callee.Name(), "Parse") && len(pc.Call.Args) == 1 {
					arg := strip(pc.Call.Args[0])
					if e, ok := arg.(*ssa.Extract); ok && e.Index == 0 {
						if ta, ok := e.Tuple.(*ssa.TypeAssert); ok && isStringType(ta.AssertedType) {
							if b, isL := isLoadOf(ta.X, "Header.value"); isL && strip(b) == strip(fa.X) {
								good = true
							}
						}
					}
				}
			}
			c.check(good, rule, key, w.ipos(st), "lazy decode of the same header's raw string", "the value of an existing header is replaced by something other than the decoded form of its own raw string")
		}
	}
	if n < 10 {
		c.undecided(rule, "floor", "-", fmt.Sprintf("only %d stores to Header.name/value", n))
	}
}

// payload types whose fields relay-reachable code must not modify (except on fresh objects)
var immutablePayload = map[string]bool{"RequestLine": true, "StatusLine": true, "FromSpec": true, "To": true, "CSeq": true, "AbsoluteURI": true,
	"SIPURI": true, "NameAddr": true, "AddrSpec": true, "RecRoute": true, "RecordRoute": true}

// isFreshValue: v is allocated in this function, or returned by a constructor/decoder call made in this function,
// or loaded from a field of such an object that this function stored a fresh value into.
func (w *World) isFreshValue(fn *ssa.Function, v ssa.Value, d int) bool {
	if d > 4 {
		return false
	}
	v = strip(v)
	switch x := v.(type) {
	case *ssa.Alloc:
		return true
	case *ssa.Call:
		callee := x.Common().StaticCallee()
		if callee != nil && w.isMain(callee) && callee.Signature.Recv() == nil {
			n := callee.Name()
			if strings.HasPrefix(n, "New") || strings.HasPrefix(n, "Parse") || strings.HasPrefix(n, "parse") || strings.HasPrefix(n, "Create") {
				return !w.ctorPublishes(callee)
			}
		}
	case *ssa.Extract:
		if c2, ok := x.Tuple.(*ssa.Call); ok {
			return w.isFreshValue(fn, c2, d+1)
		}
	case *ssa.UnOp:
		if fa, ok := x.X.(*ssa.FieldAddr); ok && w.isFreshValue(fn, fa.X, d+1) {
			// the field of a fresh object: the function must have stored a fresh value into it
			ref := fieldRef(fa)
			for _, st := range w.fieldStores(fn, ref) {
				if w.isFreshValue(fn, st.Val, d+1) {
					return true
				}
			}
		}
	case *ssa.Phi:
		for _, e := range x.Edges {
			if !w.isFreshValue(fn, e, d+1) {
				return false
			}
		}
		return true
	}
	return false
}

func c01PayloadImmutability(c *Ctx) {
	w := c.w
	rule := "payload-immutability"
	loop := c.fn(rule, "(*Proxy).receiveAndProcessMessage")
	if loop == nil {
		return
	}
	reach := w.reachableFrom([]*ssa.Function{loop}, false)
	// writers through receiver/parameter ("mutators") and their call sites
	mutators := map[*ssa.Function]string{}
	n := 0
	for _, fn := range w.All {
		for _, st := range storesIn(fn) {
			var base ssa.Value
			ref := ""
			switch a := st.Addr.(type) {
			case *ssa.FieldAddr:
				base, ref = a.X, fieldRef(a)
			case *ssa.IndexAddr:
				// element store into a list field of a payload type
				if r, b := loadedField(a.X); r != "" {
					base, ref = b, r
				}
			}
			if ref == "" {
				continue
			}
			typ := strings.Split(ref, ".")[0]
			if !immutablePayload[typ] {
				continue
			}
			n++
			if w.isFreshValue(fn, base, 0) {
				continue
			}
			if isDecoderOrCtor(fn) {
				continue // decoders fill the object handed to them by their parent decoder
			}
			mutators[fn] = ref
		}
	}
	c.ok(rule, "population", "-", fmt.Sprintf("%d stores into start-line/From/To/CSeq/URI types inspected, %d mutator functions", n, len(mutators)))
	// each mutator reachable from the loop must only be applied to fresh objects
	for _, m := range w.All {
		ref, isMut := mutators[m]
		if !isMut {
			continue
		}
		node := w.CG.Nodes[m]
		if node == nil {
			continue
		}
		for _, e := range node.In {
			caller := e.Caller.Func
			if !w.isMain(caller) || !reach[caller] {
				continue
			}
			recv := callArg(e.Site, -1)
			if recv == nil && len(e.Site.Common().Args) > 0 {
				recv = e.Site.Common().Args[0]
			}
			key := fmt.Sprintf("%s->%s", w.fname(caller), w.fname(m))
			c.Fns[w.fname(caller)] = true
			c.check(recv != nil && w.isFreshValue(caller, recv, 0), rule, key, w.ipos(e.Site), "mutator applied to an object built by the proxy itself", "relay-reachable code calls "+w.fname(m)+" (writes "+ref+") on an object that was decoded from the received message: a part the proxy does not own is rewritten")
		}
		if reach[m] && len(node.In) == 0 {
			c.undecided(rule, w.fname(m)+"/no-callers", w.pos(m.Pos()), "mutator reachable without visible call sites")
		}
	}
	// body / request / response: only constructors and the parser
	for _, ref := range []string{"Message.body", "Message.request", "Message.response"} {
		for _, fn := range w.All {
			for _, st := range w.fieldStores(fn, ref) {
				fa := st.Addr.(*ssa.FieldAddr)
				good := w.isFreshValue(fn, fa.X, 0)
				c.check(good, rule, w.fname(fn)+"/"+ref, w.ipos(st), "set while the message is being built", ref+" of an existing message is replaced in "+w.fname(fn))
			}
		}
	}
	// body bytes are written only by the parser's copying read
	for _, fn := range w.All {
		for _, st := range storesIn(fn) {
			if ia, ok := st.Addr.(*ssa.IndexAddr); ok {
				if _, isL := isLoadOf(ia.X, "Message.body"); isL {
					c.bad(rule, w.fname(fn)+"/body-byte-store", w.ipos(st), "a body byte is overwritten")
				}
			}
		}
		for _, cs := range w.callsIn(fn, "builtin:copy") {
			if _, isL := isLoadOf(cs.In.Common().Args[0], "Message.body"); isL {
				c.bad(rule, w.fname(fn)+"/body-copy", w.ipos(cs.In), "the body is overwritten by copy()")
			}
		}
	}
	c.floor(rule, 6)
}

func isDecoderOrCtor(fn *ssa.Function) bool {
	if fn.Signature.Recv() != nil {
		return false
	}
	n := fn.Name()
	return strings.HasPrefix(n, "Parse") || strings.HasPrefix(n, "parse") || strings.HasPrefix(n, "New")
}

func c01ParseCapture(c *Ctx) {
	w := c.w
	rule := "parse-capture"
	f := c.fn(rule, "ParseMessage")
	if f == nil {
		return
	}
	ahs := w.callsIn(f, "(*Message).AddHeader")
	if len(ahs) != 1 {
		c.bad(rule, "ParseMessage/AddHeader", w.pos(f.Pos()), fmt.Sprintf("expected exactly one AddHeader site in the parser, found %d", len(ahs)))
		return
	}
	ah := ahs[0].In
	// line = string(readLine result)
	var rl ssa.CallInstruction
	for _, cs := range w.callsIn(f, "readLine") {
		rl = cs.In
	}
	isLine := func(v ssa.Value) bool {
		cv, ok := strip(v).(*ssa.Convert)
		return ok && rl != nil && isResultOf(cv.X, rl, 0)
	}
	name, value := strip(callArg(ah, 0)), strip(callArg(ah, 1))
	// the blanks RFC 3261 allows between a header name and the colon (HCOLON) are not part of the name: they are taken
	// off with TrimRight/Trim of SP and HTAB (repaired as D30: "Via : ..." was stored under the name "Via ")
	nameTrimmed := false
	if tc, _ := callOfResult(name); tc != nil && (w.calleeName(tc) == "strings.TrimRight" || w.calleeName(tc) == "strings.Trim") {
		if cutset, isC := constString(tc.Call.Args[1]); isC && cutset != "" && strings.Trim(cutset, " \t") == "" && strings.Contains(cutset, " ") && strings.Contains(cutset, "\t") {
			nameTrimmed = true
			name = strip(tc.Call.Args[0])
		}
	}
	okName := false
	var colon *ssa.Call
	if sl, ok := name.(*ssa.Slice); ok && isLine(sl.X) && isZeroOrNil(sl.Low) && sl.High != nil {
		if ic := w.resultOfCallTo(sl.High, "strings.IndexByte", 0); ic != nil && isLine(ic.Call.Args[0]) {
			if b, isB := constByte(ic.Call.Args[1]); isB && b == ':' {
				okName = true
				colon = ic
			}
		} else if ic := w.resultOfCallTo(sl.High, "strings.Index", 0); ic != nil && isLine(ic.Call.Args[0]) {
			if b, isB := constByte(ic.Call.Args[1]); isB && b == ':' {
				okName = true
				colon = ic
			}
		}
	}
	// the same split spelled strings.Cut(line, ":"): before, after, found
	var cut *ssa.Call
	if cc, idx := callOfResult(name); cc != nil && idx == 0 && w.calleeName(cc) == "strings.Cut" {
		if isLine(cc.Call.Args[0]) {
			if b, isB := constByte(cc.Call.Args[1]); isB && b == ':' {
				okName = true
				cut = cc
			}
		}
	}
	c.check(okName, rule, "ParseMessage/name", w.ipos(ah), "name = line[0:index of first ':'] (pure substring)", "the header name stored is "+w.termKey(name)+": not the untouched text before the first colon (letter case or content altered)")
	c.check(nameTrimmed, rule, "ParseMessage/name-blanks", w.ipos(ah), "blanks between the name and the colon are not part of the name", "the header name is stored with the blanks that may stand between it and the colon (\"Via : SIP/2.0/UDP ..\" is kept under the name \"Via \"): the header is not recognised as a Via, Route, Content-Length or Call-ID - the proxy's Via goes below it, the response is not routed by it, a TCP stream loses its framing")
	okVal := false
	// the blanks removed around a value are SIP's: SP and HTAB. strings.TrimSpace also removes Unicode white space
	// (U+00A0, U+0085, U+2003, U+3000 ...), which is part of a UTF-8 value
	trimOf := func(v ssa.Value) (ssa.Value, bool, string) {
		if ts := w.resultOfCallTo(v, "strings.Trim", 0); ts != nil {
			if cut, isC := constString(ts.Call.Args[1]); isC && cut != "" && strings.Trim(cut, " \t\r\n") == "" && strings.Contains(cut, " ") && strings.Contains(cut, "\t") {
				return ts.Call.Args[0], true, ""
			}
			return ts.Call.Args[0], false, "strings.Trim with cutset " + w.termKey(ts.Call.Args[1])
		}
		if ts := w.resultOfCallTo(v, "strings.TrimSpace", 0); ts != nil {
			return ts.Call.Args[0], false, "strings.TrimSpace, which also strips Unicode white space (NBSP, NEL, EM SPACE, IDEOGRAPHIC SPACE ...) that belongs to a UTF-8 value"
		}
		return nil, false, "no trimming of SP/HTAB"
	}
	trimmed, trimOK, trimWhy := trimOf(value)
	if trimmed != nil && trimOK {
		if sl, ok := strip(trimmed).(*ssa.Slice); ok && isLine(sl.X) && sl.High == nil && colon != nil && isPlusOne(sl.Low, colon) {
			okVal = true
		}
	}
	if trimmed != nil && trimOK && cut != nil {
		if isResultOf(trimmed, cut, 1) {
			okVal = true
		}
	}
	c.check(okVal, rule, "ParseMessage/value", w.ipos(ah), "value = everything after the first colon with surrounding SP/HTAB removed", "the header value stored is "+w.termKey(value)+": expected everything after the first colon with only surrounding SP and HTAB removed ("+trimWhy+")")
	c.check(strip(callArg(ah, -1)) == strip(w.msgUnderConstruction(f)), rule, "ParseMessage/target", w.ipos(ah), "headers are added to the message being built", "AddHeader is applied to another message")
	// one AddHeader per header line: within one loop iteration on the header branch
	if colon != nil {
		found := func(a Atom) bool { return a.Kind == "ltk" && a.K == 0 && strip(a.X) == ssa.Value(colon) }
		c.check(w.requires(f, ah, found, false), rule, "ParseMessage/colon-required", w.ipos(ah), "a line without colon is rejected", "a header line without ':' is stored instead of being rejected")
	}
	if cut != nil {
		found := func(a Atom) bool {
			e, isE := a.X.(*ssa.Extract)
			return a.Kind == "bool" && isE && e.Tuple == ssa.Value(cut) && e.Index == 2
		}
		c.check(w.requires(f, ah, found, true), rule, "ParseMessage/colon-required", w.ipos(ah), "a line without colon is rejected", "a header line without ':' is stored instead of being rejected")
	}
	mn, mx, _ := countSites(blockStart(ah.Block()), func(b *ssa.BasicBlock, i int) bool { return true }, isInstr(ah))
	_ = mn
	_ = mx
	// request line: method, uri, version = fields 0,1,2
	if pr := c.fn(rule, "parseRequestLine"); pr != nil {
		var fc *ssa.Call
		for _, cs := range w.callsIn(pr, "strings.Fields") {
			fc = cs.In.(*ssa.Call)
		}
		fieldAt := func(v ssa.Value) int {
			if a, ok := isDeref(v); ok {
				if ia, ok := a.(*ssa.IndexAddr); ok && fc != nil && strip(ia.X) == ssa.Value(fc) {
					if k, isK := constInt(ia.Index); isK {
						return int(k)
					}
				}
			}
			return -1
		}
		got := map[string]int{}
		for _, st := range storesIn(pr) {
			if fa, ok := st.Addr.(*ssa.FieldAddr); ok {
				switch fieldRef(fa) {
				case "RequestLine.method":
					got["method"] = fieldAt(st.Val)
				case "RequestLine.version":
					got["version"] = fieldAt(st.Val)
				case "RequestLine.requestURI":
					if pc := w.resultOfCallTo(st.Val, "ParseAddrSpec", 0); pc != nil {
						got["uri"] = fieldAt(pc.Call.Args[0])
					} else {
						got["uri"] = -2
					}
				}
			}
		}
		c.check(got["method"] == 0 && got["uri"] == 1 && got["version"] == 2 && len(got) == 3, rule, "parseRequestLine/fields", w.pos(pr.Pos()), "method, Request-URI, version = fields 0, 1, 2", fmt.Sprintf("request-line fields are taken from positions %v, expected method=0 uri=1 version=2", got))
	}
	if ps := c.fn(rule, "parseStatusLine"); ps != nil {
		var fc *ssa.Call
		for _, cs := range w.callsIn(ps, "strings.Fields") {
			fc = cs.In.(*ssa.Call)
		}
		fieldAt := func(v ssa.Value) int {
			if a, ok := isDeref(v); ok {
				if ia, ok := a.(*ssa.IndexAddr); ok && fc != nil && strip(ia.X) == ssa.Value(fc) {
					if k, isK := constInt(ia.Index); isK {
						return int(k)
					}
				}
			}
			return -1
		}
		got := map[string]int{}
		for _, st := range storesIn(ps) {
			if fa, ok := st.Addr.(*ssa.FieldAddr); ok {
				switch fieldRef(fa) {
				case "StatusLine.version":
					got["version"] = fieldAt(st.Val)
				case "StatusLine.statusCode":
					if ac := w.resultOfCallTo(st.Val, "strconv.Atoi", 0); ac != nil {
						got["code"] = fieldAt(ac.Call.Args[0])
					} else {
						got["code"] = -2
					}
				case "StatusLine.reason":
					got["reason"] = -2
					if jc := w.resultOfCallTo(st.Val, "strings.Join", 0); jc != nil {
						if sl, ok := strip(jc.Call.Args[0]).(*ssa.Slice); ok && fc != nil && strip(sl.X) == ssa.Value(fc) && sl.High == nil {
							if k, isK := constInt(sl.Low); isK {
								sep, _ := constString(jc.Call.Args[1])
								if sep == " " {
									got["reason"] = int(k)
								}
							}
						}
					}
				}
			}
		}
		c.check(got["version"] == 0 && got["code"] == 1 && got["reason"] == 2 && len(got) == 3, rule, "parseStatusLine/fields", w.pos(ps.Pos()), "version, status code, reason = fields 0, 1, 2..", fmt.Sprintf("status-line fields are taken from positions %v, expected version=0 code=1 reason=join(fields[2:],\" \")", got))
	}
	// start line printing literal
	if ef := c.fn(rule, "(*Message).encodeFirstLine"); ef != nil {
		lits := map[string]bool{}
		for _, cs := range w.callsIn(ef, "fmt.Fprintf") {
			format, args, _ := w.fmtArgs(cs.In)
			s, _ := constString(format)
			lits[s] = true
			var refs []string
			for _, a := range args {
				if a == nil {
					continue
				}
				r, _ := loadedField(a)
				refs = append(refs, r)
			}
			switch s {
			case "%s %v %s\r\n", "%s %s %s\r\n":
				c.check(strings.Join(refs, ",") == "RequestLine.method,RequestLine.requestURI,RequestLine.version", rule, "encodeFirstLine/request-operands", w.ipos(cs.In), "request line prints method, URI, version", "request line operands are "+strings.Join(refs, ","))
			case "%s %d %s\r\n":
				c.check(strings.Join(refs, ",") == "StatusLine.version,StatusLine.statusCode,StatusLine.reason", rule, "encodeFirstLine/status-operands", w.ipos(cs.In), "status line prints version, code, reason", "status line operands are "+strings.Join(refs, ","))
			default:
				c.bad(rule, "encodeFirstLine/literal", w.ipos(cs.In), fmt.Sprintf("start line printed with literal %q", s))
			}
		}
		c.check(len(lits) == 2, rule, "encodeFirstLine/two-forms", w.pos(ef.Pos()), "request and status line forms exist", "encodeFirstLine does not have exactly the request-line and status-line forms")
	}
	c.floor(rule, 8)
}

// msgUnderConstruction returns the *Message value the parser fills (result of NewMessage()).
func (w *World) msgUnderConstruction(f *ssa.Function) ssa.Value {
	for _, cs := range w.callsIn(f, "NewMessage") {
		return cs.In.(*ssa.Call)
	}
	for _, b := range f.Blocks {
		for _, in := range b.Instrs {
			if al, ok := in.(*ssa.Alloc); ok {
				if nt, ok := al.Type().Underlying().(*types.Pointer).Elem().(*types.Named); ok && nt.Obj().Name() == "Message" {
					return al
				}
			}
		}
	}
	return nil
}

// chainEscapes returns an instruction that uses an intermediate value of an append chain for anything
// other than the next append or the final store.
func chainEscapes(v ssa.Value) ssa.Instruction {
	v = strip(v)
	call, ok := v.(*ssa.Call)
	if !ok {
		return nil
	}
	b, ok := call.Call.Value.(*ssa.Builtin)
	if !ok || b.Name() != "append" {
		return nil
	}
	for _, r := range *call.Referrers() {
		switch x := r.(type) {
		case *ssa.DebugRef:
		case *ssa.Store:
			if x.Val != ssa.Value(call) {
				return r
			}
			if _, isField := x.Addr.(*ssa.FieldAddr); !isField {
				// stored into a local cell: follow loads of that cell conservatively -> treat as escape if the cell is captured
				if al, isAl := x.Addr.(*ssa.Alloc); isAl {
					for _, rr := range *al.Referrers() {
						if _, isMC := rr.(*ssa.MakeClosure); isMC {
							return rr
						}
					}
				}
			}
		case *ssa.Call:
			if bb, ok := x.Call.Value.(*ssa.Builtin); ok && (bb.Name() == "append" || bb.Name() == "len" || bb.Name() == "cap") {
				continue
			}
			return r
		case *ssa.Phi:
		default:
			return r
		}
	}
	return chainEscapes(call.Call.Args[0])
}

// ctorPublishes: the constructor hands the object it returns to another goroutine (go statement or a closure
// that captures it), so the result is not private to the caller any more.
func (w *World) ctorPublishes(fn *ssa.Function) bool {
	pub := false
	eachInstr(fn, func(in ssa.Instruction) {
		switch in.(type) {
		case *ssa.Go:
			pub = true
		}
	})
	return pub
}
