package main

import (
	"fmt"
	"strings"

	"golang.org/x/tools/go/ssa"
)

func init() {
	register(&propDef{ID: "C02", Run: runC02,
		Explain:    "Structural necessary conditions of 'responses follow the Via chain', decided on the SSA/CFG of /repo: (1) in the response branch of HandleMessage exactly one PopVia on every path and before the hop lookup; (2) the only dispatch of that branch is guarded by the hop lookup's err==nil and takes host/port/transport from results 0,1,2 of that same call; (3) no dispatch is reachable on the failure edge; (4) inside the hop function the Via entry is GetParam(0) of GetVia(), their errors are returned, host = received on its success edge else sent-by host, port = rport on (received ok and rport numeric) else GetPort(), transport = the entry's transport; (5) PopVia removes one via-param when Size>=2 and the whole header otherwise, PopViaParam is delete-first; (6) ViaParam.GetPort returns the stored port when non-zero, else 5061 only under TLS, else 5060; (7) unsupported transports end in an error and sendMessage sends only on err==nil. This decides the shape of the code, not the behaviour on concrete messages. Hop transport: findClientTransport lends the UDP listener's socket (udp-socket-only-for-udp) only under the test that the requested transport is udp; ordered-lists (shared with C14): decoded Via entries own their parameter lists; layout: ParseVia trims every element.",
		NotDecided: "history-level consequence (a response returns to the hop its request came from); name resolution; value-level Via decoding/encoding (C14)."})
}

// requestAtom selects the IsRequest()/IsResponse() tests on msg; keyMeansRequest tells the polarity.
func (w *World) requestAtom(a Atom) (isReqTest bool, keyMeansRequest bool) {
	if a.Kind == "bool" {
		if c, _ := callOfResult(a.X); c != nil {
			switch w.calleeName(c) {
			case "(*Message).IsRequest":
				return true, true
			case "(*Message).IsResponse":
				return true, false
			}
		}
	}
	if a.Kind == "nil" {
		if ref, _ := loadedField(a.X); ref == "Message.request" {
			return true, false // key "request == nil" true means not a request
		} else if ref == "Message.response" {
			return true, true
		}
	}
	return false, false
}

// assumeRequest restricts the CFG to the request (true) or response (false) side.
func (w *World) assumeRequest(isRequest bool) assumption {
	return func(a Atom, _ *ssa.If) (bool, bool) {
		if ok, keyReq := w.requestAtom(a); ok {
			return true, keyReq == isRequest
		}
		return false, false
	}
}

const hopRespFn = "(*Proxy).getNextReponseHop"

func runC02(c *Ctx) {
	w := c.w
	// the Via list a response pops is an object of that response alone (shared with C14); the topmost Via is found through
	// the header-name comparator whatever its spelling (shared with C17)
	c14DecoderPurityFrom(c, "ParseVia")
	ruleComparatorDiscipline(c, "comparator-discipline")
	hm := c.fn("pop-once", "(*Proxy).HandleMessage")
	if hm != nil {
		resp := w.under(w.assumeRequest(false))
		// the request/response split must exist
		split := false
		for _, a := range w.atomsOf(hm) {
			if ok, _ := w.requestAtom(a); ok {
				split = true
			}
		}
		if !split {
			c.undecided("pop-once", "HandleMessage/request-split", w.pos(hm.Pos()), "no IsRequest/IsResponse test found in HandleMessage: the response branch cannot be identified")
		}
		hops := w.callsIn(hm, hopRespFn)
		var hop ssa.CallInstruction
		for _, h := range hops {
			if canReach(entryPt(hm), resp, isInstr(h.In), nil) {
				if hop != nil {
					c.undecided("pop-once", "HandleMessage/hop-lookup#2", w.ipos(h.In), "more than one response hop lookup in the response branch")
				}
				hop = h.In
			}
		}
		if hop == nil {
			c.bad("send-guard", "HandleMessage/hop-lookup", w.pos(hm.Pos()), "the response branch of HandleMessage does not call "+hopRespFn+": responses are not routed by their Via")
		} else {
			pops := siteInstrs(w.callsIn(hm, "(*Message).PopVia"))
			// (1) exactly one PopVia before the hop lookup on every response path
			pre := mustPrecede(hm, pops, hop, resp)
			c.check(pre, "pop-once", "HandleMessage/PopVia-before-hop", w.ipos(hop),
				"every response path reaches the hop lookup after a PopVia",
				"a response path reaches the hop lookup without popping the top Via (the proxy's own entry would be taken as next hop)")
			_, mx, inf := countSites(entryPt(hm), resp, inSet(pops))
			c.check(mx <= 1 && !inf, "pop-once", "HandleMessage/PopVia-at-most-once", w.ipos(hop),
				"no response path pops more than one Via entry",
				fmt.Sprintf("a response path executes PopVia %d times (loop=%v): more than the proxy's own entry is discarded", mx, inf))
			// no pop on the request side
			for _, p := range pops {
				c.check(!canReach(entryPt(hm), w.under(w.assumeRequest(true)), isInstr(p), nil), "pop-once", "HandleMessage/PopVia-not-on-requests", w.ipos(p),
					"PopVia is not reachable for requests", "PopVia is reachable on the request path")
			}
			// (2) dispatch sites of the response branch
			disp := w.dispatchSites(hm)
			nresp := 0
			for _, d := range disp {
				if !canReach(entryPt(hm), resp, isInstr(d.In), nil) {
					continue
				}
				nresp++
				key := fmt.Sprintf("HandleMessage/response-dispatch#%d[%s]", nresp, d.Name)
				if d.Name != "(*Proxy).sendMessage" {
					c.bad("send-guard", key, w.ipos(d.In), "the response branch dispatches through "+d.Name+" instead of sendMessage(host,port,transport) of the hop lookup")
					continue
				}
				g := w.requires(hm, d.In, errNil(hop), true)
				c.check(g, "send-guard", key+"/guard", w.ipos(d.In),
					"dispatch is reachable only on the err==nil edge of the hop lookup",
					"the response dispatch is reachable although the hop lookup failed (no remaining/decodable Via): it must be dropped",
					"guard: errOf("+hopRespFn+") == nil")
				okArgs := true
				for i := 0; i < 3; i++ {
					if !isResultOf(callArg(d.In, i), hop, i) {
						okArgs = false
					}
				}
				c.check(okArgs && isParam(hm, callArg(d.In, 3), 1), "send-guard", key+"/args", w.ipos(d.In),
					"host, port, transport are results 0,1,2 of the same hop lookup and the message is the handled one",
					"sendMessage arguments are not (host, port, transport) = results 0,1,2 of the hop lookup in this order, or the message is not the handled one")
			}
			c.check(nresp >= 1, "send-guard", "HandleMessage/response-dispatch-exists", w.ipos(hop),
				"the response branch has a dispatch", "the response branch never dispatches: every response is dropped")
			// (3) drop on failure
			fail := w.under(w.assumeRequest(false), assumeAtom(errNil(hop), false))
			wit := reachWitness(at(hop), fail, inSet(siteInstrs(disp)), nil)
			c.check(wit == nil, "drop", "HandleMessage/no-dispatch-on-hop-error", w.ipos(hop),
				"no dispatch is reachable on the failure edge of the hop lookup",
				"a dispatch is reachable on the failure edge of the hop lookup at "+w.ipos(wit))
			// a dispatch must be reachable on the success edge (else everything is dropped)
			succ := w.under(w.assumeRequest(false), assumeAtom(errNil(hop), true))
			mn, _, _ := countSites(at(hop), succ, inSet(siteInstrs(disp)))
			c.check(mn >= 1, "send-guard", "HandleMessage/dispatch-on-every-success-path", w.ipos(hop),
				"every path after a successful hop lookup dispatches the response",
				"some path after a successful hop lookup returns without dispatching the response")
		}
	}
	c.floor("pop-once", 3)
	c.floor("send-guard", 3)

	// (4) hop provenance
	if hf := c.fn("hop-provenance", hopRespFn); hf != nil {
		c02HopProvenance(c, hf)
	}
	// (5) pop structure
	c02PopStructure(c)
	// (6) default port
	if gp := c.fn("default-port", "(*ViaParam).GetPort"); gp != nil {
		c02DefaultPort(c, gp)
	}
	// (7) unsupported transport
	c02Unsupported(c)
	c02HopTransport(c, "unsupported-transport")
	// "all remaining Via entries intact": the stamp appends a parameter to the top entry's list, so every decoded entry
	// owns the storage of its list - built by one-element appends to its own field, or a fresh fill (shared with C14)
	c14OrderedLists(c)
	// (8) the stamp the hop is read from, and the header lookup behind "top Via" (shared with C07 / C17)
	c07StampContent(c)
	ruleHeaderFind(c, "pop-structure")
	c17Layout(c)
	c01ValueEffects(c)
	// the host table the destination is resolved through (shared with C13)
	c13AliasTable(c)
	ruleNumberParsing(c, "default-port", 2, "parseViaParam", "(*ViaParam).GetRPort")
	c02RPortAnswer(c)
	ruleDatagramBuffer(c, "drop")
}

// c02RPortAnswer: GetRPort answers "no error" only with the number it parsed. The hop function falls back to the sent-by
// port exactly when GetRPort fails, so a success that carries a constant (a bare ";rport" answered with 0, nil) sends
// the response to port 0 (seeded change C02-r11m1).
func c02RPortAnswer(c *Ctx) {
	w := c.w
	rule := "default-port"
	f := c.fn(rule, "(*ViaParam).GetRPort")
	if f == nil {
		return
	}
	n := 0
	eachInstr(f, func(in ssa.Instruction) {
		ret, ok := in.(*ssa.Return)
		if !ok || len(ret.Results) != 2 {
			return
		}
		n++
		for _, e := range phiLeaves(ret.Results[1]) {
			if !isNilConst(e) {
				continue
			}
			for _, v := range phiLeaves(ret.Results[0]) {
				if _, isConst := strip(v).(*ssa.Const); isConst {
					c.bad(rule, fmt.Sprintf("GetRPort/success-is-parsed#%d", n), w.ipos(ret), "GetRPort can answer a constant port together with a nil error: getNextReponseHop uses the sent-by port only when GetRPort fails, so a Via with received= and a valueless rport is answered to that constant port")
					return
				}
			}
		}
		c.ok(rule, fmt.Sprintf("GetRPort/success-is-parsed#%d", n), w.ipos(ret), "no constant port is returned with a nil error")
	})
	if n == 0 {
		c.undecided(rule, "GetRPort/success-is-parsed", "-", "no two-result return found in GetRPort")
	}
}

func c02HopProvenance(c *Ctx, hf *ssa.Function) {
	w := c.w
	rule := "hop-provenance"
	ruleKVFind(c, rule, "(*ViaParam).GetParam")
	ruleLoopCaptureReaching(c, rule, "received/rport of one request would carry the source of another sender's datagram, and its response goes there", "NewRawMessage")
	gvs := w.callsIn(hf, "(*Message).GetVia")
	if len(gvs) != 1 {
		c.bad(rule, "hop/GetVia", w.pos(hf.Pos()), fmt.Sprintf("expected exactly one GetVia() in the hop function, found %d", len(gvs)))
		return
	}
	gv := gvs[0].In
	c.check(isParam(hf, callArg(gv, -1), 1), rule, "hop/GetVia-of-msg", w.ipos(gv), "GetVia is applied to the handled message", "GetVia is not applied to the message parameter")
	if ok, why := w.errPropagated(hf, gv); !ok {
		c.bad(rule, "hop/GetVia-error", w.ipos(gv), "an absent/undecodable Via must yield no hop: "+why)
	} else {
		c.ok(rule, "hop/GetVia-error", w.ipos(gv), "GetVia failure is returned as the hop function's error")
	}
	var gp ssa.CallInstruction
	for _, cs := range w.callsIn(hf, "(*Via).GetParam") {
		if isResultOf(callArg(cs.In, -1), gv, 0) {
			if gp != nil {
				c.undecided(rule, "hop/GetParam#2", w.ipos(cs.In), "more than one Via entry lookup in the hop function")
			}
			gp = cs.In
		}
	}
	if gp == nil {
		c.bad(rule, "hop/GetParam", w.pos(hf.Pos()), "the hop function does not take an entry of the Via returned by GetVia()")
		return
	}
	k, isK := constInt(callArg(gp, 0))
	c.check(isK && k == 0, rule, "hop/GetParam-index", w.ipos(gp), "the next hop is entry 0 of the top Via (after the pop)", "the next hop is not taken from Via entry 0", "index="+w.termKey(callArg(gp, 0)))
	if ok, why := w.errPropagated(hf, gp); !ok {
		c.bad(rule, "hop/GetParam-error", w.ipos(gp), "no remaining Via entry must yield no hop: "+why)
	} else {
		c.ok(rule, "hop/GetParam-error", w.ipos(gp), "GetParam failure is returned as the hop function's error")
	}
	entry := func(v ssa.Value) bool { return isResultOf(v, gp, 0) }
	var recv, rport ssa.CallInstruction
	for _, cs := range w.callsIn(hf, "(*ViaParam).GetReceived") {
		if entry(callArg(cs.In, -1)) {
			recv = cs.In
		}
	}
	for _, cs := range w.callsIn(hf, "(*ViaParam).GetRPort") {
		if entry(callArg(cs.In, -1)) {
			rport = cs.In
		}
	}
	if recv == nil || rport == nil {
		c.bad(rule, "hop/received-rport-lookups", w.pos(hf.Pos()), "the hop function does not consult GetReceived()/GetRPort() of the selected Via entry")
		return
	}
	okBoth := []assumption{assumeAtom(errNil(gv), true), assumeAtom(errNil(gp), true)}
	type cas struct {
		name       string
		as         []assumption
		host, port func(ssa.Value) bool
		hd, pd     string
	}
	isHostField := func(v ssa.Value) bool { b, ok := isLoadOf(v, "ViaParam.Host"); return ok && entry(b) }
	isGetPort := func(v ssa.Value) bool {
		cc := w.resultOfCallTo(v, "(*ViaParam).GetPort", 0)
		return cc != nil && entry(callArg(cc, -1))
	}
	cases := []cas{
		{"received+rport", []assumption{assumeAtom(errNil(recv), true), assumeAtom(errNil(rport), true)},
			func(v ssa.Value) bool { return isResultOf(v, recv, 0) }, func(v ssa.Value) bool { return isResultOf(v, rport, 0) },
			"received value", "numeric rport"},
		{"received-only", []assumption{assumeAtom(errNil(recv), true), assumeAtom(errNil(rport), false)},
			func(v ssa.Value) bool { return isResultOf(v, recv, 0) }, isGetPort, "received value", "sent-by port (GetPort)"},
		{"sent-by", []assumption{assumeAtom(errNil(recv), false)}, isHostField, isGetPort, "sent-by host", "sent-by port (GetPort)"},
	}
	for _, cs := range cases {
		keep := w.under(append(append([]assumption{}, okBoth...), cs.as...)...)
		rets := returnsUnder(hf, keep)
		if len(rets) == 0 {
			c.bad(rule, "hop/"+cs.name, w.pos(hf.Pos()), "no return reachable for case "+cs.name)
			continue
		}
		for _, r := range rets {
			if len(r.Results) != 4 {
				c.undecided(rule, "hop/"+cs.name+"/shape", w.ipos(r), "hop function does not return (host, port, transport, err)")
				continue
			}
			hv := valuesUnder(hf, r.Results[0], keep)
			pv := valuesUnder(hf, r.Results[1], keep)
			tv := valuesUnder(hf, r.Results[2], keep)
			ev := valuesUnder(hf, r.Results[3], keep)
			all := func(vs []ssa.Value, f func(ssa.Value) bool) bool {
				if len(vs) == 0 {
					return false
				}
				for _, v := range vs {
					if !f(v) {
						return false
					}
				}
				return true
			}
			c.check(all(hv, cs.host), rule, "hop/"+cs.name+"/host", w.ipos(r), "host = "+cs.hd, "host is "+describe(w, hv)+", expected "+cs.hd, "case "+cs.name)
			c.check(all(pv, cs.port), rule, "hop/"+cs.name+"/port", w.ipos(r), "port = "+cs.pd, "port is "+describe(w, pv)+", expected "+cs.pd, "case "+cs.name)
			c.check(all(tv, func(v ssa.Value) bool { b, ok := isLoadOf(v, "ViaParam.Transport"); return ok && entry(b) }), rule, "hop/"+cs.name+"/transport", w.ipos(r),
				"transport = the entry's transport", "transport is "+describe(w, tv)+", expected the Via entry's Transport")
			c.check(all(ev, isNilConst), rule, "hop/"+cs.name+"/err", w.ipos(r), "a decodable entry yields a hop (err = nil)", "err is "+describe(w, ev)+" although the entry was found")
		}
	}
	c.floor(rule, 12)
}

// popSpec describes one "pop the first entry of a list header" function.
type popSpec struct {
	Fn, Getter, CountFn, ListRef, PopFn, Header, Label string
}

var viaPop = popSpec{"(*Message).PopVia", "(*Message).GetVia", "(*Via).Size", "Via.params", "(*Via).PopViaParam", "Via", "PopVia"}
var routePop = popSpec{"(*Message).PopRoute", "(*Message).GetRoute", "(*Route).GetRouteParamCount", "Route.routeParams", "(*Route).PopRouteParam", "Route", "PopRoute"}

// isListCount recognises CountFn()/len(list) of a given decoded header value.
func (w *World) isListCount(v ssa.Value, sp popSpec, hdr func(ssa.Value) bool) bool {
	if cc := w.resultOfCallTo(v, sp.CountFn, 0); cc != nil {
		return hdr(callArg(cc, -1))
	}
	if x, ok := lenOf(v); ok {
		if b, ok := isLoadOf(x, sp.ListRef); ok {
			return hdr(b)
		}
	}
	return false
}

func c02PopStructure(c *Ctx) { checkPopOne(c, "pop-structure", viaPop) }

// checkPopOne: the pop removes one list entry when the top header line holds >= 2 entries and the whole
// header line otherwise; exactly one removal per call; the entry pop is delete-first.
func checkPopOne(c *Ctx, rule string, sp popSpec) {
	w := c.w
	// the getter looks the header list up on every call: no cached "has such a header" state can hide later lines
	if g := c.fn(rule, sp.Getter); g != nil {
		var gh ssa.CallInstruction
		for _, cs := range w.callsIn(g, "(*Message).GetHeader") {
			if s, ok := constString(callArg(cs.In, 0)); ok && s == sp.Header && isParam(g, callArg(cs.In, -1), 0) {
				gh = cs.In
			}
		}
		good := false
		if gh != nil {
			isRet := func(in ssa.Instruction) bool { _, ok := in.(*ssa.Return); return ok }
			good = !canReach(entryPt(g), nil, isRet, isInstr(gh))
		}
		c.check(good, rule, sp.Label+"/getter-reads-list", w.pos(g.Pos()), sp.Getter+" consults the header list on every call", sp.Getter+" can answer without looking "+sp.Header+" up in the header list (a cached flag or early return): after the first "+sp.Header+" line has been removed the remaining lines are not seen, so the request is no longer routed by them and they are relayed untouched")
	}
	// the object the getter hands out is the one the header keeps: a pop (or a stamp) on it changes the message
	if g := c.fn(rule, sp.Getter); g != nil {
		good, n := true, 0
		for _, r := range returnsUnder(g, nil) {
			if len(r.Results) != 2 {
				continue
			}
			ev := r.Results[1]
			if w.isFreshError(ev) || w.requires(g, r, func(a Atom) bool { return a.Kind == "nil" && strip(a.X) == strip(ev) }, false) {
				continue // an error return
			}
			for _, v := range phiLeaves(r.Results[0]) {
				n++
				v = strip(v)
				if e, ok := v.(*ssa.Extract); ok && e.Index == 0 {
					if ta, ok := e.Tuple.(*ssa.TypeAssert); ok {
						if _, isHV := isLoadOf(ta.X, "Header.value"); isHV {
							continue
						}
					}
				}
				if ta, ok := v.(*ssa.TypeAssert); ok && !ta.CommaOk {
					if _, isHV := isLoadOf(ta.X, "Header.value"); isHV {
						continue
					}
				}
				kept := false
				for _, st := range w.fieldStores(g, "Header.value") {
					sv := st.Val
					if mi, ok := sv.(*ssa.MakeInterface); ok {
						sv = mi.X
					}
					// stored into the header of the message (the object GetHeader found), not into a copy of it
					base := strip(st.Addr.(*ssa.FieldAddr).X)
					if w.resultOfCallTo(base, "(*Message).GetHeader", 0) == nil {
						continue
					}
					if strip(sv) == v && mustPrecede(g, []ssa.Instruction{st}, r, nil) {
						kept = true
					}
				}
				if !kept {
					good = false
				}
			}
		}
		c.check(good && n >= 2, rule, sp.Label+"/getter-keeps-object", w.pos(g.Pos()), sp.Getter+" returns the object kept in the header (decoded once, stored back)", sp.Getter+" can return a decoded object that the header does not keep (the decoded value is not stored back into the header): an entry removed from it, or a parameter stamped on it, never reaches the message that is relayed - the own "+sp.Header+" entry is not consumed")
	}
	pv := c.fn(rule, sp.Fn)
	if pv != nil {
		gvs := w.callsIn(pv, sp.Getter)
		if len(gvs) != 1 {
			c.undecided(rule, sp.Label+"/getter", w.pos(pv.Pos()), sp.Label+" does not obtain the top header through exactly one "+sp.Getter)
		} else {
			gv := gvs[0].In
			hdr := func(v ssa.Value) bool { return isResultOf(v, gv, 0) }
			cnt := func(a Atom) bool { return a.Kind == "ltk" && a.K == 2 && w.isListCount(a.X, sp, hdr) }
			pps := w.callsIn(pv, sp.PopFn)
			rhs := w.callsIn(pv, "(*Message).RemoveHeader")
			c.check(len(pps) == 1 && hdr(callArg(pps[0].In, -1)) && w.requires(pv, pps[0].In, cnt, false), rule, sp.Label+"/pop-entry", w.pos(pv.Pos()),
				"one entry is removed only when the top "+sp.Header+" header holds >= 2 entries",
				sp.Label+" must call "+sp.PopFn+" on the top header exactly when it holds >= 2 entries (guard count > 1 missing, changed, or call absent): otherwise an empty header line is left behind, or a whole line with several entries is dropped", "guard: !(count < 2)")
			okRH := len(rhs) == 1 && w.requires(pv, rhs[0].In, cnt, true)
			if okRH {
				s, isS := constString(callArg(rhs[0].In, 0))
				okRH = isS && s == sp.Header
			}
			c.check(okRH, rule, sp.Label+"/remove-header", w.pos(pv.Pos()),
				"the whole header line is removed only when it holds a single entry",
				sp.Label+" must call RemoveHeader(\""+sp.Header+"\") exactly when the top header holds < 2 entries", "guard: count < 2")
			keep := w.under(assumeAtom(errNil(gv), true))
			mn, mx, inf := countSites(entryPt(pv), keep, inSet(append(siteInstrs(pps), siteInstrs(rhs)...)))
			c.check(mn == 1 && mx == 1 && !inf, rule, sp.Label+"/exactly-one-removal", w.pos(pv.Pos()),
				"with a decodable header exactly one removal happens on every path", fmt.Sprintf("removal count per %s is min=%d max=%d loop=%v, expected exactly 1", sp.Label, mn, mx, inf))
			c.check(isParam(pv, callArg(gv, -1), 0), rule, sp.Label+"/own-message", w.ipos(gv), "operates on its own message", sp.Label+" reads the header of another message")
		}
	}
	if pp := c.fn(rule, sp.PopFn); pp != nil {
		w.checkDeleteFirst(c, rule, pp, sp.ListRef, sp.PopFn)
	}
	c.floor(rule, 6)
}

// checkDeleteFirst verifies that fn's only store to list field ref is ref = ref[1:], that the element
// returned on that path is ref[0], and that the store is guarded by len(ref) >= 1.
func (w *World) checkDeleteFirst(c *Ctx, rule string, fn *ssa.Function, ref, label string) {
	sts := w.fieldStores(fn, ref)
	if len(sts) != 1 {
		c.bad(rule, label+"/delete-first", w.pos(fn.Pos()), fmt.Sprintf("%s must shrink %s by exactly one store, found %d", label, ref, len(sts)))
		return
	}
	st := sts[0]
	sl, ok := strip(st.Val).(*ssa.Slice)
	good := ok
	if ok {
		_, isL := isLoadOf(sl.X, ref)
		lo, isK := constInt(sl.Low)
		good = isL && sl.Low != nil && isK && lo == 1 && sl.High == nil
	}
	c.check(good, rule, label+"/delete-first", w.ipos(st), ref+" = "+ref+"[1:] (delete-first)", "the stored list is "+w.termKey(st.Val)+", expected "+ref+"[1:]")
	// returned element is [0]
	okRet := false
	for _, r := range returnsUnder(fn, nil) {
		if !canReach(at(st), nil, isInstr(r), nil) && r.Block() != st.Block() {
			continue
		}
		for _, v := range phiLeaves(r.Results[0]) {
			if a, ok := isDeref(v); ok {
				if ia, ok := a.(*ssa.IndexAddr); ok {
					k, isK := constInt(ia.Index)
					_, isL := isLoadOf(ia.X, ref)
					if isK && k == 0 && isL {
						okRet = true
					}
				}
			}
		}
	}
	c.check(okRet, rule, label+"/returns-first", w.ipos(st), "the removed (first) element is returned", "the element returned is not "+ref+"[0]")
}

func c02DefaultPort(c *Ctx, gp *ssa.Function) {
	w := c.w
	rule := "default-port"
	portNZ := func(a Atom) bool {
		if a.Kind != "eqk" || a.K != 0 {
			return false
		}
		_, ok := isLoadOf(a.X, "ViaParam.port")
		return ok
	}
	tls := func(a Atom) bool {
		if a.Kind != "eqstr" || a.Str != "TLS" {
			return false
		}
		_, ok := isLoadOf(a.X, "ViaParam.Transport")
		return ok
	}
	n := 0
	seen5060, seenPort := false, false
	for _, r := range returnsUnder(gp, nil) {
		for _, v := range phiLeaves(r.Results[0]) {
			n++
			key := fmt.Sprintf("ViaParam.GetPort/return#%d", n)
			if _, ok := isLoadOf(v, "ViaParam.port"); ok {
				seenPort = true
				c.check(w.requires(gp, r, portNZ, false), rule, key, w.ipos(r), "the stored port is returned only when non-zero", "the stored port is returned although it may be 0 (absent)")
				continue
			}
			if k, ok := constInt(v); ok {
				switch k {
				case 5060:
					seen5060 = true
					c.check(w.requires(gp, r, portNZ, true), rule, key, w.ipos(r), "5060 is the default when no port is present", "5060 is returned although a port is present")
				case 5061:
					c.check(w.requires(gp, r, portNZ, true) && w.requires(gp, r, tls, true), rule, key, w.ipos(r), "5061 only for TLS without explicit port", "5061 is returned outside (no port, transport TLS)")
				default:
					c.bad(rule, key, w.ipos(r), fmt.Sprintf("default port %d is neither 5060 nor 5061", k))
				}
				continue
			}
			c.bad(rule, key, w.ipos(r), "GetPort returns "+w.termKey(v)+", expected the stored port or the constants 5060/5061")
		}
	}
	c.check(seen5060 && seenPort, rule, "ViaParam.GetPort/cases", w.pos(gp.Pos()), "both the explicit-port and the 5060 default case exist", "GetPort lacks the explicit-port case or the 5060 default")
	c.floor(rule, 3)
}

// c02HopTransport: the message leaves over the transport the hop names. The one place that can put a UDP path under a
// transport object obtained for another protocol is findClientTransport, which lends the UDP listener's socket to a
// transport that has no primary yet: that is guarded by "the requested transport is udp" (any spelling). Repaired as
// D26: a Via entry or Route that says TCP, for a host learnt through a UDP listener, was sent as a datagram.
func c02HopTransport(c *Ctx, rule string) {
	w := c.w
	f := c.fn(rule, "(*Proxy).findClientTransport")
	if f == nil {
		return
	}
	isUDP := func(a Atom) bool {
		// strings.EqualFold(transport, "udp") or ToLower/ToUpper(transport) == "udp"/"UDP"
		if a.Kind == "bool" {
			cc, _ := callOfResult(a.X)
			if cc == nil || w.calleeName(cc) != "strings.EqualFold" || len(cc.Call.Args) != 2 {
				return false
			}
			for i := 0; i < 2; i++ {
				if s, ok := constString(cc.Call.Args[i]); ok && strings.EqualFold(s, "udp") && isParam(f, cc.Call.Args[1-i], 3) {
					return true
				}
			}
			return false
		}
		if a.Kind == "eqstr" && strings.EqualFold(a.Str, "udp") {
			cc, _ := callOfResult(a.X)
			if cc != nil && (w.calleeName(cc) == "strings.ToLower" || w.calleeName(cc) == "strings.ToUpper") && isParam(f, cc.Call.Args[0], 3) {
				want := strings.ToLower(a.Str)
				if w.calleeName(cc) == "strings.ToUpper" {
					want = strings.ToUpper(a.Str)
				}
				return a.Str == want
			}
		}
		return false
	}
	n := 0
	for _, st := range w.fieldStores(f, "FailOverClientTransport.primary") {
		for _, v := range phiLeaves(st.Val) {
			cc, _ := callOfResult(v)
			if cc == nil || !strings.Contains(w.calleeName(cc), "NewUDPClientTransport") {
				continue
			}
			n++
			c.check(w.requires(f, st, isUDP, true), rule, fmt.Sprintf("findClientTransport/udp-socket-only-for-udp#%d", n), w.ipos(st), "the listener's UDP socket is lent only to a transport asked for as udp", "findClientTransport gives a transport object a UDP primary (the UDP listener's socket) without having tested that the requested transport is udp: a hop whose Via entry or Route says TCP, and whose host was learnt through a UDP listener, is sent a datagram instead of a TCP connection")
		}
	}
	c.check(n >= 1, rule, "findClientTransport/udp-socket-site", w.pos(f.Pos()), "the lending site was found", "findClientTransport no longer lends the UDP listener's socket: the site the rule is anchored on was not found")
}

func c02Unsupported(c *Ctx) {
	w := c.w
	rule := "unsupported-transport"
	if gt := c.fn(rule, "(*ClientTransportMgr).GetTransport"); gt != nil {
		// a comma-ok lookup in SupportedProtocol whose !ok edge returns an error before any transport is created
		found := false
		eachInstr(gt, func(in ssa.Instruction) {
			lk, ok := in.(*ssa.Lookup)
			if !ok || !lk.CommaOk {
				return
			}
			if g, ok := isDeref(lk.X); !ok || w.termKey(g) != "global:SupportedProtocol" {
				return
			}
			found = true
			okSel := func(a Atom) bool {
				e, isE := a.X.(*ssa.Extract)
				return a.Kind == "bool" && isE && e.Tuple == lk && e.Index == 1
			}
			keep := w.under(assumeAtom(okSel, false))
			good := true
			nret := 0
			for _, r := range returnsUnder(gt, keep) {
				if !canReach(at(lk), keep, isInstr(r), nil) {
					continue
				}
				nret++
				for _, v := range valuesUnder(gt, r.Results[1], keep) {
					if !w.isFreshError(v) {
						good = false
					}
				}
			}
			// key is the lower-cased protocol parameter
			lc := w.resultOfCallTo(lk.Index, "strings.ToLower", 0)
			c.check(good && nret > 0, rule, "GetTransport/unsupported-is-error", w.ipos(lk), "a protocol outside SupportedProtocol yields an error", "a protocol missing from SupportedProtocol does not end in an error return")
			c.check(lc != nil && isParam(gt, lc.Call.Args[0], 1), rule, "GetTransport/lookup-key", w.ipos(lk), "the table is consulted with the lower-cased protocol argument", "SupportedProtocol is not consulted with strings.ToLower(protocol)")
			// creation happens only on ok
			for _, cs := range w.callsIn(gt, "(*ClientTransportMgr).createClientTransport") {
				c.check(w.requires(gt, cs.In, okSel, true), rule, "GetTransport/create-only-supported", w.ipos(cs.In), "transports are created only for supported protocols", "a transport can be created for an unsupported protocol")
			}
		})
		if !found {
			c.bad(rule, "GetTransport/table-lookup", w.pos(gt.Pos()), "GetTransport no longer consults SupportedProtocol with a comma-ok lookup")
		}
	}
	if sm := c.fn(rule, "(*Proxy).sendMessage"); sm != nil {
		fcs := w.callsIn(sm, "(*Proxy).findClientTransport")
		if len(fcs) != 1 {
			c.undecided(rule, "sendMessage/findClientTransport", w.pos(sm.Pos()), "sendMessage does not obtain its transport through exactly one findClientTransport call")
		} else {
			for i, d := range w.dispatchSites(sm) {
				key := fmt.Sprintf("sendMessage/send#%d", i+1)
				c.check(w.requires(sm, d.In, errNil(fcs[0].In), true), rule, key+"/guard", w.ipos(d.In), "Send only when a transport was found", "Send is reachable although no transport was found (unsupported protocol)")
				c.check(isResultOf(callArg(d.In, -1), fcs[0].In, 0), rule, key+"/receiver", w.ipos(d.In), "Send is invoked on the looked-up transport", "Send is not invoked on the transport returned by findClientTransport")
			}
		}
	}
	// the destination host is resolved through the configured host table before the transport is picked
	if sm := w.Fn("(*Proxy).sendMessage"); sm != nil {
		r2 := "resolve-host"
		fcs := w.callsIn(sm, "(*Proxy).findClientTransport")
		var gi ssa.CallInstruction
		for _, cs := range w.callsIn(sm, "(*PreConfigHostResolver).GetIp") {
			if isParam(sm, callArg(cs.In, 0), 1) {
				gi = cs.In
			}
		}
		if gi == nil || len(fcs) != 1 {
			c.bad(r2, "sendMessage/GetIp", w.pos(sm.Pos()), "sendMessage does not resolve its host argument through the configured host table (resolver.GetIp(host)) before picking the transport")
		} else {
			fc := fcs[0].In
			b, okR := isLoadOf(callArg(gi, -1), "Proxy.resolver")
			c.check(okR && isParam(sm, b, 0), r2, "sendMessage/resolver", w.ipos(gi), "resolution uses the proxy's configured table", "GetIp is not called on p.resolver")
			hit := valuesUnder(sm, callArg(fc, 0), w.under(assumeAtom(errNil(gi), true)))
			miss := valuesUnder(sm, callArg(fc, 0), w.under(assumeAtom(errNil(gi), false)))
			c.check(allVals(hit, func(v ssa.Value) bool { return isResultOf(v, gi, 0) }), r2, "sendMessage/resolved-host-used", w.ipos(fc),
				"the transport is picked for the resolved address", "a resolvable host is not replaced by its configured address when the transport is picked: host is "+describe(w, hit), "case: GetIp succeeded")
			c.check(allVals(miss, func(v ssa.Value) bool { return isParam(sm, v, 1) }), r2, "sendMessage/unresolved-host-kept", w.ipos(fc),
				"an unresolvable host is used as given", "when resolution fails the host used is "+describe(w, miss)+", expected the host argument", "case: GetIp failed")
			c.check(isParam(sm, callArg(fc, 1), 2) && isParam(sm, callArg(fc, 2), 3), r2, "sendMessage/port-transport", w.ipos(fc), "port and transport are passed through unchanged", "port/transport given to findClientTransport are not sendMessage's own port and transport arguments")
		}
		c.floor(r2, 4)
	}
	// the table itself: only udp and tcp
	if g, ok := w.Main.Members["SupportedProtocol"].(*ssa.Global); ok {
		_ = g
		initFn := w.Main.Func("init")
		keys := map[string]bool{}
		eachInstr(initFn, func(in ssa.Instruction) {
			if mu, ok := in.(*ssa.MapUpdate); ok {
				if s, ok := constString(mu.Key); ok {
					if mm, ok := mu.Map.(*ssa.MakeMap); ok {
						for _, r := range *mm.Referrers() {
							if st, ok := r.(*ssa.Store); ok && st.Addr == ssa.Value(g) {
								keys[s] = true
							}
						}
					}
				}
			}
		})
		okKeys := len(keys) > 0
		for k := range keys {
			if k != "udp" && k != "tcp" {
				okKeys = false
			}
		}
		c.check(okKeys, rule, "SupportedProtocol/keys", w.pos(g.Pos()), "supported set is {udp, tcp}", fmt.Sprintf("SupportedProtocol holds %v; TLS/SCTP have no client transport and must lead to a drop", sortedKeys(keys)))
	} else {
		c.undecided(rule, "SupportedProtocol", "-", "package variable SupportedProtocol not found")
	}
	c.floor(rule, 5)
}
