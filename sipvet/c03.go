package main

import (
	"fmt"

	"golang.org/x/tools/go/ssa"
)

func init() {
	register(&propDef{ID: "C03", Run: runC03,
		Explain:    "Structural necessary conditions of 'exactly one next hop by fixed precedence', decided on the SSA/CFG of /repo: (1) on every request path of HandleMessage at most one dispatch call, none in a loop, and the same for sendToBackend/sendMessage; (2) precedence as guard polarity: static route consulted only when the Route lookup failed, Route results returned when it succeeded, backend only when the hop lookup failed and isMyMessage holds, nothing dispatched otherwise; (3) destination provenance: sendMessage receives results 0,1,2 of the same hop lookup; Route path = entry 0, host/GetPort()/GetTransport() of its SIP URI, error for non-SIP URIs; static path = FindRoute(To host) with the result permutation protocol->transport; (4) after a successful write/dispatch no second one is reachable in any function below HandleMessage (retry only on the failure edge); (5) SIP-URI defaults udp/5060/5061-under-tls; (6) the listener clause of isMyMessage compares host and port with the receiving transport. Shared further: hop transport (C02); loop-capture: no escaping closure, and no pointer kept by a package function, refers to a variable a loop assigns (go.mod selects the per-loop variable semantics).",
		NotDecided: "matching semantics of service names (literal, user@host, regular expression); delivery."})
}

const hopReqFn = "(*Proxy).getNextRequestHop"

// nilUnder reports whether v is nil given that the listed calls returned a nil error.
func nilUnder(v ssa.Value, okCalls ...ssa.CallInstruction) bool {
	if isNilConst(v) {
		return true
	}
	for _, c := range okCalls {
		if ei := errIndex(c); ei >= 0 && isResultOf(v, c, ei) {
			return true
		}
	}
	return false
}

func allVals(vs []ssa.Value, f func(ssa.Value) bool) bool {
	if len(vs) == 0 {
		return false
	}
	for _, v := range vs {
		if !f(v) {
			return false
		}
	}
	return true
}

func runC03(c *Ctx) {
	w := c.w
	hm := c.fn("single-dispatch", "(*Proxy).HandleMessage")
	if hm != nil {
		req := w.under(w.assumeRequest(true))
		disp := w.dispatchSites(hm)
		var reqDisp []callSite
		for _, d := range disp {
			if canReach(entryPt(hm), req, isInstr(d.In), nil) {
				reqDisp = append(reqDisp, d)
			}
		}
		_, mx, inf := countSites(entryPt(hm), req, inSet(siteInstrs(reqDisp)))
		c.check(mx <= 1 && !inf, "single-dispatch", "HandleMessage/request-paths", w.pos(hm.Pos()),
			fmt.Sprintf("at most one dispatch call on every request path (%d dispatch sites)", len(reqDisp)),
			fmt.Sprintf("a request path executes %d dispatch calls (in loop: %v): the request can be sent to two destinations", mx, inf))
		var hop ssa.CallInstruction
		for _, h := range w.callsIn(hm, hopReqFn) {
			if canReach(entryPt(hm), req, isInstr(h.In), nil) {
				if hop != nil {
					c.undecided("precedence", "HandleMessage/hop-lookup#2", w.ipos(h.In), "more than one request hop lookup")
				}
				hop = h.In
			}
		}
		if hop == nil {
			c.bad("precedence", "HandleMessage/hop-lookup", w.pos(hm.Pos()), "the request branch does not call "+hopReqFn)
		} else {
			isMy := w.boolCall("(*MyName).isMyMessage")
			nSend, nBack := 0, 0
			for i, d := range reqDisp {
				key := fmt.Sprintf("HandleMessage/request-dispatch#%d[%s]", i+1, d.Name)
				switch d.Name {
				case "(*Proxy).sendMessage":
					nSend++
					c.check(w.requires(hm, d.In, errNil(hop), true), "precedence", key+"/guard", w.ipos(d.In),
						"routed dispatch only when the hop lookup succeeded", "sendMessage is reachable although no Route/static hop was found", "guard: errOf(getNextRequestHop) == nil")
					ok := true
					for k := 0; k < 3; k++ {
						if !isResultOf(callArg(d.In, k), hop, k) {
							ok = false
						}
					}
					c.check(ok && isParam(hm, callArg(d.In, 3), 1), "destination", key+"/args", w.ipos(d.In),
						"host, port, transport are results 0,1,2 of the same hop lookup", "sendMessage does not receive (host, port, transport) = results 0,1,2 of the hop lookup, or not the handled message")
				case "(*Proxy).sendToBackend":
					nBack++
					c.check(w.requires(hm, d.In, errNil(hop), false), "precedence", key+"/after-route", w.ipos(d.In),
						"backend is chosen only when neither Route nor static route gave a hop", "sendToBackend is reachable although a Route/static hop exists (precedence violated)", "guard: errOf(getNextRequestHop) != nil")
					c.check(w.requires(hm, d.In, isMy, true), "precedence", key+"/is-mine", w.ipos(d.In),
						"backend is chosen only for requests addressed to the service", "sendToBackend is reachable for requests that are not addressed to the service", "guard: isMyMessage == true")
					c.check(isParam(hm, callArg(d.In, 0), 1), "destination", key+"/args", w.ipos(d.In), "the handled message is dispatched", "sendToBackend is not given the handled message")
				default:
					c.bad("precedence", key, w.ipos(d.In), "request dispatch through "+d.Name+": only sendMessage (routed) and sendToBackend (service) are part of the precedence chain")
				}
			}
			c.check(nSend == 1 && nBack == 1, "precedence", "HandleMessage/dispatch-sites", w.pos(hm.Pos()), "one routed and one backend dispatch site", fmt.Sprintf("expected one sendMessage and one sendToBackend site on the request side, found %d and %d", nSend, nBack))
			// drop
			drop := w.under(w.assumeRequest(true), assumeAtom(errNil(hop), false), assumeAtom(isMy, false))
			wit := reachWitness(at(hop), drop, inSet(siteInstrs(disp)), nil)
			c.check(wit == nil, "precedence", "HandleMessage/drop", w.ipos(hop), "a request matching nothing is dropped", "a dispatch is reachable for a request with no hop that is not addressed to the service, at "+w.ipos(wit))
			// the isMyMessage test exists at all and is applied to msg
			for _, cs := range w.callsIn(hm, "(*MyName).isMyMessage") {
				c.check(isParam(hm, callArg(cs.In, 0), 1), "precedence", "HandleMessage/isMyMessage-arg", w.ipos(cs.In), "isMyMessage judges the handled message", "isMyMessage is not applied to the handled message")
			}
			// liveness of each arm: success -> every path dispatches; mine -> every path dispatches
			mn, _, _ := countSites(at(hop), w.under(w.assumeRequest(true), assumeAtom(errNil(hop), true)), inSet(siteInstrs(reqDisp)))
			c.check(mn == 1, "precedence", "HandleMessage/routed-always-sent", w.ipos(hop), "every path with a hop dispatches", "some path with a Route/static hop does not dispatch")
			mn, _, _ = countSites(at(hop), w.under(w.assumeRequest(true), assumeAtom(errNil(hop), false), assumeAtom(isMy, true)), inSet(siteInstrs(reqDisp)))
			c.check(mn == 1, "precedence", "HandleMessage/mine-always-sent", w.ipos(hop), "every service request without hop goes to a backend", "some service request path does not dispatch")
		}
	}
	c.floor("precedence", 7)
	if f := c.fn("precedence", hopReqFn); f != nil {
		c03HopChain(c, f)
	}
	if f := c.fn("destination", "(*Proxy).getNextRequestHopByRoute"); f != nil {
		c03RouteHop(c, f)
	}
	if f := c.fn("destination", "(*Proxy).getNextRequestHopByConfig"); f != nil {
		c03ConfigHop(c, f)
	}
	c.floor("destination", 12)
	c03OneWrite(c)
	c03URIDefaults(c)
	c03ListenerMatch(c)
	c13Consume(c)
	c13SameAddress(c)
	// clause (2) of the property rests on the static route lookup itself: fixed precedence and anchored,
	// escaped patterns (the C18 rules) are necessary conditions of "the static route configured for the To host"
	c18Precedence(c)
	// the Route hop is the first entry of what is left after the proxy's own entry was consumed: the consumption removes
	// exactly one entry and nothing else of the route set (pop structure, shared with C13/C17)
	checkPopOne(c, "destination", routePop)
	ruleRouteSetEdits(c, "destination")
	c18Pattern(c)
	c18Table(c)
	// "the next hop" includes its transport: a hop named with transport=tcp is not sent a datagram (shared with C02)
	c02HopTransport(c, "destination")
	// "one backend of the service": the resolver callbacks create the backends from what they captured per address
	ruleNoLoopCapture(c, "destination", "the backends of every host name are created with the port or protocol of the address configured last - requests for the service go to an address that is not a configured backend")
	c18NextHopPort(c)
	// the host table behind "resolves to" (shared with C13)
	c13AliasTable(c)
	rulePureCapture(c, "pure-capture")
	c18Wiring(c, "next-hop-port")
}

func c03HopChain(c *Ctx, f *ssa.Function) {
	w := c.w
	rs := w.callsIn(f, "(*Proxy).getNextRequestHopByRoute")
	ss := w.callsIn(f, "(*Proxy).getNextRequestHopByConfig")
	if len(rs) != 1 || len(ss) != 1 {
		c.bad("precedence", "getNextRequestHop/lookups", w.pos(f.Pos()), fmt.Sprintf("expected one Route lookup and one static-route lookup, found %d and %d", len(rs), len(ss)))
		return
	}
	r, s := rs[0].In, ss[0].In
	c.check(w.requires(f, s, errNil(r), false) && mustPrecede(f, []ssa.Instruction{r}, s, nil), "precedence", "getNextRequestHop/static-after-route", w.ipos(s),
		"static routes are consulted only after the Route lookup failed", "the static route is consulted before, or regardless of, the Route lookup", "guard: errOf(ByRoute) != nil")
	c.check(isParam(f, callArg(r, 0), 1) && isParam(f, callArg(s, 0), 1), "precedence", "getNextRequestHop/args", w.ipos(r), "both lookups inspect the handled message", "a lookup is applied to another message")
	for _, cs := range []struct {
		name string
		call ssa.CallInstruction
		ok   bool
	}{{"route-hit", r, true}, {"route-miss", s, false}} {
		keep := w.under(assumeAtom(errNil(r), cs.ok))
		rets := returnsUnder(f, keep)
		good := len(rets) > 0
		for _, ret := range rets {
			for k := 0; k < 4 && k < len(ret.Results); k++ {
				k := k
				if !allVals(valuesUnder(f, ret.Results[k], keep), func(v ssa.Value) bool {
					return isResultOf(v, cs.call, k) || (k == 3 && cs.ok && isNilConst(v))
				}) {
					good = false
				}
			}
		}
		c.check(good, "precedence", "getNextRequestHop/"+cs.name, w.ipos(cs.call), "the results of the deciding lookup are returned unchanged", "on "+cs.name+" the function does not return results 0..3 of "+w.calleeName(cs.call))
	}
}

func c03RouteHop(c *Ctx, f *ssa.Function) {
	w := c.w
	rule := "destination"
	grs := w.callsIn(f, "(*Message).GetRoute")
	if len(grs) != 1 {
		c.bad(rule, "ByRoute/GetRoute", w.pos(f.Pos()), "expected exactly one GetRoute()")
		return
	}
	gr := grs[0].In
	var gp ssa.CallInstruction
	for _, cs := range w.callsIn(f, "(*Route).GetRouteParam") {
		if isResultOf(callArg(cs.In, -1), gr, 0) {
			gp = cs.In
		}
	}
	if gp == nil {
		c.bad(rule, "ByRoute/GetRouteParam", w.pos(f.Pos()), "the Route hop is not taken from an entry of GetRoute()")
		return
	}
	k, isK := constInt(callArg(gp, 0))
	c.check(isK && k == 0 && isParam(f, callArg(gr, -1), 1), rule, "ByRoute/entry-0", w.ipos(gp), "next hop = first remaining Route entry of the message", "the Route hop is not entry 0 of the message's Route")
	for _, call := range []ssa.CallInstruction{gr, gp} {
		ok, why := w.errPropagated(f, call)
		c.check(ok, rule, "ByRoute/"+w.calleeName(call)+"-error", w.ipos(call), "failure yields no Route hop", "failure of "+w.calleeName(call)+" does not yield an error: "+why)
	}
	// the entry is read before anything is popped from the Route (otherwise index 0 is already the entry after)
	for i, pop := range w.callsIn(f, "(*Message).PopRoute", "(*Route).PopRouteParam", "(*Message).RemoveHeader") {
		c.check(mustPrecede(f, []ssa.Instruction{gp}, pop.In, nil), rule, fmt.Sprintf("ByRoute/entry-read-before-pop#%d", i+1), w.ipos(pop.In),
			"the next-hop entry is selected before the Route is shortened", "the Route is shortened before entry 0 is read: the hop is taken from the entry after the first remaining one")
	}
	// addr := entry.GetAddress().GetAddress()
	isAddr := func(v ssa.Value) bool {
		a2 := w.resultOfCallTo(v, "(*NameAddr).GetAddress", 0)
		if a2 == nil {
			// direct field path entry.nameAddr.Addr
			if b, ok := isLoadOf(v, "NameAddr.Addr"); ok {
				if b2, ok := isLoadOf(b, "RouteParam.nameAddr"); ok {
					return isResultOf(b2, gp, 0)
				}
			}
			return false
		}
		a1 := w.resultOfCallTo(callArg(a2, -1), "(*RouteParam).GetAddress", 0)
		return a1 != nil && isResultOf(callArg(a1, -1), gp, 0)
	}
	var uriCalls []ssa.CallInstruction
	for _, cs := range w.callsIn(f, "(*AddrSpec).GetSIPURI") {
		if isAddr(callArg(cs.In, -1)) {
			uriCalls = append(uriCalls, cs.In)
		}
	}
	if len(uriCalls) != 1 {
		c.bad(rule, "ByRoute/GetSIPURI", w.pos(f.Pos()), "the Route hop does not decode the SIP URI of the selected entry exactly once")
		return
	}
	uc := uriCalls[0]
	isURI := func(v ssa.Value) bool { return isResultOf(v, uc, 0) }
	sipSel := func(a Atom) bool {
		if a.Kind == "bool" {
			if cc := w.resultOfCallTo(a.X, "(*AddrSpec).IsSIPURI", 0); cc != nil {
				return isAddr(callArg(cc, -1))
			}
		}
		return false
	}
	// the guard of the SIP-URI path: IsSIPURI() true or errOf(GetSIPURI)==nil
	hasSip := len(w.ifsTesting(f, sipSel)) > 0
	var onSip, onNot []assumption
	if hasSip {
		onSip = []assumption{assumeAtom(sipSel, true)}
		onNot = []assumption{assumeAtom(sipSel, false)}
	} else if len(w.ifsTesting(f, errNil(uc))) > 0 {
		onSip = []assumption{assumeAtom(errNil(uc), true)}
		onNot = []assumption{assumeAtom(errNil(uc), false)}
	} else {
		c.bad(rule, "ByRoute/sip-uri-guard", w.ipos(uc), "no test distinguishes SIP URIs from other URIs in the Route hop")
		return
	}
	base := []assumption{assumeAtom(errNil(gr), true), assumeAtom(errNil(gp), true)}
	keep := w.under(append(append([]assumption{}, base...), onSip...)...)
	for _, r := range returnsUnder(f, keep) {
		if len(r.Results) != 4 {
			continue
		}
		hv, pv, tv, ev := valuesUnder(f, r.Results[0], keep), valuesUnder(f, r.Results[1], keep), valuesUnder(f, r.Results[2], keep), valuesUnder(f, r.Results[3], keep)
		c.check(allVals(hv, func(v ssa.Value) bool { b, ok := isLoadOf(v, "SIPURI.Host"); return ok && isURI(b) }), rule, "ByRoute/host", w.ipos(r), "host = the entry URI's host", "host is "+describe(w, hv))
		c.check(allVals(pv, func(v ssa.Value) bool {
			cc := w.resultOfCallTo(v, "(*SIPURI).GetPort", 0)
			return cc != nil && isURI(callArg(cc, -1))
		}), rule, "ByRoute/port", w.ipos(r), "port = the entry URI's port or default (GetPort)", "port is "+describe(w, pv))
		c.check(allVals(tv, func(v ssa.Value) bool {
			cc := w.resultOfCallTo(v, "(*SIPURI).GetTransport", 0)
			return cc != nil && isURI(callArg(cc, -1))
		}), rule, "ByRoute/transport", w.ipos(r), "transport = the entry URI's transport parameter or udp (GetTransport)", "transport is "+describe(w, tv))
		c.check(allVals(ev, func(v ssa.Value) bool { return nilUnder(v, gr, gp, uc) }), rule, "ByRoute/err-nil", w.ipos(r), "a SIP-URI entry yields a hop", "err is "+describe(w, ev)+" for a SIP-URI entry")
	}
	keepN := w.under(append(append([]assumption{}, base...), onNot...)...)
	rets := returnsUnder(f, keepN)
	good := len(rets) > 0
	for _, r := range rets {
		if len(r.Results) != 4 {
			good = false
			continue
		}
		if !allVals(valuesUnder(f, r.Results[3], keepN), func(v ssa.Value) bool { return w.isFreshError(v) || isResultOf(v, uc, 1) }) {
			good = false
		}
	}
	c.check(good, rule, "ByRoute/non-sip-error", w.ipos(uc), "a non-SIP Route URI yields an error (falls through to static routes)", "a non-SIP Route URI does not yield an error")
}

func c03ConfigHop(c *Ctx, f *ssa.Function) {
	w := c.w
	rule := "destination"
	tos := w.callsIn(f, "(*Message).GetTo")
	frs := w.callsIn(f, "(*PreConfigRoute).FindRoute")
	if len(tos) == 1 && len(frs) == 0 {
		if sp := c03InlineLookupSpec(w); sp != nil {
			// the table is consulted by a body merged into this function: key, table, order and the result permutation are
			// decided on that body by the lookup rules (precedence, run with this function's result order)
			n := 0
			eachInstr(f, func(in ssa.Instruction) {
				if lk, ok := in.(*ssa.Lookup); ok && lk.CommaOk && sp.isKey(lk.Index) {
					if b, isL := isLoadOf(lk.X, "PreConfigRoute.items"); isL && sp.isTable(b) {
						n++
					}
				}
			})
			c.check(n == 1, rule, "ByConfig/key", w.pos(f.Pos()), "the static route table of the proxy is consulted with the host of the message's To URI (lookup body merged into the hop function; its order and results are decided under precedence)", "the merged lookup body is not keyed by GetHost() of the message's To header on p.preConfigRoute")
			for _, cs := range append(tos, w.callsIn(f, "(*To).GetHost")...) {
				ok, why := w.errPropagated(f, cs.In)
				c.check(ok, rule, "ByConfig/"+w.calleeName(cs.In)+"-error", w.ipos(cs.In), "failure yields no static hop", "failure of "+w.calleeName(cs.In)+" does not yield an error: "+why)
			}
			return
		}
	}
	if len(tos) != 1 || len(frs) != 1 {
		c.bad(rule, "ByConfig/lookups", w.pos(f.Pos()), "expected one GetTo() and one FindRoute()")
		return
	}
	to, fr := tos[0].In, frs[0].In
	var gh ssa.CallInstruction
	for _, cs := range w.callsIn(f, "(*To).GetHost") {
		if isResultOf(callArg(cs.In, -1), to, 0) {
			gh = cs.In
		}
	}
	c.check(gh != nil && isResultOf(callArg(fr, 0), gh, 0) && isParam(f, callArg(to, -1), 1), rule, "ByConfig/key", w.ipos(fr),
		"the static route key is the host of the message's To URI", "FindRoute is not keyed by GetHost() of the message's To header")
	if b, ok := isLoadOf(callArg(fr, -1), "Proxy.preConfigRoute"); !ok || !isParam(f, b, 0) {
		c.bad(rule, "ByConfig/table", w.ipos(fr), "FindRoute is not applied to the proxy's configured route table")
	} else {
		c.ok(rule, "ByConfig/table", w.ipos(fr), "FindRoute consults p.preConfigRoute")
	}
	for _, call := range []ssa.CallInstruction{to, gh} {
		if call == nil {
			continue
		}
		ok, why := w.errPropagated(f, call)
		c.check(ok, rule, "ByConfig/"+w.calleeName(call)+"-error", w.ipos(call), "failure yields no static hop", "failure of "+w.calleeName(call)+" does not yield an error: "+why)
	}
	// result permutation on the path where FindRoute was called
	perm := map[int]int{0: 1, 1: 2, 2: 0, 3: 3} // return index -> FindRoute result index
	good := false
	for _, r := range returnsUnder(f, nil) {
		if !(r.Block() == fr.Block() || canReach(at(fr), nil, isInstr(r), nil)) || len(r.Results) != 4 {
			continue
		}
		good = true
		for ri, fi := range perm {
			fi := fi
			if !allVals(valuesUnder(f, r.Results[ri], nil), func(v ssa.Value) bool { return isResultOf(v, fr, fi) }) {
				good = false
				c.bad(rule, fmt.Sprintf("ByConfig/result#%d", ri), w.ipos(r), fmt.Sprintf("return value %d is %s, expected FindRoute result %d (protocol,host,port,err -> host,port,transport,err)", ri, describe(w, valuesUnder(f, r.Results[ri], nil)), fi))
			}
		}
	}
	if good {
		c.ok(rule, "ByConfig/result-permutation", w.ipos(fr), "(host, port, transport, err) = FindRoute results (1, 2, 0, 3)")
	}
}

// c03OneWrite: in every function at or below HandleMessage, no dispatch/write site is reachable
// after a dispatch/write site succeeded.
func c03OneWrite(c *Ctx) {
	w := c.w
	rule := "one-write-per-dispatch"
	root := w.Fn("(*Proxy).HandleMessage")
	if root == nil {
		return
	}
	fns := w.reachableFrom([]*ssa.Function{root}, false)
	n := 0
	for _, fn := range w.All {
		if !fns[fn] {
			continue
		}
		disp := w.dispatchSites(fn)
		if len(disp) == 0 {
			continue
		}
		c.Fns[w.fname(fn)] = true
		all := inSet(siteInstrs(disp))
		for i, d := range disp {
			n++
			key := fmt.Sprintf("%s/%s#%d", w.fname(fn), d.Name, i+1)
			var keep edgeKeep
			fact := "no error result: any later dispatch counts"
			if errIndex(d.In) >= 0 {
				keep = w.under(assumeAtom(errNil(d.In), true))
				fact = "restricted to the err==nil edge of this site"
			}
			wit := reachWitness(at(d.In), keep, all, nil)
			if wit != nil && errIndex(d.In) >= 0 && len(w.ifsTesting(fn, errNil(d.In))) == 0 {
				fact = "the site's error is never tested"
			}
			c.check(wit == nil, rule, key, w.ipos(d.In), "after this write/dispatch succeeded no further one is reachable", "after this site succeeded another write/dispatch is reachable at "+w.ipos(wit)+": the message can be sent twice", fact)
		}
	}
	c.floor(rule, 9)
	_ = n
}

// checkPortAccessor: fn returns the stored port when non-zero, 5061 only under tlsSel, else 5060.
func (w *World) checkPortAccessor(c *Ctx, rule, label string, fn *ssa.Function, portRef string, tlsSel func(Atom) bool) {
	portNZ := func(a Atom) bool {
		if a.Kind != "eqk" || a.K != 0 {
			return false
		}
		_, ok := isLoadOf(a.X, portRef)
		return ok
	}
	n := 0
	seen5060, seenPort := false, false
	for _, r := range returnsUnder(fn, nil) {
		for _, v := range phiLeaves(r.Results[0]) {
			n++
			key := fmt.Sprintf("%s/return#%d", label, n)
			if _, ok := isLoadOf(v, portRef); ok {
				seenPort = true
				c.check(w.requires(fn, r, portNZ, false), rule, key, w.ipos(r), "the stored port is returned only when non-zero", "the stored port is returned although it may be 0 (absent)")
				continue
			}
			if k, ok := constInt(v); ok {
				switch k {
				case 5060:
					seen5060 = true
					c.check(w.requires(fn, r, portNZ, true), rule, key, w.ipos(r), "5060 is the default when no port is present", "5060 is returned although a port is present")
				case 5061:
					c.check(w.requires(fn, r, portNZ, true) && w.requires(fn, r, tlsSel, true), rule, key, w.ipos(r), "5061 only for TLS without explicit port", "5061 is returned outside (no port, transport tls)")
				default:
					c.bad(rule, key, w.ipos(r), fmt.Sprintf("default port %d is neither 5060 nor 5061", k))
				}
				continue
			}
			c.bad(rule, key, w.ipos(r), label+" returns "+w.termKey(v)+", expected the stored port or the constants 5060/5061")
		}
	}
	c.check(seen5060 && seenPort, rule, label+"/cases", w.pos(fn.Pos()), "both the explicit-port and the 5060 default case exist", label+" lacks the explicit-port case or the 5060 default")
}

func c03URIDefaults(c *Ctx) {
	w := c.w
	rule := "uri-defaults"
	ruleNumberParsing(c, rule, 1, "parseHostPort")
	ruleKVFind(c, rule, "(*SIPURI).GetParameter")
	if gt := c.fn(rule, "(*SIPURI).GetTransport"); gt != nil {
		gps := w.callsIn(gt, "(*SIPURI).GetParameter")
		if len(gps) != 1 {
			c.bad(rule, "SIPURI.GetTransport/lookup", w.pos(gt.Pos()), "GetTransport does not read exactly one URI parameter")
		} else {
			gp := gps[0].In
			s, isS := constString(callArg(gp, 0))
			c.check(isS && s == "transport" && isParam(gt, callArg(gp, -1), 0), rule, "SIPURI.GetTransport/key", w.ipos(gp), "reads the 'transport' URI parameter", "GetTransport does not read the parameter named transport of its own URI")
			for i, cs := range []bool{true, false} {
				keep := w.under(assumeAtom(errNil(gp), cs))
				good := false
				for _, r := range returnsUnder(gt, keep) {
					good = allVals(valuesUnder(gt, r.Results[0], keep), func(v ssa.Value) bool {
						if cs {
							return isResultOf(v, gp, 0)
						}
						s, ok := constString(v)
						return ok && s == "udp"
					})
					if !good {
						break
					}
				}
				c.check(good, rule, fmt.Sprintf("SIPURI.GetTransport/case#%d", i), w.ipos(gp), "present -> its value; absent -> udp", "GetTransport must return the parameter when present and the constant \"udp\" otherwise")
			}
		}
	}
	if gp := c.fn(rule, "(*SIPURI).GetPort"); gp != nil {
		tls := func(a Atom) bool {
			if a.Kind != "eqstr" || a.Str != "tls" {
				return false
			}
			cc := w.resultOfCallTo(a.X, "(*SIPURI).GetTransport", 0)
			return cc != nil && isParam(gp, callArg(cc, -1), 0)
		}
		w.checkPortAccessor(c, rule, "SIPURI.GetPort", gp, "SIPURI.port", tls)
	}
	c.floor(rule, 6)
}

func c03ListenerMatch(c *Ctx) {
	w := c.w
	rule := "listener-match"
	f := c.fn(rule, "(*MyName).isMyMessage")
	if f == nil {
		return
	}
	uris := w.callsIn(f, "(*AddrSpec).GetSIPURI")
	if len(uris) != 1 {
		c.undecided(rule, "isMyMessage/GetSIPURI", w.pos(f.Pos()), "isMyMessage does not decode the Request-URI as SIP URI exactly once")
		return
	}
	uc := uris[0].In
	isURI := func(v ssa.Value) bool { return isResultOf(v, uc, 0) }
	rf := func(v ssa.Value) bool { b, ok := isLoadOf(v, "Message.ReceivedFrom"); return ok && isParam(f, b, 1) }
	hostEq := func(a Atom) bool {
		if a.Kind != "eq" {
			return false
		}
		m := func(x, y ssa.Value) bool {
			b, ok := isLoadOf(x, "SIPURI.Host")
			if !ok || !isURI(b) {
				return false
			}
			cc, _ := callOfResult(y)
			return cc != nil && w.calleeName(cc) == "ServerTransport.GetAddress" && rf(callArg(cc, -1))
		}
		return m(a.X, a.Y) || m(a.Y, a.X)
	}
	portEq := func(a Atom) bool {
		if a.Kind != "eq" {
			return false
		}
		m := func(x, y ssa.Value) bool {
			c1 := w.resultOfCallTo(x, "(*SIPURI).GetPort", 0)
			if c1 == nil || !isURI(callArg(c1, -1)) {
				return false
			}
			cc, _ := callOfResult(y)
			return cc != nil && w.calleeName(cc) == "ServerTransport.GetPort" && rf(callArg(cc, -1))
		}
		return m(a.X, a.Y) || m(a.Y, a.X)
	}
	absM := w.boolCall("(*MyName).matchAbsoluteURI")
	sipM := w.boolCall("(*MyName).matchSIPURI")
	nListener := 0
	i := 0
	for _, r := range returnsUnder(f, nil) {
		for _, bc := range boolCases(r, 0) {
			if b, isB := constBool(bc.Leaf); isB && !b {
				continue
			}
			i++
			key := fmt.Sprintf("isMyMessage/return-true#%d", i)
			switch {
			case w.holdsWhenTrue(f, bc, absM, true):
				c.ok(rule, key, w.ipos(r), "true because the absolute URI matches a service name")
			case w.holdsWhenTrue(f, bc, sipM, true):
				c.ok(rule, key, w.ipos(r), "true because user@host matches a service name")
			case w.holdsWhenTrue(f, bc, hostEq, true) && w.holdsWhenTrue(f, bc, portEq, true):
				nListener++
				c.ok(rule, key, w.ipos(r), "true because Request-URI host and port equal the receiving listener's address and port", "guards: host == ReceivedFrom.GetAddress() && GetPort() == ReceivedFrom.GetPort()")
			default:
				c.bad(rule, key, w.ipos(r), "isMyMessage returns true without a service-name match and without both listener conjuncts (host AND port of the receiving transport)")
			}
		}
	}
	c.check(nListener == 1, rule, "isMyMessage/listener-clause", w.pos(f.Pos()), "the listener clause exists", "the clause 'Request-URI designates the receiving listener's address and port' is missing")
	// matchSIPURI is given user and host of the same URI
	for _, cs := range w.callsIn(f, "(*MyName).matchSIPURI") {
		bu, ok1 := isLoadOf(callArg(cs.In, 0), "SIPURI.User")
		bh, ok2 := isLoadOf(callArg(cs.In, 1), "SIPURI.Host")
		c.check(ok1 && ok2 && isURI(bu) && isURI(bh), rule, "isMyMessage/matchSIPURI-args", w.ipos(cs.In), "service match on (user, host) of the Request-URI", "matchSIPURI is not given (User, Host) of the Request-URI")
	}
	// what the service names are matched against: a regular expression sees user@host of a SIP URI (never the bare
	// host) and the whole text of another URI; a literal name without '@' names a host, one with '@' user and host
	if ms := c.fn(rule, "(*MyName).matchSIPURI"); ms != nil {
		good, n := true, 0
		for _, cs := range w.callsIn(ms) {
			if cs.Name != "(*regexp.Regexp).MatchString" {
				continue
			}
			n++
			sv := w.evalStr(callArg(cs.In, 0), senv{}, 0)
			txt := renderParts(sv.parts, func(x ssa.Value) string {
				for i, p := range ms.Params {
					if strip(x) == ssa.Value(p) {
						return fmt.Sprintf("p%d", i)
					}
				}
				return "?"
			})
			if txt != "{p1:%s}@{p2:%s}" {
				good = false
			}
		}
		c.check(good && n >= 1, rule, "matchSIPURI/pattern-subject", w.pos(ms.Pos()), "patterns are matched against user@host", "matchSIPURI applies a service-name pattern to something other than user@host (e.g. also to the bare host): a request whose user part the pattern excludes is taken for the service's and sent to a backend instead of being dropped")
	}
	if ma := c.fn(rule, "(*MyName).matchAbsoluteURI"); ma != nil {
		good, n := true, 0
		for _, cs := range w.callsIn(ma) {
			if cs.Name != "(*regexp.Regexp).MatchString" {
				continue
			}
			n++
			if !isParam(ma, callArg(cs.In, 0), 1) {
				good = false
			}
		}
		c.check(good && n >= 1, rule, "matchAbsoluteURI/pattern-subject", w.pos(ma.Pos()), "patterns are matched against the whole URI", "matchAbsoluteURI applies a service-name pattern to something other than the whole URI text")
	}
	c.floor(rule, 4)
}
