package main

import (
	"fmt"

	"golang.org/x/tools/go/ssa"
)

func init() {
	register(&propDef{ID: "C04", Run: runC04,
		Explain:    "Structural necessary conditions of 'in-dialog requests stick to the answering backend', decided on SSA/CFG of /repo: (1) lookup-before-pool: in sendToBackend the receiver of Send is the pinned backend on the success edge of findBackendByDialog and the service's round-robin pool only on its failure edge; (2) bind-sites: handleDialog binds AddBackend(GetDialog(msg), getBackendOfResponse(JoinHostPort(peer), msg), Expires) for every response (provisional or final) whose CSeq method is INVITE and that has a dialog identifier, once; getBackendOfResponse answers with backends[addr] first; the response branch of HandleMessage binds the dialog of a SUBSCRIBE response to the backend registered under the next hop's host:port; sendToBackend binds the client transaction to the chosen backend after a successful send; (3) key-agreement: every key given to the pin table (AddBackend/GetBackend/RemoveDialog) is produced by GetDialog or by GetClientTransaction, each namespace has put, get and remove sites, and the backend address index is written under Backend.GetAddress() and read under host:port strings; (4) order: the loop's message case runs handleRawMessage, then handleDialog(peer address, peer port, message), then HandleMessage(message), each once, the latter two only on success; (5) method-gate: findBackendByDialog refuses only INVITE and SUBSCRIBE, every other method looks up GetDialog(msg) in the pin table and returns that lookup's backend and error; the dialog identifier itself is C16, lifetime C15, thread confinement C09. The termination rule of C15 (who may forget a pin: BYE answered, NOTIFY terminated, the transaction record at its final response; the pin record is written only when made) is shared.",
		NotDecided: "stickiness over interleaved histories as such."})
}

func runC04(c *Ctx) {
	c04LookupBeforePool(c)
	c04BindSites(c)
	c04KeyAgreement(c)
	c04Order(c)
	ruleSingleParser(c, "order")
	c04MethodGate(c)
	c07StampGuard(c)
	c07StampContent(c)
	// the answering backend is recognised by the text of the packet's source address: that text is the canonical one
	// (IP.String() of the address the read returned), the form the backend index is keyed with (shared with C07)
	c07TrueSource(c)
	c19Addresses(c, "key-agreement")
	ruleNoLoopCapture(c, "bind-sites", "a response is attributed to the source of a later datagram, or every replayed backend notification names the backend visited last - the address index misses backends, and dialogs they answer are bound to the pool")
	// the pin is only as good as its key and its lifetime: the identity rules of C16 and the
	// expiry/sweep rules of C15 are necessary conditions of stickiness as well
	runC16(c)
	c15Polarity(c)
	c15AddBackend(c)
	// and a pin dissolved or shortened before the dialog ended is no pin: who may forget, who may rewrite the record
	c15Termination(c)
}

func c04LookupBeforePool(c *Ctx) {
	w := c.w
	rule := "lookup-before-pool"
	f := c.fn(rule, "(*Proxy).sendToBackend")
	if f == nil {
		return
	}
	var fbd, item ssa.CallInstruction
	for _, cs := range w.callsIn(f, "(*Proxy).findBackendByDialog") {
		fbd = cs.In
	}
	for _, cs := range w.callsIn(f, "(*Proxy).findBackendProxyItem") {
		item = cs.In
	}
	var send ssa.CallInstruction
	for _, d := range w.dispatchSites(f) {
		send = d.In
	}
	if fbd == nil || item == nil || send == nil {
		c.bad(rule, "sendToBackend/shape", w.pos(f.Pos()), "sendToBackend must consult findBackendByDialog and the service's backend item before one Send")
		return
	}
	c.check(isParam(f, callArg(fbd, 0), 1) && isParam(f, callArg(send, 0), 1), rule, "sendToBackend/same-message", w.ipos(fbd), "pin lookup and send concern the handled message", "the pin lookup or the send is applied to another message")
	recv := send.Common().Value
	pinned := valuesUnder(f, recv, w.under(assumeAtom(errNil(fbd), true)))
	pool := valuesUnder(f, recv, w.under(assumeAtom(errNil(fbd), false)))
	c.check(allVals(pinned, func(v ssa.Value) bool { return isResultOf(v, fbd, 0) }), rule, "sendToBackend/pinned-wins", w.ipos(send), "a pinned dialog goes to its backend", "although the dialog is pinned the request is sent to "+describe(w, pinned)+" (the rotation is consulted instead of the pin)", "case: findBackendByDialog succeeded")
	c.check(allVals(pool, func(v ssa.Value) bool {
		b, ok := isLoadOf(v, "ProxyItem.backend")
		return ok && isResultOf(b, item, 0)
	}), rule, "sendToBackend/pool-otherwise", w.ipos(send), "otherwise the service's round-robin pool", "without a pin the request is sent to "+describe(w, pool)+", expected the service's backend pool", "case: findBackendByDialog failed")
	c.check(mustPrecede(f, []ssa.Instruction{fbd}, send, nil), rule, "sendToBackend/lookup-first", w.ipos(send), "the pin is looked up before sending", "a send is reachable without the pin lookup")
	// pool Send really is the round robin
	if it := w.Fn("(*Proxy).findBackendProxyItem"); it != nil {
		good := false
		for _, r := range returnsUnder(it, nil) {
			for _, v := range phiLeaves(r.Results[0]) {
				if !isNilConst(v) {
					good = true
				}
			}
		}
		c.check(good, rule, "findBackendProxyItem/result", w.pos(it.Pos()), "returns a proxy item", "findBackendProxyItem never returns an item")
	}
	c.floor(rule, 5)
}

func c04BindSites(c *Ctx) {
	w := c.w
	rule := "bind-sites"
	if f := c.fn(rule, "(*Proxy).handleDialog"); f != nil {
		msgIdx := msgParamIndex(f, 3)
		msg := func(v ssa.Value) bool { return isParamSSA(f, v, msgIdx) }
		raw := rawMsgParam(f)
		// the peer address and port: parameters 1 and 2, or the fields of the raw message the function is handed
		peerAddr := func(v ssa.Value) bool {
			if raw != nil {
				b, ok := isLoadOf(v, "RawMessage.PeerAddr")
				return ok && strip(b) == raw
			}
			return isParam(f, v, 1)
		}
		peerPort := func(v ssa.Value) bool {
			if raw != nil {
				b, ok := isLoadOf(v, "RawMessage.PeerPort")
				return ok && strip(b) == raw
			}
			return isParam(f, v, 2)
		}
		var gbr, gm ssa.CallInstruction
		for _, cs := range w.callsIn(f, "(*Proxy).getBackendOfResponse") {
			gbr = cs.In
		}
		for _, cs := range w.callsIn(f, "(*Message).GetMethod") {
			if msg(callArg(cs.In, -1)) {
				gm = cs.In
			}
		}
		if gbr == nil || gm == nil {
			c.bad(rule, "handleDialog/shape", w.pos(f.Pos()), "handleDialog must attribute the response to a backend (getBackendOfResponse) and read its method")
		} else {
			// addr = JoinHostPort(peerAddr, Itoa(peerPort))
			okAddr := false
			if jc := w.resultOfCallTo(callArg(gbr, 0), "net.JoinHostPort", 0); jc != nil {
				if ic := w.resultOfCallTo(jc.Call.Args[1], "strconv.Itoa", 0); ic != nil {
					okAddr = peerAddr(jc.Call.Args[0]) && peerPort(ic.Call.Args[0])
				}
			}
			c.check(okAddr && msg(callArg(gbr, 1)), rule, "handleDialog/attribution-key", w.ipos(gbr), "the answering backend is looked up under JoinHostPort(peer address, peer port)", "the answering backend is not looked up under net.JoinHostPort(peerAddr, strconv.Itoa(peerPort)) for the handled message")
			isInvite := func(a Atom) bool { return a.Kind == "eqstr" && a.Str == "INVITE" && isResultOf(a.X, gm, 0) }
			isResp := func(a Atom) bool { ok, _ := w.requestAtom(a); return ok }
			var bind ssa.CallInstruction
			for _, cs := range w.callsIn(f, "(*DialogBasedBackend).AddBackend") {
				if w.requires(f, cs.In, isInvite, true) {
					bind = cs.In
				}
			}
			if bind == nil {
				c.bad(rule, "handleDialog/invite-bind", w.pos(f.Pos()), "no AddBackend under method == INVITE: dialogs are never pinned to the answering backend")
			} else {
				gd := w.resultOfCallTo(callArg(bind, 0), "(*Message).GetDialog", 0)
				b, okT := isLoadOf(callArg(bind, -1), "Proxy.dialogBasedBackends")
				c.check(gd != nil && msg(callArg(gd, -1)) && isResultOf(callArg(bind, 1), gbr, 0) && okT && isParam(f, b, 0), rule, "handleDialog/invite-bind/arguments", w.ipos(bind),
					"binds GetDialog(msg) to the backend the response came from, in the proxy's pin table", "the INVITE bind is not AddBackend(GetDialog(msg), backend of this response, ...) on p.dialogBasedBackends")
				ec := w.resultOfCallTo(callArg(bind, 2), "(*Message).GetExpires", 0)
				c.check(ec != nil && msg(callArg(ec, -1)), rule, "handleDialog/invite-bind/expires", w.ipos(bind), "lifetime hint = the response's Expires", "the lifetime hint is not msg.GetExpires(..)")
				if gd != nil {
					// exactly once for every response (provisional or final) from a known backend with a dialog id
					nonEmpty := func(a Atom) bool { return a.Kind == "eqstr" && a.Str == "" && isResultOf(a.X, gd, 0) }
					var respVal assumption = func(a Atom, _ *ssa.If) (bool, bool) {
						if ok, keyReq := w.requestAtom(a); ok {
							return true, !keyReq
						}
						return false, false
					}
					keep := w.under(respVal, assumeAtom(errNil(gbr), true), assumeAtom(errNil(gm), true), assumeAtom(isInvite, true), assumeAtom(nonEmpty, false), assumeAtom(errNil(gd), true))
					mn, mx, inf := countSites(entryPt(f), keep, isInstr(bind))
					c.check(mn == 1 && mx == 1 && !inf, rule, "handleDialog/invite-bind/every-response", w.ipos(bind), "every INVITE response with a dialog identifier (1xx included) pins the dialog, once",
						fmt.Sprintf("for a response to INVITE from a backend with a dialog identifier the bind executes min=%d max=%d times: an extra condition (e.g. final responses only) leaves early dialogs unpinned", mn, mx))
				}
				_ = isResp
			}
		}
	}
	if f := c.fn(rule, "(*Proxy).getBackendOfResponse"); f != nil {
		var lk *ssa.Lookup
		eachInstr(f, func(in ssa.Instruction) {
			if l, ok := in.(*ssa.Lookup); ok && l.CommaOk {
				if b, isL := isLoadOf(l.X, "Proxy.backends"); isL && isParam(f, b, 0) && isParam(f, l.Index, 1) {
					lk = l
				}
			}
		})
		if lk == nil {
			c.bad(rule, "getBackendOfResponse/index-lookup", w.pos(f.Pos()), "the answering backend is not looked up in p.backends[addr]")
		} else {
			okSel := func(a Atom) bool {
				e, isE := a.X.(*ssa.Extract)
				return a.Kind == "bool" && isE && e.Tuple == ssa.Value(lk) && e.Index == 1
			}
			keep := w.under(assumeAtom(okSel, true))
			good := false
			for _, r := range returnsUnder(f, keep) {
				good = allVals(valuesUnder(f, r.Results[0], keep), func(v ssa.Value) bool {
					b, ok := isLoadOf(v, "BackendWithParent.backend")
					if !ok {
						return false
					}
					e, isE := strip(b).(*ssa.Extract)
					return isE && e.Tuple == ssa.Value(lk) && e.Index == 0
				}) && allVals(valuesUnder(f, r.Results[1], keep), isNilConst)
			}
			c.check(good, rule, "getBackendOfResponse/address-hit", w.ipos(lk), "a response from a registered backend address is attributed to that backend", "a hit in p.backends[addr] does not return that entry's backend")
			// fallback: by client transaction in the pin table
			var gct, gb ssa.CallInstruction
			for _, cs := range w.callsIn(f, "(*Message).GetClientTransaction") {
				gct = cs.In
			}
			for _, cs := range w.callsIn(f, "(*DialogBasedBackend).GetBackend") {
				gb = cs.In
			}
			okFb := gct != nil && gb != nil && isResultOf(callArg(gb, 0), gct, 0) && w.requires(f, gb, okSel, false)
			c.check(okFb, rule, "getBackendOfResponse/transaction-fallback", w.pos(f.Pos()), "otherwise the backend that was sent the request of this transaction", "the fallback does not look the client transaction of the response up in the pin table")
		}
	}
	// SUBSCRIBE response bind
	if f := c.fn(rule, "(*Proxy).HandleMessage"); f != nil {
		var hop ssa.CallInstruction
		for _, cs := range w.callsIn(f, hopRespFn) {
			hop = cs.In
		}
		var gm ssa.CallInstruction
		for _, cs := range w.callsIn(f, "(*Message).GetMethod") {
			gm = cs.In
		}
		var bind ssa.CallInstruction
		for _, cs := range w.callsIn(f, "(*DialogBasedBackend).AddBackend") {
			bind = cs.In
		}
		if hop == nil || gm == nil || bind == nil {
			c.bad(rule, "HandleMessage/subscribe-bind", w.pos(f.Pos()), "the response branch does not bind SUBSCRIBE dialogs (AddBackend after the hop lookup under method == SUBSCRIBE)")
		} else {
			isSub := func(a Atom) bool { return a.Kind == "eqstr" && a.Str == "SUBSCRIBE" && isResultOf(a.X, gm, 0) }
			c.check(w.requires(f, bind, isSub, true) && w.requires(f, bind, errNil(gm), true), rule, "HandleMessage/subscribe-bind/method", w.ipos(bind), "only SUBSCRIBE responses bind here", "the bind in the response branch is not guarded by method == SUBSCRIBE")
			gd := w.resultOfCallTo(callArg(bind, 0), "(*Message).GetDialog", 0)
			okKey := gd != nil && isParam(f, callArg(gd, -1), 1) && w.requires(f, bind, errNil(gd), true)
			c.check(okKey, rule, "HandleMessage/subscribe-bind/dialog", w.ipos(bind), "the response's dialog is bound", "the key bound is not GetDialog(msg) of the handled response (with its error checked)")
			// backend = p.backends[host:port of the next hop].backend
			okB := false
			if b, ok := isLoadOf(callArg(bind, 1), "BackendWithParent.backend"); ok {
				if e, isE := strip(b).(*ssa.Extract); isE && e.Index == 0 {
					if lk, isLk := e.Tuple.(*ssa.Lookup); isLk && lk.CommaOk {
						if mb, isM := isLoadOf(lk.X, "Proxy.backends"); isM && isParam(f, mb, 0) {
							sv := w.evalStr(lk.Index, senv{}, 0)
							if len(sv.parts) == 3 && sv.parts[1].Lit == ":" && sv.parts[0].Leaf != nil && sv.parts[2].Leaf != nil &&
								isResultOf(sv.parts[0].Leaf, hop, 0) && isResultOf(sv.parts[2].Leaf, hop, 1) {
								okSel := func(a Atom) bool {
									ee, isEE := a.X.(*ssa.Extract)
									return a.Kind == "bool" && isEE && ee.Tuple == ssa.Value(lk) && ee.Index == 1
								}
								okB = w.requires(f, bind, okSel, true)
							}
						}
					}
				}
			}
			c.check(okB, rule, "HandleMessage/subscribe-bind/backend", w.ipos(bind), "bound to the backend registered under the next hop's host:port", "the SUBSCRIBE dialog is not bound to p.backends[next-hop host:port].backend under its ok")
			keep := w.under(w.assumeRequest(false), assumeAtom(isSub, true), assumeAtom(errNil(gm), true))
			_, mx, inf := countSites(entryPt(f), keep, isInstr(bind))
			c.check(mx == 1 && !inf, rule, "HandleMessage/subscribe-bind/once", w.ipos(bind), "at most once", "the SUBSCRIBE bind can execute more than once")
		}
	}
	// client transaction bind after a successful send
	if f := c.fn(rule, "(*Proxy).sendToBackend"); f != nil {
		var send ssa.CallInstruction
		for _, d := range w.dispatchSites(f) {
			send = d.In
		}
		var bind ssa.CallInstruction
		for _, cs := range w.callsIn(f, "(*DialogBasedBackend).AddBackend") {
			bind = cs.In
		}
		if send == nil || bind == nil {
			c.bad(rule, "sendToBackend/transaction-bind", w.pos(f.Pos()), "the client transaction is not bound to the chosen backend after the send")
		} else {
			gct := w.resultOfCallTo(callArg(bind, 0), "(*Message).GetClientTransaction", 0)
			good := gct != nil && isParam(f, callArg(gct, -1), 1) && strip(callArg(bind, 1)) == strip(send.Common().Value) &&
				w.requires(f, bind, errNil(send), true) && w.requires(f, bind, errNil(gct), true)
			c.check(good, rule, "sendToBackend/transaction-bind", w.ipos(bind), "transaction -> the backend that was sent the request, after a successful send", "the transaction bind is not AddBackend(GetClientTransaction(msg), the backend just used, ..) on the success edge of the send")
			if gct != nil {
				c.check(canReach(at(send), nil, isInstr(gct), nil) && !canReach(at(gct), nil, isInstr(send), nil), rule, "sendToBackend/transaction-after-via", w.ipos(gct), "the transaction id is read after the proxy's Via was pushed", "the transaction id is computed before the proxy's own Via/branch is added")
			}
		}
	}
	c.floor(rule, 11)
}

func c04KeyAgreement(c *Ctx) {
	w := c.w
	rule := "key-agreement"
	ops := map[string]string{"(*DialogBasedBackend).AddBackend": "put", "(*DialogBasedBackend).GetBackend": "get", "(*DialogBasedBackend).RemoveDialog": "remove"}
	seen := map[string]map[string]int{"GetDialog": {}, "GetClientTransaction": {}}
	n := 0
	for _, fn := range w.All {
		for _, cs := range w.callsIn(fn) {
			op, ok := ops[cs.Name]
			if !ok {
				continue
			}
			if namedOf(fn.Signature.Recv().Type()) == "DialogBasedBackend" {
				continue
			}
			n++
			c.Fns[w.fname(fn)] = true
			key := callArg(cs.In, 0)
			prod := ""
			for _, v := range phiLeaves(key) {
				p := ""
				if w.resultOfCallTo(v, "(*Message).GetDialog", 0) != nil {
					p = "GetDialog"
				} else if w.resultOfCallTo(v, "(*Message).GetClientTransaction", 0) != nil {
					p = "GetClientTransaction"
				}
				if p == "" || (prod != "" && prod != p) {
					prod = "mixed/other"
					break
				}
				prod = p
			}
			good := prod == "GetDialog" || prod == "GetClientTransaction"
			c.check(good, rule, fmt.Sprintf("%s/%s#%d", w.fname(fn), op, n), w.ipos(cs.In), "key produced by "+prod, "the pin table is accessed ("+op+") with key "+w.termKey(key)+" which is produced neither by GetDialog nor by GetClientTransaction: it can never agree with the keys used elsewhere")
			if good {
				seen[prod][op]++
			}
		}
	}
	for _, ns := range []string{"GetDialog", "GetClientTransaction"} {
		for _, op := range []string{"put", "get", "remove"} {
			c.check(seen[ns][op] > 0, rule, "namespace/"+ns+"/"+op, "-", ns+" keys have a "+op+" site", "no "+op+" site uses keys produced by "+ns+": entries of that namespace are never "+op)
		}
	}
	// backend address index: writer key GetAddress(), readers host:port
	if loop := c.fn(rule, "(*Proxy).receiveAndProcessMessage"); loop != nil {
		nw := 0
		eachInstr(loop, func(in ssa.Instruction) {
			var key ssa.Value
			switch x := in.(type) {
			case *ssa.MapUpdate:
				if _, isL := isLoadOf(x.Map, "Proxy.backends"); isL {
					key = x.Key
				}
			case *ssa.Call:
				if b, ok := x.Call.Value.(*ssa.Builtin); ok && b.Name() == "delete" {
					if _, isL := isLoadOf(x.Call.Args[0], "Proxy.backends"); isL {
						key = x.Call.Args[1]
					}
				}
			}
			if key == nil {
				return
			}
			nw++
			cc, _ := callOfResult(key)
			c.check(cc != nil && w.calleeName(cc) == "Backend.GetAddress", rule, fmt.Sprintf("loop/address-index-write#%d", nw), w.ipos(in), "index key = backend.GetAddress()", "the backend address index is written under "+w.termKey(key)+", not backend.GetAddress()")
		})
		c.check(nw == 2, rule, "loop/address-index-writes", w.pos(loop.Pos()), "add and remove maintain the index", fmt.Sprintf("expected an insert and a delete on p.backends in the loop, found %d", nw))
	}
	c.floor(rule, 14)
}

func c04Order(c *Ctx) {
	w := c.w
	rule := "order"
	ruleLookupBeforeForget(c, rule)
	f := c.fn(rule, "(*Proxy).receiveAndProcessMessage")
	if f == nil {
		return
	}
	hr := w.callsIn(f, "(*Proxy).handleRawMessage")
	hd := w.callsIn(f, "(*Proxy).handleDialog")
	hm := w.callsIn(f, "(*Proxy).HandleMessage")
	if len(hr) != 1 || len(hd) != 1 || len(hm) != 1 {
		c.bad(rule, "loop/steps", w.pos(f.Pos()), fmt.Sprintf("the message case must call handleRawMessage, handleDialog and HandleMessage once each (found %d, %d, %d)", len(hr), len(hd), len(hm)))
		return
	}
	r, d, m := hr[0].In, hd[0].In, hm[0].In
	c.check(mustPrecede(f, []ssa.Instruction{r}, d, nil) && mustPrecede(f, []ssa.Instruction{d}, m, nil), rule, "loop/raw-dialog-route", w.ipos(m), "learn/stamp, then pin bookkeeping, then routing", "the per-message steps are not ordered handleRawMessage -> handleDialog -> HandleMessage on every path")
	c.check(w.requires(f, d, errNil(r), true) && w.requires(f, m, errNil(r), true), rule, "loop/only-on-success", w.ipos(d), "bookkeeping and routing only for accepted messages", "handleDialog/HandleMessage run although handleRawMessage failed")
	// one pass through the case: from the raw step to the next select, each later step exactly once on success
	okKeep := w.under(assumeAtom(errNil(r), true))
	stop := func(b *ssa.BasicBlock, i int) bool {
		return okKeep(b, i) && b.Succs[i] != r.Block() && !isSelectBlock(b.Succs[i])
	}
	for _, s := range []ssa.CallInstruction{d, m} {
		mn, mx, inf := countSites(at(r), stop, isInstr(s))
		c.check(mn == 1 && mx == 1 && !inf, rule, "loop/"+w.calleeName(s)+"-once", w.ipos(s), "exactly once per accepted message", fmt.Sprintf("%s runs min=%d max=%d times per accepted message", w.calleeName(s), mn, mx))
	}
	// arguments: peer address/port of the same raw message, message returned by the raw step
	rawArg := strip(callArg(r, 0))
	a0, ok0 := isLoadOf(callArg(d, 0), "RawMessage.PeerAddr")
	a1, ok1 := isLoadOf(callArg(d, 1), "RawMessage.PeerPort")
	okArgs := ok0 && ok1 && strip(a0) == rawArg && strip(a1) == rawArg && isResultOf(callArg(d, 2), r, 0)
	if hf := w.Fn("(*Proxy).handleDialog"); hf != nil && rawMsgParam(hf) != nil && len(d.Common().Args) == 3 {
		// handleDialog(rawMsg, msg): the raw message itself (its peer fields are read inside, bind-sites) and the decoded one
		okArgs = strip(callArg(d, 0)) == rawArg && isResultOf(callArg(d, 1), r, 0)
	}
	c.check(okArgs, rule, "loop/handleDialog-args", w.ipos(d), "handleDialog(peer address, peer port, message) of the same raw message", "handleDialog is not given (rawMsg.PeerAddr, rawMsg.PeerPort, message returned by handleRawMessage)")
	c.check(isResultOf(callArg(m, 0), r, 0), rule, "loop/HandleMessage-arg", w.ipos(m), "the same message is routed", "HandleMessage is not given the message returned by handleRawMessage")
	// the raw message comes from msgChannel
	c.floor(rule, 6)
}

func isSelectBlock(b *ssa.BasicBlock) bool {
	for _, in := range b.Instrs {
		if _, ok := in.(*ssa.Select); ok {
			return true
		}
	}
	return false
}

func c04MethodGate(c *Ctx) {
	w := c.w
	rule := "method-gate"
	f := c.fn(rule, "(*Proxy).findBackendByDialog")
	if f == nil {
		return
	}
	var gm, gd, gb ssa.CallInstruction
	for _, cs := range w.callsIn(f, "(*Message).GetMethod") {
		gm = cs.In
	}
	for _, cs := range w.callsIn(f, "(*Message).GetDialog") {
		gd = cs.In
	}
	for _, cs := range w.callsIn(f, "(*DialogBasedBackend).GetBackend") {
		gb = cs.In
	}
	if gm == nil || gd == nil || gb == nil {
		c.bad(rule, "findBackendByDialog/shape", w.pos(f.Pos()), "findBackendByDialog must read the method, compute GetDialog(msg) and look it up in the pin table")
		return
	}
	c.check(isParam(f, callArg(gm, -1), 1) && isParam(f, callArg(gd, -1), 1) && isResultOf(callArg(gb, 0), gd, 0), rule, "findBackendByDialog/lookup-key", w.ipos(gb), "looks up GetDialog(msg) of the handled request", "the pin lookup is not GetBackend(GetDialog(msg)) for the handled request")
	b, okT := isLoadOf(callArg(gb, -1), "Proxy.dialogBasedBackends")
	c.check(okT && isParam(f, b, 0), rule, "findBackendByDialog/table", w.ipos(gb), "in the proxy's pin table", "the lookup uses another table")
	methodAtoms := map[string]bool{}
	for _, a := range w.atomsOf(f) {
		if a.Kind == "eqstr" && isResultOf(a.X, gm, 0) {
			// does it gate the lookup?
			k := a.Key
			if w.requires(f, gb, func(x Atom) bool { return x.Key == k }, false) {
				methodAtoms[a.Str] = true
			}
		}
	}
	keys := sortedKeys(methodAtoms)
	c.check(len(keys) == 0, rule, "findBackendByDialog/refused-methods", w.ipos(gb), "no method bypasses the pin lookup (a dialog-creating request has no To tag, so GetDialog fails for it and it is load-balanced on that ground)", fmt.Sprintf("requests of method %v bypass the pin lookup whatever dialog they belong to: a re-INVITE or refresh SUBSCRIBE of a pinned dialog (both tags present) is load-balanced instead of reaching the backend that answered the dialog", keys))
	// every request with a computable dialog reaches the lookup
	as := []assumption{assumeAtom(errNil(gm), true), assumeAtom(errNil(gd), true)}
	for _, m := range keys {
		m := m
		as = append(as, assumeAtom(func(a Atom) bool { return a.Kind == "eqstr" && a.Str == m && isResultOf(a.X, gm, 0) }, false))
	}
	mn, mx, inf := countSites(entryPt(f), w.under(as...), isInstr(gb))
	c.check(mn == 1 && mx == 1 && !inf, rule, "findBackendByDialog/every-other-method-looked-up", w.ipos(gb), "every request with a dialog identifier is looked up exactly once", fmt.Sprintf("for a request whose method and dialog identifier are available (outside the methods reported above) the lookup executes min=%d max=%d times", mn, mx))
	// results: backend and error of that lookup
	good := false
	for _, r := range returnsUnder(f, nil) {
		if !canReach(at(gb), nil, isInstr(r), nil) || len(r.Results) != 3 {
			continue
		}
		// the error handed out is the lookup's: that very value, or a nil constant on an edge taken only when the lookup
		// succeeded (`return backend, transport, nil` behind `if err != nil { return .., err }`)
		errOK := true
		for _, pr := range w.okPairs(f, r, r.Results[2]) {
			for _, v := range phiLeaves(pr.Val) {
				if isResultOf(v, gb, 1) {
					continue
				}
				if isNilConst(v) && w.requires(f, pr.At, errNil(gb), true) {
					continue
				}
				errOK = false
			}
		}
		good = allVals(phiLeaves(r.Results[0]), func(v ssa.Value) bool { return isResultOf(v, gb, 0) }) && errOK
	}
	c.check(good, rule, "findBackendByDialog/result", w.ipos(gb), "returns the lookup's backend and error", "after the lookup findBackendByDialog does not return (GetBackend's backend, .., GetBackend's error)")
	for _, call := range []ssa.CallInstruction{gm, gd} {
		ok, why := w.errPropagated(f, call)
		c.check(ok, rule, "findBackendByDialog/"+w.calleeName(call)+"-error", w.ipos(call), "no method / no dialog -> not pinned", "a failing "+w.calleeName(call)+" is not reported: "+why)
	}
	c.floor(rule, 7)
}

// ruleLookupBeforeForget: in getBackendOfResponse the pin of the response's client transaction is read before it is
// dropped: no RemoveDialog(transId) can be followed by the GetBackend(transId) that attributes the response.
func ruleLookupBeforeForget(c *Ctx, rule string) {
	w := c.w
	f := c.fn(rule, "(*Proxy).getBackendOfResponse")
	if f == nil {
		return
	}
	var gb ssa.CallInstruction
	for _, cs := range w.callsIn(f, "(*DialogBasedBackend).GetBackend") {
		gb = cs.In
	}
	if gb == nil {
		return // reported by transaction-fallback
	}
	good := true
	for _, cs := range w.callsIn(f, "(*DialogBasedBackend).RemoveDialog") {
		if canReach(at(cs.In), nil, isInstr(gb), nil) {
			good = false
		}
	}
	c.check(good, rule, "getBackendOfResponse/lookup-before-forget", w.ipos(gb), "the transaction pin is read before it is dropped", "the client-transaction pin is removed before it is looked up: a final response from an address that is not a registered backend (another source port, a backend removed by DNS) is no longer attributed to its backend, so its INVITE/SUBSCRIBE dialog is not bound and its BYE does not dissolve the pin")
}
