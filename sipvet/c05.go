package main

import (
	"fmt"
	"go/token"
	"strings"

	"golang.org/x/tools/go/ssa"
)

func init() {
	register(&propDef{ID: "C05", Run: runC05,
		Explain:    "Structural necessary conditions of 'unpinned requests rotate evenly over the backends registered right now', decided on SSA/CFG and must-hold locksets of /repo: (1) lockset: every access to RoundRobinBackend.index, .backends and .backendMap outside the constructor holds the pool mutex, and the mutating/selecting functions take it once at entry and release it only by defer (one critical section per operation); (2) paired-update: AddBackend appends one element, registers it under GetAddress() and notifies HandleBackendAdded(backend, pool), each exactly once on every path; RemoveBackend, when the address is registered, deletes exactly the list element whose GetAddress() equals the argument (delete-one under that equality only), deletes the map entry, closes that element and notifies HandleBackendRemoved, each exactly once, and does nothing otherwise; nobody else writes the three fields; (3) cursor: the only non-constructor store to index is (index + 1) % len(backends) with that length read in the same critical section and guarded > 0, and the advanced value is what getNextBackendIndex returns and what Send passes to the first getBackend; (4) selection: getBackend returns backends[i % n] with n = len(backends) of the same critical section, guarded n > 0; (5) empty: with no backend both helpers return an error and Send returns an error without calling any backend; (6) rotation-stable: outside AddBackend/RemoveBackend nothing may write into the backing array of the rotation (no sort/copy/in-place append on a view of it); (7) owned-socket: every connection a backend's Close() closes was created for that backend alone (fresh net.Dial*/Listen* result kept nowhere else). (membership-events, shared with C19): hostIPChanged applies every resolver notification in full - each added address becomes a backend, each vanished one is removed, both walks on every call - since AddBackend appends without looking and RemoveBackend deletes the first match.",
		NotDecided: "the counts floor(N/k)/ceil(N/k) themselves (they follow arithmetically from 3-4 between membership changes); the window between choosing a backend and writing to it while it is being removed."})
}

// rrLock: the pool's mutex - the one field of RoundRobinBackend whose type is sync.Mutex or sync.RWMutex (set by runC05)
var rrLock = "RoundRobinBackend.Mutex"

func runC05(c *Ctx) {
	rrLock = c.w.mutexClass("RoundRobinBackend", "RoundRobinBackend.Mutex")
	// with a read/write lock the mutating operations need the write lock (shared with C09)
	ruleReadLockWrites(c, "lockset")
	c05Lockset(c)
	c05Paired(c)
	c05Cursor(c)
	c05Selection(c)
	c05Empty(c)
	c05Stable(c)
	c05OwnedSocket(c)
	// a membership change racing with a dispatch must not deadlock the listener (rule "lock-order", shared with C09)
	c09LockOrder(c)
	// "with no backend registered the request is dropped without disturbing the proxy": no index of the pool's own
	// methods can be out of range, whatever the membership (the prover's obligations, shared with C08)
	c08PanicsIn(c, "empty", "(*RoundRobinBackend).")
	// "the current backends": AddBackend appends without looking, RemoveBackend deletes the first match - the rotation
	// is the current set, each member once, only if every resolver notification is applied in full (added addresses
	// added, vanished ones removed, on every call). A notification that is dropped leaves duplicates or ghosts behind
	// when the resolver reports the addresses again (rule "membership-events", shared with C19)
	c19HostIPChanged(c)
}

// c05Stable: between membership changes nobody reorders or overwrites the rotation: only AddBackend/RemoveBackend
// (and the constructor) may write into the backing array of RoundRobinBackend.backends.
func c05Stable(c *Ctx) {
	w := c.w
	rule := "rotation-stable"
	mutators := map[string]bool{"(*RoundRobinBackend).AddBackend": true, "(*RoundRobinBackend).RemoveBackend": true, "NewRoundRobinBackend": true}
	n := 0
	for _, fn := range w.All {
		if mutators[w.fname(fn)] {
			continue
		}
		hasLoad := false
		eachInstr(fn, func(in ssa.Instruction) {
			if u, ok := in.(*ssa.UnOp); ok && u.Op == token.MUL {
				if fa, ok := u.X.(*ssa.FieldAddr); ok && fieldRef(fa) == "RoundRobinBackend.backends" {
					hasLoad = true
				}
			}
		})
		if !hasLoad {
			continue
		}
		n++
		c.Fns[w.fname(fn)] = true
		ws := w.backingWrites(fn, "RoundRobinBackend.backends")
		if len(ws) == 0 {
			c.ok(rule, w.fname(fn), w.pos(fn.Pos()), "reads the rotation without writing into its backing array")
			continue
		}
		c.bad(rule, w.fname(fn), w.ipos(ws[0]), w.fname(fn)+" may write into the backing array of the live rotation (a view of rb.backends is sorted, copied into, or appended to in place): the order of the backends changes between two dispatches without a membership change, so k consecutive dispatches no longer reach each backend once")
	}
	if n < 4 {
		c.undecided(rule, "floor", "-", fmt.Sprintf("only %d readers of the rotation found (expected >= 4)", n))
	}
}

// c05OwnedSocket: a backend closes only what it owns. Every connection a Backend implementation closes in Close()
// is created for that backend alone (a fresh net.Dial*/net.Listen* result that is kept nowhere else), so removing one
// backend cannot take the socket of the backends still in the rotation.
func c05OwnedSocket(c *Ctx) {
	w := c.w
	rule := "owned-socket"
	n := 0
	for _, typ := range []string{"UDPBackend", "TCPBackend"} {
		cl := c.fn(rule, "(*"+typ+").Close")
		if cl == nil {
			continue
		}
		closed := map[string]bool{}
		for _, cs := range w.callsIn(cl) {
			if !strings.HasSuffix(cs.Name, ".Close") && !strings.HasSuffix(cs.Name, ").Close") {
				continue
			}
			recv := strip(callArg(cs.In, -1))
			for {
				// promoted method of an embedded library struct: (*net.conn).Close(&udpConn.conn)
				if fa, ok := recv.(*ssa.FieldAddr); ok && !w.isMainType(fa.X.Type()) {
					recv = strip(fa.X)
					continue
				}
				break
			}
			if ref, base := loadedField(recv); ref != "" && isParam(cl, base, 0) {
				closed[ref] = true
			}
		}
		for _, ref := range sortedKeys(closed) {
			for _, fn := range w.All {
				for _, st := range w.fieldStores(fn, ref) {
					n++
					c.Fns[w.fname(fn)] = true
					ok, why := w.freshSocket(st.Val, 0)
					c.check(ok, rule, fmt.Sprintf("%s/%s#%d", ref, w.fname(fn), n), w.ipos(st), "the connection closed by Close() is created for this backend alone",
						"the connection stored in "+ref+" is not created for this backend alone ("+why+"), but "+typ+".Close closes it: removing this backend breaks every other backend using the same connection")
				}
			}
		}
	}
	if n < 4 {
		c.undecided(rule, "floor", "-", fmt.Sprintf("only %d stores of backend connections found (expected >= 4)", n))
	}
	// a UDP backend is written to through an unconnected socket: ListenUDP + WriteToUDP(data, backendAddr). On a
	// connected socket (DialUDP + Write) the ICMP "port unreachable" answering one datagram makes the NEXT Write fail
	// without sending, so a backend that was down for one turn loses its following turn as well.
	for _, fn := range w.All {
		for _, st := range w.fieldStores(fn, "UDPBackend.udpConn") {
			cc, _ := callOfResult(st.Val)
			if cc == nil {
				continue // judged above
			}
			c.check(w.calleeName(cc) == "net.ListenUDP", rule, "UDPBackend.udpConn/unconnected@"+w.fname(fn), w.ipos(st), "the backend socket is unconnected (net.ListenUDP)", "the UDP backend's socket is created by "+w.calleeName(cc)+", not net.ListenUDP: on a connected socket an ICMP error for one datagram is reported by the next Write, which then sends nothing - a backend that was unreachable for one turn loses its next turn too")
		}
	}
	if f := c.fn(rule, "(*UDPBackend).Send"); f != nil {
		okW, nW := false, 0
		for _, cs := range w.callsIn(f) {
			if !strings.HasPrefix(cs.Name, "(*net.UDPConn).") && !strings.HasPrefix(cs.Name, "(*net.conn).") {
				continue
			}
			if !strings.Contains(cs.Name, "Write") {
				continue
			}
			nW++
			if cs.Name == "(*net.UDPConn).WriteToUDP" {
				if b, ok := isLoadOf(callArg(cs.In, 1), "UDPBackend.backendAddr"); ok && isParam(f, b, 0) {
					okW = true
				}
			}
		}
		c.check(okW && nW == 1, rule, "(*UDPBackend).Send/write-to", w.pos(f.Pos()), "one WriteToUDP(data, backendAddr)", "the UDP backend does not send with exactly one WriteToUDP(data, b.backendAddr) on its unconnected socket")
	}
}

func c05Lockset(c *Ctx) {
	w := c.w
	t := w.Threads()
	rule := "lockset"
	n := 0
	for _, fn := range w.All {
		eachInstr(fn, func(in ssa.Instruction) {
			fa, ok := in.(*ssa.FieldAddr)
			if !ok {
				return
			}
			ref := fieldRef(fa)
			if ref != "RoundRobinBackend.index" && ref != "RoundRobinBackend.backends" && ref != "RoundRobinBackend.backendMap" {
				return
			}
			if w.isFreshValue(fn, fa.X, 0) {
				return
			}
			for _, r := range *fa.Referrers() {
				if _, isDbg := r.(*ssa.DebugRef); isDbg {
					continue
				}
				n++
				c.Fns[w.fname(fn)] = true
				held := t.locksAt(r)
				c.check(held[rrLock], rule, fmt.Sprintf("%s/%s#%d", w.fname(fn), ref, n), w.ipos(r), "accessed under the pool mutex", ref+" is accessed without holding "+rrLock+" (held: "+fmtSet(held)+"): a dispatch racing with a membership change sees a torn list/cursor")
			}
		})
	}
	if n < 20 {
		c.undecided(rule, "floor", "-", fmt.Sprintf("only %d accesses to the pool's fields found (expected >= 20)", n))
	}
	// one critical section per operation
	for _, name := range []string{"(*RoundRobinBackend).AddBackend", "(*RoundRobinBackend).RemoveBackend", "(*RoundRobinBackend).getNextBackendIndex", "(*RoundRobinBackend).getBackend", "(*RoundRobinBackend).getBackendCount"} {
		f := c.fn(rule, name)
		if f == nil {
			continue
		}
		nLock, nUnlockPlain, nDefer := 0, 0, 0
		var firstLock ssa.Instruction
		eachInstr(f, func(in ssa.Instruction) {
			cs, ok := in.(ssa.CallInstruction)
			if !ok {
				return
			}
			cls, acq, ok := w.lockClass(cs)
			if !ok || cls != rrLock {
				return
			}
			_, isDefer := in.(*ssa.Defer)
			switch {
			case acq:
				nLock++
				if firstLock == nil {
					firstLock = in
				}
			case isDefer:
				nDefer++
			default:
				nUnlockPlain++
			}
		})
		good := nLock == 1 && nDefer == 1 && nUnlockPlain == 0 && firstLock != nil && firstLock.Block() == f.Blocks[0]
		if !good && nLock == 1 && nDefer == 0 && nUnlockPlain >= 1 && firstLock != nil && firstLock.Block() == f.Blocks[0] {
			// explicit unlocking: exactly one Unlock on every path from the Lock to a return (the lockset rule
			// already requires every access to the fields to happen while the lock is held)
			isUnlock := func(in ssa.Instruction) bool {
				cs, ok := in.(ssa.CallInstruction)
				if !ok {
					return false
				}
				cls, acq, ok := w.lockClass(cs)
				return ok && cls == rrLock && !acq
			}
			mn, mx, inf := countSites(at(firstLock), nil, isUnlock)
			good = mn == 1 && mx == 1 && !inf
		}
		c.check(good, rule, name+"/one-critical-section", w.pos(f.Pos()), "locks once at entry, unlocks once (by defer, or explicitly on every path)", fmt.Sprintf("%s does not run as one critical section (Lock sites %d, deferred Unlock %d, explicit Unlock %d): list, map, cursor and notification can be observed out of step by a racing dispatch", name, nLock, nDefer, nUnlockPlain))
	}
}

func c05Paired(c *Ctx) {
	c19NotifyCallers(c, "paired-update")
	w := c.w
	rule := "paired-update"
	if f := c.fn(rule, "(*RoundRobinBackend).AddBackend"); f != nil {
		be := func(v ssa.Value) bool { return isParam(f, v, 1) }
		var listSt ssa.Instruction
		for _, st := range w.fieldStores(f, "RoundRobinBackend.backends") {
			kind, elem, _ := classifyListStore(w, st.Val, "RoundRobinBackend.backends")
			if kind == "append-one" && be(elem) {
				listSt = st
			} else {
				c.bad(rule, "AddBackend/list-store", w.ipos(st), "the rotation list is not extended by exactly the new backend (append-one): "+kind)
			}
		}
		var mapUp ssa.Instruction
		eachInstr(f, func(in ssa.Instruction) {
			if mu, ok := in.(*ssa.MapUpdate); ok {
				if _, isL := isLoadOf(mu.Map, "RoundRobinBackend.backendMap"); isL {
					cc, _ := callOfResult(mu.Key)
					if cc != nil && w.calleeName(cc) == "Backend.GetAddress" && be(callArg(cc, -1)) && be(mu.Value) {
						mapUp = in
					} else {
						c.bad(rule, "AddBackend/map-key", w.ipos(in), "the new backend is not registered as backendMap[backend.GetAddress()] = backend")
					}
				}
			}
		})
		var notify ssa.Instruction
		for _, cs := range w.callsIn(f, "(*BackendChangeListenerMgr).HandleBackendAdded") {
			if be(callArg(cs.In, 0)) && isParam(f, callArg(cs.In, 1), 0) {
				notify = cs.In
			}
		}
		for _, x := range []struct {
			n  string
			in ssa.Instruction
		}{{"list-append", listSt}, {"map-insert", mapUp}, {"notify-added", notify}} {
			if x.in == nil {
				c.bad(rule, "AddBackend/"+x.n, w.pos(f.Pos()), "AddBackend lacks the step "+x.n+": list, address map and the proxy's backend index go out of step")
				continue
			}
			mn, mx, inf := countSites(entryPt(f), nil, isInstr(x.in))
			c.check(mn == 1 && mx == 1 && !inf, rule, "AddBackend/"+x.n, w.ipos(x.in), x.n+" exactly once on every path", fmt.Sprintf("%s executes min=%d max=%d times per AddBackend", x.n, mn, mx))
		}
	}
	if f := c.fn(rule, "(*RoundRobinBackend).RemoveBackend"); f != nil {
		addr := func(v ssa.Value) bool { return isParam(f, v, 1) }
		var lk *ssa.Lookup
		eachInstr(f, func(in ssa.Instruction) {
			if l, ok := in.(*ssa.Lookup); ok && l.CommaOk && addr(l.Index) {
				if _, isL := isLoadOf(l.X, "RoundRobinBackend.backendMap"); isL {
					lk = l
				}
			}
		})
		if lk == nil {
			c.bad(rule, "RemoveBackend/registered-test", w.pos(f.Pos()), "RemoveBackend does not test backendMap[address]")
			return
		}
		okSel := func(a Atom) bool {
			e, isE := a.X.(*ssa.Extract)
			return a.Kind == "bool" && isE && e.Tuple == ssa.Value(lk) && e.Index == 1
		}
		registered := w.under(assumeAtom(okSel, true))
		// list: delete-one at the range index of the element whose address equals the argument
		var loop *rangeLoop
		for _, rl := range rangeLoops(f) {
			if _, isL := isLoadOf(rl.Over, "RoundRobinBackend.backends"); isL {
				loop = rl
			}
		}
		sts := w.fieldStores(f, "RoundRobinBackend.backends")
		if loop == nil || len(sts) != 1 {
			c.bad(rule, "RemoveBackend/list-delete", w.pos(f.Pos()), "RemoveBackend must walk the rotation list and delete exactly one element")
		} else {
			st := sts[0]
			kind, _, pos := classifyListStore(w, st.Val, "RoundRobinBackend.backends")
			same := func(a Atom) bool { return false }
			// the position is the loop index itself, or a local that holds -1 until an iteration whose element matches
			// stores its index there (the deletion then runs after the walk, under position != -1)
			var found *ssa.Phi
			posOK := pos != nil && strip(pos) == strip(loop.Idx)
			sameReal := func(a Atom) bool {
				if a.Kind != "eq" {
					return false
				}
				m := func(x, y ssa.Value) bool {
					cc, _ := callOfResult(y)
					return addr(x) && cc != nil && w.calleeName(cc) == "Backend.GetAddress" && loop.isElem(callArg(cc, -1))
				}
				// or identity with the registered backend found under that address
				id := func(x, y ssa.Value) bool {
					e := extractOf(lk, 0)
					return e != nil && loop.isElem(x) && strip(y) == ssa.Value(e)
				}
				return m(a.X, a.Y) || m(a.Y, a.X) || id(a.X, a.Y) || id(a.Y, a.X)
			}
			same = sameReal
			if found == nil && pos != nil && !posOK {
				// evaluate the deferred-position form now that `same` is known
				if ph, ok := strip(pos).(*ssa.Phi); ok && !loop.inLoop(ph.Block()) {
					okPhi, nIdx := true, 0
					for i, e := range ph.Edges {
						if k, isK := constInt(e); isK && k == -1 {
							continue
						}
						if strip(e) == strip(loop.Idx) {
							nIdx++
							pred := ph.Block().Preds[i]
							if !w.requires(f, pred.Instrs[len(pred.Instrs)-1], same, true) {
								okPhi = false
							}
							continue
						}
						okPhi = false
					}
					if okPhi && nIdx > 0 {
						found = ph
					}
				}
			}
			c.check(kind == "delete-one" && (posOK || found != nil), rule, "RemoveBackend/list-delete-one", w.ipos(st), "delete-one at the matching position", "the list store is not backends = append(backends[0:i], backends[i+1:]...) at the index of the matching element ("+kind+")")
			if found != nil {
				// deferred form: the deletion runs after the walk exactly when a matching index was recorded, on no other condition
				hit := func(a Atom) bool { return a.Kind == "eqk" && a.K == -1 && strip(a.X) == ssa.Value(found) }
				c.check(w.requires(f, st, hit, false), rule, "RemoveBackend/list-delete-matching", w.ipos(st), "the element removed is the one whose address equals the argument", "the list deletion is not guarded by a recorded matching position")
				mn, mx, _ := countSites(blockStart(found.Block()), w.under(assumeAtom(hit, false)), isInstr(st))
				// the first match ends the walk (break) so the recorded index is that of the first matching element
				ends := !canReach(blockStart(loop.Body), w.under(assumeAtom(same, true)), func(in ssa.Instruction) bool { return in.Block() == loop.Header }, nil)
				c.check(mn == 1 && mx == 1 && ends, rule, "RemoveBackend/list-delete-unconditional", w.ipos(st), "a matching element is always removed from the list", fmt.Sprintf("after a match the list deletion executes min=%d max=%d times (walk ends at the match: %v): an extra condition leaves a removed backend in the rotation", mn, mx, ends))
				nClose := 0
				for _, cs := range w.callsIn(f, "Backend.Close") {
					recv := strip(cs.In.Common().Value)
					okRecv := recv == ssa.Value(extractOf(lk, 0))
					if a, ok := isDeref(recv); ok {
						if ia, ok := a.(*ssa.IndexAddr); ok && strip(ia.Index) == ssa.Value(found) {
							if _, isL := isLoadOf(ia.X, "RoundRobinBackend.backends"); isL {
								okRecv = true
							}
						}
					}
					if okRecv {
						nClose++
						mn, mx, _ := countSites(blockStart(found.Block()), w.under(assumeAtom(hit, false)), isInstr(cs.In))
						// closed before the element is cut out of the list
						c.check(mn == 1 && mx == 1 && (recv == ssa.Value(extractOf(lk, 0)) || mustPrecede(f, []ssa.Instruction{cs.In}, st, nil)), rule, "RemoveBackend/close", w.ipos(cs.In), "the removed backend is closed", fmt.Sprintf("the removed backend is closed min=%d max=%d times", mn, mx))
					}
				}
				c.check(nClose == 1, rule, "RemoveBackend/close-site", w.pos(f.Pos()), "one Close site for the removed element", fmt.Sprintf("expected one Close of the removed backend, found %d", nClose))
			}
			if found == nil {
				c.check(w.requires(f, st, same, true), rule, "RemoveBackend/list-delete-matching", w.ipos(st), "the element removed is the one whose address equals the argument", "the list deletion is not guarded by address == element.GetAddress()")
				// nothing else may suppress the deletion of a matching element
				inIter := w.under(assumeAtom(same, true))
				mn, mx, _ := countSites(blockStart(loop.Body), func(b *ssa.BasicBlock, i int) bool { return inIter(b, i) && b != loop.Header }, isInstr(st))
				c.check(mn == 1 && mx == 1, rule, "RemoveBackend/list-delete-unconditional", w.ipos(st), "a matching element is always removed from the list", fmt.Sprintf("for the matching element the list deletion executes min=%d max=%d times: an extra condition leaves a removed backend in the rotation", mn, mx))
				// Close of that element
				nClose := 0
				for _, cs := range w.callsIn(f, "Backend.Close") {
					if loop.isElem(cs.In.Common().Value) || strip(cs.In.Common().Value) == ssa.Value(extractOf(lk, 0)) {
						nClose++
						mn, mx, _ := countSites(blockStart(loop.Body), func(b *ssa.BasicBlock, i int) bool { return inIter(b, i) && b != loop.Header }, isInstr(cs.In))
						if strip(cs.In.Common().Value) == ssa.Value(extractOf(lk, 0)) {
							mn, mx, _ = countSites(at(lk), registered, isInstr(cs.In))
						}
						c.check(mn == 1 && mx == 1, rule, "RemoveBackend/close", w.ipos(cs.In), "the removed backend is closed", fmt.Sprintf("the removed backend is closed min=%d max=%d times", mn, mx))
					}
				}
				c.check(nClose == 1, rule, "RemoveBackend/close-site", w.pos(f.Pos()), "one Close site for the removed element", fmt.Sprintf("expected one Close of the removed backend, found %d", nClose))
			}
		}
		// map delete and notification exactly once when registered
		var del, notify ssa.Instruction
		for _, cs := range w.callsIn(f, "builtin:delete") {
			if _, isL := isLoadOf(cs.In.Common().Args[0], "RoundRobinBackend.backendMap"); isL && addr(cs.In.Common().Args[1]) {
				del = cs.In
			}
		}
		for _, cs := range w.callsIn(f, "(*BackendChangeListenerMgr).HandleBackendRemoved") {
			e := extractOf(lk, 0)
			if e != nil && strip(callArg(cs.In, 0)) == ssa.Value(e) && isParam(f, callArg(cs.In, 1), 0) {
				notify = cs.In
			}
		}
		for _, x := range []struct {
			n  string
			in ssa.Instruction
		}{{"map-delete", del}, {"notify-removed", notify}} {
			if x.in == nil {
				c.bad(rule, "RemoveBackend/"+x.n, w.pos(f.Pos()), "RemoveBackend lacks the step "+x.n+" (with the registered backend and this pool as arguments)")
				continue
			}
			mn, mx, inf := countSites(at(lk), registered, isInstr(x.in))
			c.check(mn == 1 && mx == 1 && !inf, rule, "RemoveBackend/"+x.n, w.ipos(x.in), x.n+" exactly once when the address is registered", fmt.Sprintf("for a registered address %s executes min=%d max=%d times: the proxy keeps recognising (or never learns about) the removed backend", x.n, mn, mx))
			c.check(w.requires(f, x.in, okSel, true), rule, "RemoveBackend/"+x.n+"-only-registered", w.ipos(x.in), "nothing happens for an unknown address", x.n+" happens for an address that is not registered")
		}
	}
	// who may write
	allowed := map[string]bool{"(*RoundRobinBackend).AddBackend": true, "(*RoundRobinBackend).RemoveBackend": true, "(*RoundRobinBackend).getNextBackendIndex": true, "NewRoundRobinBackend": true}
	t := w.Threads()
	for _, s := range t.Subjects() {
		if s.Name != "RoundRobinBackend.backends" && s.Name != "RoundRobinBackend.backendMap" {
			continue
		}
		for _, a := range s.Accesses {
			if a.Write {
				c.check(allowed[w.fname(a.Fn)], rule, "writers/"+s.Name+"<-"+w.fname(a.Fn), w.ipos(a.In), "written by a membership operation", s.Name+" is written by "+w.fname(a.Fn))
			}
		}
	}
	for _, fn := range w.All {
		for _, st := range w.fieldStores(fn, "RoundRobinBackend.index") {
			name := w.fname(fn)
			okW := name == "(*RoundRobinBackend).getNextBackendIndex" || name == "NewRoundRobinBackend"
			if !okW && (name == "(*RoundRobinBackend).AddBackend" || name == "(*RoundRobinBackend).RemoveBackend") {
				// a membership change may restart the rotation, nothing else
				k, isK := constInt(st.Val)
				okW = isK && k == 0
			}
			c.check(okW, rule, "writers/RoundRobinBackend.index<-"+name, w.ipos(st), "written by the cursor function, the constructor, or reset to 0 by a membership change", "the cursor is written by "+name+" with "+w.termKey(st.Val))
		}
	}
	c.floor(rule, 14)
}

func c05Cursor(c *Ctx) {
	w := c.w
	rule := "cursor"
	f := c.fn(rule, "(*RoundRobinBackend).getNextBackendIndex")
	if f == nil {
		return
	}
	sts := w.fieldStores(f, "RoundRobinBackend.index")
	if len(sts) != 1 {
		c.bad(rule, "getNextBackendIndex/store", w.pos(f.Pos()), fmt.Sprintf("expected exactly one cursor store, found %d", len(sts)))
		return
	}
	st := sts[0]
	// (index + 1) % len(backends)
	good := false
	var lenV ssa.Value
	if rem, ok := strip(st.Val).(*ssa.BinOp); ok && rem.Op == token.REM {
		if x, isLen := lenOf(rem.Y); isLen {
			if _, isL := isLoadOf(x, "RoundRobinBackend.backends"); isL {
				lenV = strip(rem.Y)
				if add, ok := strip(rem.X).(*ssa.BinOp); ok && add.Op == token.ADD {
					k, isK := constInt(add.Y)
					_, isIdx := isLoadOf(add.X, "RoundRobinBackend.index")
					if !isK {
						k, isK = constInt(add.X)
						_, isIdx = isLoadOf(add.Y, "RoundRobinBackend.index")
					}
					good = isK && k == 1 && isIdx
				}
			}
		}
	}
	c.check(good, rule, "getNextBackendIndex/advance-by-one-mod-n", w.ipos(st), "index = (index + 1) % len(backends)", "the cursor is advanced as "+w.termKey(st.Val)+", expected (rb.index + 1) % len(rb.backends): the rotation skips or repeats backends")
	if lenV != nil {
		pos := func(a Atom) bool { return a.Kind == "ltk" && a.K == 1 && strip(a.X) == lenV }
		c.check(w.requires(f, st, pos, false), rule, "getNextBackendIndex/non-empty-guard", w.ipos(st), "advanced only with at least one backend", "the cursor is advanced without the guard len(backends) > 0 (modulo by zero panics)")
	}
	// returned value on success = the advanced cursor
	okRet := false
	for _, r := range returnsUnder(f, nil) {
		if !canReach(at(st), nil, isInstr(r), nil) {
			continue
		}
		v := strip(r.Results[0])
		if v == strip(st.Val) {
			okRet = true
		} else if _, isL := isLoadOf(v, "RoundRobinBackend.index"); isL {
			// a load after the store (strip forwards the result cell to the stored load)
			if ld, ok := v.(ssa.Instruction); ok && canReach(at(st), nil, isInstr(ld), nil) && !canReach(at(ld), nil, isInstr(st), nil) {
				okRet = true
			}
		}
		c.check(allVals(phiLeaves(r.Results[1]), isNilConst), rule, "getNextBackendIndex/success-no-error", w.ipos(r), "no error with backends present", "an error is returned although a backend exists")
	}
	c.check(okRet, rule, "getNextBackendIndex/returns-advanced-cursor", w.ipos(st), "the advanced cursor is returned", "getNextBackendIndex does not return the cursor value it has just advanced to (it hands out the previous position)")
	// Send: first getBackend gets that result
	if s := c.fn(rule, "(*RoundRobinBackend).Send"); s != nil {
		var gn, gb ssa.CallInstruction
		for _, cs := range w.callsIn(s, "(*RoundRobinBackend).getNextBackendIndex") {
			gn = cs.In
		}
		for _, cs := range w.callsIn(s, "(*RoundRobinBackend).getBackend") {
			gb = cs.In
		}
		if gn == nil || gb == nil {
			c.bad(rule, "Send/steps", w.pos(s.Pos()), "Send must advance the cursor (getNextBackendIndex) and select with getBackend")
		} else {
			first := false
			others := true
			for _, v := range phiLeaves(callArg(gb, 0)) {
				if isResultOf(v, gn, 0) {
					first = true
				} else if b, ok := v.(*ssa.BinOp); !(ok && b.Op == token.ADD) {
					others = false
				}
			}
			c.check(first && others, rule, "Send/selects-at-cursor", w.ipos(gb), "selection starts at the advanced cursor", "getBackend is not first given the index returned by getNextBackendIndex")
			mn, mx, _ := countSites(entryPt(s), nil, isInstr(gn))
			c.check(mn == 1 && mx == 1, rule, "Send/advance-once-per-dispatch", w.ipos(gn), "the cursor advances exactly once per dispatch", fmt.Sprintf("the cursor is advanced min=%d max=%d times per dispatch", mn, mx))
			c.check(isParam(s, callArg(gn, -1), 0) && isParam(s, callArg(gb, -1), 0), rule, "Send/own-pool", w.ipos(gn), "operates on its own pool", "Send uses another pool's cursor")
		}
	}
	c.floor(rule, 6)
}

func c05Selection(c *Ctx) {
	w := c.w
	rule := "selection"
	f := c.fn(rule, "(*RoundRobinBackend).getBackend")
	if f == nil {
		return
	}
	n := 0
	for _, r := range returnsUnder(f, nil) {
		for _, v := range phiLeaves(r.Results[0]) {
			if isNilConst(v) {
				continue
			}
			n++
			good := false
			var lenV ssa.Value
			if a, ok := isDeref(v); ok {
				if ia, ok := a.(*ssa.IndexAddr); ok {
					if _, isL := isLoadOf(ia.X, "RoundRobinBackend.backends"); isL {
						if rem, ok := strip(ia.Index).(*ssa.BinOp); ok && rem.Op == token.REM && isParam(f, rem.X, 1) {
							if x, isLen := lenOf(rem.Y); isLen {
								if _, isL2 := isLoadOf(x, "RoundRobinBackend.backends"); isL2 {
									good = true
									lenV = strip(rem.Y)
								}
							}
						}
					}
				}
			}
			c.check(good, rule, fmt.Sprintf("getBackend/result#%d", n), w.ipos(r), "returns backends[index % len(backends)]", "getBackend returns "+w.termKey(v)+", expected rb.backends[index % len(rb.backends)] with the length read under the same lock (an index past a shrunken list panics)")
			if lenV != nil {
				pos := func(a Atom) bool { return a.Kind == "ltk" && a.K == 1 && strip(a.X) == lenV }
				c.check(w.requires(f, r, pos, false), rule, fmt.Sprintf("getBackend/non-empty#%d", n), w.ipos(r), "selects only from a non-empty list", "the selection is not guarded by len(backends) > 0")
			}
		}
	}
	c.check(n == 1, rule, "getBackend/one-selection", w.pos(f.Pos()), "one selecting path", fmt.Sprintf("%d selecting paths", n))
	c.floor(rule, 3)
}

func c05Empty(c *Ctx) {
	w := c.w
	rule := "empty"
	for _, name := range []string{"(*RoundRobinBackend).getNextBackendIndex", "(*RoundRobinBackend).getBackend"} {
		f := c.fn(rule, name)
		if f == nil {
			continue
		}
		empty := func(a Atom) bool {
			if a.Kind != "ltk" || a.K != 1 {
				return false
			}
			x, ok := lenOf(a.X)
			if !ok {
				return false
			}
			_, isL := isLoadOf(x, "RoundRobinBackend.backends")
			return isL
		}
		keep := w.under(assumeAtom(empty, true))
		good := false
		for _, r := range returnsUnder(f, keep) {
			good = allVals(valuesUnder(f, r.Results[1], keep), w.isFreshError)
			if !good {
				break
			}
		}
		c.check(good, rule, name+"/empty-is-error", w.pos(f.Pos()), "no backend -> error", name+" does not return an error when the rotation is empty")
	}
	if s := c.fn(rule, "(*RoundRobinBackend).Send"); s != nil {
		var gn ssa.CallInstruction
		for _, cs := range w.callsIn(s, "(*RoundRobinBackend).getNextBackendIndex") {
			gn = cs.In
		}
		if gn != nil {
			fail := w.under(assumeAtom(errNil(gn), false))
			wit := reachWitness(at(gn), fail, inSet(siteInstrs(w.dispatchSites(s))), nil)
			c.check(wit == nil, rule, "Send/no-dispatch-when-empty", w.ipos(gn), "nothing is sent when the rotation is empty", "a backend Send is reachable although no backend is registered")
			good := false
			for _, r := range returnsUnder(s, fail) {
				if canReach(at(gn), fail, isInstr(r), nil) {
					good = allVals(valuesUnder(s, r.Results[0], fail), func(v ssa.Value) bool { return w.isFreshError(v) || isResultOf(v, gn, 1) })
					if !good {
						break
					}
				}
			}
			c.check(good, rule, "Send/empty-is-error", w.ipos(gn), "an empty rotation is reported as an error", "Send does not return an error when no backend is registered")
		}
		// the backend actually used is the one selected
		for _, d := range w.dispatchSites(s) {
			var gb ssa.CallInstruction
			for _, cs := range w.callsIn(s, "(*RoundRobinBackend).getBackend") {
				gb = cs.In
			}
			c.check(gb != nil && isResultOf(d.In.Common().Value, gb, 0) && w.requires(s, d.In, errNil(gb), true), rule, "Send/uses-selected-backend", w.ipos(d.In), "the message goes to the selected backend", "Send does not send to the backend returned by getBackend (on its success edge)")
		}
	}
	c.floor(rule, 5)
}
