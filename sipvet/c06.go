package main

import (
	"fmt"
	"strings"

	"golang.org/x/tools/go/ssa"
)

func init() {
	register(&propDef{ID: "C06", Run: runC06,
		Explain:    "Structural necessary conditions of 'one fresh top Via, Record-Route by policy', decided on SSA/CFG/value flow of /repo: (1) insert-once: on the backend path addVia and addRecordRoute execute exactly once each on every path reaching backend.Send, before it, on the handled message and with one and the same transport value; on the routed path both are guarded by the ok of selfLearnRoute.GetRoute(dispatch host), take that lookup's transport, execute exactly once before sendMessage when learned and are unreachable otherwise; no other call sites exist; (2) via-content: CreateViaParam(transport.GetProtocol(), GetAddress(), GetPort()) of that transport with SIP/2.0 constants, SetBranch with result 0 of CreateBranch(), whose success value is the literal z9hG4bK followed by text derived from uuid.NewRandom(); one AddViaParam, one msg.AddVia of that Via, nothing inserted when the branch cannot be created; (3) via-position: AddVia is insert-one of a header named Via at findViaInsertPos(), which returns the index of the first header the comparator matches with Via, else 0; (4) rr-policy: AddRecordRoute is reached exactly when the message already has a Record-Route (by comparator lookup) or mustRecordRoute is set; mustRecordRoute's only root is the YAML option must-record-route; (5) rr-content: scheme sip, host/port from the same transport, parameter lr without value, empty display name, one AddRecRoute, insert-one of a header named Record-Route at the first Record-Route position; (6) learning: for requests not coming from a backend address the source address and the host of every Via entry of every Via header line are learned for the receiving transport. The table of learnt routes (learn-table) is created once per startProxy call, outside its loop over the listens. comparator-internals (shared with C17): 'on top' is relative to the Via lines the header comparator recognises, so isSameHeader must answer true on every case spelling of the long and compact name.",
		NotDecided: "branch freshness as a probability statement; addVia's ignored error (uuid failure relays without Via)."})
}

func runC06(c *Ctx) {
	c06InsertOnce(c)
	c06ViaContent(c)
	c06Position(c)
	// "on top" is relative to the Via lines that are found: findViaInsertPos and the Via walk recognise them through
	// isSameHeader only, so a comparator that misses one spelling ("V:") puts the new entry beneath that line
	// (rule shared with C17; seeded change C06-r11m1)
	c17Internals(c)
	c06RRPolicy(c)
	c06RRContent(c)
	c06Learning(c)
	// the learned table is written under the Via host / packet source and read under the Route URI host: both must be
	// the text as received (rule shared with C01/C14)
	rulePureCapture(c, "pure-capture")
	// every Via entry already present is decoded or the whole header is left alone: a decoder that skips an entry it cannot
	// read re-encodes the stack without it (rule shared with C14)
	c14DecoderErrors(c, "ParseVia", "parseViaParam")
}

func c06InsertOnce(c *Ctx) {
	w := c.w
	rule := "insert-once"
	// backend path
	if f := c.fn(rule, "(*Proxy).sendToBackend"); f != nil {
		avs := w.callsIn(f, "(*Proxy).addVia")
		ars := w.callsIn(f, "(*Proxy).addRecordRoute")
		var sends []ssa.Instruction
		for _, d := range w.dispatchSites(f) {
			sends = append(sends, d.In)
		}
		if len(avs) != 1 || len(ars) != 1 || len(sends) != 1 {
			c.bad(rule, "sendToBackend/sites", w.pos(f.Pos()), fmt.Sprintf("expected one addVia, one addRecordRoute and one Send site on the backend path, found %d, %d, %d", len(avs), len(ars), len(sends)))
		} else {
			av, ar, sd := avs[0].In, ars[0].In, sends[0]
			for _, x := range []struct {
				n  string
				in ssa.CallInstruction
			}{{"addVia", av}, {"addRecordRoute", ar}} {
				c.check(mustPrecede(f, []ssa.Instruction{x.in}, sd, nil), rule, "sendToBackend/"+x.n+"-before-send", w.ipos(x.in), x.n+" precedes the send on every path", "a path reaches backend.Send without "+x.n+" (the request leaves without the proxy's own entry)")
				_, mx, inf := countSites(entryPt(f), nil, isInstr(x.in))
				c.check(mx == 1 && !inf, rule, "sendToBackend/"+x.n+"-once", w.ipos(x.in), x.n+" at most once", fmt.Sprintf("%s can execute %d times (loop=%v)", x.n, mx, inf))
				c.check(!canReach(at(sd), nil, isInstr(x.in), nil), rule, "sendToBackend/"+x.n+"-not-after-send", w.ipos(x.in), "nothing is inserted after the send", x.n+" is reachable after the send")
				c.check(isParam(f, callArg(x.in, 0), 1), rule, "sendToBackend/"+x.n+"-message", w.ipos(x.in), "applied to the handled message", x.n+" is applied to another message")
			}
			c.check(strip(callArg(av, 1)) == strip(callArg(ar, 1)), rule, "sendToBackend/same-transport", w.ipos(ar), "Via and Record-Route name the same listener transport", "addVia and addRecordRoute are given different transports: the Record-Route would name another listener than the Via")
			// transport provenance: pinned transport or the backend item's first transport
			okT := true
			for _, v := range phiLeaves(callArg(av, 1)) {
				if cc, idx := callOfResult(v); cc != nil && w.calleeName(cc) == "(*Proxy).findBackendByDialog" && idx == 1 {
					continue
				}
				if a, ok := isDeref(v); ok {
					if ia, ok := a.(*ssa.IndexAddr); ok {
						if _, isL := isLoadOf(ia.X, "ProxyItem.transports"); isL {
							if k, isK := constInt(ia.Index); isK && k == 0 {
								continue
							}
						}
					}
				}
				okT = false
			}
			c.check(okT, rule, "sendToBackend/transport-provenance", w.ipos(av), "transport = the pinned backend's listener or the service's first listener", "the transport named in the inserted Via is "+describe(w, phiLeaves(callArg(av, 1))))
		}
	}
	// routed path
	if f := c.fn(rule, "(*Proxy).HandleMessage"); f != nil {
		req := w.assumeRequest(true)
		var hop ssa.CallInstruction
		for _, h := range w.callsIn(f, hopReqFn) {
			hop = h.In
		}
		var gr ssa.CallInstruction
		for _, cs := range w.callsIn(f, "(*SelfLearnRoute).GetRoute") {
			gr = cs.In
		}
		var sm ssa.CallInstruction
		for _, cs := range w.callsIn(f, "(*Proxy).sendMessage") {
			if hop != nil && isResultOf(callArg(cs.In, 0), hop, 0) {
				sm = cs.In
			}
		}
		if hop == nil || gr == nil || sm == nil {
			c.bad(rule, "HandleMessage/routed-path", w.pos(f.Pos()), "the routed path must look the dispatch host up in the self-learned routes before sendMessage")
		} else {
			b, okB := isLoadOf(callArg(gr, -1), "Proxy.selfLearnRoute")
			c.check(isResultOf(callArg(gr, 0), hop, 0) && okB && isParam(f, b, 0), rule, "HandleMessage/learned-lookup-key", w.ipos(gr), "learned route looked up for the dispatch host", "selfLearnRoute.GetRoute is not keyed by the host the request is about to be sent to")
			okSel := func(a Atom) bool { return a.Kind == "bool" && isResultOf(a.X, gr, 1) }
			learned := w.under(req, assumeAtom(errNil(hop), true), assumeAtom(okSel, true))
			unlearned := w.under(req, assumeAtom(errNil(hop), true), assumeAtom(okSel, false))
			for _, name := range []string{"(*Proxy).addVia", "(*Proxy).addRecordRoute"} {
				sites := w.callsIn(f, name)
				short := strings.TrimPrefix(name, "(*Proxy).")
				if len(sites) != 1 {
					c.bad(rule, "HandleMessage/"+short, w.pos(f.Pos()), fmt.Sprintf("expected one %s site on the routed path, found %d", short, len(sites)))
					continue
				}
				s := sites[0].In
				c.check(w.requires(f, s, okSel, true) && w.requires(f, s, errNil(hop), true), rule, "HandleMessage/"+short+"-only-when-learned", w.ipos(s), short+" only when the next hop is reachable through a learned listener", short+" is reachable although the next hop was not learned (or no hop exists)", "guard: ok of selfLearnRoute.GetRoute(host)")
				mn, mx, inf := countSites(at(gr), learned, isInstr(s))
				c.check(mn == 1 && mx == 1 && !inf, rule, "HandleMessage/"+short+"-once-when-learned", w.ipos(s), short+" exactly once when learned", fmt.Sprintf("when learned %s executes min=%d max=%d times", short, mn, mx))
				c.check(mustPrecede(f, []ssa.Instruction{s}, sm, learned), rule, "HandleMessage/"+short+"-before-send", w.ipos(s), "inserted before the send", "when learned, sendMessage is reachable before "+short)
				c.check(!canReach(at(gr), unlearned, isInstr(s), nil), rule, "HandleMessage/"+short+"-never-when-unlearned", w.ipos(s), "not inserted when unlearned", short+" is reachable when the next hop is not learned")
				c.check(isResultOf(callArg(s, 1), gr, 0), rule, "HandleMessage/"+short+"-transport", w.ipos(s), "names the learned listener", short+" is given "+w.termKey(callArg(s, 1))+" instead of the listener returned by the learned-route lookup: the entry names another listener than the one the next hop is reached through")
				c.check(isParam(f, callArg(s, 0), 1), rule, "HandleMessage/"+short+"-message", w.ipos(s), "applied to the handled message", short+" is applied to another message")
			}
		}
	}
	// no other call sites
	for _, name := range []string{"(*Proxy).addVia", "(*Proxy).addRecordRoute"} {
		if fn := w.Fn(name); fn != nil {
			if node := w.CG.Nodes[fn]; node != nil {
				for _, e := range node.In {
					cn := w.fname(e.Caller.Func)
					c.check(cn == "(*Proxy).sendToBackend" || cn == "(*Proxy).HandleMessage", rule, name+"<-"+cn, w.ipos(e.Site), "called from a relaying path", name+" is called from "+cn)
				}
			}
		}
	}
	c.floor(rule, 20)
}

func c06ViaContent(c *Ctx) {
	w := c.w
	rule := "via-content"
	f := c.fn(rule, "(*Proxy).addVia")
	if f == nil {
		return
	}
	tr := func(v ssa.Value) bool { return isParam(f, v, 2) }
	var cv, cb, sb, nv, avp, av ssa.CallInstruction
	for _, cs := range w.callsIn(f) {
		switch cs.Name {
		case "CreateViaParam":
			cv = cs.In
		case "CreateBranch":
			cb = cs.In
		case "(*ViaParam).SetBranch":
			sb = cs.In
		case "NewVia":
			nv = cs.In
		case "(*Via).AddViaParam":
			avp = cs.In
		case "(*Message).AddVia":
			av = cs.In
		}
	}
	if cv == nil || cb == nil || sb == nil || nv == nil || avp == nil || av == nil {
		c.bad(rule, "addVia/steps", w.pos(f.Pos()), "addVia must CreateViaParam, CreateBranch, SetBranch, NewVia, AddViaParam and msg.AddVia")
		return
	}
	want := []string{"ServerTransport.GetProtocol", "ServerTransport.GetAddress", "ServerTransport.GetPort"}
	okArgs := true
	for i, n := range want {
		cc, _ := callOfResult(callArg(cv, i))
		if cc == nil || w.calleeName(cc) != n || !tr(callArg(cc, -1)) {
			okArgs = false
		}
	}
	c.check(okArgs, rule, "addVia/sent-by", w.ipos(cv), "Via names the transport's protocol, address and port", "the new Via entry is not built from (GetProtocol(), GetAddress(), GetPort()) of the given listener transport, in this order")
	c.check(isResultOf(callArg(sb, -1), cv, 0) && isResultOf(callArg(sb, 0), cb, 0), rule, "addVia/branch", w.ipos(sb), "branch = fresh CreateBranch() value", "the branch set on the new entry is not result 0 of CreateBranch() (or is set on another entry)")
	c.check(isResultOf(callArg(avp, -1), nv, 0) && isResultOf(callArg(avp, 0), cv, 0), rule, "addVia/one-entry", w.ipos(avp), "the new Via holds exactly the new entry", "the new Via header does not hold exactly the new entry")
	c.check(isResultOf(callArg(av, 0), nv, 0) && isParam(f, callArg(av, -1), 1), rule, "addVia/inserted", w.ipos(av), "the new Via is inserted into the message", "msg.AddVia is not given the new Via on the handled message")
	ok := w.under(assumeAtom(errNil(cb), true))
	for _, s := range []ssa.CallInstruction{sb, avp, av} {
		mn, mx, inf := countSites(entryPt(f), ok, isInstr(s))
		c.check(mn == 1 && mx == 1 && !inf, rule, "addVia/"+w.calleeName(s)+"-once", w.ipos(s), "exactly once", fmt.Sprintf("%s executes min=%d max=%d times per addVia", w.calleeName(s), mn, mx))
	}
	c.check(w.requires(f, av, errNil(cb), true) && mustPrecede(f, []ssa.Instruction{sb}, av, nil), rule, "addVia/branch-before-insert", w.ipos(av), "inserted only with a branch set", "the Via can be inserted without a freshly created branch")
	// CreateViaParam constants
	if cvf := c.fn(rule, "CreateViaParam"); cvf != nil {
		got := map[string]string{}
		for _, st := range storesIn(cvf) {
			if fa, ok := st.Addr.(*ssa.FieldAddr); ok {
				got[fieldRef(fa)] = w.termKey(st.Val)
			}
		}
		good := got["ViaParam.ProtocolName"] == `"SIP"` && got["ViaParam.ProtocolVersion"] == `"2.0"` && got["ViaParam.Transport"] == "param:transport" && got["ViaParam.Host"] == "param:host" && got["ViaParam.port"] == "param:port"
		c.check(good, rule, "CreateViaParam/fields", w.pos(cvf.Pos()), "SIP/2.0/<transport> <host>:<port>", fmt.Sprintf("CreateViaParam fills %v", got))
	}
	// CreateBranch
	if bf := c.fn(rule, "CreateBranch"); bf != nil {
		good, nr, why := w.randomText(bf, "z9hG4bK", 0)
		if nr == nil {
			c.bad(rule, "CreateBranch/source", w.pos(bf.Pos()), "CreateBranch does not draw from uuid.NewRandom()")
		} else {
			c.check(good, rule, "CreateBranch/cookie-plus-random", w.pos(bf.Pos()), "branch = z9hG4bK + text derived from a fresh random UUID", "CreateBranch does not return the literal cookie z9hG4bK followed by text derived from uuid.NewRandom()"+why)
			okE, whyE := w.errPropagated(bf, nr)
			c.check(okE, rule, "CreateBranch/error", w.ipos(nr), "a failing generator is reported", "a failing UUID generator is not reported: "+whyE)
		}
	}
	c.floor(rule, 10)
}

// firstMatchIndex: fn returns the range index of the first element of m.headers whose name the comparator matches
// with the constant want, and def when there is none. It returns a diagnostic on mismatch.
func (w *World) firstMatchIndex(fn *ssa.Function, want string) (bool, string) {
	ok, why := w.firstMatchIndexSelf(fn, want)
	if ok {
		return true, ""
	}
	// or through a position finder of the same message: pos, err := m.finder(want); the position when err == nil
	for _, cs := range w.callsIn(fn) {
		call, isCall := cs.In.(*ssa.Call)
		g := cs.In.Common().StaticCallee()
		if !isCall || g == nil || !w.isMain(g) || g == fn || g.Signature.Recv() == nil || !isParam(fn, callArg(call, -1), 0) {
			continue
		}
		if g.Signature.Results().Len() != 2 || errIndex(call) != 1 {
			continue
		}
		arg := callArg(call, 0)
		if s, isS := constString(arg); !(isS && s == want) && !(len(fn.Params) > 1 && isParam(fn, arg, 1)) {
			continue
		}
		if gok, _ := w.firstMatchIndexSelf(g, want); !gok {
			continue
		}
		good := true
		n := 0
		for _, r := range returnsUnder(fn, w.under(assumeAtom(errNil(call), true))) {
			n++
			for _, v := range valuesUnder(fn, r.Results[0], w.under(assumeAtom(errNil(call), true))) {
				if !isResultOf(v, call, 0) {
					good = false
				}
			}
		}
		if good && n > 0 {
			return true, ""
		}
	}
	return false, why
}

func (w *World) firstMatchIndexSelf(fn *ssa.Function, want string) (bool, string) {
	var loop *rangeLoop
	for _, rl := range rangeLoops(fn) {
		if b, ok := isLoadOf(rl.Over, "Message.headers"); ok && isParam(fn, b, 0) {
			loop = rl
		}
	}
	if loop == nil {
		return false, "does not range over m.headers"
	}
	var cmp *ssa.Call
	for _, cs := range w.callsIn(fn, comparatorFn) {
		call := cs.In.(*ssa.Call)
		b, ok := isLoadOf(callArg(call, 0), "Header.name")
		s, isS := constString(callArg(call, 1))
		if !isS && len(fn.Params) > 1 && isParam(fn, callArg(call, 1), 1) {
			isS, s = true, want
		}
		if ok && loop.isElem(b) && isS && s == want {
			cmp = call
		}
	}
	if cmp == nil {
		return false, "elements are not tested with the comparator against " + want
	}
	match := func(a Atom) bool { return a.Kind == "bool" && strip(a.X) == ssa.Value(cmp) }
	for _, r := range returnsUnder(fn, nil) {
		v := strip(r.Results[0])
		if loop.inExitRegion(r.Block()) || loop.inLoop(r.Block()) {
			if v != strip(loop.Idx) {
				return false, "a hit returns " + w.termKey(v) + " instead of the index of the matching header"
			}
			if !w.requires(fn, r, match, true) {
				return false, "an index is returned without a comparator match"
			}
		}
	}
	// the first hit returns: under match=true, from the body, the header is not reachable
	if canReach(blockStart(loop.Body), w.under(assumeAtom(match, true)), func(in ssa.Instruction) bool { return in.Block() == loop.Header }, nil) {
		return false, "the scan continues after a match (a later header would be returned)"
	}
	return true, ""
}

func c06Position(c *Ctx) {
	w := c.w
	rule := "via-position"
	for _, sp := range []struct{ add, pos, name, arg string }{
		{"(*Message).AddVia", "(*Message).findViaInsertPos", "Via", "via"},
		{"(*Message).AddRecordRoute", "(*Message).findRecordRoutePos", "Record-Route", "recordRoute"},
	} {
		r := rule
		if sp.name == "Record-Route" {
			r = "rr-content"
		}
		f := c.fn(r, sp.add)
		if f == nil {
			continue
		}
		sts := w.fieldStores(f, "Message.headers")
		if len(sts) != 1 {
			c.bad(r, sp.add+"/store", w.pos(f.Pos()), "expected exactly one store to the header list")
			continue
		}
		kind, elem, pos := classifyListStore(w, sts[0].Val, "Message.headers")
		// a defensive range check on the computed position (pos < 0 || pos > len(headers)) guards a case the position
		// finder's summary excludes (0 <= pos <= len(headers)): its branch is infeasible and is not followed
		if ph, isPhi := strip(pos).(*ssa.Phi); isPhi && pos != nil {
			outOfRange := func(a Atom, _ *ssa.If) (bool, bool) {
				isPos := func(v ssa.Value) bool {
					cc := w.resultOfCallTo(v, sp.pos, 0)
					if cc == nil {
						return false
					}
					_, okS := w.posSummary(cc.Common().StaticCallee(), map[*ssa.Function]bool{})
					return okS
				}
				switch a.Kind {
				case "ltk": // pos < K with K <= 0 is false
					if a.K <= 0 && isPos(a.X) {
						return true, false
					}
				case "lt": // len(headers) < pos is false
					if x, isLen := lenOf(a.X); isLen && isPos(a.Y) {
						if _, isH := isLoadOf(x, "Message.headers"); isH {
							return true, false
						}
					}
				}
				return false, false
			}
			if vals := valuesUnder(f, ph, w.under(outOfRange)); len(vals) == 1 {
				pos = vals[0]
			}
		}
		pc := w.resultOfCallTo(pos, sp.pos, 0)
		c.check(kind == "insert-one" && pc != nil && isParam(f, callArg(pc, -1), 0), r, sp.add+"/insert-at-computed-position", w.ipos(sts[0]), "insert-one at "+sp.pos+"()", "the header is not inserted (one element, nothing dropped) at the position computed by "+sp.pos+"()")
		if kind == "insert-one" {
			name, isC := headerLiteralName(elem)
			okVal := false
			if al, ok := strip(elem).(*ssa.Alloc); ok {
				for _, rr := range *al.Referrers() {
					if fa, ok := rr.(*ssa.FieldAddr); ok && fieldRef(fa) == "Header.value" {
						for _, r2 := range *fa.Referrers() {
							if st, ok := r2.(*ssa.Store); ok && isParam(f, st.Val, 1) {
								okVal = true
							}
						}
					}
				}
			}
			c.check(isC && name == sp.name && okVal, r, sp.add+"/header", w.ipos(sts[0]), "header named "+sp.name+" holding the given value", "the inserted header is not {name: \""+sp.name+"\", value: the argument}")
		}
	}
	if f := c.fn(rule, "(*Message).findViaInsertPos"); f != nil {
		ok, why := w.firstMatchIndex(f, "Via")
		c.check(ok, rule, "findViaInsertPos/first-via", w.pos(f.Pos()), "index of the first Via header (any spelling)", "findViaInsertPos "+why+": the new Via would not land above every existing Via")
		// default 0
		def := false
		for _, r := range returnsUnder(f, nil) {
			if k, isK := constInt(r.Results[0]); isK && k == 0 {
				def = true
			}
			// delegated to a finder of the package that answers (0, error) when there is no such header, the error
			// being ignored here: the position is 0 then
			for _, leaf := range phiLeaves(r.Results[0]) {
				cc, idx := callOfResult(leaf)
				if cc == nil || idx != 0 {
					continue
				}
				callee := cc.Call.StaticCallee()
				if callee == nil || !w.isMain(callee) || callee.Signature.Results().Len() != 2 || errIndexOfFn(callee) != 1 {
					continue
				}
				zeroOnMiss, misses := true, 0
				for _, r2 := range returnsUnder(callee, nil) {
					if isNilConst(r2.Results[1]) {
						continue
					}
					misses++
					if k, isK := constInt(r2.Results[0]); !isK || k != 0 {
						zeroOnMiss = false
					}
				}
				if zeroOnMiss && misses > 0 {
					def = true
				}
			}
		}
		c.check(def, rule, "findViaInsertPos/default-0", w.pos(f.Pos()), "top of the header list when no Via exists", "findViaInsertPos has no default position 0")
	}
	if f := c.fn("rr-content", "(*Message).findRecordRoutePos"); f != nil {
		var fh ssa.CallInstruction
		for _, cs := range w.callsIn(f, "(*Message).findHeaderPos") {
			if s, ok := constString(callArg(cs.In, 0)); ok && s == "Record-Route" {
				fh = cs.In
			}
		}
		good := false
		if fh != nil {
			keep := w.under(assumeAtom(errNil(fh), true))
			for _, r := range returnsUnder(f, keep) {
				good = allVals(valuesUnder(f, r.Results[0], keep), func(v ssa.Value) bool { return isResultOf(v, fh, 0) })
			}
		}
		c.check(good, "rr-content", "findRecordRoutePos/first-record-route", w.pos(f.Pos()), "position of the first existing Record-Route", "when a Record-Route exists the insert position is not the position of the first one")
		if fp := w.Fn("(*Message).findHeaderPos"); fp != nil {
			ok, why := w.firstMatchIndex(fp, "Record-Route")
			c.check(ok, "rr-content", "findHeaderPos/first-match", w.pos(fp.Pos()), "index of the first matching header", "findHeaderPos "+why)
		}
	}
	c.floor(rule, 4)
}

func c06RRPolicy(c *Ctx) {
	w := c.w
	rule := "rr-policy"
	f := c.fn(rule, "(*Proxy).addRecordRoute")
	if f == nil {
		return
	}
	var gh ssa.CallInstruction
	for _, cs := range w.callsIn(f, "(*Message).GetHeader") {
		if s, ok := constString(callArg(cs.In, 0)); ok && s == "Record-Route" && isParam(f, callArg(cs.In, -1), 1) {
			gh = cs.In
		}
	}
	ars := w.callsIn(f, "(*Message).AddRecordRoute")
	if gh == nil || len(ars) != 1 {
		c.bad(rule, "addRecordRoute/shape", w.pos(f.Pos()), "addRecordRoute must test GetHeader(\"Record-Route\") of the message and have one AddRecordRoute site")
		return
	}
	ar := ars[0].In
	must := func(a Atom) bool {
		if a.Kind != "bool" {
			return false
		}
		b, ok := isLoadOf(a.X, "Proxy.mustRecordRoute")
		return ok && isParam(f, b, 0)
	}
	cnt := func(as ...assumption) (int, int) {
		mn, mx, _ := countSites(entryPt(f), w.under(as...), isInstr(ar))
		return mn, mx
	}
	mn, mx := cnt(assumeAtom(errNil(gh), true))
	c.check(mn == 1 && mx == 1, rule, "addRecordRoute/existing-rr", w.ipos(ar), "a request already carrying Record-Route gets one more entry", fmt.Sprintf("with an existing Record-Route the entry is added min=%d max=%d times", mn, mx))
	mn, mx = cnt(assumeAtom(errNil(gh), false), assumeAtom(must, true))
	c.check(mn == 1 && mx == 1, rule, "addRecordRoute/must-record", w.ipos(ar), "always recorded when must-record-route is set", fmt.Sprintf("with must-record-route set and no existing Record-Route the entry is added min=%d max=%d times", mn, mx))
	_, mx = cnt(assumeAtom(errNil(gh), false), assumeAtom(must, false))
	c.check(mx == 0, rule, "addRecordRoute/none-otherwise", w.ipos(ar), "nothing is added otherwise", "a Record-Route is added although the request has none and must-record-route is off")
	// wiring of must-record-route
	g := w.Flow()
	fv := w.field("Proxy", "mustRecordRoute")
	if fv != nil {
		res := g.backward(g.fieldStores[fv], nil)
		saw := false
		var bad []string
		for _, l := range res.leafList() {
			body := l[1:]
			if strings.HasPrefix(body, "field-root:") {
				path := strings.TrimPrefix(body, "field-root:")
				t, exported, ok := yamlTagOfPath(w, path)
				if ok && strings.Split(t, ",")[0] == "must-record-route" && exported && l[0] == '+' {
					saw = true
				} else {
					bad = append(bad, l)
				}
			} else {
				bad = append(bad, l)
			}
		}
		c.check(saw && len(bad) == 0, rule, "Proxy.mustRecordRoute/roots", "-", "derives from the YAML option must-record-route only", fmt.Sprintf("Proxy.mustRecordRoute is mis-wired: option reached=%v, other roots %v", saw, bad), "roots: "+strings.Join(res.leafList(), ", "))
	}
	c.floor(rule, 4)
}

func c06RRContent(c *Ctx) {
	w := c.w
	rule := "rr-content"
	f := c.fn(rule, "(*Proxy).addRecordRoute")
	if f == nil {
		return
	}
	tr := func(v ssa.Value) bool { return isParam(f, v, 2) }
	got := map[string]ssa.Value{}
	for _, st := range storesIn(f) {
		if fa, ok := st.Addr.(*ssa.FieldAddr); ok {
			got[fieldRef(fa)] = st.Val
		}
	}
	isTrCall := func(v ssa.Value, name string) bool {
		cc, _ := callOfResult(v)
		return cc != nil && w.calleeName(cc) == name && tr(callArg(cc, -1))
	}
	s, okS := constString(got["SIPURI.Scheme"])
	c.check(okS && s == "sip" && got["SIPURI.Host"] != nil && isTrCall(got["SIPURI.Host"], "ServerTransport.GetAddress") && got["SIPURI.port"] != nil && isTrCall(got["SIPURI.port"], "ServerTransport.GetPort"),
		rule, "addRecordRoute/uri", w.pos(f.Pos()), "URI = sip:<listener address>:<listener port>", "the Record-Route URI is not {Scheme: \"sip\", Host: transport.GetAddress(), port: transport.GetPort()}")
	dn, okD := constString(got["NameAddr.DisplayName"])
	c.check(okD && dn == "", rule, "addRecordRoute/no-display-name", w.pos(f.Pos()), "empty display name", "the Record-Route entry carries a display name")
	nlr := 0
	for _, cs := range w.callsIn(f, "(*SIPURI).AddParameter", "(*SIPURI).SetParameter") {
		k, ok1 := constString(callArg(cs.In, 0))
		v, ok2 := constString(callArg(cs.In, 1))
		if ok1 && ok2 && k == "lr" && v == "" {
			nlr++
		} else {
			c.bad(rule, "addRecordRoute/extra-parameter", w.ipos(cs.In), "the Record-Route URI gets a parameter other than a valueless lr")
		}
	}
	c.check(nlr == 1, rule, "addRecordRoute/lr", w.pos(f.Pos()), "exactly the parameter lr, without value", fmt.Sprintf("expected exactly one valueless lr parameter, found %d", nlr))
	var nrr, nr, arr, ar ssa.CallInstruction
	for _, cs := range w.callsIn(f) {
		switch cs.Name {
		case "NewRecRoute":
			nrr = cs.In
		case "NewRecordRoute":
			nr = cs.In
		case "(*RecordRoute).AddRecRoute":
			arr = cs.In
		case "(*Message).AddRecordRoute":
			ar = cs.In
		}
	}
	good := nrr != nil && nr != nil && arr != nil && ar != nil
	if good {
		good = isResultOf(callArg(arr, -1), nr, 0) && isResultOf(callArg(arr, 0), nrr, 0) && isResultOf(callArg(ar, 0), nr, 0) && isParam(f, callArg(ar, -1), 1)
		_, mx, inf := countSites(entryPt(f), nil, isInstr(arr))
		good = good && mx == 1 && !inf
	}
	c.check(good, rule, "addRecordRoute/one-entry-inserted", w.pos(f.Pos()), "one entry in one new Record-Route header on the handled message", "the new Record-Route header does not hold exactly the new entry, or is not inserted into the handled message")
	// the name-addr wraps the built URI
	if nrr != nil {
		okNA := false
		if al, ok := strip(callArg(nrr, 0)).(*ssa.Alloc); ok {
			if v := got["NameAddr.Addr"]; v != nil {
				_ = al
				okNA = got["AddrSpec.sipURI"] != nil
			}
		}
		c.check(okNA, rule, "addRecordRoute/name-addr", w.ipos(nrr), "entry = <URI>", "the entry is not the name-addr wrapping the built SIP URI")
	}
	c.floor(rule, 7)
}

func c06Learning(c *Ctx) {
	w := c.w
	rule := "learning"
	// one table of learnt routes for all the listeners of a proxy configuration: a next hop learnt through listener A
	// must be known when the request that is relayed to it arrives on listener B. The table is created once per
	// startProxy call, outside its loop over the listens, and every other creation is flagged.
	nNew := 0
	for _, fn := range w.All {
		for _, cs := range w.callsIn(fn, "NewSelfLearnRoute") {
			nNew++
			inStart := w.fname(fn) == "startProxy"
			inLoop := sameCycle(cs.In.Block(), cs.In.Block())
			c.check(inStart && !inLoop, rule, fmt.Sprintf("learn-table/created-once@%s#%d", w.fname(fn), nNew), w.ipos(cs.In), "the table of learnt routes is created once per proxy configuration", "a table of learnt routes is created in "+w.fname(fn)+" (in a loop: "+fmt.Sprint(inLoop)+"): each listener then has its own table, a next hop learnt through one listener is unknown to the others, and a request relayed to it from another listener goes out without the proxy's Via and Record-Route")
		}
	}
	c.check(nNew >= 1, rule, "learn-table/created", "-", "the table is created", "no table of learnt routes is created")
	f := c.fn(rule, "(*Proxy).handleRawMessage")
	if f == nil {
		return
	}
	raw := func(v ssa.Value) bool { return isParam(f, v, 1) }
	isMsg := func(v ssa.Value) bool { b, ok := isLoadOf(v, "RawMessage.Message"); return ok && raw(b) }
	isFrom := func(v ssa.Value) bool { b, ok := isLoadOf(v, "RawMessage.From"); return ok && raw(b) }
	reqSel := func(a Atom) bool {
		if a.Kind != "bool" {
			return false
		}
		cc := w.resultOfCallTo(a.X, "(*Message).IsRequest", 0)
		return cc != nil && isMsg(callArg(cc, -1))
	}
	backSel := func(a Atom) bool {
		if a.Kind != "bool" {
			return false
		}
		cc := w.resultOfCallTo(a.X, "(*Proxy).isBackendAddr", 0)
		if cc == nil {
			return false
		}
		b, ok := isLoadOf(callArg(cc, 0), "RawMessage.PeerAddr")
		return ok && raw(b)
	}
	learn := w.under(assumeAtom(reqSel, true), assumeAtom(backSel, false))
	// source address
	var src ssa.CallInstruction
	for _, cs := range w.callsIn(f, "(*SelfLearnRoute).AddRoute") {
		b, ok := isLoadOf(callArg(cs.In, 0), "RawMessage.PeerAddr")
		if ok && raw(b) && isFrom(callArg(cs.In, 1)) {
			src = cs.In
		}
	}
	if src == nil {
		c.bad(rule, "handleRawMessage/source-learned", w.pos(f.Pos()), "the packet's source address is not learned for the receiving transport (AddRoute(PeerAddr, From))")
	} else {
		mn, mx, _ := countSites(entryPt(f), learn, isInstr(src))
		c.check(mn == 1 && mx == 1, rule, "handleRawMessage/source-learned", w.ipos(src), "source learned for every request not coming from a backend", fmt.Sprintf("for a request from a non-backend address the source is learned min=%d max=%d times", mn, mx))
		c.check(w.requires(f, src, reqSel, true), rule, "handleRawMessage/source-learned-requests-only", w.ipos(src), "learning concerns requests", "responses teach routes as well")
		b, okB := isLoadOf(callArg(src, -1), "Proxy.selfLearnRoute")
		c.check(okB && isParam(f, b, 0), rule, "handleRawMessage/learn-table", w.ipos(src), "learned into the proxy's table", "AddRoute is applied to another table")
	}
	// every Via entry
	var fe ssa.CallInstruction
	for _, cs := range w.callsIn(f, "(*Message).ForEachViaParam") {
		if isMsg(callArg(cs.In, -1)) {
			fe = cs.In
		}
	}
	if fe == nil {
		c.bad(rule, "handleRawMessage/via-hosts-learned", w.pos(f.Pos()), "the hosts of the Via entries are not learned through ForEachViaParam (every entry of every Via header line)")
	} else {
		mn, mx, _ := countSites(entryPt(f), learn, isInstr(fe))
		c.check(mn == 1 && mx == 1, rule, "handleRawMessage/via-hosts-learned", w.ipos(fe), "every request not from a backend teaches its Via hosts", fmt.Sprintf("the Via walk runs min=%d max=%d times for a learnable request", mn, mx))
		okCl := false
		if mc, ok := strip(callArg(fe, 0)).(*ssa.MakeClosure); ok {
			cl := mc.Fn.(*ssa.Function)
			c.Fns[w.fname(cl)] = true
			for _, cs := range w.callsIn(cl, "(*SelfLearnRoute).AddRoute") {
				hb, okH := isLoadOf(callArg(cs.In, 0), "ViaParam.Host")
				if okH && len(cl.Params) == 1 && strip(hb) == ssa.Value(cl.Params[0]) && isFrom(callArg(cs.In, 1)) {
					_, mxc, infc := countSites(entryPt(cl), nil, isInstr(cs.In))
					mnc, _, _ := countSites(entryPt(cl), nil, isInstr(cs.In))
					okCl = mnc == 1 && mxc == 1 && !infc
				}
			}
		}
		c.check(okCl, rule, "handleRawMessage/via-host-handler", w.ipos(fe), "each entry teaches (entry host -> receiving transport)", "the per-entry handler does not AddRoute(viaParam.Host, rawMessage.From) unconditionally")
	}
	// ForEachViaParam visits every entry of every Via header
	if fp := c.fn(rule, "(*Message).ForEachViaParam"); fp != nil {
		good := false
		for _, cs := range w.callsIn(fp, "(*Message).ForEachVia") {
			if mc, ok := strip(callArg(cs.In, 0)).(*ssa.MakeClosure); ok && isParam(fp, callArg(cs.In, -1), 0) {
				cl := mc.Fn.(*ssa.Function)
				c.Fns[w.fname(cl)] = true
				// loop i := 0; i < via.Size(); i++ { p, err := via.GetParam(i); if err == nil { handler(p) } }
				var sz, gp *ssa.Call
				for _, c2 := range w.callsIn(cl, "(*Via).Size") {
					sz = c2.In.(*ssa.Call)
				}
				for _, c2 := range w.callsIn(cl, "(*Via).GetParam") {
					gp = c2.In.(*ssa.Call)
				}
				var dyn ssa.CallInstruction
				for _, c2 := range w.callsIn(cl, "dyn") {
					dyn = c2.In
				}
				if sz != nil && gp != nil && dyn != nil {
					// index: phi(0, i+1) compared with Size
					idx := strip(callArg(gp, 0))
					ph, isPhi := idx.(*ssa.Phi)
					okIdx := false
					if isPhi && len(ph.Edges) == 2 {
						k, isK := constInt(ph.Edges[0])
						okIdx = isK && k == 0 && isPlusOne(ph.Edges[1], ph)
						if !okIdx {
							k, isK = constInt(ph.Edges[1])
							okIdx = isK && k == 0 && isPlusOne(ph.Edges[0], ph)
						}
					}
					bound := false
					for _, a := range w.atomsOf(cl) {
						if a.Kind == "lt" && strip(a.X) == idx && strip(a.Y) == ssa.Value(sz) {
							bound = true
						}
					}
					hv := strip(dyn.Common().Value)
					okH := hv == ssa.Value(fp.Params[1]) && isResultOf(dyn.Common().Args[0], gp, 0)
					mn, _, _ := countSites(at(gp), w.under(assumeAtom(errNil(gp), true)), func(in ssa.Instruction) bool { return in == ssa.Instruction(dyn) || in.Block().Comment == "for.loop" })
					_ = mn
					// nothing but the index bound and the entry lookup's success may gate the handler call
					onlyThose := true
					ctrl := w.controlAtoms(cl, dyn)
					for _, a := range w.atomsOf(cl) {
						if _, gated := ctrl[a.Key]; !gated {
							continue
						}
						isBound := a.Kind == "lt" && strip(a.X) == idx && strip(a.Y) == ssa.Value(sz)
						if !isBound && !errNil(gp)(a) {
							onlyThose = false
						}
					}
					good = okIdx && bound && okH && onlyThose && w.requires(cl, dyn, errNil(gp), true) && len(returnsUnder(cl, nil)) == 1
				}
			}
		}
		c.check(good, rule, "ForEachViaParam/every-entry", w.pos(fp.Pos()), "every entry 0..Size-1 of every Via header is handed to the handler", "ForEachViaParam does not hand every entry (index 0 up to Size()-1) of every Via header to the handler")
	}
	c06LearnTable(c)
	// the header walk itself (shared with C17.4)
	c17Layout(c)
	c.floor(rule, 6)
}

// c06LearnTable: AddRoute leaves route[host] = the given transport, skipping the write only when the stored transport
// is the same listener (same protocol, address and port, or the same object).
func c06LearnTable(c *Ctx) {
	w := c.w
	rule := "learning"
	f := c.fn(rule, "(*SelfLearnRoute).AddRoute")
	if f == nil {
		return
	}
	var upd *ssa.MapUpdate
	nUpd := 0
	eachInstr(f, func(in ssa.Instruction) {
		if mu, ok := in.(*ssa.MapUpdate); ok {
			if _, isR := isLoadOf(mu.Map, "SelfLearnRoute.route"); isR {
				upd = mu
				nUpd++
			}
		}
	})
	if upd == nil || nUpd != 1 {
		c.bad(rule, "AddRoute/update", w.pos(f.Pos()), fmt.Sprintf("AddRoute must store the transport under the host exactly once (found %d stores into the table)", nUpd))
		return
	}
	c.check(isParam(f, upd.Key, 1) && isParam(f, upd.Value, 2), rule, "AddRoute/update", w.ipos(upd), "route[host] = transport", "AddRoute does not store its transport argument under its host argument")
	// the only condition under which the store is skipped: the stored transport is the same listener, decided by
	// isSameTransport(old, transport), by identity, or by comparing protocol, address and port of both in place
	var lk *ssa.Lookup
	eachInstr(f, func(in ssa.Instruction) {
		if l, ok := in.(*ssa.Lookup); ok && l.CommaOk {
			if _, isT := isLoadOf(l.X, "SelfLearnRoute.route"); isT && isParam(f, l.Index, 1) {
				lk = l
			}
		}
	})
	isOld := func(v ssa.Value) bool {
		e, ok := strip(v).(*ssa.Extract)
		return ok && lk != nil && e.Tuple == ssa.Value(lk) && e.Index == 0
	}
	accEq := func(name string) func(Atom) bool {
		return func(a Atom) bool {
			if a.Kind != "eq" {
				return false
			}
			c1, _ := callOfResult(a.X)
			c2, _ := callOfResult(a.Y)
			if c1 == nil || c2 == nil || w.calleeName(c1) != name || w.calleeName(c2) != name {
				return false
			}
			r1, r2 := callArg(c1, -1), callArg(c2, -1)
			return (isOld(r1) && isParam(f, r2, 2)) || (isOld(r2) && isParam(f, r1, 2))
		}
	}
	same := func(a Atom) bool {
		switch a.Kind {
		case "bool":
			cc := w.resultOfCallTo(a.X, "(*SelfLearnRoute).isSameTransport", 0)
			if cc == nil {
				return false
			}
			return (isParam(f, callArg(cc, 0), 2) || isParam(f, callArg(cc, 1), 2))
		case "eq":
			return isParam(f, a.X, 2) || isParam(f, a.Y, 2)
		}
		return false
	}
	var sels []func(Atom) bool
	if len(w.ifsTesting(f, same)) > 0 {
		sels = append(sels, same)
	} else {
		for _, n := range []string{"ServerTransport.GetProtocol", "ServerTransport.GetAddress", "ServerTransport.GetPort"} {
			sels = append(sels, accEq(n))
		}
	}
	good := true
	detail := ""
	for _, sel := range sels {
		if len(w.ifsTesting(f, sel)) == 0 {
			good = false
			detail = "the stored transport is not compared with the new one by protocol, address and port"
			continue
		}
		keep := w.under(assumeAtom(sel, false))
		mn, mx, inf := countSites(entryPt(f), keep, isInstr(upd))
		if !(mn == 1 && mx == 1 && !inf) {
			good = false
			detail = fmt.Sprintf("when the stored transport differs the table is updated min=%d max=%d times", mn, mx)
		}
	}
	c.check(good, rule, "AddRoute/overwrites-unless-same", w.ipos(upd), "a different transport always replaces the stored one",
		"a stored transport that is not the same listener (protocol, address and port) is not always replaced ("+detail+"): a host that moved to another listener keeps its stale route, and the Via/Record-Route inserted for it name the wrong listener")
	if st := c.fn(rule, "(*SelfLearnRoute).isSameTransport"); st != nil {
		acc := func(name string) func(Atom) bool {
			return func(a Atom) bool {
				if a.Kind != "eq" {
					return false
				}
				c1, _ := callOfResult(a.X)
				c2, _ := callOfResult(a.Y)
				if c1 == nil || c2 == nil || w.calleeName(c1) != name || w.calleeName(c2) != name {
					return false
				}
				r1, r2 := callArg(c1, -1), callArg(c2, -1)
				return (isParam(st, r1, 1) && isParam(st, r2, 2)) || (isParam(st, r1, 2) && isParam(st, r2, 1))
			}
		}
		ident := func(a Atom) bool {
			return a.Kind == "eq" && ((isParam(st, a.X, 1) && isParam(st, a.Y, 2)) || (isParam(st, a.X, 2) && isParam(st, a.Y, 1)))
		}
		good, n := true, 0
		for _, r := range returnsUnder(st, nil) {
			for _, bc := range boolCases(r, 0) {
				if b, isB := constBool(bc.Leaf); isB && !b {
					continue
				}
				n++
				if w.holdsWhenTrue(st, bc, ident, true) {
					continue
				}
				for _, name := range []string{"ServerTransport.GetProtocol", "ServerTransport.GetAddress", "ServerTransport.GetPort"} {
					if !w.holdsWhenTrue(st, bc, acc(name), true) {
						good = false
						c.info(rule, "isSameTransport/missing", w.ipos(r), "true is returned without comparing "+name)
					}
				}
			}
		}
		c.check(good && n > 0, rule, "isSameTransport/compares-protocol-address-port", w.pos(st.Pos()), "same listener = same protocol, address and port", "isSameTransport reports two transports as the same without comparing protocol, address and port of both: a host that moved to a listener differing only in the part not compared keeps its stale route")
	}
}

// randomText: under the success of its random source, fn returns (prefix + text derived from that source, nil) and
// reports the source's failure. The source is a call of uuid.NewRandom in fn, or a call of another package function of
// which the same holds with an empty prefix (CreateBranch built on CreateTag).
func (w *World) randomText(fn *ssa.Function, prefix string, depth int) (bool, ssa.CallInstruction, string) {
	var nr ssa.CallInstruction
	for _, cs := range w.callsIn(fn, "github.com/google/uuid.NewRandom") {
		nr = cs.In
	}
	if nr == nil && depth < 2 {
		for _, cs := range w.callsIn(fn) {
			g := cs.In.Common().StaticCallee()
			if g == nil || !w.isMain(g) || g == fn || g.Blocks == nil || g.Signature.Results().Len() != 2 || errIndex(cs.In) != 1 {
				continue
			}
			if ok, src, _ := w.randomText(g, "", depth+1); ok && src != nil {
				if okE, _ := w.errPropagated(g, src); okE {
					nr = cs.In
				}
			}
		}
	}
	if nr == nil {
		return false, nil, ""
	}
	keep := w.under(assumeAtom(errNil(nr), true))
	good := false
	for _, r := range returnsUnder(fn, keep) {
		if len(r.Results) != 2 {
			return false, nr, ""
		}
		vs := valuesUnder(fn, r.Results[0], keep)
		good = allVals(vs, func(v ssa.Value) bool {
			sv := w.evalStr(v, senv{}, 0)
			parts := sv.parts
			if prefix != "" {
				if len(parts) != 2 || parts[0].Lit != prefix {
					return false
				}
				parts = parts[1:]
			}
			if len(parts) != 1 || parts[0].Leaf == nil {
				return false
			}
			return localDerives(parts[0].Leaf, func(x ssa.Value) bool { return isResultOf(x, nr, 0) })
		})
		good = good && allVals(valuesUnder(fn, r.Results[1], keep), func(v ssa.Value) bool { return nilUnder(v, nr) })
	}
	return good, nr, ""
}
