package main

import (
	"fmt"
	"go/types"
	"reflect"
	"strings"

	"golang.org/x/tools/go/ssa"
)

func init() {
	register(&propDef{ID: "C07", Run: runC07,
		Explain:    "Structural necessary conditions of 'received/rport record the true source when enabled', decided on SSA value flow and CFG of /repo: (1) wiring: the backward value-flow closure of every store into RawMessage.ReceivedSupport (through transports, constructors, closures, parameters) has exactly one root, the YAML field tagged no-received, reached through exactly one negation on every path; the field is exported and tagged so YAML can set it; (2) the stamp call in handleRawMessage is guarded exactly by IsRequest and ReceivedSupport, executes once, takes PeerAddr/PeerPort of the same raw message, and handleRawMessage precedes dispatch in the loop; (3) peer address/port given to NewRawMessage derive from the socket layer (ReadFromUDP address / conn.RemoteAddr) and never from message content; (4) stamp content: entry 0 of the top Via, received always set, rport only when present, SetParam is replace-in-place-or-append; (5) the response hop prefers received/rport (shared with C02). (value-effects, shared with C01/C02): Header.value is stored, outside construction, only with the decoded form of that same header's raw text - the Via the stamp is written into is never an object shared with other messages.",
		NotDecided: "behaviour of real sockets and the end-to-end claim that the response reaches the true source."})
}

// yamlFieldRoot describes a leaf "field-root:ProxyConfig.Listens.NoReceived".
func yamlTagOfPath(w *World, path string) (tag string, exported bool, ok bool) {
	tag, exported, _, ok = yamlKeyOfPath(w, path)
	return
}

// yamlKeyOfPath also gives the key path under which gopkg.in/yaml.v3 looks the field up in the configuration file: the
// tag name of each field on the path, the lower-cased field name without one; a field tagged ",inline" adds no level, an
// embedded struct WITHOUT that flag does (yaml.v3 does not inline anonymous fields by itself), and a field the decoder
// cannot set (unexported) makes everything below it unreachable ("!" in the path).
func yamlKeyOfPath(w *World, path string) (tag string, exported bool, keyPath string, ok bool) {
	parts := strings.Split(path, ".")
	if len(parts) < 2 {
		return "", false, "", false
	}
	n := w.lookupType(parts[0])
	if n == nil {
		return "", false, "", false
	}
	t := n.Underlying()
	var keys []string
	for i := 1; i < len(parts); i++ {
		if sl, isSl := t.(*types.Slice); isSl {
			t = sl.Elem().Underlying()
		}
		if pt, isP := t.(*types.Pointer); isP {
			t = pt.Elem().Underlying()
		}
		st, isSt := t.(*types.Struct)
		if !isSt {
			return "", false, "", false
		}
		found := false
		for k := 0; k < st.NumFields(); k++ {
			if fvName(st.Field(k)) == parts[i] {
				found = true
				yt := reflect.StructTag(st.Tag(k)).Get("yaml")
				opts := strings.Split(yt, ",")
				inline := false
				for _, o := range opts[1:] {
					if o == "inline" {
						inline = true
					}
				}
				switch {
				case !st.Field(k).Exported():
					keys = append(keys, "!"+st.Field(k).Name())
				case inline:
				case opts[0] != "":
					keys = append(keys, opts[0])
				default:
					keys = append(keys, strings.ToLower(st.Field(k).Name()))
				}
				if i == len(parts)-1 {
					return yt, st.Field(k).Exported(), strings.Join(keys, "/"), true
				}
				t = st.Field(k).Type().Underlying()
			}
		}
		if !found {
			return "", false, "", false
		}
	}
	return "", false, "", false
}

func runC07(c *Ctx) {
	w := c.w
	g := w.Flow()
	// the Via the stamp is written into belongs to this message alone (shared with C14)
	c14DecoderPurityFrom(c, "ParseVia")
	rule := "wiring"
	fv := w.field("RawMessage", "ReceivedSupport")
	if fv == nil {
		c.undecided(rule, "RawMessage.ReceivedSupport", "-", "field RawMessage.ReceivedSupport not found")
	} else {
		sites := g.fieldSites[fv]
		vals := g.fieldStores[fv]
		if len(vals) == 0 {
			c.bad(rule, "RawMessage.ReceivedSupport/stores", "-", "RawMessage.ReceivedSupport is never set: the stamp can never be enabled")
		}
		for i, v := range vals {
			site := sites[i]
			key := fmt.Sprintf("RawMessage.ReceivedSupport<-%s#%d", w.fname(site.Parent()), i+1)
			c.Fns[w.fname(site.Parent())] = true
			res := g.backward([]ssa.Value{v}, nil)
			good := true
			var why []string
			nRoot := 0
			for _, l := range res.leafList() {
				body := l[1:]
				switch {
				case strings.HasPrefix(body, "field-root:"):
					path := strings.TrimPrefix(body, "field-root:")
					tag, exported, keyPath, ok := yamlKeyOfPath(w, path)
					tagName := strings.Split(tag, ",")[0]
					if !ok || tagName != "no-received" {
						good = false
						why = append(why, fmt.Sprintf("root %s (yaml tag %q) is not the no-received option", path, tagName))
						continue
					}
					nRoot++
					if keyPath != "listens/no-received" {
						good = false
						why = append(why, fmt.Sprintf("the YAML decoder looks %s up under the key path %q, not under no-received of the listens entry (an embedded struct is not inlined without `yaml:\",inline\"`; an unexported level cannot be set): no-received: true in a listener's configuration is silently ignored", path, keyPath))
					}
					if !exported {
						good = false
						why = append(why, "field "+path+" is unexported: YAML cannot set it")
					}
					if l[0] != '-' {
						good = false
						why = append(why, "no-received reaches the flag without negation on some path (enabled must be !no-received)")
					}
				default:
					good = false
					why = append(why, "flag may also come from "+l)
				}
			}
			if nRoot == 0 {
				good = false
				why = append(why, "the YAML option no-received never reaches this flag")
			}
			c.check(good, rule, key, w.ipos(site), "flag derives only from !no-received (one negation on every path)", "received-support flag is mis-wired: "+strings.Join(why, "; "), "roots: "+strings.Join(res.leafList(), ", "))
		}
		// every construction of a RawMessage must set the flag from its transport: NewRawMessage is the only constructor
		n := 0
		for _, fn := range w.All {
			eachInstr(fn, func(in ssa.Instruction) {
				if al, ok := in.(*ssa.Alloc); ok {
					if nt, ok := al.Type().Underlying().(*types.Pointer).Elem().(*types.Named); ok && nt.Obj().Name() == "RawMessage" {
						n++
						set := false
						for _, r := range *al.Referrers() {
							if fa, ok := r.(*ssa.FieldAddr); ok && fieldVarOf(fa) == fv {
								for _, rr := range *fa.Referrers() {
									if _, ok := rr.(*ssa.Store); ok {
										set = true
									}
								}
							}
						}
						c.check(set, rule, "RawMessage-construction/"+w.fname(fn), w.ipos(in), "every RawMessage construction sets ReceivedSupport", "a RawMessage is constructed without setting ReceivedSupport (defaults to false: stamp silently disabled)")
					}
				}
			})
		}
		c.check(n >= 1, rule, "RawMessage-construction/exists", "-", "RawMessage constructions found", "no RawMessage construction found")
	}
	c.floor(rule, 3)

	c07StampGuard(c)
	c07TrueSource(c)
	c07StampContent(c)
	ruleHeaderFind(c, "stamp-content")
	// what SetParam writes is what the printer emits: no cached text between decode and encode (shared with C01/C14)
	rulePureCapture(c, "pure-capture")
	// over TCP the true source is the connection the request arrived on: its table entry leaves by age alone (shared with C12)
	c12Expiry(c, "hop-provenance")
	c12StampBeforeKey(c, "hop-provenance")
	c07ViaParamsAccepted(c, "stamp-content")
	// the Via the stamp is written into is this message's own: decoded from this header's own raw text and kept in this
	// header, never an object shared with other messages (a cache of decoded values) - shared with C01/C02
	c01ValueEffects(c)
	// (5) return path: the response hop prefers received/rport (same rule as C02.4)
	if hf := c.fn("hop-provenance", hopRespFn); hf != nil {
		c02HopProvenance(c, hf)
	}
}

func c07StampGuard(c *Ctx) {
	w := c.w
	rule := "stamp-guard"
	f := c.fn(rule, "(*Proxy).handleRawMessage")
	if f == nil {
		return
	}
	raw := func(v ssa.Value) bool { return isParam(f, v, 1) }
	stamps := w.callsIn(f, "(*Message).SetReceived")
	if len(stamps) != 1 {
		c.bad(rule, "handleRawMessage/SetReceived", w.pos(f.Pos()), fmt.Sprintf("expected exactly one SetReceived stamp site in handleRawMessage, found %d", len(stamps)))
		return
	}
	st := stamps[0].In
	isMsg := func(v ssa.Value) bool { b, ok := isLoadOf(v, "RawMessage.Message"); return ok && raw(b) }
	reqSel := func(a Atom) bool {
		if a.Kind != "bool" {
			return false
		}
		cc := w.resultOfCallTo(a.X, "(*Message).IsRequest", 0)
		return cc != nil && isMsg(callArg(cc, -1))
	}
	rsSel := func(a Atom) bool {
		if a.Kind != "bool" {
			return false
		}
		b, ok := isLoadOf(a.X, "RawMessage.ReceivedSupport")
		return ok && raw(b)
	}
	c.check(w.requires(f, st, reqSel, true), rule, "handleRawMessage/stamp-only-requests", w.ipos(st), "only requests are stamped", "the stamp is reachable for responses", "guard: msg.IsRequest()")
	c.check(w.requires(f, st, rsSel, true), rule, "handleRawMessage/stamp-only-when-enabled", w.ipos(st), "stamp only with received-support enabled", "the stamp does not depend on (or is inverted with respect to) rawMessage.ReceivedSupport", "guard: rawMessage.ReceivedSupport")
	// exactly the two guards: under both true the stamp executes exactly once on every path
	keep := w.under(assumeAtom(reqSel, true), assumeAtom(rsSel, true))
	mn, mx, inf := countSites(entryPt(f), keep, isInstr(st))
	c.check(mn == 1 && mx == 1 && !inf, rule, "handleRawMessage/stamp-always-when-enabled", w.ipos(st), "every enabled request is stamped exactly once", fmt.Sprintf("with IsRequest and ReceivedSupport true the stamp executes min=%d max=%d times (an extra condition suppresses or repeats it)", mn, mx))
	// arguments
	a0, ok0 := isLoadOf(callArg(st, 0), "RawMessage.PeerAddr")
	a1, ok1 := isLoadOf(callArg(st, 1), "RawMessage.PeerPort")
	c.check(ok0 && ok1 && raw(a0) && raw(a1) && isMsg(callArg(st, -1)), rule, "handleRawMessage/stamp-args", w.ipos(st), "stamp = (PeerAddr, PeerPort) of the same raw message, on its message", "SetReceived is not given rawMessage.PeerAddr / rawMessage.PeerPort (the packet's true source) or is applied to another message: "+w.termKey(callArg(st, 0))+", "+w.termKey(callArg(st, 1)))
	// order in the loop: handleRawMessage before HandleMessage / dispatch
	if loop := c.fn(rule, "(*Proxy).receiveAndProcessMessage"); loop != nil {
		hr := w.callsIn(loop, "(*Proxy).handleRawMessage")
		hm := w.callsIn(loop, "(*Proxy).HandleMessage")
		if len(hr) == 1 && len(hm) >= 1 {
			for _, h := range hm {
				c.check(mustPrecede(loop, []ssa.Instruction{hr[0].In}, h.In, nil), rule, "loop/stamp-before-dispatch", w.ipos(h.In), "the stamp step precedes routing", "HandleMessage is reachable without handleRawMessage first")
				c.check(isResultOf(callArg(h.In, 0), hr[0].In, 0), rule, "loop/same-message", w.ipos(h.In), "the stamped message is the one routed", "HandleMessage does not receive the message returned by handleRawMessage")
			}
		} else {
			c.bad(rule, "loop/steps", w.pos(loop.Pos()), "the message loop does not call handleRawMessage once and then HandleMessage")
		}
	}
	c.floor(rule, 5)
}

func c07TrueSource(c *Ctx) {
	w := c.w
	g := w.Flow()
	rule := "true-source"
	ruleNoLoopCapture(c, rule, "the request is stamped with the source of a later datagram, or a listener gets the received-support setting of the listener configured last")
	n := 0
	for _, fn := range w.All {
		for _, cs := range w.callsIn(fn, "NewRawMessage") {
			n++
			c.Fns[w.fname(fn)] = true
			for ai, an := range []string{"peerAddr", "peerPort"} {
				key := fmt.Sprintf("%s/NewRawMessage#%d/%s", w.fname(fn), n, an)
				// the traversal stops at the socket call itself: which socket it is does not matter here
				sockNames := []string{"(*net.UDPConn).ReadFromUDP", "(net.Conn).RemoteAddr", "(*net.TCPConn).RemoteAddr"}
				res := g.backward([]ssa.Value{callArg(cs.In, ai)}, func(n fnode) bool {
					var cc *ssa.Call
					switch x := n.(type) {
					case *ssa.Call:
						cc = x
					case *ssa.Extract:
						cc, _ = x.Tuple.(*ssa.Call)
					}
					if cc != nil {
						nm := w.calleeName(cc)
						for _, s := range sockNames {
							if s == nm {
								return true
							}
						}
					}
					return false
				})
				sock := res.hasCallTo(w, sockNames...)
				var msgDerived []string
				for nd := range res.Nodes {
					if f, ok := nd.(*types.Var); ok && f.IsField() {
						on := fieldOwnerName(w, f)
						for _, p := range []string{"Message.", "Header.", "ViaParam.", "Via.", "KeyValue.", "SIPURI.", "RequestLine.", "StatusLine."} {
							if strings.HasPrefix(on, p) {
								msgDerived = append(msgDerived, on)
							}
						}
					}
				}
				if cc := res.hasCallTo(w, "ParseMessage", "readLine", "(*bufio.Reader).ReadLine"); cc != nil {
					msgDerived = append(msgDerived, w.calleeName(cc))
				}
				c.check(sock != nil && len(msgDerived) == 0, rule, key, w.ipos(cs.In), "derives from the socket layer only", fmt.Sprintf("%s does not derive purely from ReadFromUDP's address / conn.RemoteAddr (socket source found: %v; message-derived: %v)", an, sock != nil, msgDerived))
			}
		}
	}
	c.floor(rule, 4)
}

func c07StampContent(c *Ctx) {
	w := c.w
	rule := "stamp-content"
	ruleKVFind(c, rule, "(*ViaParam).HasParam", "(*ViaParam).SetParam", "(*ViaParam).GetParam")
	f := c.fn(rule, "(*Message).SetReceived")
	if f != nil {
		gvs := w.callsIn(f, "(*Message).GetVia")
		if len(gvs) != 1 {
			c.bad(rule, "SetReceived/GetVia", w.pos(f.Pos()), "SetReceived does not take the top Via through one GetVia()")
		} else {
			gv := gvs[0].In
			var gp ssa.CallInstruction
			for _, cs := range w.callsIn(f, "(*Via).GetParam") {
				if isResultOf(callArg(cs.In, -1), gv, 0) {
					gp = cs.In
				}
			}
			if gp == nil {
				c.bad(rule, "SetReceived/entry", w.pos(f.Pos()), "SetReceived does not select an entry of the top Via")
			} else {
				k, isK := constInt(callArg(gp, 0))
				c.check(isK && k == 0 && isParam(f, callArg(gv, -1), 0), rule, "SetReceived/entry-0", w.ipos(gp), "the sender's entry (index 0 of the top Via) is stamped", "the stamped entry is not index 0 of the message's top Via")
				entry := func(v ssa.Value) bool { return isResultOf(v, gp, 0) }
				okPath := w.under(assumeAtom(errNil(gv), true), assumeAtom(errNil(gp), true))
				srs := w.callsIn(f, "(*ViaParam).SetReceived")
				if len(srs) == 1 && entry(callArg(srs[0].In, -1)) && isParam(f, callArg(srs[0].In, 0), 1) {
					mn, mx, _ := countSites(entryPt(f), okPath, isInstr(srs[0].In))
					c.check(mn == 1 && mx == 1, rule, "SetReceived/received-always", w.ipos(srs[0].In), "received=<peerAddr> is set on every path with a decodable Via", "received is not set unconditionally (exactly once) from the peerAddr argument")
				} else {
					c.bad(rule, "SetReceived/received-always", w.pos(f.Pos()), "received is not set from the peerAddr argument on the selected entry")
				}
				hasR := func(a Atom) bool {
					if a.Kind != "bool" {
						return false
					}
					cc := w.resultOfCallTo(a.X, "(*ViaParam).HasParam", 0)
					if cc == nil || !entry(callArg(cc, -1)) {
						return false
					}
					s, ok := constString(callArg(cc, 0))
					return ok && s == "rport"
				}
				nr := 0
				for _, cs := range w.callsIn(f, "(*ViaParam).SetParam") {
					s, ok := constString(callArg(cs.In, 0))
					if !ok || s != "rport" {
						c.bad(rule, "SetReceived/other-param", w.ipos(cs.In), "SetReceived writes Via parameter "+w.termKey(callArg(cs.In, 0))+": only received and rport may be touched")
						continue
					}
					nr++
					c.check(w.requires(f, cs.In, hasR, true), rule, "SetReceived/rport-only-if-present", w.ipos(cs.In), "rport is filled only when the sender asked for it", "rport is written although the entry carried no rport parameter", "guard: HasParam(\"rport\")")
					// value = Sprintf("%d", peerPort)
					good := false
					if sc := w.resultOfCallTo(callArg(cs.In, 1), "fmt.Sprintf", 0); sc != nil {
						fm, args, _ := w.fmtArgs(sc)
						s, _ := constString(fm)
						good = s == "%d" && len(args) == 1 && isParam(f, args[0], 2)
					} else if sc := w.resultOfCallTo(callArg(cs.In, 1), "strconv.Itoa", 0); sc != nil {
						good = isParam(f, sc.Call.Args[0], 2)
					}
					c.check(good && entry(callArg(cs.In, -1)), rule, "SetReceived/rport-value", w.ipos(cs.In), "rport = decimal peerPort", "rport is not set to the decimal peerPort argument on the selected entry")
					mn, _, _ := countSites(entryPt(f), w.under(assumeAtom(errNil(gv), true), assumeAtom(errNil(gp), true), assumeAtom(hasR, true)), isInstr(cs.In))
					c.check(mn == 1, rule, "SetReceived/rport-when-present", w.ipos(cs.In), "a present rport is always overwritten", "a present rport is not always overwritten with the true port")
				}
				c.check(nr == 1, rule, "SetReceived/rport-site", w.pos(f.Pos()), "one rport write site", fmt.Sprintf("expected one rport write site, found %d", nr))
			}
		}
	}
	if sr := c.fn(rule, "(*ViaParam).SetReceived"); sr != nil {
		sps := w.callsIn(sr, "(*ViaParam).SetParam")
		good := len(sps) == 1
		if good {
			s, ok := constString(callArg(sps[0].In, 0))
			good = ok && s == "received" && isParam(sr, callArg(sps[0].In, 1), 1) && isParam(sr, callArg(sps[0].In, -1), 0)
		}
		c.check(good, rule, "ViaParam.SetReceived/key", w.pos(sr.Pos()), "writes parameter 'received' with its argument", "ViaParam.SetReceived does not SetParam(\"received\", <argument>) on its receiver")
	}
	if sp := c.fn(rule, "(*ViaParam).SetParam"); sp != nil {
		w.checkSetParam(c, rule, sp, "ViaParam.Params", "ViaParam.SetParam")
	}
	c.floor(rule, 8)
}

// checkSetParam verifies the replace-in-place-or-append shape of a parameter setter over a []KeyValue field.
func (w *World) checkSetParam(c *Ctx, rule string, fn *ssa.Function, listRef, label string) {
	// writes: (a) element .Value store under Key == name with value param, (b) append-one {name,value}
	var elemStores, listStores []*ssa.Store
	bad := false
	for _, st := range storesIn(fn) {
		switch a := st.Addr.(type) {
		case *ssa.FieldAddr:
			ref := fieldRef(a)
			if ref == listRef {
				listStores = append(listStores, st)
			} else if ref == "KeyValue.Value" {
				if ia, ok := a.X.(*ssa.IndexAddr); ok {
					if _, isL := isLoadOf(ia.X, listRef); isL {
						elemStores = append(elemStores, st)
						continue
					}
				}
				if _, isLocal := a.X.(*ssa.Alloc); !isLocal {
					bad = true
				}
			} else if ref == "KeyValue.Key" {
				if _, isLocal := a.X.(*ssa.Alloc); !isLocal {
					bad = true // renames an existing parameter
				}
			}
		}
	}
	c.check(!bad, rule, label+"/no-other-writes", w.pos(fn.Pos()), "no other parameter is written", label+" writes a Key/Value of an existing parameter outside the matched element")
	nameP, valP := 1, 2
	keyEq := func(a Atom) bool {
		if a.Kind != "eq" {
			return false
		}
		m := func(x, y ssa.Value) bool {
			r, _ := loadedField(x)
			return r == "KeyValue.Key" && isParam(fn, y, nameP)
		}
		return m(a.X, a.Y) || m(a.Y, a.X)
	}
	if len(elemStores) != 1 {
		c.bad(rule, label+"/replace-in-place", w.pos(fn.Pos()), fmt.Sprintf("expected one in-place value replacement, found %d", len(elemStores)))
	} else {
		es := elemStores[0]
		c.check(isParam(fn, es.Val, valP) && w.requires(fn, es, keyEq, true), rule, label+"/replace-in-place", w.ipos(es), "an existing parameter of that name gets the new value", "the in-place replacement is not guarded by Key == name or does not store the value argument")
		// after replacing, no append is reachable
		for _, ls := range listStores {
			c.check(!canReach(at(es), nil, isInstr(ls), nil), rule, label+"/no-duplicate", w.ipos(ls), "after an in-place replacement nothing is appended", "after replacing an existing parameter the setter also appends a duplicate")
		}
	}
	if len(listStores) != 1 {
		c.bad(rule, label+"/append", w.pos(fn.Pos()), fmt.Sprintf("expected one append to %s, found %d stores", listRef, len(listStores)))
		return
	}
	ls := listStores[0]
	good := false
	if ap, ok := strip(ls.Val).(*ssa.Call); ok {
		if b, ok := ap.Call.Value.(*ssa.Builtin); ok && b.Name() == "append" {
			_, isL := isLoadOf(ap.Call.Args[0], listRef)
			elems := varargs(ap.Call.Args[1])
			if isL && len(elems) == 1 {
				// element is a KeyValue literal {name, value}
				if ld, ok := elems[0].(*ssa.UnOp); ok {
					if al, ok := ld.X.(*ssa.Alloc); ok {
						k, v := false, false
						for _, r := range *al.Referrers() {
							if fa, ok := r.(*ssa.FieldAddr); ok {
								for _, rr := range *fa.Referrers() {
									if s2, ok := rr.(*ssa.Store); ok {
										if fieldRef(fa) == "KeyValue.Key" && isParam(fn, s2.Val, nameP) {
											k = true
										}
										if fieldRef(fa) == "KeyValue.Value" && isParam(fn, s2.Val, valP) {
											v = true
										}
									}
								}
							}
						}
						good = k && v
					}
				}
			}
		}
	}
	c.check(good, rule, label+"/append", w.ipos(ls), "otherwise one {name, value} is appended", "the fallback is not "+listRef+" = append("+listRef+", KeyValue{name, value})")
}

// c07ViaParamsAccepted: the sender's Via is stamped only if it can be decoded, and a failed SetReceived is not an
// error for the relay: so the Via decoder must not reject a Via because of one of its ;parameters (any token, with or
// without value, even empty). Structurally: the loop of parseViaParam that fills ViaParam.Params has no early exit.
func c07ViaParamsAccepted(c *Ctx, rule string) {
	w := c.w
	f := c.fn(rule, "parseViaParam")
	if f == nil {
		return
	}
	var loop *rangeLoop
	loops := rangeLoops(f)
	for _, rl := range countingLoops(f, true) {
		if rl.Start > 0 {
			loops = append(loops, rl) // `for i := 1; i < len(segments); i++`: the parameters behind the sent-by
		}
	}
	for _, st := range w.fieldStores(f, "ViaParam.Params") {
		for _, rl := range loops {
			if rl.inLoop(st.Block()) {
				loop = rl
			}
		}
		// or the list is accumulated in a local variable by a loop and stored afterwards
		if okAcc, app, fam := accumulatedListFamily(st.Val); okAcc && app && loop == nil {
			for v := range fam {
				if in, isIn := v.(ssa.Instruction); isIn {
					if _, isCall := v.(*ssa.Call); isCall {
						for _, rl := range loops {
							if rl.inLoop(in.Block()) {
								loop = rl
							}
						}
					}
				}
			}
		}
	}
	if loop == nil {
		c.undecided(rule, "parseViaParam/every-parameter-accepted", w.pos(f.Pos()), "the loop that fills ViaParam.Params was not found")
		return
	}
	c.check(len(loop.earlyExits()) == 0, rule, "parseViaParam/every-parameter-accepted", w.ipos(loop.If), "no Via parameter makes the decoder give up", "parseViaParam can fail (or stop) because of a single ;parameter: the whole Via is then undecodable, the request is relayed without received/rport and its response cannot be routed back")
}
