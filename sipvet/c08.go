package main

import (
	"fmt"
	"go/token"
	"go/types"
	"os"
	"sort"
	"strings"

	"golang.org/x/tools/go/ssa"
)

func init() {
	register(&propDef{ID: "C08", Run: runC08,
		Explain:    "Structural necessary conditions of 'no network input can crash, wedge or balloon the proxy', decided on the SSA of every function reachable from the socket receive loops and the message loop of /repo: (1) panic-obligations: every index, slice expression, string index, make with a non-constant size, integer division/modulo by a non-constant, unchecked type assertion in that code is proved in range by linear reasoning from the branch conditions that must hold there, range/counting loops, and library contracts (F1 index results, F2 Split >= 1, F3 HasPrefix/HasSuffix lengths, F4 different needles, F5 len of a slice expression, F6 distinct prefix and suffix), with callee summaries for position helpers and an inductive non-negativity analysis; a pointer returned together with an error (or by a constructor that can return nil) is dereferenced only where the error/nil was tested; (2) alloc-bound: no allocation size is network-derived without a dominating constant bound (memory must follow received bytes); (3) discard: the UDP handler runs only when ParseMessage succeeded; on a TCP parse error the connection is closed and the per-connection loop is left; (4) no-exit: no panic, os.Exit, log.Fatal, zap Fatal/Panic/DPanic or Must-style call in that code (a built-in positive example must be recognised); (5) no-recursion: no call cycle among those functions. (service-loops): in the UDP parse loop and in the message loop no branch on a received value (or anything computed from one) has a side from which the loop never receives again - leaving on a closed channel is not content.",
		NotDecided: "stalls caused by blocking system calls on the loop thread (DNS lookups, dials and writes without deadlines), CPU time, resident-set size; nil-safety of plain field loads (assumed non-nil by construction)."})
}

// networkRoots: the goroutine entry points that handle bytes from sockets.
var networkRootNames = []string{"(*UDPServerTransport).receiveMessage", "(*UDPServerTransport).startParseMessage", "(*TCPServerTransport).receiveMessage",
	"(*TCPServerTransport).acceptConnection", "(*Proxy).receiveAndProcessMessage"}

func (w *World) networkReachable() map[*ssa.Function]bool {
	var roots []*ssa.Function
	for _, n := range networkRootNames {
		if f := w.Fn(n); f != nil {
			roots = append(roots, f)
		}
	}
	return w.reachableFrom(roots, false)
}

func runC08(c *Ctx) {
	w := c.w
	for _, n := range networkRootNames {
		if w.Fn(n) == nil {
			c.undecided("panic-obligations", "anchor:"+n, "-", "network entry point "+n+" not found")
		}
	}
	c08Panics(c)
	ruleTypedNil(c, "panic-obligations")
	ruleReadLockWrites(c, "panic-obligations")
	c08AllocBound(c)
	c08Discard(c)
	c08NoExit(c)
	c08NoRecursion(c)
	c08ServiceLoops(c)
	c09LockOrder(c) // a lock re-acquired while held, or a lock cycle, stalls the message loop (rule name "lock-order")
	if c.Tier == "thorough" && bceFile != "" {
		c08BCECrossCheck(c)
	}
}

// c08BCECrossCheck: every bounds check the Go compiler could not eliminate (its own listing, produced by the check
// script on a scratch copy of the current tree) that lies in a network-reachable function must coincide with an
// obligation the prover evaluated: the inventory of panic obligations is complete with respect to the compiler's.
func c08BCECrossCheck(c *Ctx) {
	w := c.w
	rule := "bce-coverage"
	data, err := os.ReadFile(bceFile)
	if err != nil {
		c.undecided(rule, "listing", "-", "cannot read the compiler's bounds-check listing: "+err.Error())
		return
	}
	have := map[string]bool{}
	for _, o := range c.Obls {
		if o.Rule == "panic-obligations" {
			have[strings.TrimSuffix(o.Pos, "~")] = true
		}
	}
	reach := w.networkReachable()
	// function extents
	type ext struct {
		file     string
		from, to int
		fn       *ssa.Function
	}
	var exts []ext
	for _, fn := range w.All {
		syn := fn.Syntax()
		if syn == nil {
			continue
		}
		p0, p1 := w.Fset.Position(syn.Pos()), w.Fset.Position(syn.End())
		f := p0.Filename
		if i := strings.LastIndex(f, "/"); i >= 0 {
			f = f[i+1:]
		}
		exts = append(exts, ext{f, p0.Line, p1.Line, fn})
	}
	n, inReach, matched, viaCall := 0, 0, 0, 0
	for _, line := range strings.Split(string(data), "\n") {
		if !strings.Contains(line, "Found Is") {
			continue
		}
		parts := strings.SplitN(strings.TrimPrefix(strings.TrimSpace(line), "./"), ":", 4)
		if len(parts) < 4 {
			continue
		}
		n++
		file := parts[0]
		var ln int
		fmt.Sscanf(parts[1], "%d", &ln)
		// innermost enclosing function
		var best *ext
		for i := range exts {
			e := &exts[i]
			if e.file == file && e.from <= ln && ln <= e.to {
				if best == nil || (e.to-e.from) < (best.to-best.from) {
					best = e
				}
			}
		}
		if best == nil || !reach[best.fn] {
			continue
		}
		inReach++
		pos := fmt.Sprintf("%s:%d", file, ln)
		if have[pos] {
			matched++
			continue
		}
		// a check inside an inlined callee is reported at the call site: library code is outside the inventory
		// (its preconditions are the library's), package functions have their own obligations
		inlined := false
		eachInstr(best.fn, func(in ssa.Instruction) {
			if _, ok := in.(ssa.CallInstruction); ok && strings.TrimSuffix(w.ipos(in), "~") == pos {
				inlined = true
			}
		})
		if inlined {
			viaCall++
			continue
		}
		c.bad(rule, pos, pos, "the compiler keeps a bounds check at "+pos+" in network-reachable function "+w.fname(best.fn)+" that corresponds to no obligation of the prover's inventory: the panic-obligation population is incomplete", strings.TrimSpace(line))
	}
	c.check(n >= 40 && inReach >= 25, rule, "listing/size", "-", fmt.Sprintf("%d compiler bounds checks, %d in network-reachable functions: %d matched by prover obligations, %d inside inlined callees (reported at a call site)", n, inReach, matched, viaCall), fmt.Sprintf("the compiler listing is implausibly small (%d entries, %d in network-reachable code): the cross-check did not run properly", n, inReach))
}

// named assumptions: single constructs whose range is guaranteed by configuration, not by code
var c08Assumed = map[string]string{
	"ProxyItem.transports[0]":       "every `listens` entry configures a UDP or TCP port, and listener transports are never removed (IsExit() is false for a listening transport because its conn is nil)",
	"NewTCPServerTransportWithConn": "net.SplitHostPort(conn.LocalAddr().String()) does not fail for an established TCP connection, so the constructor does not return nil",
	"NewUDPClientTransportWithConn": "net.ResolveUDPAddr(\"udp\", conn.LocalAddr().String()) does not fail for a bound UDP socket, so the constructor does not return nil",
}

func c08Panics(c *Ctx) { c08PanicsIn(c, "panic-obligations", "") }

// c08PanicsIn evaluates the panic obligations of the network-reachable functions whose name starts with prefix (all of
// them for ""), under the given rule name: other properties share the obligations of the code they depend on.
func c08PanicsIn(c *Ctx, rule string, prefix string) {
	w := c.w
	reach := w.networkReachable()
	counts := map[string]int{}
	var fns []*ssa.Function
	for fn := range reach {
		if prefix != "" && !strings.HasPrefix(w.fname(fn), prefix) {
			continue
		}
		fns = append(fns, fn)
	}
	sort.Slice(fns, func(i, j int) bool { return w.fname(fns[i]) < w.fname(fns[j]) })
	for _, fn := range fns {
		c.Fns[w.fname(fn)] = true
		per := map[string]int{}
		key := func(kind string, in ssa.Instruction) string {
			per[kind]++
			return fmt.Sprintf("%s/%s#%d", w.fname(fn), kind, per[kind])
		}
		report := func(kind string, in ssa.Instruction, desc string, ok bool, open, have []string) {
			counts[kind]++
			k := key(kind, in)
			if ok {
				c.ok(rule, k, w.ipos(in), desc+" proved in range", firstN(have, 6)...)
				return
			}
			// named assumptions
			for pat, reason := range c08Assumed {
				if strings.Contains(desc, pat) {
					c.assume(rule, k+"["+pat+"]", w.ipos(in), reason)
					return
				}
			}
			facts := append([]string{}, prefixAll("need  ", open)...)
			facts = append(facts, prefixAll("have  ", firstN(have, 10))...)
			c.bad(rule, k, w.ipos(in), desc+" is not provably in range on every path: an input that violates the missing bound makes the runtime panic and kills the goroutine (the message loop, for code below it)", facts...)
		}
		eachInstr(fn, func(in ssa.Instruction) {
			switch x := in.(type) {
			case *ssa.IndexAddr:
				if isVarargsArray(x.X) {
					return
				}
				if _, isArrPtr := x.X.Type().Underlying().(*types.Pointer); isArrPtr {
					if k, ok := constInt(x.Index); ok {
						if arr, ok := x.X.Type().Underlying().(*types.Pointer).Elem().Underlying().(*types.Array); ok && k >= 0 && k < arr.Len() {
							return
						}
					}
				}
				desc := w.describeIndexed(x.X) + "[" + w.shortTerm(x.Index) + "]"
				ok, open, have := w.proveSite(fn, in, func(p *prover) []need {
					i := p.linOf(x.Index)
					l := newLin()
					l.c[p.lenKey(x.X)] = 1
					return []need{{i, "index >= 0"}, {l.add(i, -1).add(lin{c: map[string]int64{}, k: 1}, -1), "index <= len-1"}}
				})
				report("index", in, desc, ok, open, have)
			case *ssa.Index:
				desc := w.describeIndexed(x.X) + "[" + w.shortTerm(x.Index) + "]"
				ok, open, have := w.proveSite(fn, in, func(p *prover) []need {
					i := p.linOf(x.Index)
					l := newLin()
					if s, isS := constString(x.X); isS {
						l.k = int64(len(s))
					} else {
						l.c[p.lenKey(x.X)] = 1
					}
					return []need{{i, "index >= 0"}, {l.add(i, -1).add(lin{c: map[string]int64{}, k: 1}, -1), "index <= len-1"}}
				})
				report("index", in, desc, ok, open, have)
			case *ssa.Slice:
				if isVarargsArray(x.X) {
					return
				}
				desc := w.describeIndexed(x.X) + "[" + w.shortTermN(x.Low) + ":" + w.shortTermN(x.High) + "]"
				ok, open, have := w.proveSite(fn, in, func(p *prover) []need {
					var lo, hi lin
					bound := newLin()
					_, isStr := x.X.Type().Underlying().(*types.Basic)
					// strings and slices: high <= len (for slices cap would do; len is the safe bound)
					bound.c[p.lenKey(x.X)] = 1
					_ = isStr
					if x.Low != nil {
						lo = p.linOf(x.Low)
					} else {
						lo = newLin()
					}
					if x.High != nil {
						hi = p.linOf(x.High)
					} else {
						hi = bound.clone()
					}
					var ns []need
					if x.Low != nil {
						ns = append(ns, need{lo, "low >= 0"})
					}
					ns = append(ns, need{hi.add(lo, -1), "low <= high"})
					if x.High != nil {
						ns = append(ns, need{bound.add(hi, -1), "high <= len"})
					}
					return ns
				})
				report("slice", in, desc, ok, open, have)
			case *ssa.MakeSlice:
				if _, isK := constInt(x.Len); isK {
					return
				}
				desc := "make(" + types.TypeString(x.Type(), func(*types.Package) string { return "" }) + ", " + w.shortTerm(x.Len) + ")"
				ok, open, have := w.proveSite(fn, in, func(p *prover) []need {
					return []need{{p.linOf(x.Len), "size >= 0"}}
				})
				report("make", in, desc, ok, open, have)
			case *ssa.BinOp:
				if (x.Op == token.QUO || x.Op == token.REM) && isIntegerType(x.Type()) {
					if k, isK := constInt(x.Y); isK && k != 0 {
						return
					}
					desc := w.shortTerm(x.X) + " " + x.Op.String() + " " + w.shortTerm(x.Y)
					ok, open, have := w.proveSite(fn, in, func(p *prover) []need {
						d := p.linOf(x.Y)
						return []need{{d.add(lin{c: map[string]int64{}, k: 1}, -1), "divisor >= 1"}}
					})
					report("div", in, desc, ok, open, have)
				}
			case *ssa.TypeAssert:
				if !x.CommaOk {
					counts["assert"]++
					c.bad(rule, key("assert", in), w.ipos(in), "type assertion "+w.shortTerm(x.X)+".("+types.TypeString(x.AssertedType, nil)+") without comma-ok panics when the dynamic type differs")
				} else {
					counts["assert-ok"]++
				}
			}
		})
	}
	if prefix != "" {
		return // a shared subset: the package-wide parts and the population floor belong to C08 itself
	}
	c08ErrorPaired(c, reach)
	c08NilEscape(c, reach)
	c.info(rule, "population", "-", fmt.Sprintf("%d network-reachable functions; obligations: %v", len(reach), counts))
	if counts["index"] < 30 || counts["slice"] < 30 {
		c.undecided(rule, "floor", "-", fmt.Sprintf("only %d index and %d slice obligations found in network-reachable code (expected >= 30 each): the population is not being enumerated", counts["index"], counts["slice"]))
	}
}

func firstN(s []string, n int) []string {
	if len(s) > n {
		return s[:n]
	}
	return s
}

func prefixAll(p string, s []string) []string {
	var o []string
	for _, x := range s {
		o = append(o, p+x)
	}
	return o
}

func (w *World) shortTerm(v ssa.Value) string {
	s := w.termKey(v)
	if len(s) > 60 {
		s = s[:57] + "..."
	}
	return s
}

func (w *World) shortTermN(v ssa.Value) string {
	if v == nil {
		return ""
	}
	return w.shortTerm(v)
}

func (w *World) describeIndexed(v ssa.Value) string {
	if ref, _ := loadedField(v); ref != "" {
		return ref
	}
	return w.shortTerm(v)
}

// nil status of a call result
const (
	nilNever = iota
	nilOnlyWithError
	nilPossiblyWithNilError
)

var nilMemo = map[string]int{}

// nilStatus: can result i of fn be nil, and if so only together with a non-nil error?
func (w *World) nilStatus(fn *ssa.Function, i int, seen map[string]bool) int {
	key := fmt.Sprintf("%p#%d", fn, i)
	if v, ok := nilMemo[key]; ok {
		return v
	}
	if seen[key] {
		return nilNever
	}
	seen[key] = true
	res := fn.Signature.Results()
	ei := -1
	for k := res.Len() - 1; k >= 0; k-- {
		if types.TypeString(res.At(k).Type(), nil) == "error" {
			ei = k
			break
		}
	}
	status := nilNever
	up := func(s int) {
		if s > status {
			status = s
		}
	}
	var errDefinitelySet func(errVal ssa.Value, r ssa.Instruction) bool
	errDepth := 0
	errDefinitelySet = func(errVal ssa.Value, r ssa.Instruction) bool {
		if errVal == nil {
			return false
		}
		whole := strip(errVal)
		// an error joined from several failure exits (the merged tail of a helper): each edge on its own
		if ph, isPhi := whole.(*ssa.Phi); isPhi && errDepth < 3 && ph.Block().Dominates(r.Block()) {
			errDepth++
			all := true
			for k, e := range ph.Edges {
				pred := ph.Block().Preds[k]
				if !errDefinitelySet(e, pred.Instrs[len(pred.Instrs)-1]) {
					all = false
				}
			}
			errDepth--
			if all {
				return true
			}
		}
		if w.requires(fn, r, func(a Atom) bool { return a.Kind == "nil" && strip(a.X) == whole }, false) {
			return true // the returned error value itself was tested non-nil on the way here
		}
		for _, e := range phiLeaves(errVal) {
			if w.isFreshError(e) {
				continue
			}
			if kc, idx := callOfResult(e); kc != nil && idx == errIndex(kc) && w.requires(fn, r, errNil(kc), false) {
				continue
			}
			// any error value tested non-nil on the way to this return (e.g. the joined result of an inlined helper)
			ev := strip(e)
			if w.requires(fn, r, func(a Atom) bool { return a.Kind == "nil" && strip(a.X) == ev }, false) {
				continue
			}
			if !isNilConst(e) {
				// an error value of unknown state (e.g. forwarded unconditionally): it is non-nil exactly when the callee failed
				if kc, idx := callOfResult(e); kc != nil && idx == errIndex(kc) {
					continue
				}
			}
			return false
		}
		return true
	}
	// one (value, error, program point) triple per way of leaving: a return whose value and error are both joined in
	// the returning block (the tail of a merged helper: `return msg, err` behind an if/else that only counts) is read
	// edge by edge, each pair at the end of the predecessor it comes from
	type exitPair struct {
		v, e ssa.Value
		at   ssa.Instruction
	}
	var exits []exitPair
	for _, r := range returnsUnder(fn, nil) {
		if i >= len(r.Results) {
			continue
		}
		var ev ssa.Value
		if ei >= 0 && ei < len(r.Results) {
			ev = r.Results[ei]
		}
		var expand func(v, e ssa.Value, at ssa.Instruction, d int)
		expand = func(v, e ssa.Value, at ssa.Instruction, d int) {
			pv, okV := strip(v).(*ssa.Phi)
			var pe *ssa.Phi
			if e != nil {
				pe, _ = strip(e).(*ssa.Phi)
			}
			if okV && pe != nil && pv.Block() == pe.Block() && len(pv.Edges) == len(pe.Edges) && d < 3 && pv.Block().Dominates(at.Block()) {
				for k := range pv.Edges {
					pred := pv.Block().Preds[k]
					expand(pv.Edges[k], pe.Edges[k], pred.Instrs[len(pred.Instrs)-1], d+1)
				}
				return
			}
			for _, leaf := range phiLeaves(v) {
				exits = append(exits, exitPair{leaf, e, at})
			}
		}
		expand(r.Results[i], ev, r, 0)
	}
	for _, x := range exits {
		v, r := x.v, x.at
		{
			if isNilConst(v) {
				if errDefinitelySet(x.e, r) {
					up(nilOnlyWithError)
				} else {
					up(nilPossiblyWithNilError)
				}
				continue
			}
			kc, j := callOfResult(v)
			if kc == nil {
				continue
			}
			callee := kc.Common().StaticCallee()
			if callee == nil || !w.isMain(callee) {
				continue
			}
			st := w.nilStatus(callee, j, seen)
			if st == nilNever {
				continue
			}
			// explicit nil test of the forwarded value before this return
			nilT := func(a Atom) bool { return a.Kind == "nil" && strip(a.X) == strip(v) }
			if w.requires(fn, r, nilT, false) {
				continue
			}
			kei := errIndex(kc)
			if st == nilOnlyWithError && kei >= 0 {
				if w.requires(fn, r, errNil(kc), true) {
					continue // only returned when the inner call succeeded
				}
				// forwarded together with the inner call's own error
				fwd := false
				if x.e != nil {
					fwd = allVals(phiLeaves(x.e), func(e ssa.Value) bool { return isResultOf(e, kc, kei) })
				}
				if fwd {
					up(nilOnlyWithError)
					continue
				}
			}
			up(nilPossiblyWithNilError)
		}
	}
	nilMemo[key] = status
	return status
}

// c08ErrorPaired: a pointer/interface result that can be nil is dereferenced only where that was excluded: by the
// error test when nil comes only with an error, by an explicit nil test (or a correlated predicate) otherwise.
func c08ErrorPaired(c *Ctx, reach map[*ssa.Function]bool) {
	w := c.w
	rule := "panic-obligations"
	n := 0
	for _, fn := range w.All {
		if !reach[fn] {
			continue
		}
		per := 0
		for _, cs := range w.callsIn(fn) {
			call, ok := cs.In.(*ssa.Call)
			if !ok {
				continue
			}
			callee := call.Common().StaticCallee()
			if callee == nil || !w.isMain(callee) {
				continue
			}
			ei := errIndex(call)
			nres := callee.Signature.Results().Len()
			for ri := 0; ri < nres; ri++ {
				if ri == ei || !isPtrOrIface(callee.Signature.Results().At(ri).Type()) {
					continue
				}
				var val ssa.Value
				if nres == 1 {
					val = call
				} else if e := extractOf(call, ri); e != nil {
					val = e
				}
				if val == nil {
					continue
				}
				st := w.nilStatus(callee, ri, map[string]bool{})
				if st == nilNever {
					continue
				}
				// the uses of the result, also where it flows on through phi nodes (joins left by the helper inliner,
				// conditional assignments): carrier is the value actually dereferenced
				type useAt struct {
					u       ssa.Instruction
					carrier ssa.Value
				}
				var uses []useAt
				seenV := map[ssa.Value]bool{}
				var collect func(v ssa.Value, d int)
				collect = func(v ssa.Value, d int) {
					if d > 3 || seenV[v] || v.Referrers() == nil {
						return
					}
					seenV[v] = true
					for _, u := range *v.Referrers() {
						if ph, ok := u.(*ssa.Phi); ok {
							// the value enters the join on some edges only: where every such edge already excludes the
							// failure (taken only when the call succeeded, or after a nil test), the join carries no nil of ours
							open := w.phiEdgeOpen(fn, ph, v, call, ei)
							if open {
								collect(ph, d+1)
							}
							continue
						}
						uses = append(uses, useAt{u, v})
					}
				}
				collect(val, 0)
				for _, ua := range uses {
					u, val := ua.u, ua.carrier
					deref := false
					switch x := u.(type) {
					case *ssa.FieldAddr:
						deref = x.X == val
					case *ssa.UnOp:
						deref = x.Op == token.MUL && x.X == val
					case ssa.CallInstruction:
						cc := x.Common()
						if cc.IsInvoke() && cc.Value == val {
							deref = true
						} else if sc := cc.StaticCallee(); sc != nil && sc.Signature.Recv() != nil && len(cc.Args) > 0 && cc.Args[0] == val {
							deref = w.methodDerefsRecv(sc)
						}
					}
					if !deref {
						continue
					}
					n++
					per++
					key := fmt.Sprintf("%s/nil-deref/%s#%d", w.fname(fn), w.fname(callee), per)
					guarded := false
					if st == nilOnlyWithError && ei >= 0 {
						guarded = w.requires(fn, u, errNil(call), true)
					}
					typed := w.nilIsTyped(callee, ri)
					if !guarded && !typed {
						nilT := func(a Atom) bool { return a.Kind == "nil" && strip(a.X) == strip(val) }
						guarded = w.requires(fn, u, nilT, false)
					}
					if !guarded {
						guarded = w.correlatedGuard(fn, u, call, callee)
					}
					if !guarded {
						if reason, ok := c08Assumed[w.fname(callee)]; ok && w.nilOnlyOnLocalAddrFailure(callee) {
							c.assume(rule, key, w.ipos(u), reason)
							continue
						}
					}
					how := "it is returned as nil together with an error"
					if st == nilPossiblyWithNilError {
						how = "it can be nil even when no error is reported"
					}
					if typed {
						how += "; the nil is a nil pointer wrapped in the interface result, which a `!= nil` test on the interface does not detect: only the error tells"
					}
					c.check(guarded, rule, key, w.ipos(u), "result of "+w.fname(callee)+" is used only where it cannot be nil", fmt.Sprintf("result %d of %s can be nil (%s) and is dereferenced at %s without that having been excluded: nil pointer dereference in network-reachable code", ri, w.fname(callee), how, w.ipos(u)))
				}
			}
		}
	}
	c.info(rule, "error-paired", "-", fmt.Sprintf("%d dereferences of possibly-nil call results inspected", n))
}

func isPtrOrIface(t types.Type) bool {
	switch t.Underlying().(type) {
	case *types.Pointer, *types.Interface:
		return true
	}
	return false
}

// returnsNilWithError: some return of fn yields (nil, non-nil error).
func (w *World) returnsNilWithError(fn *ssa.Function) bool {
	for _, r := range returnsUnder(fn, nil) {
		for _, v := range phiLeaves(r.Results[0]) {
			if isNilConst(v) {
				return true
			}
			// forwarding another call's result
			if c, _ := callOfResult(v); c != nil {
				if callee := c.Common().StaticCallee(); callee != nil && w.isMain(callee) && callee != fn && errIndex(c) > 0 {
					if w.returnsNilWithError(callee) {
						return true
					}
				}
			}
		}
	}
	return false
}

func (w *World) mayReturnNilConst(fn *ssa.Function) bool {
	for _, r := range returnsUnder(fn, nil) {
		for _, v := range phiLeaves(r.Results[0]) {
			if isNilConst(v) {
				return true
			}
		}
	}
	return false
}

func (w *World) methodDerefsRecv(fn *ssa.Function) bool {
	if len(fn.Params) == 0 {
		return false
	}
	recv := fn.Params[0]
	for _, u := range *recv.Referrers() {
		switch x := u.(type) {
		case *ssa.FieldAddr:
			if x.X == ssa.Value(recv) {
				return true
			}
		case *ssa.UnOp:
			if x.Op == token.MUL {
				return true
			}
		case ssa.CallInstruction:
			return true
		case *ssa.Store:
			return true
		}
	}
	return false
}

// correlatedGuard: callee returns nil iff recv.f == nil, and the use is guarded by a boolean method on the same receiver
// that returns recv.f != nil.
func (w *World) correlatedGuard(fn *ssa.Function, use ssa.Instruction, call *ssa.Call, callee *ssa.Function) bool {
	if callee.Signature.Recv() == nil {
		return false
	}
	// which field decides
	field := ""
	for _, a := range w.atomsOf(callee) {
		if a.Kind == "nil" {
			if ref, base := loadedField(a.X); ref != "" && isParam(callee, base, 0) {
				field = ref
			}
		}
	}
	if field == "" {
		return false
	}
	recv := callArg(call, -1)
	sel := func(a Atom) bool {
		if a.Kind != "bool" {
			return false
		}
		pc, _ := callOfResult(a.X)
		if pc == nil {
			return false
		}
		pf := pc.Common().StaticCallee()
		if pf == nil || !w.isMain(pf) || pf.Signature.Recv() == nil || strip(callArg(pc, -1)) != strip(recv) {
			return false
		}
		// predicate body: return recv.field != nil
		for _, r := range returnsUnder(pf, nil) {
			b, ok := strip(r.Results[0]).(*ssa.BinOp)
			if !ok || b.Op != token.NEQ || !isNilConst(b.Y) {
				return false
			}
			ref, base := loadedField(b.X)
			if ref != field || !isParam(pf, base, 0) {
				return false
			}
		}
		return true
	}
	return w.requires(fn, use, sel, true)
}

func c08AllocBound(c *Ctx) {
	w := c.w
	g := w.Flow()
	rule := "alloc-bound"
	ruleDatagramBuffer(c, "discard")
	c10ResultAfterError(c, "discard", "ParseMessage")
	reach := w.networkReachable()
	n := 0
	for _, fn := range w.All {
		if !reach[fn] {
			continue
		}
		per := 0
		check := func(in ssa.Instruction, size ssa.Value, what string) {
			if _, isK := constInt(size); isK {
				return
			}
			n++
			per++
			key := fmt.Sprintf("%s/%s#%d", w.fname(fn), what, per)
			tainted, wit := g.netTainted(size)
			if !tainted {
				c.ok(rule, key, w.ipos(in), "size "+w.shortTerm(size)+" does not derive from network input")
				return
			}
			// a network-derived size needs a constant upper bound among the facts at the site, or must be a received-byte count
			if cc, idx := callOfResult(size); cc != nil && idx == 0 {
				switch w.calleeName(cc) {
				case "(*net.UDPConn).ReadFromUDP", "io.ReadFull", "(net.Conn).Read":
					c.ok(rule, key, w.ipos(in), "size is a count of bytes actually received")
					return
				}
			}
			if ref, _ := loadedField(size); ref != "" {
				if _, ok := w.pairedCount(ref); ok {
					c.ok(rule, key, w.ipos(in), "size is a received-byte count ("+ref+" is filled by the read into the paired buffer in every construction)")
					return
				}
			}
			if x, isLen := lenOf(size); isLen {
				c.ok(rule, key, w.ipos(in), "size is the length of data already held ("+w.shortTerm(x)+")")
				return
			}
			if heldDataSize(size, 0) {
				c.ok(rule, key, w.ipos(in), "size is a sum of lengths of data already held and constants ("+w.shortTerm(size)+"): the allocation is proportional to what is in memory")
				return
			}
			bounded, _, _ := w.proveSite(fn, in, func(p *prover) []need {
				l := p.linOf(size)
				cap := lin{c: map[string]int64{}, k: 1 << 20}
				return []need{{cap.add(l, -1), "size <= 1 MiB"}}
			})
			c.check(bounded, rule, key, w.ipos(in), "network-derived size is bounded by a constant", "the allocation size "+w.shortTerm(size)+" is taken from the input ("+wit+") without an upper bound: one message declaring a huge length makes the proxy allocate that much (or panic in makeslice) before the bytes have arrived")
		}
		eachInstr(fn, func(in ssa.Instruction) {
			switch x := in.(type) {
			case *ssa.MakeSlice:
				check(in, x.Len, "make")
				if x.Cap != x.Len {
					check(in, x.Cap, "make-cap")
				}
			case *ssa.MakeMap:
				if x.Reserve != nil {
					check(in, x.Reserve, "makemap")
				}
			case *ssa.MakeChan:
				check(in, x.Size, "makechan")
			case *ssa.Call:
				switch w.calleeName(x) {
				case "(*bytes.Buffer).Grow", "(*strings.Builder).Grow":
					check(in, x.Call.Args[1], "grow")
				case "bufio.NewReaderSize", "bufio.NewWriterSize":
					check(in, x.Call.Args[1], "bufio-size")
				case "strings.Repeat", "bytes.Repeat":
					check(in, x.Call.Args[1], "repeat")
				}
			}
		})
	}
	c.ok(rule, "population", "-", fmt.Sprintf("%d non-constant allocation sizes in network-reachable code inspected", n))
	// what a table keyed by message content holds must be able to leave it: the client transport table gets an entry (and
	// for udp a socket of its own) for every distinct destination a Route or Via names; the sweep removes the entries whose
	// IsExpired() answers true, so an implementation that answers the constant false is never removed
	nExp := 0
	for _, fn := range w.All {
		if !w.isMain(fn) || fn.Blocks == nil || fn.Name() != "IsExpired" || fn.Signature.Recv() == nil {
			continue
		}
		nExp++
		always := true
		for _, r := range returnsUnder(fn, nil) {
			for _, leaf := range phiLeaves(r.Results[0]) {
				if b, ok := constBool(leaf); !ok || b {
					always = false
				}
			}
		}
		c.check(!always, rule, w.fname(fn)+"/never-expires", w.pos(fn.Pos()), "entries of this kind can expire", "IsExpired() of this client transport is the constant false: the table entry (and the socket behind it) created for every distinct destination that a message names is never removed - N small messages naming N destinations leave N sockets and N entries for the life of the process")
	}
	c.check(nExp >= 2, rule, "client-transports/expiry-census", "-", "expiry predicates found", fmt.Sprintf("only %d IsExpired implementations found", nExp))
	// positive control for the taint engine
	if fv := w.field("Header", "value"); fv != nil {
		found := false
		for _, v := range g.fieldStores[fv] {
			if t, _ := g.netTainted(v); t {
				found = true
			}
		}
		if !found {
			c.undecided(rule, "positive-control", "-", "taint engine does not see Header.value as network-derived")
		}
	}
}

// heldDataSize: v is built from len(x) terms and non-negative constants by + only (joined by phis): a capacity hint
// proportional to data that is already in memory.
func heldDataSize(v ssa.Value, d int) bool {
	if d > 8 {
		return false
	}
	v = strip(v)
	if k, ok := constInt(v); ok {
		return k >= 0 && k <= 1<<16
	}
	if _, ok := lenOf(v); ok {
		return true
	}
	// a count of occurrences in held data is at most its length
	if cc, ok := v.(*ssa.Call); ok {
		if callee := cc.Call.StaticCallee(); callee != nil {
			switch callee.String() {
			case "strings.Count", "bytes.Count":
				return true
			}
		}
	}
	switch x := v.(type) {
	case *ssa.BinOp:
		if x.Op == token.SUB { // a held size less a small constant (an upper bound all the same)
			if k, ok := constInt(x.Y); ok && k >= 0 && k <= 1<<16 {
				return heldDataSize(x.X, d+1)
			}
		}
		return x.Op == token.ADD && heldDataSize(x.X, d+1) && heldDataSize(x.Y, d+1)
	case *ssa.Phi:
		for _, e := range x.Edges {
			if !heldDataSize(e, d+1) {
				return false
			}
		}
		return true
	}
	return false
}

func c08Discard(c *Ctx) {
	w := c.w
	rule := "discard"
	c10Discard(c) // UDP: handler only on success (rule name "discard")
	f := c.fn(rule, "(*TCPServerTransport).receiveMessage")
	if f == nil {
		return
	}
	var pm ssa.CallInstruction
	for _, cs := range w.callsIn(f, "ParseMessage") {
		pm = cs.In
	}
	if pm == nil {
		c.bad(rule, "tcp/ParseMessage", w.pos(f.Pos()), "the TCP receive loop does not decode with ParseMessage")
		return
	}
	fail := w.under(assumeAtom(errNil(pm), false))
	var closes []ssa.Instruction
	for _, cs := range w.callsIn(f, "(net.Conn).Close") {
		if strip(cs.In.Common().Value) == ssa.Value(f.Params[1]) {
			closes = append(closes, cs.In)
		}
	}
	// on failure: Close is executed and the loop is left (ParseMessage not reachable again)
	c.check(len(closes) > 0 && !canReach(at(pm), fail, isReturn, inSet(closes)), rule, "tcp/close-on-error", w.ipos(pm), "a connection carrying undecodable input is closed", "after a parse error the receive loop can end without closing the connection (the peer keeps a half-dead connection, descriptors leak)")
	c.check(!canReach(at(pm), fail, isInstr(pm), nil), rule, "tcp/leave-loop-on-error", w.ipos(pm), "the per-connection loop is left after a parse error", "after a parse error the loop goes on reading from the same, now desynchronised (or closed) stream: with a closed connection this spins forever")
	// handler only on success, with the parsed message
	for _, cs := range w.callsIn(f, "MessageHandler.HandleRawMessage") {
		c.check(w.requires(f, cs.In, errNil(pm), true), rule, "tcp/handler-only-on-success", w.ipos(cs.In), "only decoded messages are handed on", "a message is handed to the proxy although decoding failed (nil message dereference in the loop)")
	}
	// the loop's message case does not touch the message on the error edge
	if loop := w.Fn(loopRoot); loop != nil {
		for _, cs := range w.callsIn(loop, "(*Proxy).handleRawMessage") {
			for _, u := range w.callsIn(loop, "(*Proxy).handleDialog", "(*Proxy).HandleMessage") {
				c.check(w.requires(loop, u.In, errNil(cs.In), true), rule, "loop/"+u.Name+"-only-on-success", w.ipos(u.In), "the message is used only when the raw step succeeded", u.Name+" runs although handleRawMessage failed")
			}
		}
	}
	c.floor(rule, 7)
}

const exitSnippet = `package snippet

func fatal(x int) int {
	if x < 0 {
		panic("negative")
	}
	return x
}

func fine(x int) int { return x + 1 }
`

var exitCalls = map[string]bool{"os.Exit": true, "log.Fatal": true, "log.Fatalf": true, "log.Fatalln": true, "log.Panic": true, "log.Panicf": true, "log.Panicln": true,
	"(*log.Logger).Fatal": true, "(*log.Logger).Fatalf": true, "(*log.Logger).Panic": true, "(*log.Logger).Panicf": true,
	"(*go.uber.org/zap.Logger).Fatal": true, "(*go.uber.org/zap.Logger).Panic": true, "(*go.uber.org/zap.Logger).DPanic": true,
	"(*go.uber.org/zap.SugaredLogger).Fatal": true, "(*go.uber.org/zap.SugaredLogger).Fatalf": true, "(*go.uber.org/zap.SugaredLogger).Panic": true, "(*go.uber.org/zap.SugaredLogger).Panicf": true,
	"regexp.MustCompile": true, "regexp.MustCompilePOSIX": true, "text/template.Must": true, "github.com/google/uuid.Must": true, "github.com/google/uuid.MustParse": true, "github.com/google/uuid.New": true,
	"runtime.Goexit": true, "syscall.Exit": true}

// exitSites lists the explicit crash/exit constructs of fn.
func (w *World) exitSites(fn *ssa.Function) []ssa.Instruction {
	var out []ssa.Instruction
	eachInstr(fn, func(in ssa.Instruction) {
		switch x := in.(type) {
		case *ssa.Panic:
			if s, ok := constString(x.X); ok && s == "blocking select matched no case" {
				return // unreachable block go/ssa emits after a select without default
			}
			out = append(out, in)
		case ssa.CallInstruction:
			if _, isDefer := in.(*ssa.Defer); isDefer {
				return
			}
			name := ""
			if w != nil {
				name = w.calleeName(x)
			} else if sc := x.Common().StaticCallee(); sc != nil {
				name = sc.String()
			}
			if exitCalls[name] {
				out = append(out, in)
			}
		}
	})
	return out
}

func c08NoExit(c *Ctx) {
	w := c.w
	rule := "no-exit"
	sp, err := buildSnippet(exitSnippet)
	if err != nil {
		c.undecided(rule, "positive-example", "-", "cannot build the embedded example: "+err.Error())
	} else {
		var nilW *World
		c.check(len(nilW.exitSites(sp.Func("fatal"))) == 1 && len(nilW.exitSites(sp.Func("fine"))) == 0, rule, "positive-example", "-", "the detector recognises the embedded panic and is silent on the plain function", "the exit detector fails on its embedded examples")
	}
	reach := w.networkReachable()
	n := 0
	for _, fn := range w.All {
		if !reach[fn] {
			continue
		}
		n++
		for i, in := range w.exitSites(fn) {
			what := "panic"
			if cs, ok := in.(ssa.CallInstruction); ok {
				what = w.calleeName(cs)
			}
			c.bad(rule, fmt.Sprintf("%s/%s#%d", w.fname(fn), what, i+1), w.ipos(in), what+" in code reachable from network input: a message that steers execution here takes the whole proxy (or its message loop) down")
		}
	}
	c.ok(rule, "population", "-", fmt.Sprintf("%d network-reachable functions inspected for panic/exit/fatal/Must calls", n))
	if n < 120 {
		c.undecided(rule, "floor", "-", fmt.Sprintf("only %d network-reachable functions (expected >= 120)", n))
	}
}

func c08NoRecursion(c *Ctx) {
	w := c.w
	rule := "no-recursion"
	reach := w.networkReachable()
	// SCCs of the call graph restricted to network-reachable package functions
	index := map[*ssa.Function]int{}
	low := map[*ssa.Function]int{}
	on := map[*ssa.Function]bool{}
	var stack []*ssa.Function
	idx := 0
	var cycles [][]*ssa.Function
	succ := func(fn *ssa.Function) []*ssa.Function {
		var out []*ssa.Function
		n := w.CG.Nodes[fn]
		if n == nil {
			return nil
		}
		for _, e := range n.Out {
			if _, isGo := e.Site.(*ssa.Go); isGo {
				continue
			}
			if reach[e.Callee.Func] {
				out = append(out, e.Callee.Func)
			}
		}
		return out
	}
	var strong func(*ssa.Function)
	strong = func(v *ssa.Function) {
		index[v], low[v] = idx, idx
		idx++
		stack = append(stack, v)
		on[v] = true
		self := false
		for _, s := range succ(v) {
			if s == v {
				self = true
			}
			if _, ok := index[s]; !ok {
				strong(s)
				if low[s] < low[v] {
					low[v] = low[s]
				}
			} else if on[s] && index[s] < low[v] {
				low[v] = index[s]
			}
		}
		if low[v] == index[v] {
			var comp []*ssa.Function
			for {
				x := stack[len(stack)-1]
				stack = stack[:len(stack)-1]
				on[x] = false
				comp = append(comp, x)
				if x == v {
					break
				}
			}
			if len(comp) > 1 || self {
				cycles = append(cycles, comp)
			}
		}
	}
	var fns []*ssa.Function
	for fn := range reach {
		fns = append(fns, fn)
	}
	sort.Slice(fns, func(i, j int) bool { return w.fname(fns[i]) < w.fname(fns[j]) })
	for _, fn := range fns {
		if _, ok := index[fn]; !ok {
			strong(fn)
		}
	}
	for i, comp := range cycles {
		var names []string
		for _, f := range comp {
			names = append(names, w.fname(f))
		}
		sort.Strings(names)
		c.bad(rule, fmt.Sprintf("cycle#%d/%s", i+1, names[0]), w.pos(comp[0].Pos()), "call cycle among network-reachable functions: "+strings.Join(names, " -> ")+" (input-driven recursion can exhaust the stack, which cannot be recovered)")
	}
	c.ok(rule, "call-graph", "-", fmt.Sprintf("%d network-reachable functions, %d cycles", len(reach), len(cycles)))
}

// c08NilEscape: a pointer or interface result that is nil (or a nil pointer wrapped in an interface) when its call
// fails must not be kept - stored into a field, a table or a package variable - at a point where the failure has not
// been excluded: a later `!= nil` test on the stored interface does not see a typed nil, and the next use panics.
func c08NilEscape(c *Ctx, reach map[*ssa.Function]bool) {
	w := c.w
	rule := "panic-obligations"
	n := 0
	for _, fn := range w.All {
		if !reach[fn] {
			continue
		}
		per := 0
		for _, cs := range w.callsIn(fn) {
			call, ok := cs.In.(*ssa.Call)
			if !ok {
				continue
			}
			ei := errIndex(call)
			if ei < 0 {
				continue
			}
			sig := call.Common().Signature()
			callee := call.Common().StaticCallee()
			for ri := 0; ri < sig.Results().Len(); ri++ {
				if ri == ei || !isPtrOrIface(sig.Results().At(ri).Type()) {
					continue
				}
				if callee != nil && w.isMain(callee) {
					if w.nilStatus(callee, ri, map[string]bool{}) == nilNever {
						continue
					}
				}
				val := ssa.Value(extractOf(call, ri))
				if e, ok := val.(*ssa.Extract); !ok || e == nil {
					continue
				}
				// kept: stored (directly or wrapped in an interface) into a field, element, map or global
				var keeps []ssa.Instruction
				ifaceSeen := map[ssa.Instruction]bool{}
				_, valIsIface := val.Type().Underlying().(*types.Interface)
				var walk func(v ssa.Value, d int, iface bool)
				walkd := func(v ssa.Value, d int) {}
				_ = walkd
				walk = func(v ssa.Value, d int, iface bool) {
					if d > 3 || v.Referrers() == nil {
						return
					}
					for _, u := range *v.Referrers() {
						switch x := u.(type) {
						case *ssa.MakeInterface:
							walk(x, d+1, true)
						case *ssa.ChangeInterface:
							walk(x, d+1, iface)
						case *ssa.ChangeType:
							walk(x, d+1, iface)
						case *ssa.Phi:
							if w.phiEdgeOpen(fn, x, v, call, ei) {
								walk(x, d+1, iface)
							}
						case *ssa.Store:
							if x.Val != v {
								continue
							}
							switch a := x.Addr.(type) {
							case *ssa.FieldAddr, *ssa.IndexAddr, *ssa.Global:
								keeps = append(keeps, x)
								ifaceSeen[x] = iface
							case *ssa.Alloc:
								if a.Heap {
									// escaping local: follow its loads
									for _, r := range *a.Referrers() {
										if ld, ok := r.(*ssa.UnOp); ok && ld.Op == token.MUL {
											walk(ld, d+1, iface)
										}
									}
								}
							}
						case *ssa.MapUpdate:
							if x.Value == v {
								keeps = append(keeps, x)
								ifaceSeen[x] = iface
							}
						case *ssa.Call:
							// handed to a function of the package that keeps that argument (stores it into a table or object)
							if cal := x.Call.StaticCallee(); cal != nil && w.isMain(cal) && !x.Call.IsInvoke() {
								for ai, a := range x.Call.Args {
									if a == v && ai < len(cal.Params) && w.keepsParam(cal, ai) {
										keeps = append(keeps, x)
										ifaceSeen[x] = iface
									}
								}
							}
						}
					}
				}
				walk(val, 0, valIsIface)
				for _, k := range keeps {
					if !ifaceSeen[k] && !w.isMainType(val.Type()) {
						continue // a library pointer kept as a pointer: nil is an ordinary value for the library (e.g. a nil local address)
					}
					if w.discardedOnFailure(fn, k, call) {
						continue // written into an object under construction that is dropped when the call failed
					}
					n++
					per++
					key := fmt.Sprintf("%s/nil-escape/%s#%d", w.fname(fn), cs.Name, per)
					guarded := w.requires(fn, k, errNil(call), true)
					if !guarded {
						nilT := func(a Atom) bool { return a.Kind == "nil" && strip(a.X) == strip(val) }
						guarded = w.requires(fn, k, nilT, false)
					}
					if !guarded {
						if reason, ok := c08Assumed[cs.Name]; ok && callee != nil && w.nilOnlyOnLocalAddrFailure(callee) {
							c.assume(rule, key, w.ipos(k), reason)
							continue
						}
					}
					c.check(guarded, rule, key, w.ipos(k), "the result of "+cs.Name+" is kept only where the call succeeded", "the result of "+cs.Name+" is kept at "+w.ipos(k)+" although the call may have failed there (its error is not excluded): a nil pointer, possibly wrapped in a non-nil interface that later `!= nil` tests do not detect, is used by the next send and panics in network-reachable code")
				}
			}
		}
	}
	c.info(rule, "nil-escape", "-", fmt.Sprintf("%d stores of results of fallible calls inspected", n))
}

// discardedOnFailure: store k writes into an object allocated in fn, and on every path from k on which call failed the
// function returns without handing that object out (the partly built object is dropped).
func (w *World) discardedOnFailure(fn *ssa.Function, k ssa.Instruction, call *ssa.Call) bool {
	st, ok := k.(*ssa.Store)
	if !ok {
		return false
	}
	fa, ok := st.Addr.(*ssa.FieldAddr)
	if !ok {
		return false
	}
	base := strip(fa.X)
	if !w.isFreshValue(fn, base, 0) {
		return false
	}
	keep := w.under(assumeAtom(errNil(call), false))
	for _, r := range returnsUnder(fn, keep) {
		if !canReach(at(k), keep, isInstr(r), nil) {
			continue
		}
		for _, res := range r.Results {
			for _, v := range valuesUnder(fn, res, keep) {
				if strip(v) == base {
					return false
				}
			}
		}
	}
	// the object must not be published before the check either
	pub := false
	if refs := base.Referrers(); refs != nil {
		for _, u := range *refs {
			switch x := u.(type) {
			case *ssa.Store:
				if x.Val == base {
					if _, isAl := x.Addr.(*ssa.Alloc); !isAl {
						pub = true
					}
				}
			case *ssa.Send, *ssa.Go, *ssa.MapUpdate:
				pub = true
			}
		}
	}
	return !pub
}

// nilOnlyOnLocalAddrFailure validates the named constructor assumptions on the current source: every return of the
// constructor that can yield nil is taken only when net.SplitHostPort / net.ResolveUDPAddr applied to the text of
// conn.LocalAddr() failed - nothing else (no remote address, no lookup) can make it return nil.
func (w *World) nilOnlyOnLocalAddrFailure(fn *ssa.Function) bool {
	var ks []*ssa.Call
	for _, cs := range w.callsIn(fn, "net.SplitHostPort", "net.ResolveUDPAddr") {
		call, ok := cs.In.(*ssa.Call)
		if !ok {
			continue
		}
		fromLocal := false
		for _, a := range call.Call.Args {
			if sc, _ := callOfResult(a); sc != nil && strings.HasSuffix(w.calleeName(sc), "String") {
				if la, _ := callOfResult(callArg(sc, -1)); la != nil && strings.HasSuffix(w.calleeName(la), "LocalAddr") {
					fromLocal = true
				}
			}
		}
		if fromLocal {
			ks = append(ks, call)
		}
	}
	if len(ks) == 0 {
		return false
	}
	for _, r := range returnsUnder(fn, nil) {
		for _, v := range phiLeaves(r.Results[0]) {
			if !isNilConst(v) {
				continue
			}
			ok := false
			for _, k := range ks {
				if w.requires(fn, r, errNil(k), false) {
					ok = true
				}
			}
			if !ok {
				return false
			}
		}
	}
	return true
}

// nilIsTyped: result i of fn is an interface and the nil it may carry is a nil POINTER converted to that interface
// (return p, err with p a possibly-nil *T): the interface value itself is then non-nil and `!= nil` tests nothing.
func (w *World) nilIsTyped(fn *ssa.Function, i int) bool {
	res := fn.Signature.Results()
	if i >= res.Len() {
		return false
	}
	if _, isIface := res.At(i).Type().Underlying().(*types.Interface); !isIface {
		return false
	}
	for _, r := range returnsUnder(fn, nil) {
		if i >= len(r.Results) {
			continue
		}
		for _, v := range phiLeaves(r.Results[i]) {
			_ = v
		}
		// look at the unstripped leaves: phiLeaves strips conversions, so walk the phi by hand
		var walk func(v ssa.Value, d int) bool
		walk = func(v ssa.Value, d int) bool {
			if d > 6 {
				return false
			}
			switch x := v.(type) {
			case *ssa.Phi:
				for _, e := range x.Edges {
					if walk(e, d+1) {
						return true
					}
				}
			case *ssa.MakeInterface:
				if _, isPtr := x.X.Type().Underlying().(*types.Pointer); isPtr {
					inner := strip(x.X)
					if isNilConst(inner) {
						return true
					}
					if kc, j := callOfResult(inner); kc != nil {
						if callee := kc.Common().StaticCallee(); callee != nil && w.isMain(callee) && w.nilStatus(callee, j, map[string]bool{}) != nilNever {
							return true
						}
					}
					if ph, ok := inner.(*ssa.Phi); ok {
						for _, e := range phiLeaves(ph) {
							if isNilConst(e) {
								return true
							}
							if kc, j := callOfResult(e); kc != nil {
								if callee := kc.Common().StaticCallee(); callee != nil && w.isMain(callee) && w.nilStatus(callee, j, map[string]bool{}) != nilNever {
									return true
								}
							}
						}
					}
				}
			case *ssa.UnOp:
				// defer-spilled result cell
				if s := strip(x); s != ssa.Value(x) {
					return walk(s, d+1)
				}
			}
			return false
		}
		if walk(r.Results[i], 0) {
			return true
		}
	}
	return false
}

// keepsParam: fn stores its parameter idx (as it is, or wrapped in an interface) into a field, an element, a map or a
// package variable - the value outlives the call.
func (w *World) keepsParam(fn *ssa.Function, idx int) bool {
	if fn == nil || idx >= len(fn.Params) || fn.Blocks == nil {
		return false
	}
	kept := false
	seen := map[ssa.Value]bool{}
	var walk func(v ssa.Value, d int)
	walk = func(v ssa.Value, d int) {
		if d > 4 || seen[v] || v.Referrers() == nil {
			return
		}
		seen[v] = true
		for _, u := range *v.Referrers() {
			switch x := u.(type) {
			case *ssa.MakeInterface:
				walk(x, d+1)
			case *ssa.ChangeInterface:
				walk(x, d+1)
			case *ssa.ChangeType:
				walk(x, d+1)
			case *ssa.Phi:
				walk(x, d+1)
			case *ssa.Store:
				if x.Val != v {
					continue
				}
				switch x.Addr.(type) {
				case *ssa.FieldAddr, *ssa.IndexAddr, *ssa.Global:
					kept = true
				}
			case *ssa.MapUpdate:
				if x.Value == v {
					kept = true
				}
			}
		}
	}
	walk(fn.Params[idx], 0)
	return kept
}

// phiEdgeOpen: value v (a result of call, whose error result has index ei, or -1) enters the join ph on some edges;
// false when every such edge is taken only where the failure of the call was excluded (the call succeeded, or v was
// tested non-nil), so the join carries no nil of this call.
func (w *World) phiEdgeOpen(fn *ssa.Function, ph *ssa.Phi, v ssa.Value, call *ssa.Call, ei int) bool {
	open := false
	for i, e := range ph.Edges {
		if e != v {
			continue
		}
		pred := ph.Block().Preds[i]
		term := pred.Instrs[len(pred.Instrs)-1]
		g := false
		if ei >= 0 {
			g = w.requires(fn, term, errNil(call), true)
			if !g {
				if ifi, isIf := term.(*ssa.If); isIf && pred.Succs[0] != pred.Succs[1] {
					a := w.atom(ifi.Cond)
					keyVal := !a.Neg
					if pred.Succs[1] == ph.Block() {
						keyVal = a.Neg
					}
					if errNil(call)(a) && keyVal {
						g = true
					}
				}
			}
		}
		if !g {
			nilT := func(a Atom) bool { return a.Kind == "nil" && strip(a.X) == strip(v) }
			g = w.requires(fn, term, nilT, false)
		}
		if !g {
			open = true
		}
	}
	return open
}

// c08ServiceLoops: the datagram parse loop of a UDP listener and the proxy's message loop serve every later message too:
// whether they go on must not depend on what they have just received. Structurally: no branch whose condition is
// computed from a received value (a datagram entry, a raw message, an event, or anything derived from one) has a side
// from which no further receive is reachable. (Leaving on a closed channel - the comma-ok flag of the receive - is not
// content.)
func c08ServiceLoops(c *Ctx) {
	w := c.w
	rule := "service-loops"
	for _, name := range []string{"(*UDPServerTransport).startParseMessage", "(*Proxy).receiveAndProcessMessage"} {
		f := c.fn(rule, name)
		if f == nil {
			continue
		}
		isRecv := func(in ssa.Instruction) bool {
			if u, ok := in.(*ssa.UnOp); ok && u.Op == token.ARROW {
				return true
			}
			_, isSel := in.(*ssa.Select)
			return isSel
		}
		nRecv := 0
		eachInstr(f, func(in ssa.Instruction) {
			if isRecv(in) {
				nRecv++
			}
		})
		if nRecv == 0 {
			c.undecided(rule, name+"/receives", w.pos(f.Pos()), name+" receives from no channel: the loop it is anchored on was not found")
			continue
		}
		// values computed from what was received
		memo := map[ssa.Value]bool{}
		var tainted func(v ssa.Value, d int) bool
		tainted = func(v ssa.Value, d int) bool {
			if v == nil || d > 12 {
				return false
			}
			if t, ok := memo[v]; ok {
				return t
			}
			memo[v] = false
			res := false
			switch x := v.(type) {
			case *ssa.UnOp:
				if x.Op == token.ARROW {
					res = !x.CommaOk // the tuple of a comma-ok receive is judged at its Extract
				} else {
					res = tainted(x.X, d+1)
				}
			case *ssa.Extract:
				switch t := x.Tuple.(type) {
				case *ssa.UnOp:
					if t.Op == token.ARROW {
						res = x.Index == 0
					} else {
						res = tainted(t, d+1)
					}
				case *ssa.Select:
					res = x.Index >= 2 // 0: which case, 1: receive ok, 2..: the received values
				default:
					res = tainted(x.Tuple, d+1)
				}
			case *ssa.Alloc:
				// a local variable: computed from what was received if anything stored into it (or into a part of it) is
				var refs func(a ssa.Value, dd int)
				refs = func(a ssa.Value, dd int) {
					if a.Referrers() == nil || dd > 3 {
						return
					}
					for _, r := range *a.Referrers() {
						switch y := r.(type) {
						case *ssa.Store:
							if y.Addr == a && tainted(y.Val, d+1) {
								res = true
							}
						case *ssa.FieldAddr:
							refs(y, dd+1)
						case *ssa.IndexAddr:
							refs(y, dd+1)
						}
					}
				}
				refs(x, 0)
			case *ssa.Const, *ssa.Global, *ssa.Function, *ssa.Parameter, *ssa.FreeVar, *ssa.Builtin:
				res = false
			default:
				if in, ok := v.(ssa.Instruction); ok {
					var rands []*ssa.Value
					for _, r := range in.Operands(rands) {
						if *r != nil && tainted(*r, d+1) {
							res = true
						}
					}
				}
			}
			memo[v] = res
			return res
		}
		n, bad := 0, 0
		for _, b := range f.Blocks {
			if len(b.Instrs) == 0 {
				continue
			}
			ifi, ok := b.Instrs[len(b.Instrs)-1].(*ssa.If)
			if !ok || !tainted(ifi.Cond, 0) {
				continue
			}
			n++
			for _, s := range b.Succs {
				if !canReach(blockStart(s), nil, isRecv, nil) {
					bad++
					c.bad(rule, fmt.Sprintf("%s/content-dependent-exit#%d", name, bad), w.ipos(ifi), name+" can stop serving depending on what it has just received (a branch on a received value has a side from which it never receives again): one datagram or message of that shape - a zero-length datagram taken for an end marker, say - ends the loop, and nothing that follows is handled")
				}
			}
		}
		if bad == 0 {
			c.ok(rule, name+"/no-content-dependent-exit", w.pos(f.Pos()), fmt.Sprintf("%d branch(es) on received values, each side receives again", n))
		}
	}
	c.floor(rule, 2)
}
