package main

import (
	"fmt"
	"go/token"
	"go/types"
	"sort"
	"strings"

	"golang.org/x/tools/go/ssa"
)

func init() {
	register(&propDef{ID: "C09", Run: runC09,
		Explain:    "Structural necessary conditions of 'concurrent listeners and backend changes never corrupt or kill the proxy', decided from the call graph, goroutine roots and must-hold locksets of /repo: (1) table-discipline: every map- or slice-typed field of a package struct type and every package-level map/slice variable (payload and configuration types excepted) is, in this order, single-threaded (main/init only), immutable after construction (every write on a freshly allocated object, in init, or through a mutator applied only to fresh objects), protected by one lock class held at every non-constructor access, or confined to the proxy message loop of an object that is not shared between listeners (with startup accesses from main admitted only before the loops can receive traffic); (2) hand-off: an object sent on a channel (directly or through HandleRawMessage / ConnectionAccepted / HandleBackend*) is not used by the sender afterwards, a pooled buffer is not used after Free; (3) lock-order: the held->acquired relation over the call graph is acyclic and no lock class is re-acquired while held; (4) field-discipline: the same classification for every scalar, pointer and interface field of those types, extended by 'every access through sync/atomic' and 'published before its readers start' (each reading thread is started by a go statement that the write must precede, transitively); (5) freshness: the message loop is started once per Proxy on the freshly allocated object, and per-listener objects are created inside the listener loop of startProxy. (rotation-bounds, shared with C05/C08): every index into the round-robin rotation is proved in range against the length read in the same critical section, so a removal between picking and fetching cannot push it out of range. Lock-order uses implicit call edges for String()/Error() methods of package types handed to fmt, zap or log calls.",
		NotDecided: "delivery and liveness under load; data races on scalar/pointer fields (TCPServerTransport.exit, TCPBackend.conn); the startup window in which ProxyItem.start() still ranges over transports while the first message already triggers connectionEstablished."})
}

const loopRoot = "(*Proxy).receiveAndProcessMessage"

func runC09(c *Ctx) {
	c09Tables(c)
	c09Fields(c)
	c09LockOrder(c)
	c09HandOff(c)
	c09Freshness(c)
	// the buffer pool is shared between the receive and the parse thread: one Free per received buffer and
	// pop/push under the lock are necessary for "no two holders of one buffer" (rules shared with C10)
	c10Free(c)
	c10Pool(c)
	// a message queued for the loop must not share storage with the reader that keeps filling its buffer (shared with C10/C11)
	ruleBorrow(c, "borrow-lifetime")
	c10CopyOut(c)
	ruleBlockingHandOff(c, "hand-off")
	ruleReadLockWrites(c, "table-discipline")
	ruleAtomicReadModifyWrite(c, "table-discipline")
	ruleSingleParser(c, "hand-off")
	// the rotation is read in one critical section and indexed in another: the index must be brought into range
	// against the length read in the same critical section as the access, whatever a concurrent removal did in between
	// (the panic obligations of the rotation's methods, shared with C05/C08)
	c08PanicsIn(c, "rotation-bounds", "(*RoundRobinBackend).")
}

// sharedTypes: struct types that can be reached from two different listeners' proxies: arguments of the per-listener
// constructors that are created outside the listener loop of startProxy, and what they point to.
func sharedTypes(w *World) (map[string]bool, string) {
	out := map[string]bool{}
	sp := w.Fn("startProxy")
	if sp == nil {
		return out, "startProxy not found"
	}
	var loop *rangeLoop
	for _, rl := range rangeLoops(sp) {
		if ref, _ := loadedField(rl.Over); ref == "ProxyConfig.Listens" {
			loop = rl
		}
	}
	if loop == nil {
		return out, "listener loop not found in startProxy"
	}
	n := 0
	for _, cs := range w.callsIn(sp, "NewProxy", "NewProxyItem") {
		if !loop.inLoop(cs.In.Block()) {
			return out, cs.Name + " is called outside the listener loop"
		}
		n++
		for _, a := range cs.In.Common().Args {
			if _, isPtr := a.Type().Underlying().(*types.Pointer); !isPtr {
				if _, isIface := a.Type().Underlying().(*types.Interface); !isIface {
					continue
				}
			}
			definedOutside := true
			if in, ok := strip(a).(ssa.Instruction); ok {
				definedOutside = !loop.inLoop(in.Block())
			}
			if definedOutside {
				if tn := namedOf(a.Type()); tn != "" {
					out[tn] = true
				}
			}
		}
	}
	if n < 2 {
		return out, "per-listener constructors not found in startProxy"
	}
	// close over pointer fields of shared structs
	changed := true
	for changed {
		changed = false
		for tn := range out {
			n := w.lookupType(tn)
			if n == nil {
				continue
			}
			st, ok := n.Underlying().(*types.Struct)
			if !ok {
				continue
			}
			for i := 0; i < st.NumFields(); i++ {
				ft := st.Field(i).Type()
				if p, isPtr := ft.Underlying().(*types.Pointer); isPtr {
					if fn := namedOf(p); fn != "" && !out[fn] && w.lookupType(fn) != nil {
						out[fn] = true
						changed = true
					}
				}
			}
		}
	}
	return out, ""
}

func c09Tables(c *Ctx) {
	w := c.w
	t := w.Threads()
	rule := "table-discipline"
	shared, why := sharedTypes(w)
	if why != "" {
		c.undecided(rule, "shared-set", "-", "cannot compute which objects are shared between listeners: "+why)
	}
	c.info(rule, "shared-set", "-", "types shared between listeners: "+strings.Join(sortedKeys(shared), ", "))
	var rootNames []string
	for _, r := range t.Roots {
		rootNames = append(rootNames, w.fname(r))
	}
	c.info(rule, "goroutine-roots", "-", strings.Join(rootNames, ", "))
	if len(t.Roots) < 8 {
		c.undecided(rule, "roots-floor", "-", fmt.Sprintf("only %d goroutine roots found (expected >= 8)", len(t.Roots)))
	}
	n := 0
	for _, s := range t.Subjects() {
		if payloadTypes[s.Type] {
			continue
		}
		if strings.HasPrefix(s.Type, "Prox") && (strings.HasPrefix(s.Name, "ProxyConfig.") || strings.HasPrefix(s.Name, "ProxiesConfigure.")) {
			// configuration structs: decided below as single-threaded like any other subject
		}
		n++
		class, detail, bad := classifySubject(w, t, s, shared)
		if len(s.Accesses) == 0 {
			c.okTrivial(rule, s.Name, "-", "never accessed")
			continue
		}
		pos := w.ipos(s.Accesses[0].In)
		if class != "" {
			c.ok(rule, s.Name, pos, class+": "+detail, fmt.Sprintf("%d accesses", len(s.Accesses)))
		} else {
			var facts []string
			for i, a := range bad {
				if i >= 8 {
					break
				}
				facts = append(facts, a.String(w))
			}
			c.bad(rule, s.Name, w.ipos(bad[0].In), "container "+s.Name+" is touched by more than one thread without a common lock, is not immutable after construction and is not confined to one message loop: "+detail, facts...)
		}
	}
	if n < 19 {
		c.undecided(rule, "floor", "-", fmt.Sprintf("only %d container subjects found (confirmed by hand: >= 19)", n))
	}
}

func onlyThreads(a access, allowed ...string) bool {
	if len(a.Threads) == 0 {
		return true // unreachable code
	}
	for _, th := range a.Threads {
		ok := false
		for _, al := range allowed {
			if th == al {
				ok = true
			}
		}
		if !ok {
			return false
		}
	}
	return true
}

// mutatorOnlyOnFresh: fn writes through its receiver/parameter; every call site in the package applies it to a fresh object.
func mutatorOnlyOnFresh(w *World, fn *ssa.Function) bool {
	node := w.CG.Nodes[fn]
	if node == nil || len(node.In) == 0 {
		return false
	}
	for _, e := range node.In {
		caller := e.Caller.Func
		if !w.isMain(caller) || e.Site == nil {
			return false
		}
		if _, isGo := e.Site.(*ssa.Go); isGo {
			return false // started as a goroutine: the object is shared with that thread from now on
		}
		recv := callArg(e.Site, -1)
		if recv == nil && len(e.Site.Common().Args) > 0 {
			recv = e.Site.Common().Args[0]
		}
		if recv == nil || !w.isFreshValue(caller, recv, 0) {
			return false
		}
	}
	return true
}

func classifySubject(w *World, t *threads, s *subject, shared map[string]bool) (class, detail string, bad []access) {
	// 0. single thread: main/init only
	single := true
	for _, a := range s.Accesses {
		if !onlyThreads(a, "main", "init") {
			single = false
		}
	}
	if single {
		return "single-threaded", "every access is reachable from main/init only", nil
	}
	// 1. immutable after construction
	immutable := true
	for _, a := range s.Accesses {
		if !a.Write {
			continue
		}
		if a.Fresh || onlyThreads(a, "init") {
			continue
		}
		if mutatorOnlyOnFresh(w, a.Fn) {
			continue
		}
		immutable = false
	}
	if immutable {
		return "immutable-after-construction", "every write is on a fresh object, in init, or through a mutator applied to fresh objects only", nil
	}
	// 2. lock-protected
	var common map[string]bool
	for _, a := range s.Accesses {
		if a.Fresh {
			continue
		}
		if common == nil {
			common = copySet(a.Locks)
		} else {
			common = intersect(common, a.Locks)
		}
	}
	if len(common) > 0 {
		return "lock-protected", "every non-constructor access holds " + fmtSet(common), nil
	}
	// 3. loop-confined (+4. startup from main)
	if s.IsGlobal || shared[s.Type] {
		for _, a := range s.Accesses {
			if !a.Fresh && len(a.Locks) == 0 {
				bad = append(bad, a)
			}
		}
		if len(bad) == 0 {
			bad = s.Accesses
		}
		return "", "objects of type " + s.Type + " are shared by the message loops of all listeners of a service (created outside the listener loop of startProxy), so loop confinement does not apply", bad
	}
	confined := true
	for _, a := range s.Accesses {
		if a.Fresh {
			continue
		}
		if onlyThreads(a, loopRoot) {
			continue
		}
		if onlyThreads(a, "main") && startupOnly(w, a) {
			continue
		}
		confined = false
		bad = append(bad, a)
	}
	if confined {
		return "loop-confined", "every non-constructor access is reachable from the proxy's own message loop only (main-thread accesses happen before the loops can receive traffic)", nil
	}
	return "", "accessed from threads other than the owning message loop", bad
}

// startupOnly: a main-thread access in a function that startProxy calls only before/while starting the proxies
// (AddItem before any Start; Start/start themselves).
func startupOnly(w *World, a access) bool {
	sp := w.Fn("startProxy")
	if sp == nil {
		return false
	}
	name := w.fname(a.Fn)
	switch name {
	case "(*Proxy).AddItem":
		// no path Start -> AddItem in startProxy
		starts := siteInstrs(w.callsIn(sp, "(*Proxy).Start"))
		for _, cs := range w.callsIn(sp, "(*Proxy).AddItem") {
			for _, st := range starts {
				if canReach(at(st), nil, isInstr(cs.In), nil) {
					return false
				}
			}
		}
		return len(starts) > 0
	case "(*Proxy).Start", "(*ProxyItem).start":
		// traffic can only arrive through transports started by these very functions
		return true
	}
	return false
}

// ---- lock order ----

func c09LockOrder(c *Ctx) {
	w := c.w
	t := w.Threads()
	rule := "lock-order"
	edges := map[string]map[string]string{} // held -> acquired -> witness
	n := 0
	// acq(fn): lock classes fn may acquire, transitively through its callees (go statements excluded)
	acq := map[*ssa.Function]map[string]bool{}
	for _, fn := range w.All {
		acq[fn] = map[string]bool{}
		eachInstr(fn, func(in ssa.Instruction) {
			if cs, ok := in.(ssa.CallInstruction); ok {
				if _, isGo := in.(*ssa.Go); isGo {
					return
				}
				if cls, a, ok := w.lockClass(cs); ok && a {
					acq[fn][cls] = true
				}
			}
		})
	}
	for changed := true; changed; {
		changed = false
		for _, fn := range w.All {
			for _, cs := range w.callsIn(fn) {
				if _, isGo := cs.In.(*ssa.Go); isGo {
					continue
				}
				for _, callee := range w.calleesOf(cs.In) {
					for k := range acq[callee] {
						if !acq[fn][k] {
							acq[fn][k] = true
							changed = true
						}
					}
				}
			}
		}
	}
	// call sites executed with a lock held
	for _, fn := range w.All {
		for _, cs := range w.callsIn(fn) {
			if _, isGo := cs.In.(*ssa.Go); isGo {
				continue
			}
			if _, isDefer := cs.In.(*ssa.Defer); isDefer {
				continue
			}
			if _, _, isLock := w.lockClass(cs.In); isLock {
				continue
			}
			held := t.locksAt(cs.In)
			if len(held) == 0 {
				continue
			}
			for _, callee := range w.calleesOf(cs.In) {
				for a := range acq[callee] {
					for h := range held {
						if edges[h] == nil {
							edges[h] = map[string]string{}
						}
						if _, seen := edges[h][a]; !seen {
							edges[h][a] = w.ipos(cs.In) + " in " + w.fname(fn) + " calls " + w.fname(callee)
						}
						if h == a {
							c.bad(rule, "reentrant/"+a+"@"+w.fname(fn)+"->"+w.fname(callee), w.ipos(cs.In), "while holding "+h+" "+w.fname(fn)+" calls "+w.fname(callee)+", which acquires the same lock class (Go mutexes are not re-entrant: on the same object the goroutine deadlocks with itself)", "held: "+fmtSet(held))
						}
					}
				}
			}
		}
	}
	for _, fn := range w.All {
		eachInstr(fn, func(in ssa.Instruction) {
			cs, ok := in.(ssa.CallInstruction)
			if !ok {
				return
			}
			if _, isDefer := in.(*ssa.Defer); isDefer {
				return
			}
			cls, acq, ok := w.lockClass(cs)
			if !ok || !acq {
				return
			}
			n++
			held := t.locksAt(in)
			for h := range held {
				if edges[h] == nil {
					edges[h] = map[string]string{}
				}
				if _, seen := edges[h][cls]; !seen {
					edges[h][cls] = w.ipos(in) + " in " + w.fname(fn)
				}
				if h == cls {
					c.bad(rule, "reentrant/"+cls+"@"+w.fname(fn), w.ipos(in), "lock "+cls+" is acquired while it is already held on every path to this point (Go mutexes are not re-entrant: the goroutine deadlocks with itself)", "held: "+fmtSet(held))
				}
			}
		})
	}
	// rendezvous under a lock: a send on an UNBUFFERED channel field waits for the receiving goroutine; if the sender
	// holds a lock that the receiver may need before it gets back to the receive, the two wait for each other
	type chanInfo struct {
		unbuffered bool
		caps       []string
		recvFns    []*ssa.Function
	}
	chans := map[string]*chanInfo{}
	get := func(ref string) *chanInfo {
		if chans[ref] == nil {
			chans[ref] = &chanInfo{unbuffered: true}
		}
		return chans[ref]
	}
	chanRefOf := func(v ssa.Value) string {
		ref, _ := loadedField(v)
		return ref
	}
	for _, fn := range w.All {
		eachInstr(fn, func(in ssa.Instruction) {
			switch x := in.(type) {
			case *ssa.Store:
				if mc, ok := strip(x.Val).(*ssa.MakeChan); ok {
					if fa, ok := x.Addr.(*ssa.FieldAddr); ok {
						ci := get(fieldRef(fa))
						k, isK := constInt(mc.Size)
						ci.caps = append(ci.caps, w.termKey(mc.Size))
						if !isK || k > 0 {
							ci.unbuffered = false
						}
					}
				}
			case *ssa.UnOp:
				if x.Op == token.ARROW {
					if ref := chanRefOf(x.X); ref != "" {
						get(ref).recvFns = append(get(ref).recvFns, fn)
					}
				}
			case *ssa.Select:
				for _, st := range x.States {
					if st.Dir == types.RecvOnly {
						if ref := chanRefOf(st.Chan); ref != "" {
							get(ref).recvFns = append(get(ref).recvFns, fn)
						}
					}
				}
			}
		})
	}
	nSend := 0
	for _, fn := range w.All {
		eachInstr(fn, func(in ssa.Instruction) {
			sd, ok := in.(*ssa.Send)
			if !ok {
				return
			}
			ref := chanRefOf(sd.Chan)
			if ref == "" {
				return
			}
			held := t.locksAt(in)
			if len(held) == 0 {
				return
			}
			nSend++
			ci := get(ref)
			key := "send-under-lock/" + ref + "@" + w.fname(fn)
			if len(ci.caps) == 0 {
				c.undecided(rule, key, w.ipos(in), "the channel "+ref+" is sent on while "+fmtSet(held)+" is held, but where it is made was not found: its capacity is unknown")
				return
			}
			if !ci.unbuffered {
				c.ok(rule, key, w.ipos(in), "sent while holding "+fmtSet(held)+": the channel is buffered (capacity "+strings.Join(ci.caps, ",")+"), the sender does not wait for the receiver")
				return
			}
			clash := ""
			for _, rf := range ci.recvFns {
				for h := range held {
					if acq[rf][h] {
						clash = h + " (receiver " + w.fname(rf) + ")"
					}
				}
			}
			c.check(clash == "", rule, key, w.ipos(in), "rendezvous with a receiver that never needs the held locks", "the send on the unbuffered channel "+ref+" waits for its receiver while "+fmtSet(held)+" is held, and the receiving goroutine may be waiting for "+clash+" at that moment: both block for ever (a membership change during a dispatch deadlocks the listener)")
		})
	}
	c.info(rule, "sends-under-lock", "-", fmt.Sprintf("%d channel sends executed with a lock held inspected", nSend))
	// cycle detection
	var order []string
	for h := range edges {
		order = append(order, h)
	}
	sort.Strings(order)
	state := map[string]int{}
	var stack []string
	var cyc []string
	var dfs func(string)
	dfs = func(u string) {
		state[u] = 1
		stack = append(stack, u)
		var vs []string
		for v := range edges[u] {
			vs = append(vs, v)
		}
		sort.Strings(vs)
		for _, v := range vs {
			if v == u {
				continue
			}
			if state[v] == 1 && cyc == nil {
				for i, s := range stack {
					if s == v {
						cyc = append(append([]string{}, stack[i:]...), v)
					}
				}
			} else if state[v] == 0 {
				dfs(v)
			}
		}
		stack = stack[:len(stack)-1]
		state[u] = 2
	}
	for _, u := range order {
		if state[u] == 0 {
			dfs(u)
		}
	}
	var es []string
	for _, h := range order {
		for a, wit := range edges[h] {
			if a != h {
				es = append(es, h+" -> "+a+" ("+wit+")")
			}
		}
	}
	sort.Strings(es)
	c.check(cyc == nil, rule, "acyclic", "-", fmt.Sprintf("held->acquired graph over %d acquisition sites is acyclic", n), "lock-order cycle "+strings.Join(cyc, " -> ")+": two threads taking the locks in opposite orders deadlock", es...)
	if n < 15 {
		c.undecided(rule, "floor", "-", fmt.Sprintf("only %d lock acquisition sites found (expected >= 15)", n))
	}
}

// ---- hand-off ----

func c09HandOff(c *Ctx) {
	w := c.w
	rule := "hand-off"
	n := 0
	handOffCalls := map[string]bool{"MessageHandler.HandleRawMessage": true, "(*Proxy).HandleRawMessage": true, "ConnectionAcceptedListener.ConnectionAccepted": true,
		"BackendChangeListener.HandleBackendAdded": true, "BackendChangeListener.HandleBackendRemoved": true}
	for _, fn := range w.All {
		eachInstr(fn, func(in ssa.Instruction) {
			var obj ssa.Value
			what := ""
			switch x := in.(type) {
			case *ssa.Send:
				obj, what = x.X, "channel send"
			case *ssa.Call:
				name := w.calleeName(x)
				if handOffCalls[name] && len(x.Call.Args) > 0 {
					if x.Call.IsInvoke() {
						obj = x.Call.Args[0]
					} else if len(x.Call.Args) > 1 {
						obj = x.Call.Args[1]
					}
					what = name
				}
				if name == "(*ByteArrayPool).Free" {
					obj, what = x.Call.Args[1], "Free"
				}
			}
			if obj == nil {
				return
			}
			if _, isPtr := obj.Type().Underlying().(*types.Pointer); !isPtr {
				if _, isSl := obj.Type().Underlying().(*types.Slice); !isSl {
					if _, isSt := obj.Type().Underlying().(*types.Struct); !isSt {
						return
					}
				}
			}
			if _, isIface := obj.Type().Underlying().(*types.Interface); isIface {
				return
			}
			n++
			c.Fns[w.fname(fn)] = true
			// any use of obj (or, for a struct value, of the buffer inside it) reachable after the hand-off
			root := strip(obj)
			var later ssa.Instruction
			// every SSA value denoting the same object: go/ssa performs no CSE, so repeated field selections are distinct values
			aliases := []ssa.Value{root}
			if _, isInstr := root.(ssa.Instruction); isInstr {
				rk := w.termKey(root)
				if !strings.Contains(rk, "call[") {
					eachInstr(fn, func(o ssa.Instruction) {
						if v, ok := o.(ssa.Value); ok && v != root && w.termKey(v) == rk {
							aliases = append(aliases, v)
						}
					})
				}
			}
			for _, al := range aliases {
				if al.Referrers() == nil {
					continue
				}
				for _, r := range *al.Referrers() {
					if r == in {
						continue
					}
					if _, isDbg := r.(*ssa.DebugRef); isDbg {
						continue
					}
					if canReach(at(in), nil, isInstr(r), nil) {
						// re-execution of the defining instruction in a loop creates a new object: only uses not preceded by a redefinition count
						if def, ok := root.(ssa.Instruction); ok {
							redefined := func(x ssa.Instruction) bool {
								if x == def {
									return true
								}
								// a store into the cell the object was loaded from gives the name a new object
								if st, isSt := x.(*ssa.Store); isSt {
									if ld, isLd := root.(*ssa.UnOp); isLd {
										if st.Addr == ld.X {
											return true
										}
										if fa, isFA := ld.X.(*ssa.FieldAddr); isFA && st.Addr == fa.X {
											return true
										}
										if fa, isFA := ld.X.(*ssa.FieldAddr); isFA {
											if fa2, isFA2 := st.Addr.(*ssa.FieldAddr); isFA2 && fa2.X == fa.X && fa2.Field == fa.Field {
												return true
											}
										}
									}
								}
								return false
							}
							if !canReach(at(in), nil, isInstr(r), redefined) {
								continue
							}
						}
						if v, isV := r.(ssa.Value); isV && v == obj {
							continue
						}
						later = r
					}
				}
			}
			c.check(later == nil, rule, fmt.Sprintf("%s/%s#%d", w.fname(fn), what, n), w.ipos(in), "the object is not used by the sender after the hand-off", "after the "+what+" the sender still uses the object at "+w.ipos(later)+": it is now owned by the receiving thread")
		})
	}
	if n < 6 {
		c.undecided(rule, "floor", "-", fmt.Sprintf("only %d hand-off sites found (expected >= 6)", n))
	}
}

func c09Freshness(c *Ctx) {
	w := c.w
	t := w.Threads()
	rule := "freshness"
	loop := w.Fn(loopRoot)
	if loop == nil {
		c.undecided(rule, "loop", "-", loopRoot+" not found")
		return
	}
	sites := t.GoSites[loop]
	c.check(len(sites) == 1, rule, "loop/started-once", w.pos(loop.Pos()), "one go statement starts the message loop", fmt.Sprintf("the message loop is started from %d go statements: two loops on one Proxy share its tables", len(sites)))
	for _, g := range sites {
		fn := g.Parent()
		inLoop := false
		for _, rl := range rangeLoops(fn) {
			if rl.inLoop(g.Block()) {
				inLoop = true
			}
		}
		for _, b := range fn.Blocks {
			if strings.HasPrefix(b.Comment, "for.") && b.Dominates(g.Block()) && b.Comment != "for.done" {
				inLoop = true
			}
		}
		recv := g.Call.Args[0]
		_, fresh := strip(recv).(*ssa.Alloc)
		c.check(w.fname(fn) == "NewProxy" && !inLoop && fresh, rule, "loop/started-on-fresh-proxy", w.ipos(g), "started by the constructor on the object it just allocated, outside any loop", "the message loop is not started exactly once by NewProxy on its freshly allocated Proxy")
	}
	// per-listener objects are created inside the listener loop and only attached to this iteration's proxy
	if sp := w.Fn("startProxy"); sp != nil {
		for _, cs := range w.callsIn(sp, "(*Proxy).AddItem") {
			np := w.resultOfCallTo(callArg(cs.In, -1), "NewProxy", 0)
			ni := w.resultOfCallTo(callArg(cs.In, 0), "NewProxyItem", 0)
			good := np != nil && ni != nil && np.Block().Parent() == sp
			if good {
				// the item's handlers are this iteration's proxy
				good = strip(callArg(ni, 9)) == ssa.Value(np) && strip(callArg(ni, 11)) == ssa.Value(np)
			}
			c.check(good, rule, "startProxy/item-attached-to-own-proxy", w.ipos(cs.In), "each listener's item is attached to the proxy created in the same iteration, which is also its message handler", "a listener item is attached to, or reports to, a proxy of another iteration: two listeners would feed one loop's tables from different objects")
		}
	}
	c.floor(rule, 3)
}

// startedAfter: every go statement that starts thread root executes after instruction wr (same function and
// dominated by it), or lies in code that itself runs only in threads started after wr.
func (t *threads) startedAfter(wr ssa.Instruction, root *ssa.Function, depth int) bool {
	if depth > 4 {
		return false
	}
	sites := t.GoSites[root]
	if len(sites) == 0 {
		return false
	}
	for _, g := range sites {
		if g.Parent() == wr.Parent() {
			if !mustPrecede(g.Parent(), []ssa.Instruction{wr}, g, nil) {
				return false
			}
			continue
		}
		// the go statement is in another function: that function must run only in threads started after wr
		ok := len(t.Of[g.Parent()]) > 0
		for th := range t.Of[g.Parent()] {
			var r2 *ssa.Function
			for _, r := range t.Roots {
				if t.w.fname(r) == th {
					r2 = r
				}
			}
			if r2 == nil || r2 == root || !t.startedAfter(wr, r2, depth+1) {
				ok = false
			}
		}
		if !ok {
			return false
		}
	}
	return true
}

// c09Fields: the same discipline for scalar, pointer and interface fields (thorough: evaluated in both tiers, cheap).
func c09Fields(c *Ctx) {
	w := c.w
	t := w.Threads()
	rule := "field-discipline"
	shared, _ := sharedTypes(w)
	rootByName := map[string]*ssa.Function{}
	for _, r := range t.Roots {
		rootByName[w.fname(r)] = r
	}
	n := 0
	for _, s := range t.FieldSubjects() {
		if len(s.Accesses) == 0 {
			continue
		}
		n++
		// 0. never written outside construction
		var writes, reads []access
		for _, a := range s.Accesses {
			if a.Fresh {
				continue
			}
			if a.Write {
				writes = append(writes, a)
			} else {
				reads = append(reads, a)
			}
		}
		pos := w.ipos(s.Accesses[0].In)
		if len(writes) == 0 {
			c.okTrivial(rule, s.Name, pos, "set at construction only")
			continue
		}
		class, detail, bad := classifySubject(w, t, s, shared)
		if class != "" {
			c.ok(rule, s.Name, pos, class+": "+detail)
			continue
		}
		// atomic-only
		allAtomic := true
		for _, a := range s.Accesses {
			if !a.Fresh && !a.Locks["atomic"] {
				allAtomic = false
			}
		}
		if allAtomic {
			c.ok(rule, s.Name, pos, "atomic: every access goes through sync/atomic")
			continue
		}
		// published before the reading threads start / written and read by one thread
		var open []access
		for _, wa := range writes {
			for _, ra := range append(append([]access{}, reads...), writes...) {
				if ra.In == wa.In {
					continue
				}
				if len(intersect(wa.Locks, ra.Locks)) > 0 {
					continue
				}
				conflict := false
				for _, th := range ra.Threads {
					same := len(wa.Threads) == 1 && wa.Threads[0] == th
					if same {
						continue
					}
					r := rootByName[th]
					if r != nil && t.startedAfter(wa.In, r, 0) {
						continue
					}
					// startup writes on the main thread before traffic can arrive
					if onlyThreads(wa, "main") && startupFn(w, wa.Fn) && th == loopRoot {
						continue
					}
					conflict = true
				}
				if conflict {
					open = append(open, wa, ra)
				}
			}
		}
		if len(open) == 0 {
			c.ok(rule, s.Name, pos, "published before its readers start (every reading thread is started after the write, or shares the writer's thread or lock)")
			continue
		}
		_ = bad
		var facts []string
		seen := map[ssa.Instruction]bool{}
		for _, a := range open {
			if !seen[a.In] && len(facts) < 8 {
				seen[a.In] = true
				facts = append(facts, a.String(w))
			}
		}
		c.bad(rule, s.Name, w.ipos(open[0].In), "field "+s.Name+" is written by one thread and accessed by another without a common lock, atomic access or a start-of-thread ordering: a data race ("+detail+")", facts...)
	}
	if n < 50 {
		c.undecided(rule, "floor", "-", fmt.Sprintf("only %d fields inspected", n))
	}
}

// startupFn: the function runs on the main thread while the proxies are being started (below (*Proxy).Start).
func startupFn(w *World, fn *ssa.Function) bool {
	st := w.Fn("(*Proxy).Start")
	if st == nil {
		return false
	}
	return w.reachableFrom([]*ssa.Function{st}, false)[fn]
}
