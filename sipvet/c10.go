package main

import (
	"fmt"
	"go/types"
	"strings"

	"golang.org/x/tools/go/ssa"
)

func init() {
	register(&propDef{ID: "C10", Run: runC10,
		Explain:    "Structural necessary conditions of 'a UDP datagram is processed in isolation from every other datagram', decided on SSA/CFG of /repo: (1) extent: the receive loop pairs each pooled buffer with the byte count returned by ReadFromUDP for that very buffer, and the parse loop reads the buffer only through b[:n] with that n (every other use of the buffer except handing it back to the pool is a violation); (2) free-after-use: each received buffer is passed to Free exactly once on every path, after ParseMessage returned, and is not used afterwards; a fresh buffer is taken from the pool for every datagram; (3) copy-out: nothing that aliases the reader's buffer or the pooled buffer is stored into a Message (header text is converted to string, the body is a buffer allocated for this message and filled by a copying read; no use of package unsafe); (4) discard: the handler runs only when ParseMessage succeeded, with the message it returned; (5) pool: Alloc removes the buffer it returns from the pool in the same critical section (or makes a new one), Free appends under the lock. With 1-4 what is relayed is a function of b[:n] alone - an argument from these rules, not a computed equality.",
		NotDecided: "nothing beyond the stated clauses, given the documented semantics of bufio, bytes and net.UDPConn."})
}

func runC10(c *Ctx) {
	c10Extent(c)
	c10Free(c)
	c10CopyOut(c)
	c10Discard(c)
	c10Pool(c)
	c10FreshMessage(c)
	// what is written for a datagram is serialised into storage of its own (the funnel, shared with C01)
	c01Funnel(c)
	ruleDatagramBuffer(c, "extent")
	c10ResultAfterError(c, "discard", "ParseMessage")
}

func c10Extent(c *Ctx) {
	w := c.w
	rule := "extent"
	// producer: SizedByteArray{b: buf, n: n} with n = ReadFromUDP(buf)#0
	if f := c.fn(rule, "(*UDPServerTransport).receiveMessage"); f != nil {
		var rd ssa.CallInstruction
		for _, cs := range w.callsIn(f, "(*net.UDPConn).ReadFromUDP") {
			rd = cs.In
		}
		if rd == nil {
			c.bad(rule, "receiveMessage/read", w.pos(f.Pos()), "datagrams are not read with ReadFromUDP")
		} else {
			buf := strip(rd.Common().Args[1])
			al := w.resultOfCallTo(buf, "(*ByteArrayPool).Alloc", 0)
			c.check(al != nil, rule, "receiveMessage/buffer-from-pool", w.ipos(rd), "the datagram is read into a buffer taken from the pool", "the receive buffer is not the result of msgBufPool.Alloc()")
			if al != nil {
				// a new buffer per datagram: Alloc is re-executed before every read
				c.check(!canReach(at(rd), nil, isInstr(rd), isInstr(al)), rule, "receiveMessage/fresh-buffer-per-datagram", w.ipos(al), "a buffer is taken for every datagram", "the next datagram can be read into the buffer that was just handed to the parser: it is overwritten while being parsed")
			}
			// the struct sent
			var sent *ssa.Send
			eachInstr(f, func(in ssa.Instruction) {
				if s, ok := in.(*ssa.Send); ok {
					sent = s
				}
			})
			okPair := false
			if sent != nil {
				if ld, ok := sent.X.(*ssa.UnOp); ok {
					if lit, ok := ld.X.(*ssa.Alloc); ok {
						var bv, nv ssa.Value
						for _, r := range *lit.Referrers() {
							if fa, ok := r.(*ssa.FieldAddr); ok {
								for _, rr := range *fa.Referrers() {
									if st, ok := rr.(*ssa.Store); ok {
										switch fieldRef(fa) {
										case "SizedByteArray.b":
											bv = st.Val
										case "SizedByteArray.n":
											nv = st.Val
										}
									}
								}
							}
						}
						okPair = bv != nil && nv != nil && strip(bv) == buf && isResultOf(nv, rd, 0)
					}
				}
				c.check(w.requires(f, sent, errNil(rd), true), rule, "receiveMessage/only-successful-reads", w.ipos(sent), "only successfully received datagrams are parsed", "a buffer is handed to the parser although ReadFromUDP failed")
			}
			c.check(okPair, rule, "receiveMessage/buffer-paired-with-its-length", w.ipos(rd), "(buffer, n) = (the buffer read into, the count ReadFromUDP returned for it)", "the buffer handed to the parser is not paired with the byte count ReadFromUDP returned for that same buffer")
		}
	}
	// consumer
	f := c.fn(rule, "(*UDPServerTransport).startParseMessage")
	if f == nil {
		return
	}
	// the received struct lives in a local cell; all loads of .b
	var cell *ssa.Alloc
	eachInstr(f, func(in ssa.Instruction) {
		if st, ok := in.(*ssa.Store); ok {
			val := st.Val
			if e, isE := val.(*ssa.Extract); isE && e.Index == 0 { // `for x := range ch`: the receive is <-ch,ok
				val = e.Tuple
			}
			if u, ok := val.(*ssa.UnOp); ok && u.Op.String() == "<-" {
				if al, ok := st.Addr.(*ssa.Alloc); ok {
					cell = al
				}
			}
		}
	})
	var recvVal ssa.Value
	if cell == nil {
		// the struct may be used as a register value
		eachInstr(f, func(in ssa.Instruction) {
			if u, ok := in.(*ssa.UnOp); ok && u.Op.String() == "<-" {
				recvVal = u
			}
		})
	}
	if cell == nil && recvVal == nil {
		c.bad(rule, "startParseMessage/receive", w.pos(f.Pos()), "the parse loop does not receive (buffer, n) items from the channel")
		return
	}
	isB := func(v ssa.Value) bool {
		r, base := loadedField(v)
		if r != "SizedByteArray.b" {
			return false
		}
		return (cell != nil && strip(base) == ssa.Value(cell)) || (recvVal != nil && strip(base) == recvVal) || base == ssa.Value(cell)
	}
	isN := func(v ssa.Value) bool {
		r, base := loadedField(v)
		if r != "SizedByteArray.n" {
			return false
		}
		return (cell != nil && (strip(base) == ssa.Value(cell) || base == ssa.Value(cell))) || (recvVal != nil && strip(base) == recvVal)
	}
	nUses := 0
	eachInstr(f, func(in ssa.Instruction) {
		v, ok := in.(ssa.Value)
		if !ok || !isBRaw(v, cell, recvVal) {
			return
		}
		for _, use := range *v.Referrers() {
			if _, isDbg := use.(*ssa.DebugRef); isDbg {
				continue
			}
			nUses++
			key := fmt.Sprintf("startParseMessage/buffer-use#%d", nUses)
			switch x := use.(type) {
			case *ssa.Call:
				if w.calleeName(x) == "(*ByteArrayPool).Free" {
					c.ok(rule, key, w.ipos(use), "handed back to the pool")
					continue
				}
				c.bad(rule, key, w.ipos(use), "the whole pooled buffer is passed to "+w.calleeName(x)+" instead of b[:n]: everything after the datagram's n bytes is left over from earlier datagrams and is parsed as if it belonged to this one (a short datagram declaring a long body is completed from a previous datagram)")
			case *ssa.Slice:
				good := isZeroOrNil(x.Low) && x.High != nil && isN(x.High) && x.Max == nil
				c.check(good, rule, key, w.ipos(use), "read through b[:n]", "the buffer is sliced as "+w.termKey(x)+", expected b[:n] with the n received together with it")
			default:
				c.bad(rule, key, w.ipos(use), fmt.Sprintf("the pooled buffer is used unsliced (%T): bytes beyond the datagram are visible", use))
			}
		}
	})
	_ = isB
	// per-datagram decode state: the reader ParseMessage gets is built for this datagram, in this iteration, over b[:n];
	// a reader (or the byte source under it) that outlives the iteration carries unread bytes of one datagram into the next
	for i, cs := range w.callsIn(f, "ParseMessage") {
		pm := cs.In
		key := fmt.Sprintf("startParseMessage/reader-per-datagram#%d", i+1)
		v := callArg(pm, 0)
		var chain []*ssa.Call
		for {
			var next *ssa.Call
			for _, n := range []string{"bufio.NewReader", "bufio.NewReaderSize", "bytes.NewBuffer", "bytes.NewReader"} {
				if cc := w.resultOfCallTo(v, n, 0); cc != nil {
					next = cc
				}
			}
			if next == nil {
				break
			}
			chain = append(chain, next)
			v = next.Call.Args[0]
		}
		sl, isSl := strip(v).(*ssa.Slice)
		good := len(chain) > 0 && isSl && isBRaw(sl.X, cell, recvVal)
		why := "the reader given to ParseMessage is not built in the parse loop from b[:n] of the datagram just received (" + describe(w, []ssa.Value{callArg(pm, 0)}) + ")"
		for _, cc := range chain {
			if good && canReach(at(pm), nil, isInstr(pm), isInstr(cc)) {
				good = false
				why = "the " + w.calleeName(cc) + " under the reader given to ParseMessage is created once and reused for the next datagram: bytes of a datagram that the parser left unread (trailing bytes behind the declared body, the rest of a rejected datagram) are decoded as the beginning of the next one"
			}
		}
		c.check(good, rule, key, w.ipos(pm), "every datagram is decoded through a reader of its own over b[:n]", why)
	}
	c.check(nUses >= 2, rule, "startParseMessage/buffer-uses", w.pos(f.Pos()), "the buffer is parsed and freed", fmt.Sprintf("only %d uses of the received buffer found", nUses))
	c.floor(rule, 6)
}

// isBRaw: v is a load of field b of the received struct (cell or register).
func isBRaw(v ssa.Value, cell *ssa.Alloc, recv ssa.Value) bool {
	switch x := v.(type) {
	case *ssa.UnOp:
		if fa, ok := x.X.(*ssa.FieldAddr); ok && fieldRef(fa) == "SizedByteArray.b" {
			return cell != nil && fa.X == ssa.Value(cell)
		}
	case *ssa.Field:
		if fieldRef(x) == "SizedByteArray.b" {
			return recv != nil && strip(x.X) == recv
		}
	}
	return false
}

func c10Free(c *Ctx) {
	w := c.w
	rule := "free-after-use"
	f := c.fn(rule, "(*UDPServerTransport).startParseMessage")
	if f == nil {
		return
	}
	pms := w.callsIn(f, "ParseMessage")
	frees := w.callsIn(f, "(*ByteArrayPool).Free")
	var recv ssa.Instruction
	eachInstr(f, func(in ssa.Instruction) {
		if u, ok := in.(*ssa.UnOp); ok && u.Op.String() == "<-" {
			recv = in
		}
	})
	if len(pms) != 1 || len(frees) != 1 || recv == nil {
		c.bad(rule, "startParseMessage/steps", w.pos(f.Pos()), fmt.Sprintf("expected one receive, one ParseMessage and one Free per item (found ParseMessage %d, Free %d)", len(pms), len(frees)))
		return
	}
	pm, fr := pms[0].In, frees[0].In
	// exactly once per item: from the receive to the next receive
	one := func(b *ssa.BasicBlock, i int) bool { return true }
	_ = one
	c.check(!canReach(at(recv), nil, isInstr(recv), isInstr(fr)), rule, "startParseMessage/freed-on-every-path", w.ipos(fr), "every received buffer is handed back before the next one is taken", "a path reaches the next receive without freeing the buffer (the pool drains and every datagram allocates 64 KiB)")
	c.check(!canReach(at(fr), nil, isInstr(fr), isInstr(recv)), rule, "startParseMessage/freed-once", w.ipos(fr), "freed once", "the same buffer can be freed twice: the pool would hand one buffer to two datagrams")
	c.check(mustPrecede(f, []ssa.Instruction{pm}, fr, nil) && !canReach(at(fr), nil, isInstr(pm), isInstr(recv)), rule, "startParseMessage/freed-after-parse", w.ipos(fr), "freed only after ParseMessage returned", "the buffer is handed back to the pool before it has been parsed: the receive loop may overwrite it while it is being read")
	// the freed buffer is the received one, into the transport's own pool
	okArg := false
	r, _ := loadedField(callArg(fr, 0))
	okArg = r == "SizedByteArray.b"
	b, okP := isLoadOf(callArg(fr, -1), "UDPServerTransport.msgBufPool")
	c.check(okArg && okP && isParam(f, b, 0), rule, "startParseMessage/frees-received-buffer", w.ipos(fr), "the received buffer goes back to this transport's pool", "Free is not given the received buffer on the transport's own pool")
	// the reader handed to ParseMessage does not survive the Free: no use of it after Free
	rdr := strip(callArg(pm, 0))
	later := false
	if rdr.Referrers() != nil {
		for _, u := range *rdr.Referrers() {
			if u != ssa.Instruction(pm.(*ssa.Call)) && canReach(at(fr), nil, isInstr(u), isInstr(recv)) {
				later = true
			}
		}
	}
	c.check(!later, rule, "startParseMessage/reader-dead-after-free", w.ipos(fr), "the reader over the buffer is not used after the buffer was freed", "the reader over the pooled buffer is still used after Free")
	c.floor(rule, 5)
}

func c10CopyOut(c *Ctx) {
	w := c.w
	rule := "copy-out"
	// (a) borrowed views are never stored (shared analysis with C11)
	src := w.borrowSourceFns()
	n := 0
	pmReach := w.reachableFrom([]*ssa.Function{w.Fn("ParseMessage")}, false)
	for _, fn := range w.All {
		if !pmReach[fn] {
			continue
		}
		n++
		for _, f := range w.borrowViolations(fn, src) {
			if f.Kind == "stored" {
				c.bad(rule, w.fname(fn)+"/view-stored", w.ipos(f.Use), "a view of the reader's buffer (and so of the pooled receive buffer) is stored into a longer-lived object: the next datagram received into that buffer changes the stored message")
			}
		}
	}
	c.ok(rule, "parser/no-view-stored", "-", fmt.Sprintf("%d functions of the parser inspected: no borrowed view is stored", n))
	// (b) header text is a string conversion of the line; strings are immutable copies
	if pm := c.fn(rule, "ParseMessage"); pm != nil {
		var rl ssa.CallInstruction
		for _, cs := range w.callsIn(pm, "readLine") {
			rl = cs.In
		}
		if rl != nil {
			e := extractOf(rl.(*ssa.Call), 0)
			good := e != nil
			if e != nil {
				for _, u := range *e.Referrers() {
					switch x := u.(type) {
					case *ssa.Convert:
						if !isStringType(x.Type()) {
							good = false
						}
					case *ssa.Call:
						if bi, ok := x.Call.Value.(*ssa.Builtin); !ok || bi.Name() != "len" {
							good = false
						}
					case *ssa.DebugRef:
					default:
						good = false
					}
				}
			}
			c.check(good, rule, "ParseMessage/line-copied-to-string", w.ipos(rl), "each line is only measured and converted to a string (a copy)", "the raw line slice is used for something other than len() and string(): a view may end up in the message")
		}
		// (c) the body buffer is allocated for this message
		okBody := false
		for _, st := range w.fieldStores(pm, "Message.body") {
			switch v := strip(st.Val).(type) {
			case *ssa.MakeSlice:
				okBody = true
			case *ssa.Extract:
				if cc, ok := v.Tuple.(*ssa.Call); ok && w.calleeName(cc) == "io.ReadAll" {
					okBody = true
				}
			default:
				okBody = false
				c.bad(rule, "ParseMessage/body-buffer", w.ipos(st), "the body is "+w.termKey(st.Val)+", not a buffer allocated for this message")
			}
		}
		c.check(okBody, rule, "ParseMessage/body-own-buffer", w.pos(pm.Pos()), "the body lives in a buffer allocated for this message", "the message body is not stored in a buffer of its own")
	}
	// (d) no unsafe
	usesUnsafe := false
	for _, imp := range w.Pkg.Types.Imports() {
		if imp.Path() == "unsafe" {
			usesUnsafe = true
		}
	}
	c.check(!usesUnsafe, rule, "package/no-unsafe", "-", "package unsafe is not imported", "the package imports unsafe: zero-copy string/slice conversions would alias the receive buffer")
	_ = types.Typ
	c.floor(rule, 4)
}

func c10Discard(c *Ctx) {
	w := c.w
	rule := "discard"
	f := c.fn(rule, "(*UDPServerTransport).startParseMessage")
	if f == nil {
		return
	}
	var pm ssa.CallInstruction
	for _, cs := range w.callsIn(f, "ParseMessage") {
		pm = cs.In
	}
	if pm == nil {
		return
	}
	n := 0
	for _, cs := range w.callsIn(f, "dyn") {
		n++
		c.check(w.requires(f, cs.In, errNil(pm), true), rule, "startParseMessage/handler-only-on-success", w.ipos(cs.In), "the handler runs only for decodable datagrams", "the message handler is called although ParseMessage failed: a truncated or over-declaring datagram is processed instead of being discarded")
		c.check(len(cs.In.Common().Args) == 1 && isResultOf(cs.In.Common().Args[0], pm, 0), rule, "startParseMessage/handler-gets-parsed-message", w.ipos(cs.In), "the handler receives the message parsed from this datagram", "the handler is not given the message ParseMessage returned")
		r, _ := loadedField(cs.In.Common().Value)
		c.check(r == "SizedByteArray.msgHandler", rule, "startParseMessage/handler-of-this-datagram", w.ipos(cs.In), "the handler that came with this datagram (its source address) is used", "the handler invoked is not the one that arrived with the datagram")
	}
	// or the handler is called in the parse loop itself, with a raw message built from this datagram's own source fields
	if n == 0 {
		for _, cs := range w.callsIn(f, "MessageHandler.HandleRawMessage") {
			n++
			c.check(w.requires(f, cs.In, errNil(pm), true), rule, "startParseMessage/handler-only-on-success", w.ipos(cs.In), "the handler runs only for decodable datagrams", "the message handler is called although ParseMessage failed: a truncated or over-declaring datagram is processed instead of being discarded")
			nr := w.resultOfCallTo(cs.In.Common().Args[0], "NewRawMessage", 0)
			okMsg, okSrc := false, false
			if nr != nil {
				for _, a := range nr.Call.Args {
					if isResultOf(a, pm, 0) {
						okMsg = true
					}
				}
				r0, _ := loadedField(nr.Call.Args[0])
				r1, _ := loadedField(nr.Call.Args[1])
				okSrc = strings.HasPrefix(r0, "SizedByteArray.") && strings.HasPrefix(r1, "SizedByteArray.") && r0 != r1
			}
			c.check(okMsg, rule, "startParseMessage/handler-gets-parsed-message", w.ipos(cs.In), "the handler receives the message parsed from this datagram", "the handler is not given the message ParseMessage returned")
			c.check(okSrc, rule, "startParseMessage/handler-of-this-datagram", w.ipos(cs.In), "the source address that came with this datagram is used", "the raw message is not built from the source address and port that arrived with the datagram")
		}
	}
	c.check(n == 1, rule, "startParseMessage/handler-call", w.pos(f.Pos()), "one handler call", fmt.Sprintf("%d handler calls", n))
	// the closure built by the receive loop carries this datagram's source (shared with C07.3)
	c.floor(rule, 4)
}

func c10Pool(c *Ctx) {
	w := c.w
	rule := "pool"
	t := w.Threads()
	if f := c.fn(rule, "(*ByteArrayPool).Alloc"); f != nil {
		n := 0
		for _, r := range returnsUnder(f, nil) {
			for _, v := range phiLeaves(r.Results[0]) {
				n++
				key := fmt.Sprintf("Alloc/return#%d", n)
				if mk, ok := v.(*ssa.MakeSlice); ok {
					_, isL := isLoadOf(mk.Len, "ByteArrayPool.arraySize")
					c.check(isL, rule, key, w.ipos(r), "a new buffer of the configured size", "a new buffer is not arraySize bytes long")
					continue
				}
				// pool[n-1] with pool = pool[0:n-1] stored on the same path
				good := false
				if a, ok := isDeref(v); ok {
					if ia, ok := a.(*ssa.IndexAddr); ok {
						if _, isL := isLoadOf(ia.X, "ByteArrayPool.pool"); isL {
							for _, st := range w.fieldStores(f, "ByteArrayPool.pool") {
								if sl, ok := strip(st.Val).(*ssa.Slice); ok && isZeroOrNil(sl.Low) && sl.High != nil && w.termKey(sl.High) == w.termKey(ia.Index) {
									if _, isL2 := isLoadOf(sl.X, "ByteArrayPool.pool"); isL2 && mustPrecede(f, []ssa.Instruction{st}, r, nil) == false {
										// the store must lie on every path to this return
									}
									if !canReach(entryPt(f), nil, isInstr(r), isInstr(st)) || st.Block() == r.Block() {
										good = true
									}
								}
							}
						}
					}
				}
				c.check(good, rule, key, w.ipos(r), "the buffer returned is removed from the pool (pool = pool[0:n-1]) before returning", "Alloc returns a pooled buffer without removing it from the pool: the same buffer is handed to two datagrams")
			}
		}
		c.check(n == 2, rule, "Alloc/cases", w.pos(f.Pos()), "pooled and fresh case", fmt.Sprintf("%d return cases", n))
		for _, st := range w.fieldStores(f, "ByteArrayPool.pool") {
			c.check(t.locksAt(st)[w.mutexClass("ByteArrayPool", "ByteArrayPool.Mutex")], rule, "Alloc/under-lock", w.ipos(st), "under the pool lock", "the pool is shrunk without its lock")
		}
	}
	if f := c.fn(rule, "(*ByteArrayPool).Free"); f != nil {
		n := 0
		for _, st := range w.fieldStores(f, "ByteArrayPool.pool") {
			n++
			kind, elem, _ := classifyListStore(w, st.Val, "ByteArrayPool.pool")
			c.check(kind == "append-one" && isParam(f, elem, 1) && t.locksAt(st)[w.mutexClass("ByteArrayPool", "ByteArrayPool.Mutex")], rule, "Free/append-under-lock", w.ipos(st), "the buffer is appended under the lock", "Free does not append exactly the given buffer under the pool lock ("+kind+")")
		}
		c.check(n == 1, rule, "Free/store", w.pos(f.Pos()), "one store", fmt.Sprintf("%d stores to the pool in Free", n))
	}
	c.floor(rule, 5)
}

// c10FreshMessage: every decoded message starts from storage of its own: NewMessage returns a newly allocated Message
// whose list and byte fields are nil or made inside NewMessage - never a copy of a package-level template, whose
// slices would share one backing array between all messages (headers of a later datagram overwrite those of a queued
// earlier one).
func c10FreshMessage(c *Ctx) {
	w := c.w
	rule := "copy-out"
	f := c.fn(rule, "NewMessage")
	if f == nil {
		return
	}
	good := true
	why := ""
	for _, r := range returnsUnder(f, nil) {
		for _, v := range phiLeaves(r.Results[0]) {
			al, ok := strip(v).(*ssa.Alloc)
			if !ok {
				good, why = false, "the result is "+w.termKey(v)+", not a new object"
				continue
			}
			for _, u := range *al.Referrers() {
				switch x := u.(type) {
				case *ssa.Store:
					if x.Addr == ssa.Value(al) {
						good, why = false, "the new message is filled by copying a whole Message value ("+w.termKey(x.Val)+"): its slices share their backing arrays with the source"
					}
				case *ssa.FieldAddr:
					for _, uu := range *x.Referrers() {
						st, ok := uu.(*ssa.Store)
						if !ok || st.Addr != ssa.Value(x) {
							continue
						}
						if _, isSlice := st.Val.Type().Underlying().(*types.Slice); !isSlice {
							continue
						}
						val := strip(st.Val)
						if isNilConst(val) || isEmptyList(val) {
							continue
						}
						if sl, ok := val.(*ssa.Slice); ok {
							if a2, ok := sl.X.(*ssa.Alloc); ok && a2.Parent() == f {
								continue // make(...) in this call
							}
						}
						good, why = false, fieldName(x.X.Type(), x.Field)+" is initialised with "+w.termKey(val)+", which is not made in this call"
					}
				}
			}
		}
	}
	c.check(good, rule, "NewMessage/own-storage", w.pos(f.Pos()), "a new message owns its header list and body", "NewMessage does not give each message storage of its own ("+why+"): messages decoded from different datagrams share header slots, so what is relayed for one datagram contains headers of another")
}

// c10ResultAfterError: a decision is taken on the value result of a fallible package call only where its error has
// been excluded: `line, err := readLine(r); if len(line) == 0 {...}; if err != nil {...}` takes an EOF in the middle of
// the header section (nil line, non-nil error) for the empty line that ends it, so a truncated datagram is accepted
// instead of discarded.
func c10ResultAfterError(c *Ctx, rule string, fns ...string) {
	w := c.w
	n := 0
	for _, name := range fns {
		f := c.fn(rule, name)
		if f == nil {
			continue
		}
		per := map[string]int{}
		for _, cs := range w.callsIn(f) {
			call, ok := cs.In.(*ssa.Call)
			callee := cs.In.Common().StaticCallee()
			if !ok || callee == nil || !w.isMain(callee) || errIndex(call) < 0 || callee.Signature.Results().Len() != 2 {
				continue
			}
			val := extractOf(call, 0)
			if val == nil {
				continue
			}
			switch val.Type().Underlying().(type) {
			case *types.Slice, *types.Basic:
			default:
				continue
			}
			for _, b := range f.Blocks {
				if len(b.Instrs) == 0 {
					continue
				}
				ifi, ok := b.Instrs[len(b.Instrs)-1].(*ssa.If)
				if !ok {
					continue
				}
				a := w.atom(ifi.Cond)
				x := a.X
				if x == nil {
					continue
				}
				if inner, isLen := lenOf(x); isLen {
					x = inner
				}
				if cv, isCv := strip(x).(*ssa.Convert); isCv {
					x = cv.X
				}
				if !isResultOf(x, call, 0) {
					continue
				}
				n++
				per[cs.Name]++
				c.check(w.requires(f, ifi, errNil(call), true), rule, fmt.Sprintf("%s/%s-result-tested-after-error-check#%d", name, cs.Name, per[cs.Name]), w.ipos(ifi), "the value is examined only when the call succeeded",
					"a decision is taken on the value returned by "+cs.Name+" before its error is checked: a failed read (EOF in the middle of the header section yields an empty line together with an error) is taken for a valid value, so an incomplete message is accepted instead of being discarded")
			}
		}
	}
	if n == 0 {
		c.undecided(rule, "result-tested-after-error-check/floor", "-", "no decision on the result of a fallible call found in "+strings.Join(fns, ", "))
	}
}
