package main

import (
	"fmt"
	"strings"

	"golang.org/x/tools/go/ssa"
)

func init() {
	register(&propDef{ID: "C11", Run: runC11,
		Explain:    "Structural necessary conditions of 'TCP framing depends on the bytes, not on their segmentation', decided on SSA/CFG of /repo: (1) borrow-lifetime: a slice borrowed from bufio.Reader.ReadLine/ReadSlice/Peek (or returned un-copied by a package function) is never used - read, appended to, or copied - after another read on the same reader unless the borrowing call was re-executed, and is never stored in a field, global, map or channel; (2) full-read-only: the framing path (ParseMessage, readLine, skipWhiteSpace) consumes the stream only through ReadLine, ReadByte/UnreadByte and full-read helpers (io.ReadFull, or io.ReadAll over an io.LimitReader with a length test); no partial Read; (3) reader-hoisted: the per-connection loop passes to every ParseMessage one bufio.Reader created before the loop from the connection; (4) body-length: the body is read from the same reader, after the blank line, with exactly the Content-Length value found through the comparator-based lookup, negative values rejected, a short body is an error; (5) keep-alive: skipWhiteSpace runs before the first line is read, consumes CR/LF/blank bytes and un-reads the first other byte exactly once; (6) line-assembly: readLine continues exactly while isPrefix is set and appends every chunk in order.",
		NotDecided: "'exactly those messages with exact headers' at value level (C01/C14)."})
}

func runC11(c *Ctx) {
	ruleBorrow(c, "borrow-lifetime")
	c11FullRead(c)
	c11ReaderHoisted(c)
	c11BodyLength(c)
	c11KeepAlive(c)
	c11LineAssembly(c)
	// every decoded message reaches the loop, nothing shortens a read, and the length header is found in any spelling
	ruleBlockingHandOff(c, "full-read-only")
	ruleNoReadDeadline(c, "full-read-only")
	c17Internals(c)
	c17CompactTable(c)
}

func ruleBorrow(c *Ctx, rule string) {
	w := c.w
	src := w.borrowSourceFns()
	var names []string
	for f := range src {
		names = append(names, w.fname(f))
	}
	c.info(rule, "borrow-sources", "-", "package functions returning an un-copied view: "+strings.Join(names, ", "))
	n := 0
	for _, fn := range w.All {
		b := w.borrowedValues(fn, src)
		if len(b) == 0 {
			continue
		}
		n++
		c.Fns[w.fname(fn)] = true
		fs := w.borrowViolations(fn, src)
		seen := map[string]bool{}
		for _, f := range fs {
			key := fmt.Sprintf("%s/%s/%s", w.fname(fn), f.Kind, w.termKey(f.Val))
			if seen[key] {
				continue
			}
			seen[key] = true
			if f.Kind == "stored" {
				c.bad(rule, key, w.ipos(f.Use), "a view of the reader's internal buffer ("+w.termKey(f.Val)+", borrowed at "+w.ipos(f.Def)+") is stored where it outlives the next read: the bytes change under the holder when the buffer is refilled")
			} else {
				c.bad(rule, key, w.ipos(f.Use), "a view of the reader's internal buffer ("+w.termKey(f.Val)+") is used after the reader was read again: the bytes have been overwritten by the refill (lines longer than the buffer are reassembled from the wrong bytes)",
					"borrow  "+w.ipos(f.Def)+" "+w.calleeName(f.Def), "invalidated by "+w.ipos(f.Inval)+" "+w.calleeName(f.Inval), "use     "+w.ipos(f.Use))
			}
		}
		if len(fs) == 0 {
			c.ok(rule, w.fname(fn), w.pos(fn.Pos()), fmt.Sprintf("%d borrowed values, none used after a later read nor stored", len(b)))
		}
	}
	if n < 2 {
		c.undecided(rule, "floor", "-", fmt.Sprintf("only %d functions handle borrowed views (expected readLine and ParseMessage)", n))
	}
}

var framingFns = []string{"ParseMessage", "readLine", "skipWhiteSpace"}

func c11FullRead(c *Ctx) {
	w := c.w
	rule := "full-read-only"
	allowed := map[string]bool{"(*bufio.Reader).ReadLine": true, "(*bufio.Reader).ReadByte": true, "(*bufio.Reader).UnreadByte": true,
		"io.ReadFull": true, "io.ReadAll": true, "io.LimitReader": true, "io.ReadAtLeast": false}
	n := 0
	for _, name := range framingFns {
		f := c.fn(rule, name)
		if f == nil {
			continue
		}
		for _, cs := range w.callsIn(f) {
			if readerArg(cs.In) == nil {
				continue
			}
			callee := cs.In.Common().StaticCallee()
			if callee != nil && w.isMain(callee) {
				ok := false
				for _, fr := range framingFns {
					if w.fname(callee) == fr {
						ok = true
					}
				}
				c.check(ok, rule, name+"->"+w.fname(callee), w.ipos(cs.In), "framing helper", "the stream reader is handed to "+w.fname(callee)+", which is not part of the checked framing path")
				continue
			}
			n++
			c.check(allowed[cs.Name], rule, fmt.Sprintf("%s/%s#%d", name, cs.Name, n), w.ipos(cs.In), "full-read API", "the framing path reads the stream with "+cs.Name+": a partial read returns however many bytes the segment happened to carry, so framing depends on segmentation")
		}
		// the raw connection is never read directly
		for _, cs := range w.callsIn(f, "(net.Conn).Read", "(io.Reader).Read") {
			c.bad(rule, name+"/raw-read", w.ipos(cs.In), "a raw Read on the framing path")
		}
	}
	if n < 5 {
		c.undecided(rule, "floor", "-", fmt.Sprintf("only %d reader calls on the framing path", n))
	}
}

func c11ReaderHoisted(c *Ctx) {
	w := c.w
	rule := "reader-hoisted"
	f := c.fn(rule, "(*TCPServerTransport).receiveMessage")
	if f == nil {
		return
	}
	pms := w.callsIn(f, "ParseMessage")
	if len(pms) != 1 {
		c.bad(rule, "receiveMessage/ParseMessage", w.pos(f.Pos()), fmt.Sprintf("expected one ParseMessage site in the per-connection loop, found %d", len(pms)))
		return
	}
	pm := pms[0].In
	inCycle := canReach(at(pm), nil, isInstr(pm), nil)
	c.check(inCycle, rule, "receiveMessage/loop", w.ipos(pm), "messages are decoded in a loop", "ParseMessage is not in a loop: only the first message of a connection is processed")
	nr := w.resultOfCallTo(callArg(pm, 0), "bufio.NewReader", 0)
	if nr == nil {
		nr = w.resultOfCallTo(callArg(pm, 0), "bufio.NewReaderSize", 0)
	}
	if nr == nil {
		c.bad(rule, "receiveMessage/reader", w.ipos(pm), "ParseMessage is not given a bufio.Reader created in this function")
		return
	}
	hoisted := !canReach(at(pm), nil, isInstr(nr), nil)
	c.check(hoisted, rule, "receiveMessage/one-reader-per-connection", w.ipos(nr), "the reader is created once, before the loop", "a new bufio.Reader is created for every message: bytes of the next message already buffered by the previous reader are lost, so framing depends on how the stream was segmented")
	c.check(strip(nr.Call.Args[0]) == ssa.Value(f.Params[1]), rule, "receiveMessage/reader-over-connection", w.ipos(nr), "the reader wraps the connection", "the reader does not wrap the connection being served")
	c.floor(rule, 3)
}

func c11BodyLength(c *Ctx) {
	w := c.w
	rule := "body-length"
	ruleNumberParsing(c, rule, 1, "(*Message).GetHeaderInt")
	f := c.fn(rule, "ParseMessage")
	if f == nil {
		return
	}
	reader := ssa.Value(f.Params[0])
	msg := w.msgUnderConstruction(f)
	var cl ssa.CallInstruction
	for _, cs := range w.callsIn(f, "(*Message).GetHeaderInt") {
		if s, ok := constString(callArg(cs.In, 0)); ok && s == "Content-Length" && strip(callArg(cs.In, -1)) == strip(msg) {
			cl = cs.In
		}
	}
	if cl == nil {
		c.bad(rule, "ParseMessage/content-length", w.pos(f.Pos()), "the body length is not taken from GetHeaderInt(\"Content-Length\") of the message being built")
		return
	}
	ok, why := w.errPropagated(f, cl)
	c.check(ok, rule, "ParseMessage/content-length-error", w.ipos(cl), "a missing/unparsable Content-Length is an error", "a missing or unparsable Content-Length is not reported: "+why)
	isCL := func(v ssa.Value) bool { return isResultOf(v, cl, 0) }
	neg := func(a Atom) bool { return a.Kind == "ltk" && a.K == 0 && isCL(a.X) }
	// the body read
	var read ssa.CallInstruction
	idiom := ""
	for _, cs := range w.callsIn(f, "io.ReadFull") {
		if strip(cs.In.Common().Args[0]) == reader {
			read, idiom = cs.In, "ReadFull"
		}
	}
	for _, cs := range w.callsIn(f, "io.ReadAll") {
		if lr := w.resultOfCallTo(cs.In.Common().Args[0], "io.LimitReader", 0); lr != nil && strip(lr.Call.Args[0]) == reader {
			read, idiom = cs.In, "ReadAll(LimitReader)"
		}
	}
	if read == nil {
		c.bad(rule, "ParseMessage/body-read", w.pos(f.Pos()), "the body is not read from the message's own reader with io.ReadFull or io.ReadAll(io.LimitReader(reader, n))")
		return
	}
	c.check(w.requires(f, read, neg, false) && w.requires(f, read, errNil(cl), true), rule, "ParseMessage/negative-rejected", w.ipos(read), "a negative Content-Length is rejected before the body is read", "the body read is reachable with a negative or undecodable Content-Length")
	switch idiom {
	case "ReadFull":
		// buffer of exactly CL bytes
		buf := strip(read.Common().Args[1])
		okLen := false
		if b, isL := isLoadOf(buf, "Message.body"); isL && strip(b) == strip(msg) {
			for _, st := range w.fieldStores(f, "Message.body") {
				if mk, isMk := strip(st.Val).(*ssa.MakeSlice); isMk && isCL(mk.Len) {
					okLen = true
				}
			}
		}
		if mk, isMk := buf.(*ssa.MakeSlice); isMk && isCL(mk.Len) {
			okLen = true
		}
		c.check(okLen, rule, "ParseMessage/body-exact-length", w.ipos(read), "exactly Content-Length bytes are consumed", "the buffer filled by io.ReadFull is not exactly Content-Length bytes long: bytes of the next message are swallowed or body bytes left behind")
	default:
		lr := w.resultOfCallTo(read.Common().Args[0], "io.LimitReader", 0)
		lim := strip(lr.Call.Args[1])
		if cv, ok := lim.(*ssa.Convert); ok {
			lim = strip(cv.X)
		}
		c.check(isCL(lim), rule, "ParseMessage/body-exact-length", w.ipos(read), "at most Content-Length bytes are consumed", "the limit of the body reader is not the Content-Length value")
		// short body -> error: a comparison len(body) vs CL guards the success return
		short := func(a Atom) bool {
			if a.Kind != "eq" && a.Kind != "lt" {
				return false
			}
			m := func(x, y ssa.Value) bool {
				l, ok := lenOf(x)
				return ok && isResultOf(l, read, 0) && isCL(y)
			}
			return m(a.X, a.Y) || m(a.Y, a.X)
		}
		okShort := false
		for _, x := range resultExits(f, 1) {
			if allVals(phiLeaves(x.Val), isNilConst) {
				okShort = w.requires(f, x.At, short, true) || w.requires(f, x.At, short, false)
			}
		}
		c.check(okShort, rule, "ParseMessage/short-body-is-error", w.ipos(read), "a body shorter than declared is an error", "success is returned without testing that the full declared body arrived")
		// the bytes read become the body
		okBody := false
		for _, st := range w.fieldStores(f, "Message.body") {
			if isResultOf(st.Val, read, 0) {
				okBody = true
			}
		}
		c.check(okBody, rule, "ParseMessage/body-stored", w.ipos(read), "the bytes read are the message body", "the bytes read are not stored as the message body")
	}
	okE, why2 := w.errPropagated(f, read)
	c.check(okE, rule, "ParseMessage/body-read-error", w.ipos(read), "a failed/short read is an error", "a failed body read is not reported: "+why2)
	// after the blank line: whichever line was read last, the body read is reachable from it only through the
	// test that finds it empty (or through reading another line, which is judged in its turn)
	rls := w.callsIn(f, "readLine")
	if len(rls) > 0 {
		good := true
		isRL := func(in ssa.Instruction) bool {
			for _, cs := range rls {
				if in == ssa.Instruction(cs.In) {
					return true
				}
			}
			return false
		}
		for _, cs := range rls {
			k := cs.In
			blank := func(a Atom) bool {
				if a.Kind != "ltk" || a.K != 1 {
					return false
				}
				x, ok := lenOf(a.X)
				return ok && isResultOf(x, k, 0)
			}
			keep := w.under(assumeAtom(blank, false))
			for _, target := range []ssa.Instruction{cl, read} {
				if canReach(at(k), keep, isInstr(target), isRL) {
					good = false
				}
			}
			if len(w.ifsTesting(f, blank)) == 0 && canReach(at(k), nil, isInstr(read), isRL) {
				good = false
			}
		}
		c.check(good, rule, "ParseMessage/body-after-blank-line", w.ipos(read), "the body starts after the empty line", "the body is read without having seen the empty line that ends the header section")
	}
	c.floor(rule, 5)
}

func c11KeepAlive(c *Ctx) {
	w := c.w
	rule := "keep-alive"
	if f := c.fn(rule, "ParseMessage"); f != nil {
		sws := w.callsIn(f, "skipWhiteSpace")
		var rl ssa.CallInstruction
		for _, cs := range w.callsIn(f, "readLine") {
			rl = cs.In
		}
		if len(sws) != 1 || rl == nil {
			c.bad(rule, "ParseMessage/skip", w.pos(f.Pos()), "ParseMessage must skip inter-message blank lines once before reading the start line")
		} else {
			sw := sws[0].In
			c.check(mustPrecede(f, []ssa.Instruction{sw}, rl, nil) && !canReach(at(rl), nil, isInstr(sw), nil) && strip(callArg(sw, 0)) == ssa.Value(f.Params[0]) && strip(callArg(rl, 0)) == ssa.Value(f.Params[0]),
				rule, "ParseMessage/skip-before-first-line", w.ipos(sw), "blank keep-alive lines are skipped once, before the start line, on the same reader", "skipWhiteSpace does not run exactly once before the first readLine on the message's reader (it would eat the blank line that ends the headers, or keep-alives would be taken for a start line)")
		}
	}
	if f := c.fn(rule, "skipWhiteSpace"); f != nil {
		var rb, ub ssa.CallInstruction
		for _, cs := range w.callsIn(f, "(*bufio.Reader).ReadByte") {
			rb = cs.In
		}
		for _, cs := range w.callsIn(f, "(*bufio.Reader).UnreadByte") {
			ub = cs.In
		}
		if rb == nil || ub == nil {
			c.bad(rule, "skipWhiteSpace/shape", w.pos(f.Pos()), "skipWhiteSpace must read byte by byte and un-read the first non-blank byte")
		} else {
			ws := func(a Atom) bool {
				if a.Kind != "bool" {
					return false
				}
				cc := w.resultOfCallTo(a.X, "isWhiteSpace", 0)
				return cc != nil && isResultOf(cc.Call.Args[0], rb, 0)
			}
			c.check(w.requires(f, ub, ws, false) && w.requires(f, ub, errNil(rb), true), rule, "skipWhiteSpace/unread-non-blank", w.ipos(ub), "only a non-blank byte is pushed back", "UnreadByte is not guarded by !isWhiteSpace(b) of the byte just read")
			// after the unread the function returns without reading again
			c.check(!canReach(at(ub), nil, isInstr(rb), nil), rule, "skipWhiteSpace/stop-after-unread", w.ipos(ub), "stops at the first non-blank byte", "reading continues after the first non-blank byte was pushed back")
			// a blank byte continues the loop
			c.check(canReach(at(rb), w.under(assumeAtom(ws, true), assumeAtom(errNil(rb), true)), isInstr(rb), nil), rule, "skipWhiteSpace/skip-blank", w.ipos(rb), "blank bytes are consumed", "a blank byte does not lead to the next byte being read")
			mn, _, _ := countSites(at(rb), w.under(assumeAtom(ws, false), assumeAtom(errNil(rb), true)), isInstr(ub))
			c.check(mn == 1, rule, "skipWhiteSpace/always-unread", w.ipos(ub), "the first non-blank byte is always pushed back", "the first byte of the message can be consumed without being pushed back")
		}
	}
	if f := c.fn(rule, "isWhiteSpace"); f != nil {
		// the set contains CR, LF, space and TAB
		have := map[int64]bool{}
		eachInstr(f, func(in ssa.Instruction) {
			if b, ok := in.(*ssa.BinOp); ok {
				if k, isK := constInt(b.Y); isK {
					have[k] = true
				}
			}
		})
		c.check(have[13] && have[10] && have[32] && have[9], rule, "isWhiteSpace/set", w.pos(f.Pos()), "CR, LF, SP and TAB are blank", "isWhiteSpace does not cover CR, LF, space and TAB")
	}
	c.floor(rule, 5)
}

func c11LineAssembly(c *Ctx) {
	w := c.w
	rule := "line-assembly"
	c10ResultAfterError(c, rule, "ParseMessage")
	f := c.fn(rule, "readLine")
	if f == nil {
		return
	}
	rls := w.callsIn(f, "(*bufio.Reader).ReadLine")
	c.check(len(rls) >= 1, rule, "readLine/ReadLine", w.pos(f.Pos()), "lines are read with ReadLine", "readLine does not use bufio.Reader.ReadLine")
	for i, cs := range rls {
		call := cs.In
		c.check(strip(callArg(call, -1)) == ssa.Value(f.Params[0]), rule, fmt.Sprintf("readLine/same-reader#%d", i+1), w.ipos(call), "reads its own reader", "a chunk is read from another reader")
		ok, why := w.errPropagated(f, call)
		c.check(ok, rule, fmt.Sprintf("readLine/error#%d", i+1), w.ipos(call), "a read error ends the line with an error", "a read error is not reported: "+why)
		prefix := func(a Atom) bool { return a.Kind == "bool" && isResultOf(a.X, call, 1) }
		// while isPrefix the next chunk is read; when not, the function returns
		more := w.under(assumeAtom(errNil(call), true), assumeAtom(prefix, true))
		done := w.under(assumeAtom(errNil(call), true), assumeAtom(prefix, false))
		isRL := func(in ssa.Instruction) bool {
			c2, ok := in.(ssa.CallInstruction)
			return ok && w.calleeName(c2) == "(*bufio.Reader).ReadLine"
		}
		// with isPrefix set the next chunk is read on every path: a read is reachable and no return is reachable before it
		nextRead := canReach(at(call), more, isRL, isReturn) && !canReach(at(call), more, isReturn, isRL)
		c.check(nextRead, rule, fmt.Sprintf("readLine/continue-while-prefix#%d", i+1), w.ipos(call), "a partial line is continued", "with isPrefix set the function returns before reading the rest of the line (long header lines are cut)")
		stops := !canReach(at(call), done, func(in ssa.Instruction) bool {
			c2, ok := in.(ssa.CallInstruction)
			return ok && w.calleeName(c2) == "(*bufio.Reader).ReadLine"
		}, nil)
		c.check(stops, rule, fmt.Sprintf("readLine/stop-at-line-end#%d", i+1), w.ipos(call), "a complete line ends the assembly", "with isPrefix clear another chunk is read (two lines are glued together)")
	}
	// every continuation chunk is appended (in order) to what is returned
	if len(rls) == 2 {
		second := rls[1].In
		appended := false
		for _, cs := range w.callsIn(f, "builtin:append") {
			if isResultOf(cs.In.Common().Args[1], second, 0) {
				// on success, neither a return nor the next read is reachable without appending the chunk first
				ap := cs.In
				appended = !canReach(at(second), w.under(assumeAtom(errNil(second), true)), func(in ssa.Instruction) bool {
					if isReturn(in) {
						return true
					}
					c2, ok := in.(ssa.CallInstruction)
					return ok && w.calleeName(c2) == "(*bufio.Reader).ReadLine"
				}, func(in ssa.Instruction) bool { return in == ap })
				// the result of the append is what flows to the return
				ok := false
				for _, r := range returnsUnder(f, nil) {
					for _, v := range phiLeaves(r.Results[0]) {
						if strip(v) == ssa.Value(cs.In.(*ssa.Call)) {
							ok = true
						}
					}
				}
				appended = appended && ok
			}
		}
		c.check(appended, rule, "readLine/chunks-appended", w.ipos(second), "every continuation chunk is appended to the line returned", "a continuation chunk is not appended to the line that is returned")
	}
	c.floor(rule, 6)
}
