package main

import (
	"fmt"
	"strings"

	"golang.org/x/tools/go/ssa"
)

func init() {
	register(&propDef{ID: "C12", Run: runC12,
		Explain:    "Structural necessary conditions of 'responses to TCP requests return on the connection the request used', decided on SSA/CFG of /repo: (1) register: on the edge request & TcpConn != nil & hop ok & transaction id ok & transport obtained, the primary of the transport obtained for (tcp, response host, port, transaction) is set to NewTCPClientTransportWithConn(rawMessage.TcpConn), and RawMessage.TcpConn is the very connection the receive loop reads from; registration is in handleRawMessage, which precedes dispatch (C04.4); (2) key-agreement over the client transport table: register, lookup and remove all end in getFullAddr(lower-cased protocol, host, port, transaction id); the transaction id comes from GetClientTransaction(msg) at all three sites and the host argument has the same resolution class (raw name, or name resolved through the configured table) at all three; accepted connections are registered under a literal address, which is compatible with resolved lookups; the key is injective in (protocol, host:port, transaction); (3) remove-on-final: RemoveTransport is guarded by IsFinalResponse, comes after the lookup and before the Send on the looked-up object, and removes under the same protocol/port/transaction as the lookup; (4) failover-order: the registered primary is tried before the shared reconnecting secondary (shared with C20.6); (5) table semantics: GetTransport returns the entry stored under the key when present and stores the entry it creates under that same key.",
		NotDecided: "affinity across real interleavings; collisions between connections announcing the same sent-by and branch (excluded by the quantifier)."})
}

// hostClass classifies the provenance of a host argument inside fn.
func (w *World) hostClass(fn *ssa.Function, v ssa.Value) string {
	leaves := phiLeaves(v)
	var gi *ssa.Call
	raw := 0
	for _, l := range leaves {
		if cc := w.resultOfCallTo(l, "(*PreConfigHostResolver).GetIp", 0); cc != nil {
			gi = cc
			continue
		}
		if cc, _ := callOfResult(l); cc != nil && w.calleeName(cc) == "net.SplitHostPort" {
			return "literal"
		}
		raw++
	}
	if gi != nil {
		// resolved: GetIp(x) on success, x itself otherwise
		hit := valuesUnder(fn, v, w.under(assumeAtom(errNil(gi), true)))
		if allVals(hit, func(x ssa.Value) bool { return isResultOf(x, gi, 0) }) {
			return "resolved"
		}
		return "mixed"
	}
	return "raw"
}

func runC12(c *Ctx) {
	w := c.w
	// ---- (1) register ----
	rule := "register"
	var regGT ssa.CallInstruction
	var regFn *ssa.Function
	if f := c.fn(rule, "(*Proxy).handleRawMessage"); f != nil {
		regFn = f
		raw := func(v ssa.Value) bool { return isParam(f, v, 1) }
		isMsg := func(v ssa.Value) bool { b, ok := isLoadOf(v, "RawMessage.Message"); return ok && raw(b) }
		isConn := func(v ssa.Value) bool { b, ok := isLoadOf(v, "RawMessage.TcpConn"); return ok && raw(b) }
		var st *ssa.Store
		for _, s := range storesIn(f) {
			if fa, ok := s.Addr.(*ssa.FieldAddr); ok && fieldRef(fa) == "FailOverClientTransport.primary" {
				st = s
			}
		}
		if st == nil {
			c.bad(rule, "handleRawMessage/primary-store", w.pos(f.Pos()), "the inbound connection is never registered as primary transport: responses open a new connection")
		} else {
			fa := st.Addr.(*ssa.FieldAddr)
			gt, _ := callOfResult(fa.X)
			nc := w.resultOfCallTo(st.Val, "NewTCPClientTransportWithConn", 0)
			okConn := nc != nil && isConn(nc.Call.Args[0])
			c.check(okConn, rule, "handleRawMessage/registers-inbound-connection", w.ipos(st), "primary = transport over rawMessage.TcpConn", "the primary registered is not NewTCPClientTransportWithConn(rawMessage.TcpConn): the response would go over another connection")
			if gt == nil || w.calleeName(gt) != "(*ClientTransportMgr).GetTransport" {
				c.bad(rule, "handleRawMessage/registered-on-table-entry", w.ipos(st), "the primary is not set on the entry obtained from clientTransMgr.GetTransport")
			} else {
				regGT = gt
				var hop, gct ssa.CallInstruction
				for _, cs := range w.callsIn(f, hopRespFn) {
					hop = cs.In
				}
				for _, cs := range w.callsIn(f, "(*Message).GetClientTransaction") {
					gct = cs.In
				}
				reqSel := func(a Atom) bool {
					if a.Kind != "bool" {
						return false
					}
					cc := w.resultOfCallTo(a.X, "(*Message).IsRequest", 0)
					return cc != nil && isMsg(callArg(cc, -1))
				}
				connSel := func(a Atom) bool { return a.Kind == "nil" && isConn(a.X) }
				c.check(w.requires(f, st, reqSel, true) && w.requires(f, st, connSel, false), rule, "handleRawMessage/requests-over-tcp", w.ipos(st), "only requests that arrived over TCP register", "registration is not guarded by IsRequest() && TcpConn != nil")
				if hop == nil || gct == nil {
					c.bad(rule, "handleRawMessage/key-sources", w.pos(f.Pos()), "registration must key on the response hop and the client transaction of the request")
				} else {
					c.check(w.requires(f, st, errNil(hop), true) && w.requires(f, st, errNil(gct), true) && w.requires(f, st, errNil(gt), true), rule, "handleRawMessage/only-with-key", w.ipos(st), "registered only when hop, transaction id and table entry exist", "the primary is set although the hop, the transaction id or the table entry could not be obtained")
					// under all guards the registration always happens, once
					keep := w.under(assumeAtom(reqSel, true), assumeAtom(connSel, false), assumeAtom(errNil(hop), true), assumeAtom(errNil(gct), true), assumeAtom(errNil(gt), true))
					mn, mx, inf := countSites(entryPt(f), keep, isInstr(st))
					c.check(mn == 1 && mx == 1 && !inf, rule, "handleRawMessage/always-registered", w.ipos(st), "every TCP request with a usable top Via registers its connection, once", fmt.Sprintf("under the guards the registration executes min=%d max=%d times: an extra condition leaves some requests unregistered", mn, mx))
					// key arguments
					s, isS := constString(callArg(gt, 0))
					c.check(isS && s == "tcp", rule, "handleRawMessage/key-protocol", w.ipos(gt), "protocol tcp", "the entry is not obtained for protocol tcp")
					c.check(isResultOf(callArg(gt, 2), hop, 1), rule, "handleRawMessage/key-port", w.ipos(gt), "port = the response hop's port", "the registration port is not the port the response will be sent to (result 1 of the response hop)")
					c.check(isResultOf(callArg(gt, 4), gct, 0) && isMsg(callArg(gct, -1)), rule, "handleRawMessage/key-transaction", w.ipos(gt), "transaction = GetClientTransaction(request)", "the registration is not keyed by the request's client transaction (CSeq method + top Via branch): transactions of different connections share one entry")
					// the key is computed from the Via as the response will see it: the received/rport stamp is not applied afterwards
					for _, sc := range w.callsIn(f, "(*Message).SetReceived") {
						c.check(!canReach(at(hop), nil, isInstr(sc.In), nil), rule, "handleRawMessage/stamp-before-key", w.ipos(sc.In), "received/rport are stamped before the registration key is computed", "the received/rport stamp is applied after the registration key was computed from the Via: the connection is registered under the sent-by the client wrote, while the response is looked up under received/rport, so it does not find the connection")
					}
					hostOK := localDerives(callArg(gt, 1), func(x ssa.Value) bool { return isResultOf(x, hop, 0) })
					c.check(hostOK, rule, "handleRawMessage/key-host", w.ipos(gt), "host derives from the response hop's host", "the registration host does not derive from the host the response will be sent to")
				}
			}
		}
	}
	// TcpConn is the connection being read
	if rf := c.fn(rule, "(*TCPServerTransport).receiveMessage"); rf != nil {
		good := false
		for _, s := range storesIn(rf) {
			if fa, ok := s.Addr.(*ssa.FieldAddr); ok && fieldRef(fa) == "RawMessage.TcpConn" {
				good = isParam(rf, s.Val, 1)
				nr := w.resultOfCallTo(fa.X, "NewRawMessage", 0)
				good = good && nr != nil
			}
		}
		var rdr *ssa.Call
		for _, cs := range w.callsIn(rf, "bufio.NewReader", "bufio.NewReaderSize") {
			rdr = cs.In.(*ssa.Call)
		}
		good = good && rdr != nil && strip(rdr.Call.Args[0]) == ssa.Value(rf.Params[1])
		c.check(good, rule, "receiveMessage/TcpConn-is-the-connection-read", w.pos(rf.Pos()), "RawMessage.TcpConn = the connection the message was read from", "the raw message does not carry the connection its bytes were read from")
	}
	c.floor(rule, 9)

	// ---- (2) key agreement ----
	rule = "key-agreement"
	sm := c.fn(rule, "(*Proxy).sendMessage")
	fct := c.fn(rule, "(*Proxy).findClientTransport")
	if sm != nil && fct != nil && regGT != nil {
		var look, rem ssa.CallInstruction
		for _, cs := range w.callsIn(sm, "(*Proxy).findClientTransport") {
			look = cs.In
		}
		for _, cs := range w.callsIn(sm, "(*ClientTransportMgr).RemoveTransport") {
			rem = cs.In
		}
		var lookGT ssa.CallInstruction
		for _, cs := range w.callsIn(fct, "(*ClientTransportMgr).GetTransport") {
			lookGT = cs.In
		}
		if look == nil || rem == nil || lookGT == nil {
			c.bad(rule, "sendMessage/sites", w.pos(sm.Pos()), "sendMessage must look the transport up (findClientTransport -> GetTransport) and remove it (RemoveTransport)")
		} else {
			// findClientTransport forwards its arguments unchanged
			c.check(isParam(fct, callArg(lookGT, 0), 3) && isParam(fct, callArg(lookGT, 1), 1) && isParam(fct, callArg(lookGT, 2), 2) && isParam(fct, callArg(lookGT, 4), 4), rule, "findClientTransport/forwards-key", w.ipos(lookGT), "(transport, host, port, transId) are forwarded unchanged", "findClientTransport does not pass (transport, host, port, transId) through to GetTransport unchanged")
			regClass := w.hostClass(regFn, callArg(regGT, 1))
			lookClass := w.hostClass(sm, callArg(look, 0))
			remClass := w.hostClass(sm, callArg(rem, 1))
			c.check(regClass == lookClass && lookClass == remClass && regClass != "mixed", rule, "table/host-class", w.ipos(regGT), "register, lookup and remove use the host in the same resolution class ("+regClass+")",
				fmt.Sprintf("the host part of the table key is %s at registration (handleRawMessage), %s at lookup and %s at removal (sendMessage): for a Via sent-by that is a name in the host table the response does not find the registered connection (it opens a new one) and the entry is never removed", regClass, lookClass, remClass),
				"register "+w.ipos(regGT)+" "+w.termKey(callArg(regGT, 1)), "lookup   "+w.ipos(look)+" "+w.termKey(callArg(look, 0)), "remove   "+w.ipos(rem)+" "+w.termKey(callArg(rem, 1)))
			// lookup and remove agree on the other components
			c.check(strip(callArg(look, 1)) == strip(callArg(rem, 2)) && strip(callArg(look, 2)) == strip(callArg(rem, 0)) && strip(callArg(look, 3)) == strip(callArg(rem, 3)), rule, "sendMessage/lookup-remove-same-key", w.ipos(rem), "lookup and removal use the same port, protocol and transaction id", "RemoveTransport is not given the same (protocol, port, transaction id) as the lookup")
			// transaction id at lookup/remove: GetClientTransaction(msg) or ""
			okT := true
			sawGCT := false
			for _, v := range phiLeaves(callArg(look, 3)) {
				if gc := w.resultOfCallTo(v, "(*Message).GetClientTransaction", 0); gc != nil && isParam(sm, callArg(gc, -1), 4) {
					sawGCT = true
					continue
				}
				if s, isS := constString(v); isS && s == "" {
					continue
				}
				okT = false
			}
			c.check(okT && sawGCT, rule, "sendMessage/transaction-id", w.ipos(look), "transaction id = GetClientTransaction(response) (or none)", "the lookup is not keyed by the response's own client transaction")
		}
	}
	// both table operations build the key the same way
	for _, name := range []string{"(*ClientTransportMgr).GetTransport", "(*ClientTransportMgr).RemoveTransport"} {
		f := c.fn(rule, name)
		if f == nil {
			continue
		}
		good := false
		np := len(f.Params)
		for _, cs := range w.callsIn(f, "(*ClientTransportMgr).getFullAddr") {
			lc := w.resultOfCallTo(callArg(cs.In, 0), "strings.ToLower", 0)
			good = lc != nil && isParam(f, lc.Call.Args[0], 1) && isParam(f, callArg(cs.In, 1), 2) && isParam(f, callArg(cs.In, 2), 3) && isParam(f, callArg(cs.In, 3), np-1)
		}
		c.check(good, rule, name+"/key", w.pos(f.Pos()), "key = getFullAddr(ToLower(protocol), host, port, transId)", name+" does not build its key as getFullAddr(strings.ToLower(protocol), host, port, transId)")
	}
	// the transaction id is a function of the message as it is now: CSeq method and top Via branch read in this very
	// call. (A remembered id goes stale when the top Via is popped in place - the response is then looked up under the
	// proxy's own branch and leaves on a newly dialled connection.)
	if f := c.fn(rule, "(*Message).GetClientTransaction"); f != nil {
		good, n := true, 0
		for _, r := range returnsUnder(f, nil) {
			if len(r.Results) != 2 || !isNilConst(r.Results[1]) {
				continue
			}
			for _, v := range phiLeaves(r.Results[0]) {
				n++
				sv := w.evalStr(v, senv{}, 0)
				txt := renderParts(sv.parts, func(x ssa.Value) string {
					if b, ok := isLoadOf(x, "CSeq.Method"); ok && w.resultOfCallTo(b, "(*Message).GetCSeq", 0) != nil {
						return "method"
					}
					if cc, idx := callOfResult(x); cc != nil && idx == 0 && (w.calleeName(cc) == "(*Message).GetTopViaBranch" || w.calleeName(cc) == "(*ViaParam).GetBranch") {
						return "branch"
					}
					return "?"
				})
				if txt != "{method:%s}-{branch:%s}" {
					good = false
					c.info(rule, "GetClientTransaction/term", w.ipos(r), txt)
				}
			}
		}
		c.check(good && n >= 1, rule, "GetClientTransaction/computed-from-current-headers", w.pos(f.Pos()), "CSeq method + '-' + top Via branch, read in this call", "GetClientTransaction does not answer with the CSeq method and the top Via branch read in this very call (a remembered value, or other components): after the top Via has been popped the id is that of the proxy's own hop, the response's connection entry is not found and the response leaves on a newly dialled connection")
	}
	// the removal drops the entry stored under that key, and nothing else
	if f := c.fn(rule, "(*ClientTransportMgr).RemoveTransport"); f != nil {
		n, good := 0, true
		for _, b := range f.Blocks {
			for _, in := range b.Instrs {
				call, isCall := in.(*ssa.Call)
				if !isCall {
					continue
				}
				if bi, ok := call.Call.Value.(*ssa.Builtin); !ok || bi.Name() != "delete" {
					continue
				}
				if _, isT := isLoadOf(call.Call.Args[0], "ClientTransportMgr.transports"); !isT {
					continue
				}
				n++
				if w.resultOfCallTo(call.Call.Args[1], "(*ClientTransportMgr).getFullAddr", 0) == nil {
					good = false
				}
			}
		}
		c.check(good && n > 0, rule, "(*ClientTransportMgr).RemoveTransport/exact-key", w.pos(f.Pos()), "the entry removed is the one stored under getFullAddr(...)", "RemoveTransport does not delete exactly the entry stored under its key (a prefix or pattern match over the table also drops the entries of other open transactions to the same address - z9hG4bK-t1 is a prefix of z9hG4bK-t10 - whose responses then leave on a newly dialled connection)")
	}
	// census of removals: an entry of the table leaves it in two ways only - under its own key (getFullAddr(...), above),
	// or in the sweep of expired entries. Any other delete (a purge "of the peer's old entries" by address prefix when a
	// connection is accepted) also removes the entries of pending transactions of other, live connections: their
	// responses then find no entry and leave on a newly dialled connection.
	nDel := 0
	for _, fn := range w.All {
		if !w.isMain(fn) || fn.Blocks == nil {
			continue
		}
		k := 0
		eachInstr(fn, func(in ssa.Instruction) {
			call, isCall := in.(*ssa.Call)
			if !isCall {
				return
			}
			if bi, ok := call.Call.Value.(*ssa.Builtin); !ok || bi.Name() != "delete" {
				return
			}
			if _, isT := isLoadOf(call.Call.Args[0], "ClientTransportMgr.transports"); !isT {
				return
			}
			nDel++
			k++
			name := w.fname(fn)
			ok := w.resultOfCallTo(call.Call.Args[1], "(*ClientTransportMgr).getFullAddr", 0) != nil || strings.HasSuffix(name, ".cleanExpiredTransport")
			c.check(ok, rule, fmt.Sprintf("%s/delete-census#%d", name, k), w.ipos(call), "entries leave the table under their own key or in the expiry sweep", name+" deletes entries of the client transport table that are selected neither by their own key (getFullAddr) nor by the expiry sweep: entries of pending transactions of other connections go with them, and their responses leave on a newly dialled connection instead of the connection of the request")
		})
	}
	c.check(nDel >= 2, rule, "transports/delete-census", "-", "removal by key and sweep found", fmt.Sprintf("only %d delete sites on the client transport table found", nDel))
	if gf := c.fn(rule, "(*ClientTransportMgr).getFullAddr"); gf != nil {
		// injective in its components: protocol://host:port[-transId]
		isTCP := func(a Atom) bool { return a.Kind == "eqstr" && a.Str == "tcp" && isParam(gf, a.X, 1) }
		hasT := func(a Atom) bool { return a.Kind == "eqstr" && a.Str == "" && isParam(gf, a.X, 4) }
		keep := w.under(assumeAtom(isTCP, true), assumeAtom(hasT, false))
		good := len(w.ifsTesting(gf, isTCP)) > 0
		nTerms := 0
		for _, r := range returnsUnder(gf, keep) {
			for _, v := range valuesUnder(gf, r.Results[0], keep) {
				nTerms++
				sv := w.evalStrUnder(gf, v, keep)
				txt := renderParts(sv.parts, func(x ssa.Value) string {
					for i, p := range gf.Params {
						if strip(x) == ssa.Value(p) {
							return fmt.Sprintf("p%d", i)
						}
					}
					if cc, _ := callOfResult(x); cc != nil {
						return w.calleeName(cc)
					}
					return "?"
				})
				if txt != "{p1:%s}://{net.JoinHostPort:%s}-{p4:%s}" {
					good = false
					c.info(rule, "getFullAddr/term", w.ipos(r), txt)
				}
			}
		}
		good = good && nTerms > 0
		c.check(good, rule, "getFullAddr/tcp-key-includes-transaction", w.pos(gf.Pos()), "tcp key = protocol://host:port-transId", "for tcp with a transaction id the key is not protocol://JoinHostPort(host, port)-transId: requests of different transactions (connections) share one entry")
	}
	// accepted connections: literal address, no transaction
	if loop := c.fn(rule, "(*Proxy).receiveAndProcessMessage"); loop != nil {
		for _, cs := range w.callsIn(loop, "(*ClientTransportMgr).GetTransport") {
			cls := w.hostClass(loop, callArg(cs.In, 1))
			s, isS := constString(callArg(cs.In, 4))
			c.check(cls == "literal" && isS && s == "", rule, "loop/accepted-connection-key", w.ipos(cs.In), "accepted connections are registered under their literal remote address without transaction", "an accepted connection is registered under a key that lookups for resolved hosts cannot produce")
		}
	}
	c.floor(rule, 9)

	// ---- (3) remove on final ----
	rule = "remove-on-final"
	if sm != nil {
		var look, rem, send ssa.CallInstruction
		for _, cs := range w.callsIn(sm, "(*Proxy).findClientTransport") {
			look = cs.In
		}
		for _, cs := range w.callsIn(sm, "(*ClientTransportMgr).RemoveTransport") {
			rem = cs.In
		}
		for _, d := range w.dispatchSites(sm) {
			send = d.In
		}
		if look != nil && rem != nil && send != nil {
			final := func(a Atom) bool {
				if a.Kind != "bool" {
					return false
				}
				cc := w.resultOfCallTo(a.X, "(*Message).IsFinalResponse", 0)
				return cc != nil && isParam(sm, callArg(cc, -1), 4)
			}
			c.check(w.requires(sm, rem, final, true), rule, "sendMessage/only-final", w.ipos(rem), "the entry is dropped only for final responses", "RemoveTransport is not guarded by msg.IsFinalResponse(): a provisional response (or a request) forgets the connection, and the final response opens a new one")
			c.check(mustPrecede(sm, []ssa.Instruction{look}, rem, nil) && !canReach(at(send), nil, isInstr(rem), nil) == true && canReach(at(rem), nil, isInstr(send), nil), rule, "sendMessage/lookup-remove-send", w.ipos(rem), "lookup, then removal, then Send on the looked-up object", "the entry is removed before it was looked up, or the message is not sent after the removal")
			c.check(isResultOf(send.Common().Value, look, 0), rule, "sendMessage/send-on-looked-up", w.ipos(send), "the response is sent on the object that was looked up", "Send is not invoked on the transport returned by the lookup")
			mn, mx, _ := countSites(at(look), w.under(assumeAtom(errNil(look), true), assumeAtom(final, true)), isInstr(rem))
			c.check(mn == 1 && mx == 1, rule, "sendMessage/final-always-removes", w.ipos(rem), "every final response releases its entry", fmt.Sprintf("for a final response the removal executes min=%d max=%d times: entries of finished transactions pile up", mn, mx))
		}
	}
	if f := c.fn(rule, "(*Message).IsFinalResponse"); f != nil {
		// class = statusCode / 100 looked up in {2,3,4,5,6}
		good := false
		eachInstr(f, func(in ssa.Instruction) {
			if lk, ok := in.(*ssa.Lookup); ok {
				if b, ok := strip(lk.Index).(*ssa.BinOp); ok && b.Op.String() == "/" {
					k, isK := constInt(b.Y)
					r, _ := loadedField(b.X)
					if isK && k == 100 && r == "StatusLine.statusCode" {
						good = true
					}
				}
			}
		})
		c.check(good, rule, "IsFinalResponse/status-class", w.pos(f.Pos()), "final = status class looked up by statusCode/100", "IsFinalResponse does not classify by statusCode / 100")
		keys := map[int64]bool{}
		if initFn := w.Main.Func("init"); initFn != nil {
			eachInstr(initFn, func(in ssa.Instruction) {
				if mu, ok := in.(*ssa.MapUpdate); ok {
					if k, isK := constInt(mu.Key); isK {
						if b, isB := constBool(mu.Value); isB && b {
							keys[k] = true
						}
					}
				}
			})
		}
		c.check(len(keys) == 5 && keys[2] && keys[3] && keys[4] && keys[5] && keys[6], rule, "finalResponseStatusCodes/classes", "-", "classes 2xx-6xx are final", fmt.Sprintf("final status classes are %v, expected 2,3,4,5,6 (1xx must keep the entry)", keys))
	}
	c.floor(rule, 6)

	// ---- (4) failover order (shared) ----
	c20Failover(c)

	// ---- (5) table semantics ----
	rule = "table-semantics"
	if f := c.fn(rule, "(*ClientTransportMgr).GetTransport"); f != nil {
		var key ssa.CallInstruction
		for _, cs := range w.callsIn(f, "(*ClientTransportMgr).getFullAddr") {
			key = cs.In
		}
		var lk *ssa.Lookup
		var mu *ssa.MapUpdate
		eachInstr(f, func(in ssa.Instruction) {
			switch x := in.(type) {
			case *ssa.Lookup:
				if _, isL := isLoadOf(x.X, "ClientTransportMgr.transports"); isL && x.CommaOk && key != nil && isResultOf(x.Index, key, 0) {
					lk = x
				}
			case *ssa.MapUpdate:
				if _, isL := isLoadOf(x.Map, "ClientTransportMgr.transports"); isL {
					mu = x
				}
			}
		})
		if key == nil || lk == nil || mu == nil {
			c.bad(rule, "GetTransport/shape", w.pos(f.Pos()), "GetTransport must look its key up in the table and store new entries under it")
		} else {
			okSel := func(a Atom) bool {
				e, isE := a.X.(*ssa.Extract)
				return a.Kind == "bool" && isE && e.Tuple == ssa.Value(lk) && e.Index == 1
			}
			hit := w.under(assumeAtom(okSel, true))
			good := false
			for _, r := range returnsUnder(f, hit) {
				if canReach(at(lk), hit, isInstr(r), nil) {
					good = allVals(valuesUnder(f, r.Results[0], hit), func(v ssa.Value) bool {
						e, isE := strip(v).(*ssa.Extract)
						return isE && e.Tuple == ssa.Value(lk) && e.Index == 0
					})
				}
			}
			c.check(good, rule, "GetTransport/hit-returns-entry", w.ipos(lk), "an existing entry is returned as it is", "with an entry under the key GetTransport does not return that entry (the registered connection is lost)")
			var cr ssa.CallInstruction
			for _, cs := range w.callsIn(f, "(*ClientTransportMgr).createClientTransport") {
				cr = cs.In
			}
			c.check(cr != nil && isResultOf(mu.Key, key, 0) && isResultOf(mu.Value, cr, 0) && w.requires(f, mu, okSel, false) && w.requires(f, mu, errNil(cr), true), rule, "GetTransport/miss-stores-under-key", w.ipos(mu), "a created entry is stored under the same key", "the entry created on a miss is not stored under the key that was looked up")
		}
	}
	// every transaction gets an entry of its own: for tcp the creator returns a fresh fail-over object (no primary yet, the
	// shared reconnecting client as secondary) that is not the object stored under the destination's base key
	if f := c.fn(rule, "(*ClientTransportMgr).createClientTransport"); f != nil {
		isTCP := func(a Atom) bool { return a.Kind == "eqstr" && a.Str == "tcp" && isParam(f, a.X, 1) }
		isUDP := func(a Atom) bool { return a.Kind == "eqstr" && a.Str == "udp" && isParam(f, a.X, 1) }
		keep := w.under(assumeAtom(isTCP, true), assumeAtom(isUDP, false))
		stored := map[ssa.Value]bool{}
		eachInstr(f, func(in ssa.Instruction) {
			if mu, ok := in.(*ssa.MapUpdate); ok {
				stored[strip(mu.Value)] = true
			}
		})
		good := len(w.ifsTesting(f, isTCP)) > 0
		n := 0
		for _, r := range returnsUnder(f, keep) {
			if !allVals(valuesUnder(f, r.Results[1], keep), isNilConst) {
				continue
			}
			for _, v := range valuesUnder(f, r.Results[0], keep) {
				n++
				nf := w.resultOfCallTo(v, "NewFailOverClientTransport", 0)
				if nf == nil || stored[strip(v)] || !isNilConst(nf.Call.Args[0]) {
					good = false
				}
			}
		}
		c.check(good && n > 0, rule, "createClientTransport/private-entry-per-transaction", w.pos(f.Pos()), "each tcp table entry is a fresh fail-over object with no primary", "for tcp the creator hands out an object that is shared (stored under the destination's base key) or already has a primary: registering the inbound connection of one transaction overwrites the connection of every other pending transaction to that destination")
	}
	c.floor(rule, 3)
	c12Expiry(c, "table-semantics")
	// the method the transaction key and the BYE/INVITE tests rest on comes from the CSeq header (rule shared with C14/C17)
	ruleTokenSplitting(c, "register", "ParseCSeq")
	// the connection a request arrived on has to be there when the response comes, however long the peer stays silent
	// meanwhile: nothing puts a read deadline on a connection (rule shared with C11) - an idle time-out that counts only
	// what the peer sends closes the connection under a pending transaction
	ruleNoReadDeadline(c, "register")
}

// c12Expiry: an entry of the client transport table leaves it by age alone. TCPClientTransport.IsExpired is true only
// when an expiry time is set (expire > 0) and has passed (now > expire) - a connection that is not open yet
// (conn == nil: the reconnectable secondary of a transaction entry before its first use) is not a reason: the
// once-a-minute sweep would otherwise drop the binding between a pending transaction and the connection its request
// arrived on, and the response would be dialled to the Via address instead.
func c12Expiry(c *Ctx, rule string) {
	w := c.w
	f := c.fn(rule, "(*TCPClientTransport).IsExpired")
	if f == nil {
		return
	}
	exp := func(v ssa.Value) bool {
		b, ok := isLoadOf(v, "TCPClientTransport.expire")
		return ok && isParam(f, b, 0)
	}
	isNow := func(v ssa.Value) bool {
		cc, _ := callOfResult(v)
		if cc == nil || w.calleeName(cc) != "(time.Time).Unix" {
			return false
		}
		nc, _ := callOfResult(callArg(cc, -1))
		return nc != nil && w.calleeName(nc) == "time.Now"
	}
	set := func(a Atom) bool { return a.Kind == "ltk" && a.K == 1 && exp(a.X) }
	late := func(a Atom) bool { return a.Kind == "lt" && exp(a.X) && isNow(a.Y) }
	good, n := true, 0
	for _, r := range returnsUnder(f, nil) {
		for _, bc := range boolCases(r, 0) {
			if b, isB := constBool(bc.Leaf); isB && !b {
				continue
			}
			n++
			if !(w.holdsWhenTrue(f, bc, set, false) && w.holdsWhenTrue(f, bc, late, true)) {
				good = false
			}
		}
	}
	c.check(good && n > 0, rule, "(*TCPClientTransport).IsExpired/by-age-only", w.pos(f.Pos()), "expired exactly when an expiry time is set and has passed", "TCPClientTransport.IsExpired can answer true without an expiry time that is set and has passed (e.g. for a transport whose connection is not open yet): the periodic sweep drops the table entry of a transaction that is still pending, and its response no longer returns on the connection the request used")
}

// c12StampBeforeKey: in handleRawMessage the received/rport stamp is applied before the response hop of the request is
// computed for the connection registration: the hop the connection is registered under must be the hop the response
// will be looked up under (shared with C07: over TCP the "true source" is that connection).
func c12StampBeforeKey(c *Ctx, rule string) {
	w := c.w
	f := c.fn(rule, "(*Proxy).handleRawMessage")
	if f == nil {
		return
	}
	var hops []ssa.CallInstruction
	for _, cs := range w.callsIn(f, hopRespFn) {
		hops = append(hops, cs.In)
	}
	good := len(hops) > 0
	for _, sc := range w.callsIn(f, "(*Message).SetReceived") {
		for _, hop := range hops {
			if canReach(at(hop), nil, isInstr(sc.In), nil) {
				good = false
			}
		}
	}
	c.check(good, rule, "handleRawMessage/stamp-before-key", w.pos(f.Pos()), "received/rport are stamped before the registration key is computed", "the received/rport stamp is applied after the response hop was computed for registering the inbound connection: the connection is filed under what the sender wrote, the response is looked up under the stamped source, misses it, and is dialled to the sender's ephemeral port")
}
