package main

import (
	"fmt"
	"go/token"
	"strings"

	"golang.org/x/tools/go/ssa"
)

func init() {
	register(&propDef{ID: "C13", Run: runC13,
		Explain:    "Structural necessary conditions of 'consume own Route entry only, keep or strip next hop as configured', decided on SSA/CFG/value flow of /repo: (1) consume-guard: the pop in tryRemoveTopRoute is guarded by both GetPort() of entry 0's SIP URI == receiving transport's port and isSameAddress(URI host, receiving transport's address); isSameAddress answers true only on string equality of its arguments or on equality of two successful resolutions of exactly those arguments through the configured resolver; (2) consume-once: at most one pop per tryRemoveTopRoute, exactly one tryRemoveTopRoute per raw message, applied to that message; (3) keep-flag: the pop in the Route-hop function is guarded by !keepNextHopRoute, executes exactly once when the flag is off, after the entry has been read; the flag's only configuration root is the YAML field keepNextHopRoute (plus the KEEP_NEXT_HOP_ROUTE environment default), reached without negation; (4) pop-structure: PopRoute removes one route-param when the first Route line holds >= 2 entries and the whole line otherwise, PopRouteParam is delete-first.",
		NotDecided: "alias resolution data; value-level re-encoding of the remaining entries (C14)."})
}

func runC13(c *Ctx) {
	c13Consume(c)
	c13SameAddress(c)
	c13AliasTable(c)
	c03URIDefaults(c)
	c01ValueEffects(c)
	c13KeepFlag(c)
	checkPopOne(c, "pop-structure", routePop)
	c13StripOnce(c)
	c14DecoderPurityFrom(c, "ParseRoute")
	ruleRouteSetEdits(c, "pop-structure")
}

// c13StripOnce: the routing decision strips the next-hop entry (when keepNextHopRoute is off), so it may be taken only
// once per handled request: HandleMessage reaches getNextRequestHop at most once on every path and not in a loop, and
// nobody else calls it (nor its Route half) - a retry that "routes again" strips a second entry.
func c13StripOnce(c *Ctx) {
	w := c.w
	rule := "keep-flag"
	hm := c.fn(rule, "(*Proxy).HandleMessage")
	if hm == nil {
		return
	}
	sites := w.callsIn(hm, hopReqFn)
	_, mx, inf := countSites(entryPt(hm), nil, inSet(siteInstrs(sites)))
	c.check(len(sites) >= 1 && mx <= 1 && !inf, rule, "HandleMessage/hop-decision-once", w.pos(hm.Pos()), "one routing decision per handled request", fmt.Sprintf("a handled request can take the routing decision %d times (in a loop: %v; %d call sites): each decision strips the next-hop Route entry again, so a retry leaves the request without the entry behind its next hop and sends it past that hop", mx, inf, len(sites)))
	for _, callee := range []string{hopReqFn, "(*Proxy).getNextRequestHopByRoute"} {
		want := map[string]bool{"(*Proxy).HandleMessage": true}
		if callee != hopReqFn {
			want = map[string]bool{hopReqFn: true}
		}
		n := 0
		for _, fn := range w.All {
			for _, cs := range w.callsIn(fn, callee) {
				n++
				c.check(want[w.fname(fn)], rule, fmt.Sprintf("%s/caller:%s", callee, w.fname(fn)), w.ipos(cs.In), "called from the one place that decides the route", callee+" is called from "+w.fname(fn)+": a second routing decision on the same message strips a second Route entry")
			}
		}
		c.check(n >= 1, rule, callee+"/called", "-", "the decision is taken", callee+" is never called")
	}
}

func c13Consume(c *Ctx) {
	w := c.w
	rule := "consume-guard"
	f := c.fn(rule, "(*Proxy).tryRemoveTopRoute")
	if f == nil {
		return
	}
	raw := func(v ssa.Value) bool { return isParam(f, v, 1) }
	isMsg := func(v ssa.Value) bool { b, ok := isLoadOf(v, "RawMessage.Message"); return ok && raw(b) }
	isFrom := func(v ssa.Value) bool { b, ok := isLoadOf(v, "RawMessage.From"); return ok && raw(b) }
	var gr, gp, gu ssa.CallInstruction
	for _, cs := range w.callsIn(f, "(*Message).GetRoute") {
		if isMsg(callArg(cs.In, -1)) {
			gr = cs.In
		}
	}
	if gr == nil {
		c.bad(rule, "tryRemoveTopRoute/GetRoute", w.pos(f.Pos()), "the Route of the raw message's message is not read")
		return
	}
	for _, cs := range w.callsIn(f, "(*Route).GetRouteParam") {
		if isResultOf(callArg(cs.In, -1), gr, 0) {
			gp = cs.In
		}
	}
	if gp == nil {
		c.bad(rule, "tryRemoveTopRoute/entry", w.pos(f.Pos()), "no Route entry is selected")
		return
	}
	k, isK := constInt(callArg(gp, 0))
	c.check(isK && k == 0, rule, "tryRemoveTopRoute/entry-0", w.ipos(gp), "the first Route entry is examined", "the entry examined is not index 0: a later entry naming the proxy would be consumed on that ground")
	isAddr := func(v ssa.Value) bool {
		a2 := w.resultOfCallTo(v, "(*NameAddr).GetAddress", 0)
		if a2 == nil {
			return false
		}
		a1 := w.resultOfCallTo(callArg(a2, -1), "(*RouteParam).GetAddress", 0)
		return a1 != nil && isResultOf(callArg(a1, -1), gp, 0)
	}
	for _, cs := range w.callsIn(f, "(*AddrSpec).GetSIPURI") {
		if isAddr(callArg(cs.In, -1)) {
			gu = cs.In
		}
	}
	if gu == nil {
		c.bad(rule, "tryRemoveTopRoute/uri", w.pos(f.Pos()), "the SIP URI of entry 0 is not decoded")
		return
	}
	isURI := func(v ssa.Value) bool { return isResultOf(v, gu, 0) }
	pops := w.callsIn(f, "(*Message).PopRoute")
	if len(pops) != 1 {
		c.bad("consume-once", "tryRemoveTopRoute/PopRoute", w.pos(f.Pos()), fmt.Sprintf("expected exactly one PopRoute site, found %d", len(pops)))
		return
	}
	pop := pops[0].In
	portEq := func(a Atom) bool {
		if a.Kind != "eq" {
			return false
		}
		m := func(x, y ssa.Value) bool {
			c1 := w.resultOfCallTo(x, "(*SIPURI).GetPort", 0)
			if c1 == nil || !isURI(callArg(c1, -1)) {
				return false
			}
			cc, _ := callOfResult(y)
			return cc != nil && w.calleeName(cc) == "ServerTransport.GetPort" && isFrom(callArg(cc, -1))
		}
		return m(a.X, a.Y) || m(a.Y, a.X)
	}
	sameAddr := func(a Atom) bool {
		if a.Kind != "bool" {
			return false
		}
		cc := w.resultOfCallTo(a.X, "(*Proxy).isSameAddress", 0)
		if cc == nil {
			return false
		}
		m := func(x, y ssa.Value) bool {
			b, ok := isLoadOf(x, "SIPURI.Host")
			if !ok || !isURI(b) {
				return false
			}
			ac, _ := callOfResult(y)
			return ac != nil && w.calleeName(ac) == "ServerTransport.GetAddress" && isFrom(callArg(ac, -1))
		}
		return m(callArg(cc, 0), callArg(cc, 1)) || m(callArg(cc, 1), callArg(cc, 0))
	}
	c.check(w.requires(f, pop, portEq, true), rule, "tryRemoveTopRoute/port-test", w.ipos(pop), "consumed only when the entry's port (or default) equals the listener's port", "the own-entry pop is not guarded by GetPort() of entry 0's URI == receiving transport's GetPort(): an entry for another port of this host is consumed", "guard: sipUri.GetPort() == rawMessage.From.GetPort()")
	c.check(w.requires(f, pop, sameAddr, true), rule, "tryRemoveTopRoute/address-test", w.ipos(pop), "consumed only when the entry's host is the listener address or an alias of it", "the own-entry pop is not guarded by isSameAddress(entry host, receiving transport's address)", "guard: isSameAddress(sipUri.Host, rawMessage.From.GetAddress())")
	for _, call := range []ssa.CallInstruction{gr, gp, gu} {
		c.check(w.requires(f, pop, errNil(call), true), rule, "tryRemoveTopRoute/needs-"+w.calleeName(call), w.ipos(pop), "nothing is consumed when the entry cannot be decoded", "a pop is reachable although "+w.calleeName(call)+" failed")
	}
	c.check(isMsg(callArg(pop, -1)), rule, "tryRemoveTopRoute/pop-target", w.ipos(pop), "the pop is applied to the same message", "PopRoute is applied to another message")
	// under both guards the pop always happens
	keep := w.under(assumeAtom(portEq, true), assumeAtom(sameAddr, true), assumeAtom(errNil(gr), true), assumeAtom(errNil(gp), true), assumeAtom(errNil(gu), true))
	mn, mx, inf := countSites(entryPt(f), keep, isInstr(pop))
	c.check(mn == 1 && mx == 1 && !inf, rule, "tryRemoveTopRoute/own-entry-always-consumed", w.ipos(pop), "an own entry is always consumed, once", fmt.Sprintf("with port and address matching the pop executes min=%d max=%d times: an extra condition suppresses or repeats it", mn, mx))
	c.floor(rule, 8)

	rule = "consume-once"
	_, mx2, inf2 := countSites(entryPt(f), nil, func(in ssa.Instruction) bool {
		cs, ok := in.(ssa.CallInstruction)
		if !ok {
			return false
		}
		n := w.calleeName(cs)
		return n == "(*Message).PopRoute" || n == "(*Route).PopRouteParam" || n == "(*Message).RemoveHeader"
	})
	c.check(mx2 <= 1 && !inf2, rule, "tryRemoveTopRoute/at-most-one-pop", w.pos(f.Pos()), "at most one entry is consumed", fmt.Sprintf("up to %d removals per call (loop=%v): more than the proxy's own entry can be consumed", mx2, inf2))
	if h := c.fn(rule, "(*Proxy).handleRawMessage"); h != nil {
		trs := w.callsIn(h, "(*Proxy).tryRemoveTopRoute")
		if len(trs) != 1 {
			c.bad(rule, "handleRawMessage/tryRemoveTopRoute", w.pos(h.Pos()), fmt.Sprintf("expected exactly one own-entry step per raw message, found %d", len(trs)))
		} else {
			mn, mx, inf := countSites(entryPt(h), nil, isInstr(trs[0].In))
			c.check(mn == 1 && mx == 1 && !inf, rule, "handleRawMessage/own-entry-step-once", w.ipos(trs[0].In), "the own-entry step runs exactly once per raw message", fmt.Sprintf("the own-entry step runs min=%d max=%d times per raw message", mn, mx))
			c.check(isParam(h, callArg(trs[0].In, 0), 1), rule, "handleRawMessage/own-entry-step-arg", w.ipos(trs[0].In), "applied to the raw message being handled", "tryRemoveTopRoute is given another raw message")
		}
		// no other Route removal in the per-message steps
		for _, fn := range []string{"(*Proxy).handleRawMessage", "(*Proxy).handleDialog", "(*Proxy).HandleMessage", "(*Proxy).sendMessage", "(*Proxy).sendToBackend", "(*Proxy).getNextRequestHop", "(*Proxy).getNextRequestHopByConfig"} {
			if g := w.Fn(fn); g != nil {
				n := len(w.callsIn(g, "(*Message).PopRoute", "(*Route).PopRouteParam"))
				for _, cs := range w.callsIn(g, "(*Message).RemoveHeader") {
					if s, ok := constString(callArg(cs.In, 0)); ok && s == "Route" {
						n++
					}
				}
				c.check(n == 0, rule, fn+"/no-route-removal", w.pos(g.Pos()), "no Route removal here", fn+" removes Route entries: only the own-entry step and the next-hop step may")
			}
		}
	}
	c.floor(rule, 5)
}

func c13SameAddress(c *Ctx) {
	w := c.w
	rule := "consume-guard"
	f := c.fn(rule, "(*Proxy).isSameAddress")
	if f == nil {
		return
	}
	p1, p2 := paramOf(f, 1), paramOf(f, 2)
	strEq := func(a Atom) bool {
		return a.Kind == "eq" && ((strip(a.X) == p1 && strip(a.Y) == p2) || (strip(a.X) == p2 && strip(a.Y) == p1))
	}
	var g1, g2 ssa.CallInstruction
	for _, cs := range w.callsIn(f, "(*PreConfigHostResolver).GetIp") {
		b, ok := isLoadOf(callArg(cs.In, -1), "Proxy.resolver")
		if !ok || !isParam(f, b, 0) {
			c.bad(rule, "isSameAddress/resolver", w.ipos(cs.In), "resolution does not use the proxy's configured resolver")
			continue
		}
		switch strip(callArg(cs.In, 0)) {
		case p1:
			g1 = cs.In
		case p2:
			g2 = cs.In
		default:
			c.bad(rule, "isSameAddress/resolved-text", w.ipos(cs.In), "GetIp is applied to "+w.termKey(callArg(cs.In, 0))+" instead of the address argument itself: names are altered (e.g. case-folded) before the case-sensitive host-table lookup")
		}
	}
	c.check(g1 != nil && g2 != nil, rule, "isSameAddress/both-resolved", w.pos(f.Pos()), "both arguments are resolved through the configured table", "isSameAddress does not resolve both of its arguments, unmodified, through resolver.GetIp")
	n := 0
	for _, r := range returnsUnder(f, nil) {
		for _, v := range phiLeaves(r.Results[0]) {
			n++
			key := fmt.Sprintf("isSameAddress/return#%d", n)
			if b, ok := constBool(v); ok {
				if b {
					c.check(w.requires(f, r, strEq, true), rule, key, w.ipos(r), "true on textual equality", "isSameAddress returns true without its two arguments being equal or resolving to the same address")
				} else {
					c.ok(rule, key, w.ipos(r), "false")
				}
				continue
			}
			bo, ok := v.(*ssa.BinOp)
			good := ok && bo.Op == token.EQL && g1 != nil && g2 != nil &&
				((isResultOf(bo.X, g1, 0) && isResultOf(bo.Y, g2, 0)) || (isResultOf(bo.X, g2, 0) && isResultOf(bo.Y, g1, 0)))
			if good {
				good = w.requires(f, r, errNil(g1), true) && w.requires(f, r, errNil(g2), true)
			}
			c.check(good, rule, key, w.ipos(r), "equality of two successful resolutions", "isSameAddress returns "+w.termKey(v)+": expected ip1 == ip2 with both lookups successful (a failed lookup must mean 'different')")
		}
	}
}

// c13AliasTable: the alias table behind "a host ... or an alias that resolves to it": AddHostIP records name -> ip
// unconditionally (a later registration of a name replaces the earlier one), GetIp answers from the table under the
// unmodified name before asking DNS, and both configured host lists are registered on the resolver the proxy uses.
func c13AliasTable(c *Ctx) {
	w := c.w
	rule := "consume-guard"
	if f := c.fn(rule, "(*PreConfigHostResolver).AddHostIP"); f != nil {
		var upd *ssa.MapUpdate
		n := 0
		eachInstr(f, func(in ssa.Instruction) {
			if mu, ok := in.(*ssa.MapUpdate); ok {
				if _, isT := isLoadOf(mu.Map, "PreConfigHostResolver.hostIPs"); isT {
					upd = mu
					n++
				}
			}
		})
		good := false
		if upd != nil && n == 1 {
			mn, mx, inf := countSites(entryPt(f), nil, isInstr(upd))
			b, _ := isLoadOf(upd.Map, "PreConfigHostResolver.hostIPs")
			good = mn == 1 && mx == 1 && !inf && isParam(f, upd.Key, 1) && isParam(f, upd.Value, 2) && isParam(f, b, 0)
		}
		c.check(good, rule, "AddHostIP/records-unconditionally", w.pos(f.Pos()), "hostIPs[name] = ip on every path", "AddHostIP does not record name -> ip unconditionally: an alias registered later (the service's own `hosts` entry) is ignored or altered, so an entry naming the listener by that alias is not recognised as the proxy's own - or a foreign one is")
	}
	if f := c.fn(rule, "(*PreConfigHostResolver).GetIp"); f != nil {
		var lk *ssa.Lookup
		eachInstr(f, func(in ssa.Instruction) {
			if l, ok := in.(*ssa.Lookup); ok && l.CommaOk {
				if _, isT := isLoadOf(l.X, "PreConfigHostResolver.hostIPs"); isT {
					lk = l
				}
			}
		})
		good := false
		if lk != nil && isParam(f, lk.Index, 1) {
			okSel := func(a Atom) bool {
				e, isE := a.X.(*ssa.Extract)
				return a.Kind == "bool" && isE && e.Tuple == ssa.Value(lk) && e.Index == 1
			}
			isIP := func(a Atom) bool {
				if a.Kind != "nil" {
					return false
				}
				cc := w.resultOfCallTo(a.X, "net.ParseIP", 0)
				return cc != nil
			}
			keep := w.under(assumeAtom(okSel, true), assumeAtom(isIP, true))
			good = true
			nr := 0
			for _, r := range returnsUnder(f, keep) {
				nr++
				for _, v := range valuesUnder(f, r.Results[0], keep) {
					e, isE := strip(v).(*ssa.Extract)
					if !isE || e.Tuple != ssa.Value(lk) || e.Index != 0 {
						good = false
					}
				}
				if !allVals(valuesUnder(f, r.Results[1], keep), isNilConst) {
					good = false
				}
			}
			good = good && nr > 0
			// the table is asked before DNS
			for _, cs := range w.callsIn(f, "net.LookupIP", "net.LookupHost", "net.ResolveIPAddr") {
				if !w.requires(f, cs.In, okSel, false) {
					good = false
				}
			}
		}
		c.check(good, rule, "GetIp/table-first", w.pos(f.Pos()), "a configured alias resolves to its configured address", "GetIp does not answer a configured name (looked up unmodified) from the host table before anything else")
	}
	if f := c.fn(rule, "createPreConfigHostResolver"); f != nil {
		res := 0
		srcs := map[string]bool{}
		for _, cs := range w.callsIn(f, "(*PreConfigHostResolver).AddHostIP") {
			for _, rl := range rangeLoops(f) {
				if !rl.inLoop(cs.In.Block()) {
					continue
				}
				isF := func(v ssa.Value, name string) bool {
					v = strip(v)
					if fl, ok := v.(*ssa.Field); ok {
						return rl.isElem(fl.X) && fieldName(fl.X.Type(), fl.Field) == name
					}
					if a, ok := isDeref(v); ok {
						if fa, ok := a.(*ssa.FieldAddr); ok && fieldName(fa.X.Type(), fa.Field) == name {
							if ia, ok := fa.X.(*ssa.IndexAddr); ok {
								return ia.X == rl.Over && ia.Index == rl.Idx
							}
							if al, ok := fa.X.(*ssa.Alloc); ok {
								for _, r := range *al.Referrers() {
									if st, ok := r.(*ssa.Store); ok && st.Addr == ssa.Value(al) && rl.isElem(st.Val) {
										return true
									}
								}
							}
						}
					}
					return false
				}
				if isF(callArg(cs.In, 0), "Name") && isF(callArg(cs.In, 1), "Ip") {
					mn, mx, _ := countSites(blockStart(rl.Body), func(b *ssa.BasicBlock, i int) bool { return b.Succs[i] != rl.Header }, isInstr(cs.In))
					if mn == 1 && mx == 1 {
						res++
						srcs[w.termKey(rl.Over)] = true
					}
				}
			}
		}
		retOK := false
		for _, r := range returnsUnder(f, nil) {
			retOK = allVals(phiLeaves(r.Results[0]), func(v ssa.Value) bool {
				cc, _ := callOfResult(v)
				return cc != nil && w.calleeName(cc) == "NewPreConfigHostResolver"
			})
		}
		c.check(res == 2 && len(srcs) == 2 && retOK, rule, "createPreConfigHostResolver/both-lists", w.pos(f.Pos()), "every global and every service host entry is registered as (Name, Ip)", fmt.Sprintf("the resolver handed to the proxy does not get every entry of both host lists registered as (Name, Ip) (%d complete registration loops over %d lists)", res, len(srcs)))
	}
}

func c13KeepFlag(c *Ctx) {
	w := c.w
	rule := "keep-flag"
	f := c.fn(rule, "(*Proxy).getNextRequestHopByRoute")
	if f == nil {
		return
	}
	keepSel := func(a Atom) bool {
		if a.Kind != "bool" {
			return false
		}
		b, ok := isLoadOf(a.X, "Proxy.keepNextHopRoute")
		return ok && isParam(f, b, 0)
	}
	pops := w.callsIn(f, "(*Message).PopRoute")
	if len(pops) != 1 {
		c.bad(rule, "ByRoute/PopRoute", w.pos(f.Pos()), fmt.Sprintf("expected one next-hop pop in the Route-hop function, found %d", len(pops)))
	} else {
		pop := pops[0].In
		c.check(w.requires(f, pop, keepSel, false), rule, "ByRoute/strip-only-when-off", w.ipos(pop), "the next-hop entry is stripped only when keepNextHopRoute is off", "the next-hop pop is not guarded by !keepNextHopRoute (flag ignored or inverted)", "guard: !P.keepNextHopRoute")
		c.check(isParam(f, callArg(pop, -1), 1), rule, "ByRoute/pop-target", w.ipos(pop), "applied to the handled message", "PopRoute is applied to another message")
		var gr, gp ssa.CallInstruction
		for _, cs := range w.callsIn(f, "(*Message).GetRoute") {
			gr = cs.In
		}
		for _, cs := range w.callsIn(f, "(*Route).GetRouteParam") {
			gp = cs.In
		}
		if gr != nil && gp != nil {
			keep := w.under(assumeAtom(keepSel, false), assumeAtom(errNil(gr), true), assumeAtom(errNil(gp), true))
			mn, mx, inf := countSites(entryPt(f), keep, isInstr(pop))
			c.check(mn == 1 && mx == 1 && !inf, rule, "ByRoute/strip-always-when-off", w.ipos(pop), "with the flag off the entry is stripped exactly once", fmt.Sprintf("with keepNextHopRoute off the pop executes min=%d max=%d times", mn, mx))
			c.check(mustPrecede(f, []ssa.Instruction{gp}, pop, nil), rule, "ByRoute/read-before-strip", w.ipos(pop), "the entry is read before it is stripped", "the Route is shortened before the next-hop entry is read")
		}
	}
	// wiring
	g := w.Flow()
	wire := func(field, tag string, allowEnv bool) {
		fv := w.field("Proxy", field)
		if fv == nil {
			c.undecided(rule, "Proxy."+field, "-", "field not found")
			return
		}
		vals := g.fieldStores[fv]
		if len(vals) == 0 {
			c.bad(rule, "Proxy."+field+"/stores", "-", "Proxy."+field+" is never set")
			return
		}
		res := g.backward(vals, nil)
		saw := false
		var bad []string
		for _, l := range res.leafList() {
			body := l[1:]
			switch {
			case strings.HasPrefix(body, "field-root:"):
				path := strings.TrimPrefix(body, "field-root:")
				t, exported, ok := yamlTagOfPath(w, path)
				if ok && strings.Split(t, ",")[0] == tag && exported {
					saw = true
					if l[0] != '+' {
						bad = append(bad, path+" reaches the flag negated")
					}
				} else {
					bad = append(bad, "config field "+path)
				}
			case strings.HasPrefix(body, "const:"), body == "alloc", body == "makeslice":
			case body == "lib:os.Getenv" && allowEnv:
			default:
				bad = append(bad, body)
			}
		}
		c.check(saw && len(bad) == 0, rule, "Proxy."+field+"/roots", "-", "derives from the YAML option "+tag, fmt.Sprintf("Proxy.%s is mis-wired: option %s reached=%v; unexpected roots: %v", field, tag, saw, bad), "roots: "+strings.Join(res.leafList(), ", "))
	}
	wire("keepNextHopRoute", "keepNextHopRoute", true)
	// the environment variable stands in for the SERVICE-level option when that is left empty, and for nothing else: a
	// function that falls back to it is applied to the service-level option's text only. Applied to another (say, a
	// per-listener) option whose own default is the service-level setting, the environment outranks an explicit
	// service-level keepNextHopRoute.
	for _, fn := range w.All {
		if !w.isMain(fn) || fn.Blocks == nil {
			continue
		}
		var ge ssa.CallInstruction
		for _, cs := range w.callsIn(fn, "os.Getenv") {
			if k, ok := constString(cs.In.Common().Args[0]); ok && k == "KEEP_NEXT_HOP_ROUTE" {
				ge = cs.In
			}
		}
		if ge == nil {
			continue
		}
		// the string parameter whose emptiness guards the fallback
		pi := -1
		for i, p := range fn.Params {
			if !isStringType(p.Type()) {
				continue
			}
			p := p
			empty := func(a Atom) bool { return a.Kind == "eqstr" && a.Str == "" && strip(a.X) == ssa.Value(p) }
			if w.requires(fn, ge, empty, true) {
				pi = i
			}
		}
		c.check(pi >= 0, rule, w.fname(fn)+"/env-only-when-unset", w.ipos(ge), "the environment is consulted only when the option is empty", "KEEP_NEXT_HOP_ROUTE is consulted although the configured option may be set: the environment outranks the configuration")
		if pi < 0 {
			continue
		}
		node := w.CG.Nodes[fn]
		if node == nil {
			continue
		}
		k := 0
		for _, e := range node.In {
			if e.Site == nil || e.Site.Common().StaticCallee() != fn || pi >= len(e.Site.Common().Args) {
				continue
			}
			k++
			res := g.backward([]ssa.Value{e.Site.Common().Args[pi]}, nil)
			var other []string
			for _, l := range res.leafList() {
				body := l[1:]
				if strings.HasPrefix(body, "field-root:") && strings.TrimPrefix(body, "field-root:") != "ProxyConfig.KeepNextHopRoute" {
					other = append(other, strings.TrimPrefix(body, "field-root:"))
				}
			}
			c.check(len(other) == 0, rule, fmt.Sprintf("%s/env-fallback-for-service-option#%d", w.fname(fn), k), w.ipos(e.Site), "the environment fallback is applied to the service-level option", fmt.Sprintf("the function that falls back to KEEP_NEXT_HOP_ROUTE is applied to %v, not to the service-level keepNextHopRoute: when that other option is unset the environment is taken before the explicit service-level setting that should be its default", other))
		}
	}
	// toKeepNextHopRoute: true exactly for the listed spellings of its argument (or the environment default when empty)
	if tk := c.fn(rule, "toKeepNextHopRoute"); tk != nil {
		good := false
		for _, r := range returnsUnder(tk, nil) {
			if cc, _ := callOfResult(r.Results[0]); cc != nil && strings.HasPrefix(w.calleeName(cc), "slices.Contains") {
				res := g.backward([]ssa.Value{cc.Call.Args[0]}, nil)
				okList := true
				for _, l := range res.leafList() {
					b := l[1:]
					if strings.HasPrefix(b, "const:\"") {
						s := strings.Trim(strings.TrimPrefix(b, "const:"), "\"")
						switch s {
						case "true", "yes", "1", "on", "t", "y":
						default:
							okList = false
						}
					}
				}
				good = okList
			}
		}
		c.check(good, rule, "toKeepNextHopRoute/truthy-spellings", w.pos(tk.Pos()), "true for true/yes/1/on/t/y only", "toKeepNextHopRoute does not answer by membership in {true, yes, 1, on, t, y}")
	}
	c.floor(rule, 6)
}
