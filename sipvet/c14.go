package main

import (
	"fmt"
	"go/token"
	"go/types"
	"sort"
	"strings"

	"golang.org/x/tools/go/ssa"
)

func init() {
	register(&propDef{ID: "C14", Run: runC14,
		Explain:    "Structural necessary conditions of 'decoded headers are re-encoded without loss', decided on SSA/value flow of /repo: (1) format-taint: no network-derived string is the format operand of a fmt call; (2) decoder-errors: inside the header/URI decoders no error result of a sub-decoder or of strconv is discarded; (3) field-coverage: every field a decoder writes into a decoded type is read by that type's printer; (4) no-defaulting-printer: a printer never calls an accessor that substitutes a constant default; (5) delimiter-agreement: every constant separator a decoder strips at the level of a type (Split/Fields separators, tested-and-skipped first byte, exclusive index splits, stripped prefixes) is emitted by the printer of that type; sibling printers (Route vs Record-Route) are compared through the same rule; (6) accessor-keys: named accessors use the RFC 3261 parameter names, getter and setter alike; (7) ordered-lists: decoders only append to their lists and printers walk them with forward range loops; (8) decoder-grammar: a decoder that separates host and port at ':' takes a bracketed IPv6 reference into account (two open findings); ParseSipURI cuts the user part at the first '@', then the headers at the first '?', then the parameters at the first ';' (shared with C04/C16); in the decoders of the types that carry a name-addr every search for '<', '>' and every split at ',' goes through a function that looks at '\"' (quoted display names; repaired as D23), and a single-loop scanner does not decide that a quote is escaped from the one byte before it; (9) kept separators (delimiter-agreement): a decoder that hands a sub-decoder the text including the separator it found needs a sub-decoder that strips that byte (repaired as D24); (10) decoder purity (pure-capture): decoders use no package-level state other than read-only tables.",
		NotDecided: "the round-trip law itself; value-level behaviour of hand-written scanners beyond the structural conditions above; losses on input the grammar does not allow (a parameter written 'name=' with an empty value, blank runs in start lines); a ',' inside the angle brackets of a Route entry."})
}

// decodedTypes are the struct types that hold decoded header/URI content.
var decodedTypes = []string{"SIPURI", "ViaParam", "Via", "Route", "RouteParam", "RecordRoute", "RecRoute", "FromSpec", "To", "CSeq",
	"NameAddr", "AddrSpec", "AbsoluteURI", "KeyValue", "RequestLine", "StatusLine", "Header"}

func namedOf(t types.Type) string {
	if p, ok := t.Underlying().(*types.Pointer); ok {
		t = p.Elem()
	}
	if p, ok := t.(*types.Pointer); ok {
		t = p.Elem()
	}
	if n, ok := t.(*types.Named); ok {
		return n.Obj().Name()
	}
	return ""
}

func isDecodedType(n string) bool {
	for _, d := range decodedTypes {
		if d == n {
			return true
		}
	}
	return false
}

// decoderLevel computes, for every decoder function, the decoded type whose level it works at:
// a plain function (no receiver) returning T/*T, or taking a *T parameter and storing into T's fields.
func decoderLevels(w *World) map[*ssa.Function]string {
	out := map[*ssa.Function]string{}
	for _, fn := range w.All {
		if fn.Signature.Recv() != nil || fn.Parent() != nil {
			continue
		}
		name := fn.Name()
		if !(strings.HasPrefix(name, "Parse") || strings.HasPrefix(name, "parse")) {
			continue
		}
		res := fn.Signature.Results()
		if res.Len() > 0 {
			if n := namedOf(res.At(0).Type()); isDecodedType(n) {
				out[fn] = n
				continue
			}
			if n := namedOf(res.At(0).Type()); n == "Message" {
				out[fn] = "Header"
				continue
			}
		}
		for _, p := range fn.Params {
			if n := namedOf(p.Type()); isDecodedType(n) {
				if _, isPtr := p.Type().Underlying().(*types.Pointer); isPtr {
					out[fn] = n
				}
			}
		}
	}
	return out
}

// printerFns: methods of T (or *T) that serialise it: () string, or taking an io.Writer.
func printerFns(w *World, typ string) []*ssa.Function {
	var out []*ssa.Function
	for _, fn := range w.All {
		if fn.Signature.Recv() == nil || fn.Parent() != nil {
			continue
		}
		if namedOf(fn.Signature.Recv().Type()) != typ {
			continue
		}
		sig := fn.Signature
		isString := sig.Params().Len() == 0 && sig.Results().Len() == 1 && isStringType(sig.Results().At(0).Type()) && (fn.Name() == "String")
		hasWriter := false
		for i := 0; i < sig.Params().Len(); i++ {
			if types.TypeString(sig.Params().At(i).Type(), nil) == "io.Writer" {
				hasWriter = true
			}
		}
		toString := fn.Name() == "ToString"
		if isString || hasWriter || toString {
			out = append(out, fn)
		}
	}
	// start line and header lines are printed by Message methods
	switch typ {
	case "RequestLine", "StatusLine":
		if f := w.Fn("(*Message).encodeFirstLine"); f != nil {
			out = append(out, f)
		}
	case "Header":
		if f := w.Fn("(*Message).encodeHeader"); f != nil {
			out = append(out, f)
		}
	}
	sort.Slice(out, func(i, j int) bool { return w.fname(out[i]) < w.fname(out[j]) })
	return out
}

func runC14(c *Ctx) {
	ruleFormatTaint(c, "format-taint")
	ruleTextFieldsStayText(c, "pure-capture")
	c14DecoderErrors(c)
	c14FieldCoverage(c)
	c14FullPrinter(c)
	c14NoDefaultingPrinter(c)
	c14Delimiters(c)
	c14HostGrammar(c)
	c14QuotedNames(c)
	c14AccessorKeys(c)
	c14OrderedLists(c)
	rulePureCapture(c, "pure-capture")
	c14DecoderPurity(c)
	c01PayloadImmutability(c)
	ruleTokenSplitting(c, "decoder-errors", "parseViaParam", "ParseCSeq", "parseRequestLine", "parseStatusLine")
	ruleSplitRemainder(c, "decoder-errors")
	rulePurePrinters(c, "no-defaulting-printer")
	// the URI decoder cuts user part, headers and parameters off in the order that gives each component its own text
	// (shared with C04/C16)
	c16URISplitOrder(c, "decoder-grammar")
}

// transformers that change the text they are given
var textTransformers = map[string]bool{"strings.TrimSpace": true, "strings.Trim": true, "strings.TrimLeft": true, "strings.TrimRight": true, "strings.TrimPrefix": true,
	"strings.TrimSuffix": true, "strings.TrimFunc": true, "strings.ToLower": true, "strings.ToUpper": true, "strings.Title": true, "strings.ToTitle": true,
	"strings.Replace": true, "strings.ReplaceAll": true, "strings.Map": true, "strings.ToValidUTF8": true, "net/url.QueryUnescape": true, "net/url.PathUnescape": true,
	"net/url.QueryEscape": true, "net/url.PathEscape": true, "strconv.Unquote": true, "strconv.Quote": true, "(*strings.Replacer).Replace": true,
	"bytes.TrimSpace": true, "bytes.ToLower": true, "bytes.ToUpper": true, "fmt.Sprintf": true, "fmt.Sprint": true}

// constructsText: some return of g hands back a string that g built itself - from bytes, through a Builder/Buffer, by
// concatenation, or through a transformer - instead of a piece of what it was given.
func (w *World) constructsText(g *ssa.Function, depth int) bool {
	if depth > 2 {
		return false
	}
	built := false
	for _, r := range returnsUnder(g, nil) {
		for _, res := range r.Results {
			if !isStringType(res.Type()) {
				continue
			}
			if localDerives(res, func(v ssa.Value) bool {
				switch x := v.(type) {
				case *ssa.Convert:
					return isStringType(x.Type()) && !isStringType(x.X.Type())
				case *ssa.BinOp:
					return x.Op == token.ADD && isStringType(x.Type())
				case *ssa.Call:
					n := w.calleeName(x)
					if textTransformers[n] || w.rendersText(x) || strings.HasSuffix(n, "strings.Builder).String") || strings.HasSuffix(n, "bytes.Buffer).String") {
						return true
					}
					if h := x.Call.StaticCallee(); h != nil && w.isMain(h) && h != g && h.Blocks != nil && isStringType(x.Type()) {
						return w.constructsText(h, depth+1)
					}
				}
				return false
			}) {
				built = true
			}
		}
	}
	return built
}

// rendersText: a library call that prints a value as text (String() of a library type such as net.IP or url.URL, the
// strconv formatters, Join/Repeat, JoinHostPort): what it returns is a canonical rendering, not the bytes received.
func (w *World) rendersText(cc *ssa.Call) bool {
	n := w.calleeName(cc)
	callee := cc.Call.StaticCallee()
	if cc.Call.IsInvoke() {
		return cc.Call.Method.Name() == "String" && !strings.HasPrefix(n, "(") == false && !w.isMainIface(cc)
	}
	if callee == nil || w.isMain(callee) {
		return false
	}
	if strings.HasSuffix(n, ").String") && !strings.Contains(n, "strings.Builder") && !strings.Contains(n, "bytes.Buffer") {
		return true
	}
	switch n {
	case "strconv.Itoa", "strconv.FormatInt", "strconv.FormatUint", "strings.Join", "strings.Repeat", "net.JoinHostPort", "strings.ToValidUTF8", "path.Clean", "strings.Title":
		return true
	}
	return false
}

func (w *World) isMainIface(cc *ssa.Call) bool {
	if nt, ok := cc.Call.Value.Type().(*types.Named); ok && nt.Obj().Pkg() == w.Main.Pkg {
		return true
	}
	return false
}

// rulePureCapture: inside a decoder every string stored into a field of a decoded type is a constant or a pure piece of the
// input (a substring, or an element of a Split/Fields of it): no text transformer lies between the input and the store
// within the decoder function (sub-decoder calls are checked in their own function).
func rulePureCapture(c *Ctx, rule string) {
	w := c.w
	dec := decoderSet(w)
	n := 0
	for _, fn := range w.All {
		if !dec[fn] {
			continue
		}
		per := 0
		for _, st := range storesIn(fn) {
			fa, ok := st.Addr.(*ssa.FieldAddr)
			if !ok || !isStringType(st.Val.Type()) {
				continue
			}
			ref := fieldRef(fa)
			typ := strings.Split(ref, ".")[0]
			if !isDecodedType(typ) {
				continue
			}
			n++
			per++
			// the start line is C01's concern alone (the other properties that share this rule speak about header fields)
			if (typ == "StatusLine" || typ == "RequestLine") && c.Prop != "C01" {
				continue
			}
			c.Fns[w.fname(fn)] = true
			var culprit *ssa.Call
			var constructed *ssa.Convert
			localDerives(st.Val, func(v ssa.Value) bool {
				if cc, ok := v.(*ssa.Call); ok && (textTransformers[w.calleeName(cc)] || w.rendersText(cc)) {
					culprit = cc
					return true
				}
				// text put together from bytes (the body of a merged unescaper / normaliser)
				if cv, ok := v.(*ssa.Convert); ok && isStringType(cv.Type()) && isByteSlice(cv.X.Type()) {
					if mk, isCall := cv.X.(*ssa.Call); !isCall || w.calleeName(mk) != "io.ReadAll" {
						constructed = cv
						return true
					}
				}
				// a helper of the package that hands back text it has put together itself (an unescaper, a normaliser)
				if cc, ok := v.(*ssa.Call); ok {
					if g := cc.Call.StaticCallee(); g != nil && w.isMain(g) && g.Blocks != nil && isStringType(cc.Type()) && w.constructsText(g, 0) {
						culprit = cc
						return true
					}
				}
				return false
			})
			key := fmt.Sprintf("%s/%s#%d", w.fname(fn), ref, per)
			if constructed != nil {
				c.bad(rule, key, w.ipos(st), "the text stored into "+ref+" is put together byte by byte inside the decoder (string(bytes) at "+w.ipos(constructed)+"): the component is not kept as received (escapes resolved, characters rewritten) and is re-encoded in the rewritten form")
			} else if culprit != nil {
				c.bad(rule, key, w.ipos(st), "the text stored into "+ref+" passed through "+w.calleeName(culprit)+" inside the decoder: the component is not kept byte-identical (blanks, letter case or characters are rewritten when the header is re-encoded)")
			} else {
				c.ok(rule, key, w.ipos(st), "constant or pure piece of the input")
			}
		}
		// elements appended to parameter lists as KeyValue literals are covered by the stores above (Key/Value fields)
	}
	if n < 20 {
		c.undecided(rule, "floor", "-", fmt.Sprintf("only %d string stores into decoded types found in decoders (expected >= 20)", n))
	}
}

// decoderSet: decoder functions and the main-package helpers they call.
func decoderSet(w *World) map[*ssa.Function]bool {
	var roots []*ssa.Function
	for fn := range decoderLevels(w) {
		if fn.Name() == "ParseMessage" {
			continue
		}
		roots = append(roots, fn)
	}
	return w.reachableFrom(roots, false)
}

// c14DecoderPurity: what a decoder returns denotes its text and nothing else: a decoder (and what it calls inside the
// package) neither reads nor writes package-level variables - no cache of earlier results, no table that other
// messages have written to. (Objects handed out of a shared cache are shared with whoever edits them: a stamp written
// into one message's Via shows up in the next message with the same text.)
func c14DecoderPurity(c *Ctx) { c14DecoderPurityFrom(c) }

// c14DecoderPurityFrom restricts the rule to the decoders below the named roots (all decoders when none is named): under
// C13 the Route a request pops, under C07/C02 the Via a stamp is written into or a response pops, must be objects of
// that message alone, which a decoder answering from package-level state cannot promise.
func c14DecoderPurityFrom(c *Ctx, roots ...string) {
	w := c.w
	rule := "pure-capture"
	set := decoderSet(w)
	if len(roots) > 0 {
		var rf []*ssa.Function
		for _, r := range roots {
			if fn := w.Fn(r); fn != nil {
				rf = append(rf, fn)
			}
		}
		if len(rf) == 0 {
			c.undecided(rule, "decoder-state/roots", "-", "none of the decoders "+strings.Join(roots, ", ")+" found")
			return
		}
		set = w.reachableFrom(rf, false)
	}
	n := 0
	var fns []*ssa.Function
	for fn := range set {
		if w.isMain(fn) {
			fns = append(fns, fn)
		}
	}
	sort.Slice(fns, func(i, j int) bool { return w.fname(fns[i]) < w.fname(fns[j]) })
	for _, fn := range fns {
		n++
		bad := ""
		where := ""
		eachInstr(fn, func(in ssa.Instruction) {
			var rands []*ssa.Value
			for _, r := range in.Operands(rands) {
				g, ok := (*r).(*ssa.Global)
				if !ok || g.Pkg != w.Main {
					continue
				}
				if strings.HasPrefix(g.Name(), "init$") {
					continue
				}
				// an error variable of the package that is only ever assigned newly built errors is a constant
				if w.sentinelError(g) || w.readOnlyGlobal(g) || w.statCounterGlobal(g, set) {
					continue
				}
				bad, where = g.Name(), w.ipos(in)
			}
		})
		c.check(bad == "", rule, "decoder-state/"+w.fname(fn), w.pos(fn.Pos()), "uses no package-level state", "decoder "+w.fname(fn)+" uses the package-level variable "+bad+" (at "+where+"): its result is no longer a function of the text alone - a cache of decoded values hands the same objects (or objects sharing storage) to several messages, and an edit made for one message shows in the next one that carries the same text")
	}
	if len(roots) == 0 {
		c.check(n >= 10, rule, "decoder-state/floor", "-", "decoders found", fmt.Sprintf("only %d decoder functions found", n))
	} else {
		c.check(n >= 1, rule, "decoder-state/floor", "-", "decoders found", "no decoder function found below "+strings.Join(roots, ", "))
	}
}

// readOnlyGlobal: package-level variable g is a table: assigned only by the package initialiser, and what is loaded from
// it is only looked up, ranged over or measured - never updated, stored through or handed to a call.
func (w *World) readOnlyGlobal(g *ssa.Global) bool {
	ok := true
	var readOnlyUse func(v ssa.Value, d int) bool
	readOnlyUse = func(v ssa.Value, d int) bool {
		if v.Referrers() == nil || d > 3 {
			return d <= 3
		}
		for _, r := range *v.Referrers() {
			switch x := r.(type) {
			case *ssa.DebugRef, *ssa.Lookup, *ssa.Range, *ssa.Index:
			case *ssa.IndexAddr:
				if !readOnlyUse(x, d+1) {
					return false
				}
			case *ssa.FieldAddr:
				if !readOnlyUse(x, d+1) {
					return false
				}
			case *ssa.UnOp:
				if x.Op != token.MUL {
					return false
				}
				if _, isPtr := x.Type().Underlying().(*types.Pointer); isPtr {
					return false
				}
			case *ssa.Call:
				b, isB := x.Call.Value.(*ssa.Builtin)
				if !isB || (b.Name() != "len" && b.Name() != "cap") {
					return false
				}
			default:
				return false
			}
		}
		return true
	}
	for _, fn := range w.All {
		isInit := fn.Name() == "init" || strings.HasPrefix(fn.Name(), "init#")
		eachInstr(fn, func(in ssa.Instruction) {
			var rands []*ssa.Value
			uses := false
			for _, r := range in.Operands(rands) {
				if *r == ssa.Value(g) {
					uses = true
				}
			}
			if !uses {
				return
			}
			switch x := in.(type) {
			case *ssa.Store:
				if x.Addr != ssa.Value(g) || !isInit {
					ok = false
				}
			case *ssa.UnOp:
				if x.Op != token.MUL || (!isInit && !readOnlyUse(x, 0)) {
					ok = false
				}
			case *ssa.DebugRef:
			default:
				if !isInit {
					ok = false
				}
			}
		})
	}
	return ok
}

func liveReferrers(v ssa.Value) int {
	n := 0
	if v.Referrers() == nil {
		return 0
	}
	for _, r := range *v.Referrers() {
		if _, ok := r.(*ssa.DebugRef); ok {
			continue
		}
		n++
	}
	return n
}

func c14DecoderErrors(c *Ctx, only ...string) {
	w := c.w
	rule := "decoder-errors"
	if len(only) == 0 {
		ruleNumberParsing(c, rule, 3, "parseHostPort", "parseViaParam", "ParseCSeq")
	}
	set := decoderSet(w)
	n := 0
	want := map[string]bool{}
	for _, o := range only {
		want[o] = true
	}
	for _, fn := range w.All {
		if !set[fn] {
			continue
		}
		if len(want) > 0 && !want[w.fname(fn)] {
			continue
		}
		c.Fns[w.fname(fn)] = true
		per := map[string]int{}
		for _, cs := range w.callsIn(fn) {
			ei := errIndex(cs.In)
			if ei < 0 {
				continue
			}
			if strings.HasPrefix(cs.Name, "fmt.") || strings.HasPrefix(cs.Name, "(*bytes.Buffer)") || strings.HasPrefix(cs.Name, "(io.Writer)") {
				continue // printing helpers, not decoding
			}
			call, ok := cs.In.(*ssa.Call)
			if !ok {
				continue
			}
			n++
			per[cs.Name]++
			key := fmt.Sprintf("%s/%s#%d", w.fname(fn), cs.Name, per[cs.Name])
			used := false
			if call.Type().(interface{ String() string }) != nil {
				if _, isTuple := call.Type().(*types.Tuple); isTuple {
					if e := extractOf(call, ei); e != nil && liveReferrers(e) > 0 {
						used = true
					}
				} else if liveReferrers(call) > 0 {
					used = true
				}
			}
			c.check(used, rule, key, w.ipos(cs.In), "error result is tested or returned", "the error result of "+cs.Name+" is discarded inside a decoder: malformed or unsupported input is silently truncated instead of being rejected")
			// and a decoder that can fail itself fails when its sub-decoder does: skipping the element that failed
			// (continue) re-encodes the header without it
			if used && errIndexOfFn(fn) >= 0 && canReach(entryPt(fn), nil, isInstr(cs.In), nil) { // not code behind a test that can never fire
				okP, why := w.errPropagated(fn, call)
				c.check(okP, rule, key+"/propagated", w.ipos(cs.In), "a failing sub-decoder makes the decoder fail", "a failure of "+cs.Name+" does not make "+w.fname(fn)+" fail ("+why+"): the element that could not be decoded is dropped and the header is re-encoded without it")
			}
		}
	}
	if len(only) == 0 && n < 15 {
		c.undecided(rule, "floor", "-", fmt.Sprintf("only %d error-returning calls found in decoders (expected >= 15)", n))
	}
	if len(only) > 0 && n < 2 {
		c.undecided(rule, "floor", "-", fmt.Sprintf("only %d error-returning calls found in %v (expected >= 2)", n, only))
	}
}

// fieldsWritten / fieldsRead of a struct type within a set of functions.
func fieldAccesses(w *World, fns []*ssa.Function, typ string) (written, read map[string]bool) {
	written, read = map[string]bool{}, map[string]bool{}
	for _, fn := range fns {
		eachInstr(fn, func(in ssa.Instruction) {
			switch x := in.(type) {
			case *ssa.FieldAddr:
				if namedOf(x.X.Type()) != typ {
					return
				}
				name := fieldName(x.X.Type(), x.Field)
				for _, r := range *x.Referrers() {
					switch y := r.(type) {
					case *ssa.Store:
						if y.Addr == ssa.Value(x) {
							written[name] = true
						}
					case *ssa.UnOp:
						read[name] = true
					default:
						_ = y
						read[name] = true
					}
				}
			case *ssa.Field:
				if namedOf(x.X.Type()) == typ {
					read[fieldName(x.X.Type(), x.Field)] = true
				}
			}
		})
	}
	return
}

func structFields(w *World, typ string) []string {
	n := w.lookupType(typ)
	if n == nil {
		return nil
	}
	st, ok := n.Underlying().(*types.Struct)
	if !ok {
		return nil
	}
	var out []string
	for i := 0; i < st.NumFields(); i++ {
		out = append(out, fvName(st.Field(i)))
	}
	return out
}

// printerClosure: printers of typ plus the methods of typ they call (accessors).
func printerClosure(w *World, typ string) []*ssa.Function {
	seen := map[*ssa.Function]bool{}
	var work []*ssa.Function
	for _, f := range printerFns(w, typ) {
		seen[f] = true
		work = append(work, f)
	}
	for len(work) > 0 {
		f := work[len(work)-1]
		work = work[:len(work)-1]
		for _, cs := range w.callsIn(f) {
			for _, callee := range w.calleesOf(cs.In) {
				if !w.isMain(callee) || seen[callee] || callee.Signature.Recv() == nil {
					continue
				}
				if namedOf(callee.Signature.Recv().Type()) == typ {
					seen[callee] = true
					work = append(work, callee)
				}
			}
		}
	}
	var out []*ssa.Function
	for f := range seen {
		out = append(out, f)
	}
	sort.Slice(out, func(i, j int) bool { return w.fname(out[i]) < w.fname(out[j]) })
	return out
}

func c14FieldCoverage(c *Ctx) {
	w := c.w
	rule := "field-coverage"
	levels := decoderLevels(w)
	var allDecoders []*ssa.Function
	for fn := range decoderSet(w) {
		allDecoders = append(allDecoders, fn)
	}
	if pm := w.Fn("ParseMessage"); pm != nil {
		allDecoders = append(allDecoders, pm)
		for fn := range w.reachableFrom([]*ssa.Function{pm}, false) {
			allDecoders = append(allDecoders, fn)
		}
	}
	_ = levels
	for _, typ := range decodedTypes {
		fields := structFields(w, typ)
		if fields == nil {
			c.undecided(rule, typ, "-", "decoded type "+typ+" not found")
			continue
		}
		written, _ := fieldAccesses(w, allDecoders, typ)
		pr := printerClosure(w, typ)
		if len(pr) == 0 {
			c.bad(rule, typ+"/printer", "-", "decoded type "+typ+" has no printer (String/Write): it cannot be re-encoded")
			continue
		}
		_, read := fieldAccesses(w, pr, typ)
		for _, f := range fields {
			if !written[f] {
				continue
			}
			c.check(read[f], rule, typ+"."+f, w.pos(pr[0].Pos()), "decoded field is printed", "field "+typ+"."+f+" is filled by the decoder but never read by the printer ("+w.fname(pr[0])+" ...): that component is lost when the header is re-encoded")
		}
	}
	c.floor(rule, 30)
}

// defaultingAccessors: methods of decoded types with one path returning a field of the receiver and another a non-zero constant.
func defaultingAccessors(w *World) map[*ssa.Function]string {
	out := map[*ssa.Function]string{}
	for _, fn := range w.All {
		if fn.Signature.Recv() == nil || fn.Parent() != nil || fn.Signature.Results().Len() != 1 {
			continue
		}
		if !isDecodedType(namedOf(fn.Signature.Recv().Type())) {
			continue
		}
		hasConst, hasOther := "", false
		for _, r := range returnsUnder(fn, nil) {
			for _, v := range phiLeaves(r.Results[0]) {
				if k, ok := constInt(v); ok && k != 0 {
					hasConst = fmt.Sprint(k)
				} else if s, ok := constString(v); ok && s != "" {
					hasConst = fmt.Sprintf("%q", s)
				} else if _, isC := v.(*ssa.Const); !isC {
					hasOther = true
				}
			}
		}
		if hasConst != "" && hasOther {
			out[fn] = hasConst
		}
	}
	return out
}

// c14FullPrinter: a printer never switches off part of the output with a constant-false flag.
func c14FullPrinter(c *Ctx) {
	w := c.w
	rule := "field-coverage"
	for _, typ := range decodedTypes {
		prs := printerFns(w, typ)
		isPr := map[*ssa.Function]bool{}
		for _, p := range prs {
			isPr[p] = true
		}
		for _, pf := range prs {
			if pf.Name() == "ToString" {
				continue // forwards its own flags
			}
			for _, cs := range w.callsIn(pf) {
				callee := cs.In.Common().StaticCallee()
				if callee == nil || !isPr[callee] {
					continue
				}
				for i, a := range cs.In.Common().Args {
					if b, ok := constBool(a); ok {
						c.check(b, rule, fmt.Sprintf("%s->%s/flag#%d", w.fname(pf), w.fname(callee), i), w.ipos(cs.In), "printer enables every optional part", "printer "+w.fname(pf)+" calls "+w.fname(callee)+" with a constant false flag: part of the decoded value (URI parameters or headers) is never re-encoded")
					}
				}
			}
		}
	}
	// flags of the flag-driven printer guard only their own loops: each flag parameter is tested, not overwritten
	if f := w.Fn("(*SIPURI)._Write"); f != nil {
		for i := 2; i < len(f.Params); i++ {
			p := f.Params[i]
			n := 0
			for _, a := range w.atomsOf(f) {
				if a.Kind == "bool" && strip(a.X) == ssa.Value(p) {
					n++
				}
			}
			c.check(n == 1, rule, "(*SIPURI)._Write/flag-"+p.Name(), w.pos(f.Pos()), "flag is consulted", "flag "+p.Name()+" of the URI printer is not consulted exactly once")
		}
	}
}

func c14NoDefaultingPrinter(c *Ctx) {
	w := c.w
	rule := "no-defaulting-printer"
	ruleFmtStringer(c, rule)
	acc := defaultingAccessors(w)
	if len(acc) < 3 {
		c.undecided(rule, "accessors", "-", fmt.Sprintf("only %d defaulting accessors recognised (expected GetPort x2, GetTransport)", len(acc)))
	}
	n := 0
	for _, typ := range decodedTypes {
		for _, pf := range printerFns(w, typ) {
			n++
			c.Fns[w.fname(pf)] = true
			bad := false
			// direct and transitive (through same-type helper printers) calls
			seen := map[*ssa.Function]bool{pf: true}
			work := []*ssa.Function{pf}
			for len(work) > 0 {
				f := work[len(work)-1]
				work = work[:len(work)-1]
				for _, cs := range w.callsIn(f) {
					for _, callee := range w.calleesOf(cs.In) {
						if d, ok := acc[callee]; ok {
							bad = true
							c.bad(rule, w.fname(pf)+"->"+w.fname(callee), w.ipos(cs.In), "printer calls "+w.fname(callee)+", which substitutes the default "+d+" when the component is absent: an absent component is re-encoded as if it had been present")
						}
						if w.isMain(callee) && !seen[callee] && callee.Signature.Recv() != nil && namedOf(callee.Signature.Recv().Type()) == typ {
							for _, p2 := range printerFns(w, typ) {
								if p2 == callee {
									seen[callee] = true
									work = append(work, callee)
								}
							}
						}
					}
				}
			}
			if !bad {
				c.ok(rule, w.fname(pf), w.pos(pf.Pos()), "printer prints stored fields only")
			}
		}
	}
	if n < 20 {
		c.undecided(rule, "floor", "-", fmt.Sprintf("only %d printers found", n))
	}
}

// literalBytes collects the bytes of the literal segments of a format string.
func literalBytes(format string, into map[byte]bool) {
	for i := 0; i < len(format); i++ {
		if format[i] == '%' {
			i++
			for i < len(format) && strings.IndexByte("+-# 0123456789.*[]", format[i]) >= 0 {
				i++
			}
			if i < len(format) && format[i] == '%' {
				into['%'] = true
			}
			continue
		}
		into[format[i]] = true
	}
}

// emittedBytes: constant bytes written by fn through fmt calls, WriteString/WriteByte and string concatenation.
func emittedBytes(w *World, fn *ssa.Function) map[byte]bool {
	out := map[byte]bool{}
	for _, cs := range w.callsIn(fn) {
		switch {
		case isFmtPrintf(cs.Name):
			format, args, ok := w.fmtArgs(cs.In)
			if !ok {
				continue
			}
			if s, isC := constString(format); isC {
				literalBytes(s, out)
			}
			for _, a := range args {
				if a == nil {
					continue
				}
				for _, lf := range phiLeaves(a) {
					if s, isC := constString(lf); isC {
						for i := 0; i < len(s); i++ {
							out[s[i]] = true
						}
					}
				}
			}
		case cs.Name == "fmt.Fprint" || cs.Name == "fmt.Sprint" || cs.Name == "io.WriteString" || strings.HasSuffix(cs.Name, ").WriteString") || strings.HasSuffix(cs.Name, ").WriteByte") || strings.HasSuffix(cs.Name, ").Write"):
			for _, a := range cs.In.Common().Args {
				var cands []ssa.Value
				for _, v := range append(varargs(a), a) {
					if v != nil {
						cands = append(cands, phiLeaves(v)...)
					}
				}
				for _, v := range cands {
					if s, isC := constString(v); isC {
						for i := 0; i < len(s); i++ {
							out[s[i]] = true
						}
					}
					if k, isK := constInt(v); isK && k > 0 && k < 128 {
						if b, ok := v.Type().Underlying().(*types.Basic); ok && b.Kind() == types.Uint8 {
							out[byte(k)] = true
						}
					}
				}
			}
		}
	}
	eachInstr(fn, func(in ssa.Instruction) {
		if b, ok := in.(*ssa.BinOp); ok && b.Op == token.ADD {
			for _, o := range []ssa.Value{b.X, b.Y} {
				if s, isC := constString(o); isC {
					for i := 0; i < len(s); i++ {
						out[s[i]] = true
					}
				}
			}
		}
	})
	return out
}

type strippedSep struct {
	b    byte
	how  string
	site ssa.Instruction
	kv   bool // both halves go straight into a KeyValue literal: attributed to KeyValue
}

func constByte(v ssa.Value) (byte, bool) {
	if s, ok := constString(v); ok && len(s) == 1 {
		return s[0], true
	}
	if k, ok := constInt(v); ok && k > 0 && k < 256 {
		return byte(k), true
	}
	return 0, false
}

// isPlusOne: v == base + 1
func isPlusOne(v, base ssa.Value) bool {
	b, ok := strip(v).(*ssa.BinOp)
	if !ok || b.Op != token.ADD {
		return false
	}
	if k, isK := constInt(b.Y); isK && k == 1 && strip(b.X) == strip(base) {
		return true
	}
	if k, isK := constInt(b.X); isK && k == 1 && strip(b.Y) == strip(base) {
		return true
	}
	return false
}

// strippedSeparators finds the constant separators fn consumes without keeping them in any substring.
func strippedSeparators(w *World, fn *ssa.Function) []strippedSep {
	var out []strippedSep
	slices := []*ssa.Slice{}
	eachInstr(fn, func(in ssa.Instruction) {
		if s, ok := in.(*ssa.Slice); ok && isStringType(s.X.Type()) {
			slices = append(slices, s)
		}
	})
	flowsToKV := func(s *ssa.Slice) bool {
		for _, r := range *s.Referrers() {
			if st, ok := r.(*ssa.Store); ok {
				if fa, ok := st.Addr.(*ssa.FieldAddr); ok && strings.HasPrefix(fieldRef(fa), "KeyValue.") {
					return true
				}
			}
		}
		return false
	}
	for _, cs := range w.callsIn(fn) {
		call, ok := cs.In.(*ssa.Call)
		if !ok {
			continue
		}
		switch cs.Name {
		case "strings.Split", "strings.SplitN":
			if s, isC := constString(call.Call.Args[1]); isC {
				for i := 0; i < len(s); i++ {
					out = append(out, strippedSep{s[i], "strings.Split separator", call, false})
				}
			}
		case "splitUnquoted":
			// the package's own Split that leaves quoted-strings alone (fix D23): the separator byte is in no part
			if b, isB := constByte(call.Call.Args[1]); isB {
				out = append(out, strippedSep{b, "splitUnquoted separator", call, false})
			}
		case "strings.Fields":
			out = append(out, strippedSep{' ', "strings.Fields (blank separated)", call, false})
		case "strings.IndexByte", "strings.Index", "strings.LastIndex", "strings.LastIndexByte", "indexUnquoted":
			b, isB := constByte(call.Call.Args[1])
			if !isB {
				continue
			}
			str := strip(call.Call.Args[0])
			excl, incl := false, false
			kv := true
			for _, s := range slices {
				if !sameStringFamily(s.X, str) {
					continue
				}
				if s.Low != nil && isPlusOne(s.Low, call) {
					excl = true
					if !flowsToKV(s) {
						kv = false
					}
				}
				if s.High != nil && strip(s.High) == ssa.Value(call) {
					if !flowsToKV(s) {
						kv = false
					}
				}
				if (s.High != nil && isPlusOne(s.High, call)) || (s.Low != nil && strip(s.Low) == ssa.Value(call)) {
					incl = true
				}
			}
			for _, s := range slices {
				if sameStringFamily(s.X, str) && s.High != nil && strip(s.High) == ssa.Value(call) {
					excl = true // left part ends just before the separator
				}
			}
			if excl && !incl {
				out = append(out, strippedSep{b, cs.Name + " split excluding the separator", call, kv})
			}
		case "strings.Cut", "bytes.Cut":
			// before, after, found := Cut(s, sep): the separator is in neither part
			if sp, isC := constString(call.Call.Args[1]); isC && len(sp) > 0 {
				kv := true
				for _, r := range *call.Referrers() {
					e, ok := r.(*ssa.Extract)
					if !ok || e.Index > 1 {
						continue
					}
					toKV := false
					for _, rr := range *e.Referrers() {
						if st, ok := rr.(*ssa.Store); ok {
							if fa, ok := st.Addr.(*ssa.FieldAddr); ok && strings.HasPrefix(fieldRef(fa), "KeyValue.") {
								toKV = true
							}
						}
					}
					if !toKV {
						kv = false
					}
				}
				for i := 0; i < len(sp); i++ {
					out = append(out, strippedSep{sp[i], "strings.Cut separator", call, kv})
				}
			}
		case "strings.HasPrefix":
			// prefix tested and then cut off: s = x[len(prefix):]
			if p, isC := constString(call.Call.Args[1]); isC {
				str := strip(call.Call.Args[0])
				for _, s := range slices {
					if strip(s.X) == str && s.Low != nil {
						if k, isK := constInt(s.Low); isK && int(k) == len(p) {
							// only the non-alphanumeric bytes are separators (the scheme itself is stored as a field)
							for i := 0; i < len(p); i++ {
								if !isAlnum(p[i]) {
									out = append(out, strippedSep{p[i], "prefix " + fmt.Sprintf("%q", p) + " cut off", call, false})
								}
							}
						}
					}
				}
			}
		}
	}
	// tested-and-skipped first byte: if s[0] != c {error}; s = s[1:]
	eachInstr(fn, func(in ssa.Instruction) {
		bo, ok := in.(*ssa.BinOp)
		if !ok || (bo.Op != token.NEQ && bo.Op != token.EQL) {
			return
		}
		ix, ok := strip(bo.X).(*ssa.Index)
		b, isB := constByte(bo.Y)
		if !ok || !isB {
			return
		}
		if k, isK := constInt(ix.Index); !isK || k != 0 {
			return
		}
		for _, s := range slices {
			if strip(s.X) == strip(ix.X) && s.Low != nil {
				if k, isK := constInt(s.Low); isK && k == 1 {
					out = append(out, strippedSep{b, "first byte tested and skipped", in, false})
				}
			}
		}
	})
	return out
}

func isAlnum(b byte) bool {
	return (b >= 'a' && b <= 'z') || (b >= 'A' && b <= 'Z') || (b >= '0' && b <= '9')
}

// sameStringFamily: a and b are the same string value, possibly through a phi.
func sameStringFamily(a, b ssa.Value) bool {
	a, b = strip(a), strip(b)
	if a == b {
		return true
	}
	for _, x := range phiLeaves(a) {
		if x == b {
			return true
		}
	}
	for _, x := range phiLeaves(b) {
		if x == a {
			return true
		}
	}
	return false
}

func c14Delimiters(c *Ctx) {
	w := c.w
	rule := "delimiter-agreement"
	levels := decoderLevels(w)
	byType := map[string][]*ssa.Function{}
	for fn, t := range levels {
		byType[t] = append(byType[t], fn)
	}
	emitted := map[string]map[byte]bool{}
	for _, typ := range decodedTypes {
		e := map[byte]bool{}
		for _, pf := range printerFns(w, typ) {
			for b := range emittedBytes(w, pf) {
				e[b] = true
			}
		}
		emitted[typ] = e
	}
	n := 0
	for _, typ := range decodedTypes {
		fns := byType[typ]
		sort.Slice(fns, func(i, j int) bool { return w.fname(fns[i]) < w.fname(fns[j]) })
		seen := map[string]bool{}
		for _, fn := range fns {
			c.Fns[w.fname(fn)] = true
			for _, sp := range strippedSeparators(w, fn) {
				lvl := typ
				if sp.kv {
					lvl = "KeyValue"
				}
				key := fmt.Sprintf("%s/%q", lvl, string(sp.b))
				if typ == "Header" && sp.b != ':' {
					continue // start-line and header framing beyond the name/value colon is decided in C01/C11
				}
				if seen[key+w.fname(fn)] {
					continue
				}
				seen[key+w.fname(fn)] = true
				n++
				e := emitted[lvl]
				// a SIP URI prints its own parameters (key=value) itself
				ok := e[sp.b]
				if !ok && sp.kv && emitted[typ][sp.b] {
					ok = true
				}
				c.check(ok, rule, key+"<-"+w.fname(fn), w.ipos(sp.site), "separator stripped by the decoder is emitted by the printer of "+lvl,
					fmt.Sprintf("decoder %s strips %q (%s) at the level of %s, but no printer of %s ever emits it: re-encoding glues the parts together", w.fname(fn), string(sp.b), sp.how, lvl, lvl))
			}
		}
	}
	if n < 25 {
		c.undecided(rule, "floor", "-", fmt.Sprintf("only %d stripped separators recognised (expected >= 25): decoder idioms are not understood", n))
	}
	c14RequiredSeparators(c)
	c14KeptSeparators(c)
}

// c14KeptSeparators: a decoder that finds a separator at pos and hands text[..pos+1] - the separator included - to a
// sub-decoder while it goes on behind the separator itself, leaves that byte to the sub-decoder: the sub-decoder must
// be one that strips this very byte (ParseNameAddr is given "...>" and cuts at '>'). Otherwise the byte becomes part of
// the component (an addr-spec "tel:+1234;") and the printer, which writes the separator between the components, emits
// it a second time ("tel:+1234;;tag=abc").
func c14KeptSeparators(c *Ctx) {
	w := c.w
	rule := "delimiter-agreement"
	levels := decoderLevels(w)
	var fns []*ssa.Function
	for fn := range levels {
		fns = append(fns, fn)
	}
	sort.Slice(fns, func(i, j int) bool { return w.fname(fns[i]) < w.fname(fns[j]) })
	n := 0
	for _, fn := range fns {
		var slices []*ssa.Slice
		eachInstr(fn, func(in ssa.Instruction) {
			if sl, ok := in.(*ssa.Slice); ok && isStringType(sl.X.Type()) {
				slices = append(slices, sl)
			}
		})
		per := 0
		for _, cs := range w.callsIn(fn) {
			call, ok := cs.In.(*ssa.Call)
			if !ok || !indexFamily[cs.Name] || len(call.Call.Args) < 2 {
				continue
			}
			b, isB := constByte(call.Call.Args[1])
			if !isB {
				continue
			}
			str := strip(call.Call.Args[0])
			goesOn := false
			for _, sl := range slices {
				if sameStringFamily(sl.X, str) && sl.Low != nil && isPlusOne(sl.Low, call) {
					goesOn = true
				}
			}
			if !goesOn {
				continue
			}
			for _, sl := range slices {
				if !sameStringFamily(sl.X, str) || sl.High == nil || !isPlusOne(sl.High, call) || sl.Referrers() == nil {
					continue
				}
				// the piece that keeps the separator: who gets it?
				for _, r := range *sl.Referrers() {
					sub, isCall := r.(*ssa.Call)
					if !isCall {
						continue
					}
					callee := sub.Call.StaticCallee()
					if callee == nil || !w.isMain(callee) {
						continue
					}
					n++
					per++
					strips := false
					for _, sp := range strippedSeparators(w, callee) {
						if sp.b == b {
							strips = true
						}
					}
					c.check(strips, rule, fmt.Sprintf("kept-separator/%s/%q->%s#%d", w.fname(fn), string(b), w.fname(callee), per), w.ipos(sl), "the sub-decoder strips the separator it is given", fmt.Sprintf("%s hands %s the text up to and including the %q it found, and goes on behind it, but %s does not cut at %q: the separator becomes part of the decoded component and is written a second time by the printer (From: tel:+1234;tag=abc is re-encoded as tel:+1234;;tag=abc)", w.fname(fn), w.fname(callee), string(b), w.fname(callee), string(b)))
				}
			}
		}
	}
	c.check(n >= 1, rule, "kept-separator/floor", "-", "inclusive hand-overs found", "no hand-over of a text including its separator was recognised (expected the name-addr hand-overs)")
}

// c14HostGrammar: a host may be an IPv6 reference "[...]" that itself contains ':' (RFC 3261 hostport). A decoder
// that separates host and port at a ':' must therefore look at the brackets first; one that does not cannot decode
// sip:alice@[2001:db8::1]:5060 or "SIP/2.0/UDP [2001:db8::1]:5060" at all.
// c14QuotedNames: a name-addr may begin with a display name that is a quoted-string, and a quoted-string may hold the
// very characters the header syntax is cut at ("Bob <work>" <sip:bob@example.com>, "Smith, John" <sip:..>). In the
// decoders of the types that carry a name-addr every search for '<' or '>' and every split of a list at ',' therefore
// goes through a function that looks at '"' (one that compares bytes of its text with the quote character); the
// library's plain first-occurrence search does not. (Repaired as D23; the rule reports the defect if it returns.)
func c14QuotedNames(c *Ctx) {
	w := c.w
	rule := "decoder-grammar"
	nameAddrLevels := map[string]bool{"FromSpec": true, "To": true, "NameAddr": true, "Route": true, "RouteParam": true, "RecordRoute": true, "RecRoute": true}
	quoteAware := map[*ssa.Function]bool{}
	var looksAtQuotes func(fn *ssa.Function, d int) bool
	looksAtQuotes = func(fn *ssa.Function, d int) bool {
		if fn == nil || fn.Blocks == nil || d > 3 {
			return false
		}
		if r, ok := quoteAware[fn]; ok {
			return r
		}
		quoteAware[fn] = false
		res := false
		eachInstr(fn, func(in ssa.Instruction) {
			if bo, ok := in.(*ssa.BinOp); ok && (bo.Op == token.EQL || bo.Op == token.NEQ) {
				for _, o := range []ssa.Value{bo.X, bo.Y} {
					if k, isK := constInt(o); isK && k == 34 {
						if b, isB := o.Type().Underlying().(*types.Basic); isB && b.Info()&types.IsInteger != 0 {
							res = true
						}
					}
				}
			}
			if call, ok := in.(*ssa.Call); ok {
				if callee := call.Call.StaticCallee(); callee != nil && w.isMain(callee) && looksAtQuotes(callee, d+1) {
					res = true
				}
			}
		})
		quoteAware[fn] = res
		return res
	}
	var fns []*ssa.Function
	for fn, lvl := range decoderLevels(w) {
		if nameAddrLevels[lvl] {
			fns = append(fns, fn)
		}
	}
	sort.Slice(fns, func(i, j int) bool { return w.fname(fns[i]) < w.fname(fns[j]) })
	n := 0
	nSemi := 0
	for _, fn := range fns {
		per := map[byte]int{}
		for _, cs := range w.callsIn(fn) {
			call, ok := cs.In.(*ssa.Call)
			if !ok || len(call.Call.Args) < 2 {
				continue
			}
			isSearch := indexFamily[cs.Name] || cs.Name == "strings.Split" || cs.Name == "strings.SplitN" || cs.Name == "strings.Cut" || cs.Name == "splitUnquoted"
			callee := call.Call.StaticCallee()
			if !isSearch && !(callee != nil && w.isMain(callee) && looksAtQuotes(callee, 0)) {
				continue
			}
			b, isB := constByte(call.Call.Args[1])
			isSplit := cs.Name == "strings.Split" || cs.Name == "strings.SplitN" || cs.Name == "splitUnquoted"
			if !isB || (b != '<' && b != '>' && b != ',' && !(b == ';' && isSplit)) {
				continue
			}
			if b == ';' {
				// the header parameters behind the address: a value may be a quoted-string holding a ';'
				// (;x="a;tag=zz";tag=t1 - the tag is t1). Repaired as D29.
				nSemi++
				per[b]++
				aware := callee != nil && w.isMain(callee) && looksAtQuotes(callee, 0)
				c.check(aware, rule, fmt.Sprintf("%s/quoted-parameter-value#%d", w.fname(fn), per[b]), w.ipos(call), "the header parameters are cut with a splitter that leaves quoted-strings alone", fmt.Sprintf("%s cuts the header parameters at every ';' with %s, also at one inside a quoted parameter value: From: <sip:a@h>;x=\"q;tag=zz\";tag=t1 is decoded with the tag zz\" - the dialog identifier is built from a text the header does not denote as its tag", w.fname(fn), cs.Name))
				continue
			}
			n++
			per[b]++
			aware := callee != nil && w.isMain(callee) && looksAtQuotes(callee, 0)
			if b == ',' {
				// a list is cut at the commas between its elements: not at one inside the angle brackets of an element either
				// (<sip:a,b@example.com> - ',' is allowed in a URI's user part). Repaired as D27.
				inBrackets := aware && comparesWithByte(w, callee, '<', 0) && comparesWithByte(w, callee, '>', 0)
				c.check(inBrackets, rule, fmt.Sprintf("%s/list-split-respects-angle-brackets#%d", w.fname(fn), per[b]), w.ipos(call), "the list splitter leaves what is inside <...> alone", fmt.Sprintf("%s cuts its list at every ',' outside quoted-strings, also at one inside the angle brackets of an element: Route: <sip:ab,cd@10.0.0.9:5070;lr> cannot be decoded, the Route is ignored and the request follows the static route of the To host instead", w.fname(fn)))
			}
			c.check(aware, rule, fmt.Sprintf("%s/quoted-display-name/%q#%d", w.fname(fn), string(b), per[b]), w.ipos(call), "searches with a function that leaves quoted-strings alone", fmt.Sprintf("%s looks for %q with %s, which also finds it inside a quoted display name: From: \"Bob <work>\" <sip:bob@example.com>;tag=x is decoded with the address \"work\" and written back as \"Bob <work>;tag=x (the URI is lost), a Route list with \"Smith, John\" <sip:..> cannot be decoded at all", w.fname(fn), string(b), cs.Name))
		}
	}
	c.check(nSemi >= 4, rule, "quoted-parameter-value/floor", "-", "parameter splits found", fmt.Sprintf("only %d splits of header parameters at ';' found in the decoders that carry a name-addr (expected >= 4)", nSemi))
	c.check(n >= 8, rule, "quoted-display-name/floor", "-", "searches in name-addr decoders found", fmt.Sprintf("only %d searches for '<', '>' or ',' found in the decoders that carry a name-addr (expected >= 8)", n))
	// inside a quoted-string a backslash quotes the next character (quoted-pair). A scanner with a single loop that
	// decides whether a '"' is escaped by looking at the one byte before it is wrong: in "Ann \\" the closing quote
	// follows an escaped backslash. (Looking at the current byte and skipping the next one is the form the finder has.)
	var scanners []*ssa.Function
	for fn, aware := range quoteAware {
		if aware && fn.Blocks != nil {
			scanners = append(scanners, fn)
		}
	}
	sort.Slice(scanners, func(i, j int) bool { return w.fname(scanners[i]) < w.fname(scanners[j]) })
	for _, fn := range scanners {
		nLoops := 0
		for _, b := range fn.Blocks {
			for _, sc := range b.Succs {
				if sc.Dominates(b) {
					nLoops++
				}
			}
		}
		lookBehind := ""
		nEsc := 0
		eachInstr(fn, func(in ssa.Instruction) {
			bo, ok := in.(*ssa.BinOp)
			if !ok || (bo.Op != token.EQL && bo.Op != token.NEQ) {
				return
			}
			var other ssa.Value
			if k, isK := constInt(bo.Y); isK && k == 92 {
				other = bo.X
			} else if k, isK := constInt(bo.X); isK && k == 92 {
				other = bo.Y
			}
			if other == nil {
				return
			}
			var idx ssa.Value
			switch e := strip(other).(type) {
			case *ssa.Index:
				idx = e.Index
			case *ssa.Lookup:
				idx = e.Index
			default:
				return
			}
			nEsc++
			if sub, isB := strip(idx).(*ssa.BinOp); isB && sub.Op == token.SUB {
				if k, isK := constInt(sub.Y); isK && k == 1 {
					lookBehind = w.ipos(in)
				}
			}
		})
		if nEsc == 0 {
			continue // a helper that only calls the scanner
		}
		c.check(!(lookBehind != "" && nLoops <= 1), rule, w.fname(fn)+"/quoted-pair", w.pos(fn.Pos()), "a backslash is judged where it stands", w.fname(fn)+" decides whether a quote is escaped from the single byte before it (at "+lookBehind+"): a display name that ends in an escaped backslash, \"Ann \\\\\" <sip:ann@example.com>, never closes for it - the '<' is not found and the header is decoded as a bare addr-spec or not at all")
	}
}

// comparesWithByte: fn, or a package function it calls, compares a byte with the constant b.
func comparesWithByte(w *World, fn *ssa.Function, b byte, d int) bool {
	if fn == nil || fn.Blocks == nil || d > 3 {
		return false
	}
	res := false
	eachInstr(fn, func(in ssa.Instruction) {
		if bo, ok := in.(*ssa.BinOp); ok && (bo.Op == token.EQL || bo.Op == token.NEQ) {
			for _, o := range []ssa.Value{bo.X, bo.Y} {
				if k, isK := constInt(o); isK && k == int64(b) {
					if bt, isB := o.Type().Underlying().(*types.Basic); isB && bt.Info()&types.IsInteger != 0 {
						res = true
					}
				}
			}
		}
		if call, ok := in.(*ssa.Call); ok {
			if callee := call.Call.StaticCallee(); callee != nil && w.isMain(callee) && callee != fn && comparesWithByte(w, callee, b, d+1) {
				res = true
			}
		}
	})
	return res
}

func c14HostGrammar(c *Ctx) {
	w := c.w
	rule := "decoder-grammar"
	for _, name := range []string{"parseHostPort", "parseViaParam"} {
		f := c.fn(rule, name)
		if f == nil {
			continue
		}
		splitsAtColon := false
		bracketAware := false
		var site ssa.Instruction
		for _, cs := range w.callsIn(f) {
			if !strings.HasPrefix(cs.Name, "strings.") && !strings.HasPrefix(cs.Name, "bytes.") && !strings.HasPrefix(cs.Name, "net.") {
				continue
			}
			if cs.Name == "net.SplitHostPort" {
				bracketAware = true
			}
			for _, a := range cs.In.Common().Args {
				b, ok := constByte(a)
				if !ok {
					if s, isS := constString(a); isS && (strings.Contains(s, "[") || strings.Contains(s, "]")) {
						bracketAware = true
					}
					continue
				}
				switch b {
				case ':':
					if indexFamily[cs.Name] || cs.Name == "strings.Split" || cs.Name == "strings.SplitN" || cs.Name == "strings.Cut" {
						splitsAtColon = true
						site = cs.In
					}
				case '[', ']':
					bracketAware = true
				}
			}
		}
		eachInstr(f, func(in ssa.Instruction) {
			if bo, ok := in.(*ssa.BinOp); ok && (bo.Op == token.EQL || bo.Op == token.NEQ) {
				for _, o := range []ssa.Value{bo.X, bo.Y} {
					if k, isK := constInt(o); isK && (k == '[' || k == ']') {
						bracketAware = true
					}
				}
			}
		})
		if !splitsAtColon {
			c.undecided(rule, name+"/ipv6-reference", w.pos(f.Pos()), name+" does not separate host and port at ':' in a recognised way")
			continue
		}
		c.check(bracketAware, rule, name+"/ipv6-reference", w.ipos(site), "host and port are separated with regard to a bracketed IPv6 reference", name+" separates host and port at a ':' without looking for the brackets of an IPv6 reference: a host such as [2001:db8::1] cannot be decoded (the text after the first ':' is taken for the port)")
	}
}

// sureEmits: instruction in writes text containing b whenever it executes (constant text of a write call, or a call to
// a package function that does so on every path).
func (w *World) sureEmits(in ssa.Instruction, b byte, depth int) bool {
	call, ok := in.(ssa.CallInstruction)
	if !ok {
		return false
	}
	name := w.calleeName(call)
	has := func(s string) bool { return strings.IndexByte(s, b) >= 0 }
	switch {
	case isFmtPrintf(name):
		format, args, ok := w.fmtArgs(call)
		if !ok {
			return false
		}
		if s, isC := constString(format); isC {
			lits := map[byte]bool{}
			literalBytes(s, lits)
			if lits[b] {
				return true
			}
		}
		for _, a := range args {
			if a == nil {
				continue
			}
			if s, isC := constString(a); isC && has(s) {
				return true
			}
		}
		return false
	case name == "io.WriteString" || strings.HasSuffix(name, ").WriteString") || strings.HasSuffix(name, ").WriteByte") || name == "fmt.Fprint":
		for _, a := range call.Common().Args {
			for _, v := range append(varargs(a), a) {
				if v == nil {
					continue
				}
				if s, isC := constString(v); isC && has(s) {
					return true
				}
				if isStringType(v.Type()) { // a concatenation: any literal segment of it
					for _, p := range w.evalStr(v, senv{}, 0).parts {
						if p.Leaf == nil && has(p.Lit) {
							return true
						}
					}
				}
				if k, isK := constInt(v); isK && byte(k) == b {
					if bt, ok := v.Type().Underlying().(*types.Basic); ok && bt.Kind() == types.Uint8 {
						return true
					}
				}
			}
		}
		return false
	}
	callee := call.Common().StaticCallee()
	if callee == nil || !w.isMain(callee) || callee.Blocks == nil || depth > 2 {
		return false
	}
	isRet := func(x ssa.Instruction) bool { _, ok := x.(*ssa.Return); return ok }
	return !canReach(entryPt(callee), nil, isRet, func(x ssa.Instruction) bool { return w.sureEmits(x, b, depth+1) })
}

// c14RequiredSeparators: where a decoder refuses an element that lacks its separator (URI headers need name=value),
// the printer must write that separator for every element, not only for some (e.g. only when the value is non-empty):
// otherwise ?subject= is re-encoded as ?subject, which the decoder itself rejects.
func c14RequiredSeparators(c *Ctx) {
	w := c.w
	rule := "delimiter-agreement"
	for _, rq := range []struct {
		decoder, list, printer string
		sep                    byte
	}{{"parseUriHeader", "SIPURI.Headers", "(*SIPURI)._Write", '='}} {
		df, pf := c.fn(rule, rq.decoder), c.fn(rule, rq.printer)
		if df == nil || pf == nil {
			continue
		}
		// premise: the decoder appends an element only when the separator was found
		var idx *ssa.Call
		for _, cs := range w.callsIn(df) {
			if !indexFamily[cs.Name] {
				continue
			}
			if call, ok := cs.In.(*ssa.Call); ok && len(call.Call.Args) == 2 {
				if bb, isB := constByte(call.Call.Args[1]); isB && bb == rq.sep {
					idx = call
				}
			}
		}
		required := false
		for _, cs := range w.callsIn(df, "strings.Cut") {
			call, ok := cs.In.(*ssa.Call)
			if !ok {
				continue
			}
			if sp, isC := constString(call.Call.Args[1]); isC && sp == string(rq.sep) {
				found := func(a Atom) bool {
					e, isE := a.X.(*ssa.Extract)
					return a.Kind == "bool" && isE && e.Tuple == ssa.Value(call) && e.Index == 2
				}
				for _, st := range w.fieldStores(df, rq.list) {
					if w.requires(df, st, found, true) {
						required = true
					}
				}
			}
		}
		if idx != nil {
			found := func(a Atom) bool { return a.Kind == "ltk" && a.K == 0 && strip(a.X) == ssa.Value(idx) }
			for _, st := range w.fieldStores(df, rq.list) {
				if w.requires(df, st, found, false) {
					required = true
				}
			}
		}
		key := fmt.Sprintf("%s/%q-for-every-element", rq.list, string(rq.sep))
		if !required {
			c.okTrivial(rule, key, w.pos(df.Pos()), "the decoder accepts elements without the separator: nothing to require of the printer")
			continue
		}
		good := false
		for _, rl := range rangeLoops(pf) {
			if ref, _ := loadedField(rl.Over); ref != rq.list {
				continue
			}
			// one iteration: from the top of the body back to the loop head without passing a sure write of sep
			skip := canReach(blockStart(rl.Body), nil, isInstr(rl.If), func(x ssa.Instruction) bool { return w.sureEmits(x, rq.sep, 0) })
			good = !skip
		}
		c.check(good, rule, key, w.pos(pf.Pos()), "the printer writes the separator for every element", fmt.Sprintf("%s accepts only elements containing %q, but %s does not write %q for every element of %s (e.g. only when the value is non-empty): an element with an empty value is re-encoded in a form the decoder rejects", rq.decoder, string(rq.sep), rq.printer, string(rq.sep), rq.list))
	}
}

// accessor -> expected RFC 3261 parameter name
var accessorKeys = map[string]string{
	"(*ViaParam).GetBranch": "branch", "(*ViaParam).SetBranch": "branch", "(*ViaParam).GetReceived": "received", "(*ViaParam).SetReceived": "received",
	"(*ViaParam).GetRPort": "rport", "(*ViaParam).GetTTL": "ttl", "(*FromSpec).GetTag": "tag", "(*To).GetTag": "tag", "(*SIPURI).GetTransport": "transport",
}

func c14AccessorKeys(c *Ctx) {
	w := c.w
	rule := "accessor-keys"
	ruleKVFind(c, rule, kvAccessors...)
	for _, name := range sortedKeys(accessorKeys) {
		want := accessorKeys[name]
		fn := w.Fn(name)
		if fn == nil {
			if name == "(*ViaParam).GetTTL" {
				continue // unused helper may disappear
			}
			c.undecided(rule, name, "-", "accessor "+name+" not found")
			continue
		}
		c.Fns[name] = true
		got := []string{}
		for _, cs := range w.callsIn(fn) {
			if !w.isMain(cs.In.Common().StaticCallee()) {
				continue
			}
			if s, ok := constString(callArg(cs.In, 0)); ok {
				got = append(got, s)
			}
		}
		c.check(len(got) == 1 && got[0] == want, rule, name, w.pos(fn.Pos()), "uses parameter name "+want, fmt.Sprintf("%s must access the parameter named %q, it uses %v", name, want, got))
	}
	// setter of the From tag compares and creates the same key
	if st := w.Fn("(*FromSpec).SetTag"); st != nil {
		keys := map[string]bool{}
		eachInstr(st, func(in ssa.Instruction) {
			switch x := in.(type) {
			case *ssa.BinOp:
				if s, ok := constString(x.Y); ok {
					keys[s] = true
				}
			case *ssa.Store:
				if s, ok := constString(x.Val); ok {
					keys[s] = true
				}
			}
		})
		c.check(len(keys) == 1 && keys["tag"], rule, "(*FromSpec).SetTag", w.pos(st.Pos()), "uses parameter name tag", fmt.Sprintf("SetTag uses keys %v", sortedKeys(keys)))
	}
	// rport is asked for and written under the same key in the stamp
	if sr := w.Fn("(*Message).SetReceived"); sr != nil {
		keys := map[string]bool{}
		for _, cs := range w.callsIn(sr, "(*ViaParam).HasParam", "(*ViaParam).SetParam") {
			if s, ok := constString(callArg(cs.In, 0)); ok {
				keys[s] = true
			}
		}
		c.check(len(keys) == 1 && keys["rport"], rule, "(*Message).SetReceived/rport", w.pos(sr.Pos()), "HasParam and SetParam agree on rport", fmt.Sprintf("the stamp tests and writes different parameter names: %v", sortedKeys(keys)))
	}
	c.floor(rule, 9)
}

// list fields of decoded types
var decodedLists = []string{"Via.params", "ViaParam.Params", "Route.routeParams", "RouteParam.rrParam", "RecordRoute.recRoute", "RecRoute.rrParam",
	"FromSpec.params", "To.params", "SIPURI.Parameters", "SIPURI.Headers"}

// isAppendOne: v == append(load ref, one element)
func isAppendOne(v ssa.Value, ref string) bool {
	ap, ok := strip(v).(*ssa.Call)
	if !ok {
		return false
	}
	b, ok := ap.Call.Value.(*ssa.Builtin)
	if !ok || b.Name() != "append" {
		return false
	}
	if _, isL := isLoadOf(ap.Call.Args[0], ref); !isL {
		return false
	}
	return len(varargs(ap.Call.Args[1])) == 1
}

// accumulatedList: v is a list built up in a local variable (SSA values joined by phi nodes): every value it can stand
// for is the empty list or append(<another value of the same family>, one element). appended reports whether some
// value is such an append.
func accumulatedList(v ssa.Value) (ok bool, appended bool) {
	ok, appended, _ = accumulatedListFamily(v)
	return
}

// accumulatedListFamily is accumulatedList that also returns the values (phi nodes, appends, the empty list) involved.
func accumulatedListFamily(v ssa.Value) (ok bool, appended bool, family map[ssa.Value]bool) {
	return accumulatedListFamilyOn(v, "")
}

// accumulatedListFamilyOn: as accumulatedListFamily; with ref != "" the accumulation may also start from the list the
// field ref holds already (`x.params, err = appendAll(text, x.params)`: the chain appends to the field's own list).
func accumulatedListFamilyOn(v ssa.Value, ref string) (ok bool, appended bool, family map[ssa.Value]bool) {
	family = map[ssa.Value]bool{}
	var leaves []ssa.Value
	var walk func(x ssa.Value, d int)
	walk = func(x ssa.Value, d int) {
		x = strip(x)
		if family[x] || d > 8 {
			return
		}
		family[x] = true
		if ph, isPhi := x.(*ssa.Phi); isPhi {
			for _, e := range ph.Edges {
				walk(e, d+1)
			}
			return
		}
		leaves = append(leaves, x)
		if ap, isCall := x.(*ssa.Call); isCall {
			if b, isB := ap.Call.Value.(*ssa.Builtin); isB && b.Name() == "append" && len(ap.Call.Args) == 2 {
				walk(ap.Call.Args[0], d+1)
			}
		}
	}
	walk(v, 0)
	if len(leaves) == 0 {
		return false, false, family
	}
	for _, l := range leaves {
		if isEmptyList(l) {
			continue
		}
		if ref != "" {
			if _, isL := isLoadOf(l, ref); isL {
				continue
			}
		}
		ap, isCall := l.(*ssa.Call)
		if !isCall {
			return false, false, family
		}
		b, isB := ap.Call.Value.(*ssa.Builtin)
		if !isB || b.Name() != "append" || len(ap.Call.Args) != 2 || !family[strip(ap.Call.Args[0])] || len(varargs(ap.Call.Args[1])) != 1 {
			return false, false, family
		}
		appended = true
	}
	return true, appended, family
}

func c14OrderedLists(c *Ctx) {
	w := c.w
	rule := "ordered-lists"
	dec := decoderSet(w)
	for _, ref := range decodedLists {
		typ := strings.Split(ref, ".")[0]
		// decoders append
		nStores := 0
		for fn := range dec {
			for _, st := range w.fieldStores(fn, ref) {
				nStores++
				if isEmptyList(st.Val) {
					continue
				}
				if w.sizedFill(fn, st, ref) {
					c.ok(rule, ref+"<-"+w.fname(fn), w.ipos(st), "decoder sizes the list by its source and stores element i at index i for every source element")
					continue
				}
				if okAcc, _, _ := accumulatedListFamilyOn(st.Val, ref); okAcc {
					c.ok(rule, ref+"<-"+w.fname(fn), w.ipos(st), "decoder stores a list accumulated by appending one element at a time, in input order")
					continue
				}
				c.check(isAppendOne(st.Val, ref), rule, ref+"<-"+w.fname(fn), w.ipos(st), "decoder appends elements in input order", "decoder stores "+w.termKey(st.Val)+" into "+ref+": elements are not appended one by one in input order")
			}
		}
		// the decoder really fills the list: some decoder appends to it (a list that is only initialised loses every element)
		filled := false
		for fn := range dec {
			for _, st := range w.fieldStores(fn, ref) {
				if isAppendOne(st.Val, ref) || w.sizedFill(fn, st, ref) {
					filled = true
				}
				if okAcc, app, _ := accumulatedListFamilyOn(st.Val, ref); okAcc && app {
					filled = true
				}
			}
			for _, cs := range w.callsIn(fn) {
				// or through the type's own adder method
				if callee := cs.In.Common().StaticCallee(); callee != nil && w.isMain(callee) && callee.Signature.Recv() != nil && namedOf(callee.Signature.Recv().Type()) == typ {
					for _, st := range w.fieldStores(callee, ref) {
						if isAppendOne(st.Val, ref) {
							filled = true
						}
					}
				}
			}
		}
		c.check(filled, rule, ref+"/filled-by-decoder", "-", "some decoder appends the parsed elements", "no decoder ever appends to "+ref+": the list is only initialised, so every element of the received header is dropped on decode")
		// printers range forward over the same field
		ranged := false
		for _, pf := range printerFns(w, typ) {
			loadsList := false
			eachInstr(pf, func(in ssa.Instruction) {
				if fa, ok := in.(*ssa.FieldAddr); ok && fieldRef(fa) == ref {
					loadsList = true
				}
			})
			if !loadsList {
				continue
			}
			okRange := false
			for _, rl := range rangeLoops(pf) {
				if _, isL := isLoadOf(rl.Over, ref); isL {
					okRange = true
					ranged = true
					ex := rl.earlyExits()
					// leaving on a write error is fine; anything else skips elements
					for _, b := range ex {
						okExit := false
						if idom := b.Idom(); idom != nil {
							for _, a := range w.atomsOf(pf) {
								if a.Kind == "nil" {
									okExit = true
								}
							}
						}
						c.check(okExit, rule, ref+"/early-exit@"+w.fname(pf), w.pos(pf.Pos()), "loop is left early only on a write error", "printer leaves the element loop early")
					}
				}
			}
			// manual index access to the list outside a range loop = custom iteration order
			manual := false
			eachInstr(pf, func(in ssa.Instruction) {
				if ia, ok := in.(*ssa.IndexAddr); ok {
					if _, isL := isLoadOf(ia.X, ref); isL {
						isRangeIdx := false
						for _, rl := range rangeLoops(pf) {
							if ia.Index == rl.Idx {
								isRangeIdx = true
							}
						}
						// the one element of a list known to hold exactly one (a fast path around the loop)
						if k, isK := constInt(ia.Index); isK && k == 0 && !isRangeIdx {
							single := func(a Atom) bool {
								if a.Kind != "eqk" || a.K != 1 {
									return false
								}
								l, isLen := lenOf(a.X)
								if !isLen {
									return false
								}
								_, same := isLoadOf(l, ref)
								return same
							}
							if w.requires(pf, ia, single, true) {
								isRangeIdx = true
							}
						}
						if !isRangeIdx {
							manual = true
						}
					}
				}
			})
			c.check(okRange && !manual, rule, ref+"/printed-in-order@"+w.fname(pf), w.pos(pf.Pos()), "printer walks the list with a forward range loop", "printer "+w.fname(pf)+" does not walk "+ref+" with a plain forward range loop (custom index order or no loop)")
		}
		if !ranged {
			c.bad(rule, ref+"/printed", "-", "no printer walks "+ref+": its elements are not re-encoded")
		}
	}
	// copy() into a slice of constant length 0 copies nothing
	for fn := range dec {
		for _, cs := range w.callsIn(fn, "builtin:copy") {
			dst := cs.In.Common().Args[0]
			zero := isEmptyList(dst)
			if !zero {
				if r, _ := loadedField(dst); r != "" {
					for _, st := range w.fieldStores(fn, r) {
						if isEmptyList(st.Val) {
							zero = true
						}
					}
				}
			}
			c.check(!zero, rule, w.fname(fn)+"/copy-into-empty", w.ipos(cs.In), "copy destination has room", "copy() into a slice of length 0 moves no element: the decoded list stays empty")
		}
	}
	c.floor(rule, 14)
}

// isEmptyList: nil, make([]T, 0) (lowered to a MakeSlice or to a slice of a zero-length local array).
func isEmptyList(v ssa.Value) bool {
	v = strip(v)
	if isNilConst(v) {
		return true
	}
	if mk, ok := v.(*ssa.MakeSlice); ok {
		k, isK := constInt(mk.Len)
		return isK && k == 0
	}
	if sl, ok := v.(*ssa.Slice); ok {
		if al, ok := sl.X.(*ssa.Alloc); ok {
			if arr, ok := al.Type().Underlying().(*types.Pointer).Elem().Underlying().(*types.Array); ok {
				return arr.Len() == 0
			}
		}
	}
	return false
}

// makeLenOf: v is make([]T, n) (no separate capacity, or capacity n) and returns n.
func makeLenOf(v ssa.Value) (ssa.Value, bool) {
	v = strip(v)
	if ms, ok := v.(*ssa.MakeSlice); ok {
		if strip(ms.Cap) == strip(ms.Len) {
			return ms.Len, true
		}
		return ms.Len, true
	}
	return nil, false
}

// sizedFill: store st puts make([]T, len(src)) into list field ref of an object under construction, and a range loop
// over that same src stores element idx of that list exactly once on every path that reaches the next iteration
// (other paths leave the function with an error): the list ends up holding one element per source element, in order.
func (w *World) sizedFill(fn *ssa.Function, st *ssa.Store, ref string) bool {
	n, ok := makeLenOf(st.Val)
	if !ok {
		return false
	}
	src, isLen := lenOf(n)
	if !isLen {
		return false
	}
	fa, ok := st.Addr.(*ssa.FieldAddr)
	if !ok {
		return false
	}
	obj := strip(fa.X)
	for _, rl := range rangeLoops(fn) {
		if rl.IsMap || strip(rl.Over) != strip(src) {
			continue
		}
		var sites []ssa.Instruction
		eachInstr(fn, func(in ssa.Instruction) {
			es, ok := in.(*ssa.Store)
			if !ok || !rl.inLoop(es.Block()) {
				return
			}
			ia, ok := es.Addr.(*ssa.IndexAddr)
			if !ok || ia.Index != rl.Idx {
				return
			}
			if r, base := loadedField(ia.X); r == ref && strip(base) == obj {
				sites = append(sites, es)
			} else if strip(ia.X) == strip(st.Val) {
				sites = append(sites, es) // the list is filled through a local variable and stored into the field afterwards
			}
		})
		if len(sites) == 0 {
			continue
		}
		isSite := func(in ssa.Instruction) bool {
			for _, s := range sites {
				if in == s {
					return true
				}
			}
			return false
		}
		// from the top of the body, the loop head is not reachable without passing an element store ...
		if canReach(blockStart(rl.Body), nil, isInstr(rl.If), isSite) {
			continue
		}
		// ... and not through two of them
		twice := false
		for _, s := range sites {
			if canReach(at(s), nil, isSite, isInstr(rl.If)) {
				twice = true
			}
		}
		// the list field is not replaced after it was sized
		replaced := false
		for _, other := range w.fieldStores(fn, ref) {
			if other != st && canReach(at(st), nil, isInstr(other), nil) {
				replaced = true
			}
		}
		if !twice && !replaced {
			return true
		}
	}
	return false
}

// errIndexOfFn: position of the error result of fn, -1 if it has none.
func errIndexOfFn(fn *ssa.Function) int {
	res := fn.Signature.Results()
	for i := res.Len() - 1; i >= 0; i-- {
		if res.At(i).Type().String() == "error" {
			return i
		}
	}
	return -1
}
