package main

import (
	"fmt"
	"go/token"
	"strings"

	"golang.org/x/tools/go/ssa"
)

func init() {
	register(&propDef{ID: "C15", Run: runC15,
		Explain:    "Structural necessary conditions of 'dialog pins live as long as promised and are forgotten on termination', decided on SSA/CFG/value flow of /repo: (1) expiry-polarity: GetBackend returns the stored backend only on the edge expire > now and an error otherwise; the sweep removes an entry only on the edge expire < now; (2) max-lifetime: in AddBackend the lifetime added to now is the Expires-derived duration exactly on the edge where Expires (in seconds) exceeds the configured timeout, and the configured timeout on the other edge; the unit constant is one second; the pin stored is {backend argument, now+lifetime} under the dialog argument; (3) sweep-schedule: the value stored into nextCleanTime is now + the configured timeout and derives from no message data (neither the Expires parameter nor anything network-tainted); the sweep is called on the edge nextCleanTime < now of every AddBackend; (4) termination: RemoveDialog(GetDialog(msg)) under method == BYE in the backend-response handler and under method == NOTIFY and Subscription-State == terminated in the pin lookup; (5) timeout-wiring: DialogBasedBackend.timeout derives from the YAML field dialogTimeout (when > 0) or DEFAULT_DIALOG_TIMEOUT / 1200, times one second. Termination also holds a census: every RemoveDialog call of the package is one of those two, or drops the client transaction record (key GetClientTransaction) under IsFinalResponse; and the pin record (ExpireBackend.expire/.backend) is stored only when AddBackend makes it.",
		NotDecided: "anything that depends on elapsed time."})
}

// timeOrder interprets an atom built on (time.Time).After/Before: key true => earlier < later.
func (w *World) timeOrder(a Atom) (earlier, later ssa.Value, ok bool) {
	if a.Kind != "bool" {
		return nil, nil, false
	}
	c, _ := callOfResult(a.X)
	if c == nil {
		return nil, nil, false
	}
	switch w.calleeName(c) {
	case "(time.Time).After": // x.After(y): x > y
		return c.Call.Args[1], c.Call.Args[0], true
	case "(time.Time).Before": // x.Before(y): x < y
		return c.Call.Args[0], c.Call.Args[1], true
	}
	return nil, nil, false
}

func (w *World) isNow(v ssa.Value) bool {
	return w.resultOfCallTo(v, "time.Now", 0) != nil
}

// localDerives: intraprocedural backward slice of v reaches target (through operands only).
func localDerives(v ssa.Value, target func(ssa.Value) bool) bool {
	seen := map[ssa.Value]bool{}
	var walk func(ssa.Value) bool
	walk = func(x ssa.Value) bool {
		if x == nil || seen[x] {
			return false
		}
		seen[x] = true
		if target(x) {
			return true
		}
		in, ok := x.(ssa.Instruction)
		if !ok {
			return false
		}
		for _, op := range in.Operands(nil) {
			if *op != nil && walk(*op) {
				return true
			}
		}
		return false
	}
	return walk(v)
}

func runC15(c *Ctx) {
	c15Polarity(c)
	c15AddBackend(c)
	c15Termination(c)
	c15Wiring(c)
	// the method the transaction key and the BYE/INVITE tests rest on comes from the CSeq header (rule shared with C14/C17)
	ruleTokenSplitting(c, "termination", "ParseCSeq")
	// a pin is only honoured if the response that establishes it is attributed to its backend: one spelling of a backend's address (shared with C19/C04)
	c19Addresses(c, "max-lifetime")
	// a pin is worth its lifetime only if it names the backend that answered: the source address the backend index is
	// consulted with is the canonical text of the packet's source (shared with C07/C04)
	c07TrueSource(c)
}

func c15Polarity(c *Ctx) {
	w := c.w
	rule := "expiry-polarity"
	if f := c.fn(rule, "(*DialogBasedBackend).GetBackend"); f != nil {
		// returns of a stored backend
		n := 0
		for _, r := range returnsUnder(f, nil) {
			for _, v := range phiLeaves(r.Results[0]) {
				b, isL := isLoadOf(v, "ExpireBackend.backend")
				if !isL {
					if !isNilConst(v) {
						c.bad(rule, "GetBackend/result", w.ipos(r), "GetBackend returns "+w.termKey(v)+", expected the stored backend or nil")
					}
					continue
				}
				n++
				entry := cellSource(strip(b))
				fresh := func(a Atom) bool {
					e, l, ok := w.timeOrder(a)
					if !ok {
						return false
					}
					be, isE := isLoadOf(l, "ExpireBackend.expire")
					return isE && cellSource(strip(be)) == entry && w.isNow(e)
				}
				stale := func(a Atom) bool { // now > expire written the other way round: expire < now
					e, l, ok := w.timeOrder(a)
					if !ok {
						return false
					}
					be, isE := isLoadOf(e, "ExpireBackend.expire")
					return isE && cellSource(strip(be)) == entry && w.isNow(l)
				}
				good := w.requires(f, r, fresh, true) || w.requires(f, r, stale, false)
				c.check(good, rule, "GetBackend/honoured-only-unexpired", w.ipos(r), "a pin is honoured only while expire > now", "the stored backend is returned without the test expire > now (an expired pin is honoured, or the comparison is inverted)", "guard: value.expire.After(time.Now())")
				c.check(isNilConst(r.Results[1]), rule, "GetBackend/honoured-no-error", w.ipos(r), "a live pin is returned without error", "a live pin is returned together with an error")
				// entry is the lookup of the dialog argument
				okEntry := false
				if e, isE := entry.(*ssa.Extract); isE && e.Index == 0 {
					if lk, isLk := e.Tuple.(*ssa.Lookup); isLk && isParam(f, lk.Index, 1) {
						if mb, isM := isLoadOf(lk.X, "DialogBasedBackend.backends"); isM && isParam(f, mb, 0) {
							okEntry = true
						}
					}
				}
				c.check(okEntry, rule, "GetBackend/entry", w.ipos(r), "the entry is backends[dialog]", "the backend returned does not come from backends[dialog]")
			}
		}
		c.check(n == 1, rule, "GetBackend/one-hit-path", w.pos(f.Pos()), "one path returns the pinned backend", fmt.Sprintf("%d paths return a stored backend", n))
		// every other path returns an error
		for _, r := range returnsUnder(f, nil) {
			if allVals(phiLeaves(r.Results[0]), isNilConst) {
				c.check(allVals(phiLeaves(r.Results[1]), w.isFreshError), rule, "GetBackend/miss-is-error", w.ipos(r), "no pin / expired pin -> error", "a path without backend does not return an error")
			}
		}
	}
	if f := c.fn(rule, "(*DialogBasedBackend).cleanExpiredDialog"); f != nil {
		// deletions from dbb.backends happen only for keys marked under expire < now
		var marks []ssa.Instruction
		var cond func(Atom) bool
		for _, rl := range rangeLoops(f) {
			if _, isL := isLoadOf(rl.Over, "DialogBasedBackend.backends"); !isL || rl.Next == nil {
				continue
			}
			cond = func(a Atom) bool {
				e, l, ok := w.timeOrder(a)
				if !ok {
					return false
				}
				be, isE := isLoadOf(e, "ExpireBackend.expire")
				if !isE || !w.isNow(l) {
					return false
				}
				ex, isX := cellSource(strip(be)).(*ssa.Extract)
				return isX && ex.Tuple == ssa.Value(rl.Next)
			}
			for _, b := range f.Blocks {
				if !rl.inLoop(b) {
					continue
				}
				for _, in := range b.Instrs {
					switch x := in.(type) {
					case *ssa.MapUpdate:
						marks = append(marks, in)
					case *ssa.Call:
						if bi, ok := x.Call.Value.(*ssa.Builtin); ok && (bi.Name() == "delete" || bi.Name() == "append") {
							marks = append(marks, in)
						}
					}
				}
			}
		}
		for _, rl := range rangeLoops(f) {
			if _, isL := isLoadOf(rl.Over, "DialogBasedBackend.backends"); isL {
				c.check(len(rl.earlyExits()) == 0, rule, "cleanExpiredDialog/visits-every-entry", w.ipos(rl.If), "the sweep walks the whole table", "the sweep can stop before it has visited every entry (a cap or early exit): expired pins survive further sweep periods and the table can grow without bound")
			}
		}
		if cond == nil || len(marks) == 0 {
			c.bad(rule, "cleanExpiredDialog/shape", w.pos(f.Pos()), "the sweep does not walk dbb.backends marking/deleting entries")
		} else {
			for i, m := range marks {
				c.check(w.requires(f, m, cond, true), rule, fmt.Sprintf("cleanExpiredDialog/only-expired#%d", i+1), w.ipos(m), "an entry is swept only when expire < now", "the sweep removes an entry without the test expire < now (live pins are purged, or the comparison is inverted)", "guard: v.expire.Before(time.Now())")
			}
			// something is actually deleted from the pin table
			del := false
			for _, cs := range w.callsIn(f, "builtin:delete") {
				if _, isL := isLoadOf(cs.In.Common().Args[0], "DialogBasedBackend.backends"); isL {
					del = true
				}
			}
			c.check(del, rule, "cleanExpiredDialog/deletes", w.pos(f.Pos()), "expired entries are deleted from the table", "the sweep never deletes from dbb.backends: the table grows without bound")
		}
	}
	c.floor(rule, 6)
}

func c15AddBackend(c *Ctx) {
	w := c.w
	f := c.fn("max-lifetime", "(*DialogBasedBackend).AddBackend")
	if f == nil {
		return
	}
	rule := "max-lifetime"
	ruleNumberParsing(c, rule, 1, "(*Message).GetHeaderInt")
	isExp := func(v ssa.Value) bool { return isParam(f, v, 3) }
	isTimeout := func(v ssa.Value) bool {
		b, ok := isLoadOf(v, "DialogBasedBackend.timeout")
		return ok && isParam(f, b, 0)
	}
	// the pin store
	var pin *ssa.MapUpdate
	eachInstr(f, func(in ssa.Instruction) {
		if mu, ok := in.(*ssa.MapUpdate); ok {
			if b, isL := isLoadOf(mu.Map, "DialogBasedBackend.backends"); isL && isParam(f, b, 0) {
				pin = mu
			}
		}
	})
	if pin == nil {
		c.bad(rule, "AddBackend/pin-store", w.pos(f.Pos()), "AddBackend does not store into dbb.backends")
		return
	}
	var expireVal, backendVal ssa.Value
	pinVal := strip(pin.Value)
	if ld, isLd := pinVal.(*ssa.UnOp); isLd && ld.Op == token.MUL { // a pin stored by value: the literal is loaded whole
		pinVal = ld.X
	}
	if al, ok := pinVal.(*ssa.Alloc); ok {
		for _, r := range *al.Referrers() {
			if fa, ok := r.(*ssa.FieldAddr); ok {
				for _, rr := range *fa.Referrers() {
					if st, ok := rr.(*ssa.Store); ok {
						switch fieldRef(fa) {
						case "ExpireBackend.expire":
							expireVal = st.Val
						case "ExpireBackend.backend":
							backendVal = st.Val
						}
					}
				}
			}
		}
	}
	c.check(isParam(f, pin.Key, 1) && backendVal != nil && isParam(f, backendVal, 2), rule, "AddBackend/pin-content", w.ipos(pin), "backends[dialog] = {backend argument, expiry}", "the pin is not stored as backends[dialog] = {backend: backend argument, ...}")
	add := w.resultOfCallTo(expireVal, "(time.Time).Add", 0)
	if add == nil || !w.isNow(add.Call.Args[0]) {
		c.bad(rule, "AddBackend/expiry", w.ipos(pin), "the expiry stored with the pin is not time.Now().Add(lifetime)")
		return
	}
	life := add.Call.Args[1]
	// the comparison between Expires and the configured timeout
	var cmp *Atom
	paramIsGreaterWhenKey := false
	for _, a := range w.atomsOf(f) {
		if a.Kind != "lt" {
			continue
		}
		xe, ye := localDerives(a.X, isExp), localDerives(a.Y, isExp)
		xt, yt := localDerives(a.X, isTimeout), localDerives(a.Y, isTimeout)
		a := a
		if xt && ye && !xe && !yt { // timeout < expires
			cmp, paramIsGreaterWhenKey = &a, true
		} else if xe && yt && !xt && !ye { // expires < timeout
			cmp, paramIsGreaterWhenKey = &a, false
		}
	}
	if cmp == nil {
		c.bad(rule, "AddBackend/comparison", w.pos(f.Pos()), "AddBackend does not compare the Expires argument with the configured dialog timeout: the lifetime cannot be their maximum")
		return
	}
	// both sides in the same unit: float seconds vs Duration.Seconds(), or Duration vs Duration
	sel := func(a Atom) bool { return a.Key == cmp.Key }
	secondK := int64(1000000000)
	fromExpires := func(v ssa.Value) bool {
		// Duration(expireSeconds) * time.Second
		b, ok := strip(v).(*ssa.BinOp)
		if !ok || b.Op != token.MUL {
			return false
		}
		k, isK := constInt(b.Y)
		x := b.X
		if !isK {
			k, isK = constInt(b.X)
			x = b.Y
		}
		return isK && k == secondK && localDerives(x, isExp) && !localDerives(x, isTimeout)
	}
	greater := valuesUnder(f, life, w.under(assumeAtom(sel, paramIsGreaterWhenKey)))
	lesser := valuesUnder(f, life, w.under(assumeAtom(sel, !paramIsGreaterWhenKey)))
	c.check(allVals(greater, fromExpires), rule, "AddBackend/expires-wins-when-larger", w.ipos(add), "Expires > timeout -> lifetime = Expires seconds", "when the Expires value exceeds the configured timeout the lifetime is "+describe(w, greater)+", expected Duration(Expires) * time.Second (max, not min; unit = one second)")
	c.check(allVals(lesser, isTimeout), rule, "AddBackend/timeout-otherwise", w.ipos(add), "otherwise lifetime = configured timeout", "when the Expires value does not exceed the configured timeout the lifetime is "+describe(w, lesser)+", expected dbb.timeout")
	// unit agreement of the comparison: one side Seconds() of timeout and the other float64(expireSeconds), or both Durations
	unitsOK := false
	sides := []ssa.Value{cmp.X, cmp.Y}
	for i := range sides {
		t, e := sides[i], sides[1-i]
		if !localDerives(t, isTimeout) {
			continue
		}
		if sc := w.resultOfCallTo(t, "(time.Duration).Seconds", 0); sc != nil && isTimeout(sc.Call.Args[0]) {
			if cv, ok := strip(e).(*ssa.Convert); ok && isExp(cv.X) {
				unitsOK = true
			}
		}
		if isTimeout(t) && fromExpires(e) {
			unitsOK = true
		}
	}
	c.check(unitsOK, rule, "AddBackend/comparison-units", w.pos(f.Pos()), "both sides of the comparison are in seconds", "the comparison mixes units (Expires seconds against a Duration in nanoseconds)")

	// (3) sweep schedule
	rule = "sweep-schedule"
	g := w.Flow()
	sts := w.fieldStores(f, "DialogBasedBackend.nextCleanTime")
	if len(sts) != 1 {
		c.bad(rule, "AddBackend/nextCleanTime-store", w.pos(f.Pos()), fmt.Sprintf("expected one re-arming of nextCleanTime in AddBackend, found %d", len(sts)))
	} else {
		st := sts[0]
		c.check(!localDerives(st.Val, isExp), rule, "AddBackend/schedule-independent-of-expires", w.ipos(st), "the next sweep time does not depend on the message's Expires", "nextCleanTime is computed from the Expires value of the message being handled: one message with a huge Expires postpones every later sweep (Expires: 2147483647 -> 68 years)")
		tainted, wit := g.netTainted(st.Val)
		c.check(!tainted, rule, "AddBackend/schedule-untainted", w.ipos(st), "the next sweep time derives from no network input", "nextCleanTime derives from network input ("+wit+")")
		ac := w.resultOfCallTo(st.Val, "(time.Time).Add", 0)
		c.check(ac != nil && w.isNow(ac.Call.Args[0]) && isTimeout(ac.Call.Args[1]), rule, "AddBackend/schedule-is-now-plus-timeout", w.ipos(st), "nextCleanTime = now + configured timeout", "nextCleanTime is "+w.termKey(st.Val)+", expected time.Now().Add(dbb.timeout): sweeps must recur once per dialog-timeout period")
		due := func(a Atom) bool {
			e, l, ok := w.timeOrder(a)
			if !ok {
				return false
			}
			_, isN := isLoadOf(e, "DialogBasedBackend.nextCleanTime")
			return isN && w.isNow(l)
		}
		c.check(w.requires(f, st, due, true), rule, "AddBackend/rearm-when-due", w.ipos(st), "re-armed when due", "nextCleanTime is re-armed outside the edge nextCleanTime < now")
		sweeps := w.callsIn(f, "(*DialogBasedBackend).cleanExpiredDialog")
		if len(sweeps) != 1 {
			c.bad(rule, "AddBackend/sweep-call", w.pos(f.Pos()), fmt.Sprintf("expected one sweep call in AddBackend, found %d", len(sweeps)))
		} else {
			sw := sweeps[0].In
			c.check(w.requires(f, sw, due, true) && isParam(f, callArg(sw, -1), 0), rule, "AddBackend/sweep-when-due", w.ipos(sw), "the sweep runs when due", "the sweep call is not guarded by nextCleanTime < now")
			mn, _, _ := countSites(entryPt(f), w.under(assumeAtom(due, true)), isInstr(sw))
			c.check(mn == 1, rule, "AddBackend/sweep-always-when-due", w.ipos(sw), "every AddBackend with a due sweep runs it", "some path with a due sweep does not run it")
		}
	}
	// nobody else writes nextCleanTime except the constructor
	for _, fn := range w.All {
		if fn == f {
			continue
		}
		for _, st := range w.fieldStores(fn, "DialogBasedBackend.nextCleanTime") {
			fa := st.Addr.(*ssa.FieldAddr)
			_, fresh := strip(fa.X).(*ssa.Alloc)
			c.check(fresh, rule, w.fname(fn)+"/nextCleanTime-writer", w.ipos(st), "set at construction", "nextCleanTime is written outside AddBackend and the constructor")
		}
	}
	c.floor("max-lifetime", 4)
	c.floor("sweep-schedule", 6)
}

func c15Termination(c *Ctx) {
	w := c.w
	rule := "termination"
	ruleLookupBeforeForget(c, rule)
	check := func(fname string, msgParam int, method string, extra func(f *ssa.Function, rm ssa.CallInstruction) (bool, string)) {
		f := c.fn(rule, fname)
		if f == nil {
			return
		}
		var gm ssa.CallInstruction
		for _, cs := range w.callsIn(f, "(*Message).GetMethod") {
			if isParam(f, callArg(cs.In, -1), msgParam) {
				gm = cs.In
			}
		}
		if gm == nil {
			c.bad(rule, fname+"/GetMethod", w.pos(f.Pos()), "the method of the message is not consulted")
			return
		}
		isMethod := func(a Atom) bool { return a.Kind == "eqstr" && a.Str == method && isResultOf(a.X, gm, 0) }
		n := 0
		for _, cs := range w.callsIn(f, "(*DialogBasedBackend).RemoveDialog") {
			if !w.requires(f, cs.In, isMethod, true) {
				continue
			}
			n++
			key := fmt.Sprintf("%s/%s-removes-pin", fname, method)
			// argument is GetDialog(msg)
			gd := w.resultOfCallTo(callArg(cs.In, 0), "(*Message).GetDialog", 0)
			okArg := gd != nil && isParam(f, callArg(gd, -1), msgParam)
			b, isL := isLoadOf(callArg(cs.In, -1), "Proxy.dialogBasedBackends")
			c.check(okArg && isL && isParam(f, b, 0), rule, key+"/argument", w.ipos(cs.In), "removes the pin of this message's dialog from the proxy's pin table", "RemoveDialog is not applied to GetDialog(msg) on p.dialogBasedBackends")
			if extra != nil {
				ok, why := extra(f, cs.In)
				c.check(ok, rule, key+"/condition", w.ipos(cs.In), "condition holds", why)
			}
		}
		c.check(n == 1, rule, fname+"/"+method+"-site", w.pos(f.Pos()), "one removal site under method == "+method, fmt.Sprintf("expected exactly one RemoveDialog under method == %q in %s, found %d: the pin is not dissolved on termination", method, fname, n))
	}
	hdMsg := 3
	if hf := w.Fn("(*Proxy).handleDialog"); hf != nil {
		hdMsg = msgParamIndex(hf, 3)
	}
	check("(*Proxy).handleDialog", hdMsg, "BYE", func(f *ssa.Function, rm ssa.CallInstruction) (bool, string) {
		// on the BYE arm with a non-empty dialog the removal always happens
		gd := w.resultOfCallTo(callArg(rm, 0), "(*Message).GetDialog", 0)
		if gd == nil {
			return false, "no GetDialog"
		}
		nonEmpty := func(a Atom) bool { return a.Kind == "eqstr" && a.Str == "" && isResultOf(a.X, gd, 0) }
		// every BYE response from a known backend with a dialog identifier dissolves the pin, whatever its status:
		// all lookups succeed, the message is a response, the method is BYE, the dialog id is not empty
		as := []assumption{assumeAtom(nonEmpty, false), func(a Atom, _ *ssa.If) (bool, bool) {
			if ok, keyReq := w.requestAtom(a); ok {
				return true, !keyReq
			}
			return false, false
		}}
		for _, cs := range w.callsIn(f) {
			if errIndex(cs.In) >= 0 && w.isMain(cs.In.Common().StaticCallee()) {
				as = append(as, assumeAtom(errNil(cs.In), true))
			}
		}
		var gm ssa.CallInstruction
		for _, cs := range w.callsIn(f, "(*Message).GetMethod") {
			gm = cs.In
		}
		if gm != nil {
			as = append(as, assumeAtom(func(a Atom) bool { return a.Kind == "eqstr" && a.Str == "BYE" && isResultOf(a.X, gm, 0) }, true))
			as = append(as, assumeAtom(func(a Atom) bool { return a.Kind == "eqstr" && a.Str != "BYE" && isResultOf(a.X, gm, 0) }, false))
		}
		mn, mx, _ := countSites(entryPt(f), w.under(as...), isInstr(rm))
		return mn == 1 && mx == 1, fmt.Sprintf("for a BYE response from a backend with a dialog identifier the removal executes min=%d max=%d times: an extra condition (e.g. on the status code) keeps the pin of a terminated dialog", mn, mx)
	})
	check("(*Proxy).findBackendByDialog", 1, "NOTIFY", func(f *ssa.Function, rm ssa.CallInstruction) (bool, string) {
		var hv ssa.CallInstruction
		for _, cs := range w.callsIn(f, "(*Message).GetHeaderValue") {
			if s, ok := constString(callArg(cs.In, 0)); ok && s == "Subscription-State" {
				hv = cs.In
			}
		}
		if hv == nil {
			return false, "Subscription-State is not consulted"
		}
		term := func(a Atom) bool {
			if a.Kind != "eqstr" || a.Str != "terminated" {
				return false
			}
			return localDerives(a.X, func(v ssa.Value) bool { return isResultOf(v, hv, 0) })
		}
		if !w.requires(f, rm, term, true) {
			return false, "the NOTIFY removal is not guarded by Subscription-State == \"terminated\""
		}
		// and it always happens: for a NOTIFY whose dialog identifier is available and whose Subscription-State is
		// "terminated" the removal executes on every path, whether or not the pin was found (no early return - a cache hit,
		// say - passes it by)
		var gm, gd ssa.CallInstruction
		for _, cs := range w.callsIn(f, "(*Message).GetMethod") {
			gm = cs.In
		}
		for _, cs := range w.callsIn(f, "(*Message).GetDialog") {
			gd = cs.In
		}
		if gm == nil || gd == nil {
			return false, "method or dialog identifier is not consulted"
		}
		as := []assumption{assumeAtom(errNil(gm), true), assumeAtom(errNil(gd), true), assumeAtom(errNil(hv), true), assumeAtom(term, true),
			assumeAtom(func(a Atom) bool { return a.Kind == "eqstr" && a.Str == "NOTIFY" && isResultOf(a.X, gm, 0) }, true),
			assumeAtom(func(a Atom) bool { return a.Kind == "eqstr" && a.Str != "NOTIFY" && isResultOf(a.X, gm, 0) }, false),
			assumeAtom(func(a Atom) bool {
				e, isE := a.X.(*ssa.Extract)
				if a.Kind != "bool" || !isE || e.Index != 1 {
					return false
				}
				_, isTA := e.Tuple.(*ssa.TypeAssert)
				return isTA
			}, true)}
		mn, mx, _ := countSites(entryPt(f), w.under(as...), isInstr(rm))
		if mn != 1 || mx != 1 {
			return false, fmt.Sprintf("for a NOTIFY with Subscription-State terminated and a dialog identifier the removal executes min=%d max=%d times: a path (an early return on a cache hit, an extra condition) leaves the pin of a terminated subscription alive", mn, mx)
		}
		return true, ""
	})
	// the BYE removal concerns responses coming from a backend: handleDialog returns early for non-responses
	if f := w.Fn("(*Proxy).handleDialog"); f != nil {
		isResp := func(a Atom) bool { ok, _ := w.requestAtom(a); return ok }
		for _, cs := range w.callsIn(f, "(*DialogBasedBackend).RemoveDialog", "(*DialogBasedBackend).AddBackend") {
			c.check(w.requires(f, cs.In, isResp, false) || w.requires(f, cs.In, isResp, true), rule, "handleDialog/responses-only@"+cs.Name, w.ipos(cs.In), "pin changes in handleDialog concern responses only", "handleDialog changes pins without testing that the message is a response")
		}
	}
	// census: a pin is forgotten nowhere else. Every RemoveDialog call of the package is one of the three above - under
	// method == BYE in handleDialog, under NOTIFY/terminated in the pin lookup - or drops the client transaction record
	// (key: GetClientTransaction) when the transaction's final response has come.
	for _, fn := range w.All {
		nSites := 0
		for _, cs := range w.callsIn(fn, "(*DialogBasedBackend).RemoveDialog") {
			nSites++
			key := fmt.Sprintf("forget-census/%s#%d", w.fname(fn), nSites)
			ok := false
			methodIs := func(m string) func(Atom) bool {
				return func(a Atom) bool {
					if a.Kind != "eqstr" || a.Str != m {
						return false
					}
					cc, _ := callOfResult(a.X)
					return cc != nil && w.calleeName(cc) == "(*Message).GetMethod"
				}
			}
			switch w.fname(fn) {
			case "(*Proxy).handleDialog":
				ok = w.requires(fn, cs.In, methodIs("BYE"), true)
			case "(*Proxy).findBackendByDialog":
				ok = w.requires(fn, cs.In, methodIs("NOTIFY"), true)
			}
			if !ok {
				if w.resultOfCallTo(callArg(cs.In, 0), "(*Message).GetClientTransaction", 0) != nil {
					fin := func(a Atom) bool {
						cc, _ := callOfResult(a.X)
						return a.Kind == "bool" && cc != nil && w.calleeName(cc) == "(*Message).IsFinalResponse"
					}
					ok = w.requires(fn, cs.In, fin, true)
				}
			}
			c.check(ok, rule, key, w.ipos(cs.In), "a known termination: BYE answered, NOTIFY terminated, or the transaction record at its final response", "a dialog pin is dissolved at a site that is none of the terminations the property names (BYE answered by the backend, NOTIFY with Subscription-State terminated; the transaction record at the final response): requests that still belong to the dialog - after a refused re-INVITE, say - are load-balanced again")
		}
	}
	// the pin record is written once, when it is made: nothing shortens (or moves) a pin afterwards
	for _, ref := range []string{"ExpireBackend.expire", "ExpireBackend.backend"} {
		for _, fn := range w.All {
			for i, st := range w.fieldStores(fn, ref) {
				fa := st.Addr.(*ssa.FieldAddr)
				fresh := w.fname(fn) == "(*DialogBasedBackend).AddBackend" && w.isFreshValue(fn, strip(fa.X), 0)
				c.check(fresh, rule, fmt.Sprintf("pin-record/%s<-%s#%d", ref, w.fname(fn), i+1), w.ipos(st), "set when AddBackend makes the record", ref+" is rewritten after the pin was made (outside the construction in AddBackend): the lifetime AddBackend granted - the longer of the configured timeout and Expires - can be cut short, or the pin moved, by later traffic")
			}
		}
	}
	c.floor(rule, 11)
}

func c15Wiring(c *Ctx) {
	w := c.w
	rule := "timeout-wiring"
	g := w.Flow()
	fv := w.field("DialogBasedBackend", "timeout")
	if fv == nil {
		c.undecided(rule, "DialogBasedBackend.timeout", "-", "field not found")
		return
	}
	vals := g.fieldStores[fv]
	if len(vals) == 0 {
		c.bad(rule, "DialogBasedBackend.timeout/stores", "-", "the dialog timeout is never set")
		return
	}
	res := g.backward(vals, nil)
	sawConfig := false
	var bad []string
	for _, l := range res.leafList() {
		body := l[1:]
		switch {
		case strings.HasPrefix(body, "field-root:"):
			path := strings.TrimPrefix(body, "field-root:")
			tag, exported, ok := yamlTagOfPath(w, path)
			if ok && strings.Split(tag, ",")[0] == "dialogTimeout" && exported {
				sawConfig = true
			} else {
				bad = append(bad, path)
			}
		case body == "const:1200", body == "const:1000000000", body == "const:\"DEFAULT_DIALOG_TIMEOUT\"", body == "lib:os.LookupEnv", body == "lib:strconv.Atoi":
		case strings.HasPrefix(body, "const:"):
			bad = append(bad, body)
		default:
			bad = append(bad, body)
		}
	}
	c.check(sawConfig && len(bad) == 0, rule, "DialogBasedBackend.timeout/roots", "-", "timeout derives from YAML dialogTimeout, DEFAULT_DIALOG_TIMEOUT or 1200, times one second", fmt.Sprintf("dialog timeout wiring is wrong: config field reached=%v, unexpected roots %v", sawConfig, bad), "roots: "+strings.Join(res.leafList(), ", "))
	// constructor: timeout = Duration(seconds) * time.Second
	if ctor := c.fn(rule, "NewDialogBasedBackend"); ctor != nil {
		good := false
		for _, st := range w.fieldStores(ctor, "DialogBasedBackend.timeout") {
			if b, ok := strip(st.Val).(*ssa.BinOp); ok && b.Op == token.MUL {
				k, isK := constInt(b.Y)
				x := b.X
				if !isK {
					k, isK = constInt(b.X)
					x = b.Y
				}
				if isK && k == 1000000000 && localDerives(x, func(v ssa.Value) bool { return isParam(ctor, v, 0) }) {
					good = true
				}
			}
		}
		c.check(good, rule, "NewDialogBasedBackend/unit", w.pos(ctor.Pos()), "timeout = seconds argument * time.Second", "the constructor does not store Duration(timeoutSeconds) * time.Second")
	}
	// startProxy: configured value used only when > 0
	if sp := c.fn(rule, "startProxy"); sp != nil {
		var np ssa.CallInstruction
		for _, cs := range w.callsIn(sp, "NewProxy") {
			np = cs.In
		}
		if np == nil {
			c.bad(rule, "startProxy/NewProxy", w.pos(sp.Pos()), "startProxy does not create proxies")
			return
		}
		arg := callArg(np, 1)
		var cv ssa.Value = arg
		if x, ok := strip(arg).(*ssa.Convert); ok {
			cv = x.X
		}
		isCfg := func(v ssa.Value) bool { r, _ := loadedField(v); return r == "ProxyConfig.DialogTimeout" }
		pos := func(a Atom) bool { return a.Kind == "ltk" && a.K == 1 && isCfg(a.X) }
		hi := valuesUnder(sp, cv, w.under(assumeAtom(pos, false)))
		lo := valuesUnder(sp, cv, w.under(assumeAtom(pos, true)))
		c.check(allVals(hi, isCfg), rule, "startProxy/configured-when-positive", w.ipos(np), "dialogTimeout > 0 -> configured value", "with a positive dialogTimeout the value passed on is "+describe(w, hi))
		c.check(allVals(lo, func(v ssa.Value) bool { return w.resultOfCallTo(v, "getDefaultDialogTimeout", 0) != nil }), rule, "startProxy/default-otherwise", w.ipos(np), "otherwise the default", "without a positive dialogTimeout the value passed on is "+describe(w, lo)+", expected getDefaultDialogTimeout()")
	}
	c.floor(rule, 4)
}

// cellSource: a table entry kept by value is copied into a local variable before its fields are read (`v := m[k]`):
// the entry is what was stored, whole and once, into that variable; any other value is its own source.
func cellSource(v ssa.Value) ssa.Value {
	al, ok := v.(*ssa.Alloc)
	if !ok || al.Heap || al.Referrers() == nil {
		return v
	}
	var src ssa.Value
	n := 0
	for _, r := range *al.Referrers() {
		if st, isSt := r.(*ssa.Store); isSt && st.Addr == ssa.Value(al) {
			src = st.Val
			n++
		}
	}
	if n == 1 {
		return strip(src)
	}
	return v
}
