package main

import (
	"fmt"
	"sort"
	"strings"

	"golang.org/x/tools/go/ssa"
)

func init() {
	register(&propDef{ID: "C16", Run: runC16,
		Explain:    "Structural necessary conditions of 'dialog identity is direction-independent and discriminating', decided by symbolic evaluation of the key-building code of /repo (string terms over SSA, helpers inlined): (1) dependency-set: on every successful path the key term has exactly the leaves Call-ID, From tag, To tag, From address, To address and nothing else of the message; addresses are rendered by ToString(false,false) for SIP URIs (whose parameter and header loops are guarded by those flags) and by String() otherwise, and are taken from the addr-spec, never the display name; (2) swap-symmetry: the two success paths build the same term with the From and To halves exchanged, and the comparison that selects the path compares those very halves (so a tie implies identical halves); (3) injective-join: every message-derived leaf of the key is rendered self-delimited (%q), so two different component tuples cannot give one key; (4) tag-errors: an error of either GetTag (and of every other component lookup) is returned, so a message lacking a tag has no dialog.",
		NotDecided: "URI equivalence beyond the included components (escaping, case of hosts)."})
}

func runC16(c *Ctx) {
	w := c.w
	f := c.fn("dependency-set", "(*Message).GetDialog")
	if f == nil {
		return
	}
	one := func(name string, recv func(ssa.Value) bool) ssa.CallInstruction {
		var out ssa.CallInstruction
		for _, cs := range w.callsIn(f, name) {
			if recv == nil || recv(callArg(cs.In, -1)) {
				if out != nil {
					return nil
				}
				out = cs.In
			}
		}
		return out
	}
	self := func(v ssa.Value) bool { return isParam(f, v, 0) }
	cid := one("(*Message).GetCallID", self)
	gf := one("(*Message).GetFrom", self)
	gt := one("(*Message).GetTo", self)
	if cid == nil || gf == nil || gt == nil {
		c.bad("dependency-set", "GetDialog/components", w.pos(f.Pos()), "GetDialog must read Call-ID, From and To of its own message exactly once each")
		return
	}
	ftag := one("(*FromSpec).GetTag", func(v ssa.Value) bool { return isResultOf(v, gf, 0) })
	ttag := one("(*To).GetTag", func(v ssa.Value) bool { return isResultOf(v, gt, 0) })
	fas := one("(*FromSpec).GetAddrSpec", func(v ssa.Value) bool { return isResultOf(v, gf, 0) })
	tas := one("(*To).GetAddrSpec", func(v ssa.Value) bool { return isResultOf(v, gt, 0) })
	if ftag == nil || ttag == nil || fas == nil || tas == nil {
		c.bad("dependency-set", "GetDialog/components", w.pos(f.Pos()), "GetDialog must read the tag and the addr-spec of From and of To exactly once each")
		return
	}
	var fad, tad ssa.CallInstruction
	for _, cs := range w.callsIn(f, "(*Message).getDialogAddr") {
		if isResultOf(callArg(cs.In, 0), fas, 0) {
			fad = cs.In
		}
		if isResultOf(callArg(cs.In, 0), tas, 0) {
			tad = cs.In
		}
	}
	if fad == nil || tad == nil {
		c.bad("dependency-set", "GetDialog/addresses", w.pos(f.Pos()), "the From/To addresses are not rendered through getDialogAddr(addr-spec)")
		return
	}
	role := func(v ssa.Value) string {
		switch {
		case isResultOf(v, cid, 0):
			return "callid"
		case isResultOf(v, ftag, 0):
			return "fromtag"
		case isResultOf(v, ttag, 0):
			return "totag"
		case isResultOf(v, fad, 0):
			return "fromaddr"
		case isResultOf(v, tad, 0):
			return "toaddr"
		}
		return "other(" + w.termKey(v) + ")"
	}
	swap := func(s string) string {
		s = strings.ReplaceAll(s, "{from", "{@@")
		s = strings.ReplaceAll(s, "{to", "{from")
		return strings.ReplaceAll(s, "{@@", "{to")
	}
	type succ struct {
		r     *ssa.Return
		parts []spart
		text  string
	}
	var succs []succ
	// the comparison that selects the order of the halves: the key is evaluated once under each of its outcomes, so that
	// two returns, one return fed by exchanged locals, or a conditional swap are judged alike
	var selAtoms []Atom
	for _, a := range w.atomsOf(f) {
		if a.Kind == "lt" && isStringType(a.X.Type()) {
			selAtoms = append(selAtoms, a)
		}
	}
	var sel *Atom
	if len(selAtoms) == 1 {
		sel = &selAtoms[0]
		for _, val := range []bool{true, false} {
			keep := w.under(assumeAtom(func(b Atom) bool { return b.Key == sel.Key }, val))
			for _, r := range returnsUnder(f, keep) {
				if len(r.Results) != 2 {
					continue
				}
				if !allVals(valuesUnder(f, r.Results[1], keep), isNilConst) {
					continue
				}
				for _, v := range valuesUnder(f, r.Results[0], keep) {
					sv := w.evalStrUnder(f, v, keep)
					succs = append(succs, succ{r, sv.parts, renderParts(sv.parts, role)})
				}
			}
		}
	} else {
		for _, r := range returnsUnder(f, nil) {
			if len(r.Results) != 2 || !isNilConst(r.Results[1]) {
				continue
			}
			for _, v := range phiLeaves(r.Results[0]) {
				sv := w.evalStr(v, senv{}, 0)
				succs = append(succs, succ{r, sv.parts, renderParts(sv.parts, role)})
			}
		}
	}
	if len(succs) == 0 {
		c.bad("dependency-set", "GetDialog/success-path", w.pos(f.Pos()), "GetDialog never returns a key")
		return
	}
	want := []string{"callid", "fromaddr", "fromtag", "toaddr", "totag"}
	for i, s := range succs {
		// (1) dependency set
		got := map[string]bool{}
		for _, p := range s.parts {
			if p.Leaf != nil {
				got[role(p.Leaf)] = true
			}
		}
		keys := sortedKeys(got)
		c.check(strings.Join(keys, ",") == strings.Join(want, ","), "dependency-set", fmt.Sprintf("GetDialog/key#%d/components", i+1), w.ipos(s.r),
			"key depends on exactly Call-ID, both tags and both addresses", "the dialog key is built from "+strings.Join(keys, ", ")+"; expected exactly "+strings.Join(want, ", ")+" (a missing component merges different dialogs, an extra one splits one dialog)", "term: "+s.text)
		// (3) injective join
		var loose []string
		for _, p := range s.parts {
			if p.Leaf != nil && p.Verb != "q" {
				loose = append(loose, role(p.Leaf)+":%"+p.Verb)
			}
		}
		c.check(len(loose) == 0, "injective-join", fmt.Sprintf("GetDialog/key#%d/join", i+1), w.ipos(s.r), "every component is rendered self-delimited (%q)",
			"the key joins message-derived components with a separator that may occur inside them ("+strings.Join(loose, ", ")+"): e.g. Call-ID a-b with tag c and Call-ID a with tag b-c give the same key", "term: "+s.text)
	}
	// (2) swap symmetry
	rule := "swap-symmetry"
	if len(succs) != 2 {
		c.undecided(rule, "GetDialog/two-orders", w.pos(f.Pos()), fmt.Sprintf("expected two success paths (the two orders of the halves), found %d: normalisation idiom not recognised", len(succs)))
	} else {
		c.check(swap(succs[0].text) == succs[1].text, rule, "GetDialog/same-term-halves-exchanged", w.ipos(succs[0].r), "both orders build the same term with From and To halves exchanged",
			"the two orderings are not mirror images: "+succs[0].text+" vs "+succs[1].text+" (a message seen in the other direction gets a different key)")
		// the selecting comparison
		if sel == nil {
			c.bad(rule, "GetDialog/selector", w.pos(f.Pos()), "no string comparison selects the order of the halves")
		} else {
			x := w.evalStr(sel.X, senv{}, 0)
			y := w.evalStr(sel.Y, senv{}, 0)
			tx, ty := renderParts(x.parts, role), renderParts(y.parts, role)
			rolesOf := func(ps []spart) string {
				m := map[string]bool{}
				for _, p := range ps {
					if p.Leaf != nil {
						m[role(p.Leaf)] = true
					}
				}
				k := sortedKeys(m)
				sort.Strings(k)
				return strings.Join(k, ",")
			}
			rx, ry := rolesOf(x.parts), rolesOf(y.parts)
			full := (rx == "fromaddr,fromtag" && ry == "toaddr,totag") || (rx == "toaddr,totag" && ry == "fromaddr,fromtag")
			c.check(full && swap(tx) == ty, rule, "GetDialog/selector-compares-halves", w.pos(f.Pos()), "the order is decided by comparing the complete halves",
				"the order of the halves is decided by comparing "+tx+" with "+ty+", not the complete (tag, address) halves: when the compared parts are equal (same URI on both sides) the order follows the direction of the message and the two directions get different keys")
		}
	}
	// (4) errors of every component lookup are returned
	rule = "tag-errors"
	ruleKVFind(c, rule, "(*FromSpec).GetParam", "(*To).GetParam")
	for _, call := range []ssa.CallInstruction{cid, gf, ftag, gt, ttag, fas, tas, fad, tad} {
		ok, why := w.errPropagated(f, call)
		c.check(ok, rule, "GetDialog/"+w.calleeName(call)+"@"+w.termKey(callArg(call, -1)), w.ipos(call), "failure yields no dialog", "a failing "+w.calleeName(call)+" does not make GetDialog fail: a message without that component is still attributed to a dialog ("+why+")")
		// and nothing is built before the check: the success returns require err == nil
		for i, s := range succs {
			c.check(w.requires(f, s.r, errNil(call), true), rule, fmt.Sprintf("GetDialog/key#%d-needs-%s@%s", i+1, w.calleeName(call), w.termKey(callArg(call, -1))), w.ipos(s.r), "a key is produced only when the component exists", "a key is produced although "+w.calleeName(call)+" failed")
		}
	}
	// tags are looked up under the RFC name (shared with C14.6)
	for _, n := range []string{"(*FromSpec).GetTag", "(*To).GetTag"} {
		if fn := w.Fn(n); fn != nil {
			good := false
			for _, cs := range w.callsIn(fn) {
				if s, ok := constString(callArg(cs.In, 0)); ok && s == "tag" {
					good = true
				}
			}
			c.check(good, rule, n+"/key", w.pos(fn.Pos()), "reads the parameter named tag", n+" does not read the parameter named \"tag\"")
		}
	}
	c16Addr(c)
	c16Siblings(c)
	c16URISplitOrder(c, "dependency-set")
	// header-name spelling (compact f:, t:, i: in any letter case) does not affect the attribution (shared with C17)
	c17Internals(c)
	c17CompactTable(c)
	ruleSplitRemainder(c, "tag-errors")
	c.floor("dependency-set", 2)
	c.floor("injective-join", 2)
	c.floor("tag-errors", 12)
}

func c16Addr(c *Ctx) {
	w := c.w
	rule := "dependency-set"
	if f := c.fn(rule, "(*Message).getDialogAddr"); f != nil {
		sip := func(a Atom) bool {
			if a.Kind != "bool" {
				return false
			}
			cc := w.resultOfCallTo(a.X, "(*AddrSpec).IsSIPURI", 0)
			return cc != nil && isParam(f, callArg(cc, -1), 1)
		}
		var gu ssa.CallInstruction
		for _, cs := range w.callsIn(f, "(*AddrSpec).GetSIPURI") {
			if isParam(f, callArg(cs.In, -1), 1) {
				gu = cs.In
			}
		}
		okSip := false
		if gu != nil {
			keep := w.under(assumeAtom(sip, true), assumeAtom(errNil(gu), true))
			for _, r := range returnsUnder(f, keep) {
				okSip = allVals(valuesUnder(f, r.Results[0], keep), func(v ssa.Value) bool {
					ts := w.resultOfCallTo(v, "(*SIPURI).ToString", 0)
					if ts == nil || !isResultOf(callArg(ts, -1), gu, 0) {
						return false
					}
					b0, ok0 := constBool(callArg(ts, 0))
					b1, ok1 := constBool(callArg(ts, 1))
					return ok0 && ok1 && !b0 && !b1
				})
			}
		}
		c.check(okSip, rule, "getDialogAddr/sip-uri-without-params", w.pos(f.Pos()), "SIP URIs are rendered without parameters and headers", "SIP URIs enter the dialog key through something other than ToString(false, false): URI parameters or headers would split one dialog into several")
		okAbs := false
		keep := w.under(assumeAtom(sip, false))
		for _, r := range returnsUnder(f, keep) {
			okAbs = allVals(valuesUnder(f, r.Results[0], keep), func(v ssa.Value) bool {
				ts := w.resultOfCallTo(v, "(*AddrSpec).String", 0)
				return ts != nil && isParam(f, callArg(ts, -1), 1)
			})
		}
		c.check(okAbs, rule, "getDialogAddr/other-uri-whole", w.pos(f.Pos()), "tel:/urn: URIs are rendered whole", "non-SIP URIs do not enter the key as their full text")
	}
	// flags of the URI printer really switch the parameter/header loops off
	if f := c.fn(rule, "(*SIPURI)._Write"); f != nil {
		for _, rl := range rangeLoops(f) {
			ref, _ := loadedField(rl.Over)
			var pi int
			switch ref {
			case "SIPURI.Parameters":
				pi = 2
			case "SIPURI.Headers":
				pi = 3
			default:
				continue
			}
			flag := func(a Atom) bool {
				return a.Kind == "bool" && pi < len(f.Params) && strip(a.X) == ssa.Value(f.Params[pi])
			}
			c.check(w.requires(f, rl.If, flag, true), rule, "_Write/"+ref+"-guarded-by-flag", w.ipos(rl.If), "printed only when the flag is set", ref+" is printed although the corresponding flag is false: it leaks into the dialog key")
		}
		// the key rendering prints stored components only: no accessor that substitutes a default (port, transport)
		acc := defaultingAccessors(w)
		for _, pf := range []*ssa.Function{f, w.Fn("(*SIPURI).ToString")} {
			if pf == nil {
				continue
			}
			for _, cs := range w.callsIn(pf) {
				for _, callee := range w.calleesOf(cs.In) {
					if d, ok := acc[callee]; ok {
						c.bad(rule, w.fname(pf)+"->"+w.fname(callee), w.ipos(cs.In), "the URI rendering used for the dialog key calls "+w.fname(callee)+" (default "+d+"): a default that depends on URI parameters leaks into the key, and an absent port merges with an explicit one")
					}
				}
			}
		}
		// ToString passes its flags through
		if ts := w.Fn("(*SIPURI).ToString"); ts != nil {
			good := false
			for _, cs := range w.callsIn(ts, "(*SIPURI)._Write") {
				good = isParam(ts, callArg(cs.In, 1), 1) && isParam(ts, callArg(cs.In, 2), 2) && isParam(ts, callArg(cs.In, -1), 0)
			}
			c.check(good, rule, "ToString/flags-forwarded", w.pos(ts.Pos()), "flags are forwarded in order", "ToString does not forward (withParams, withHeaders) to the URI printer in this order")
		}
	}
	// addr-spec, not display name
	for _, n := range []struct{ fn, own, na string }{{"(*FromSpec).GetAddrSpec", "FromSpec.addrSpec", "FromSpec.nameAddr"}, {"(*To).GetAddrSpec", "To.addrSpec", "To.nameAddr"}} {
		if f := c.fn(rule, n.fn); f != nil {
			good := true
			for _, r := range returnsUnder(f, nil) {
				for _, v := range phiLeaves(r.Results[0]) {
					if isNilConst(v) {
						continue
					}
					if _, ok := isLoadOf(v, n.own); ok {
						continue
					}
					if b, ok := isLoadOf(v, "NameAddr.Addr"); ok {
						if _, ok2 := isLoadOf(b, n.na); ok2 {
							continue
						}
					}
					good = false
				}
			}
			c.check(good, rule, n.fn+"/result", w.pos(f.Pos()), "returns the addr-spec (inside the name-addr when present)", n.fn+" returns something other than the addr-spec of the header")
		}
	}
}

// c16Siblings: From and To are decoded by sibling functions; the key is independent of the direction only if both
// cut the same pieces out of the same header text. The pieces handed to the sub-decoders are compared as terms.
func c16Siblings(c *Ctx) {
	w := c.w
	rule := "swap-symmetry"
	a, b := c.fn(rule, "ParseFromSpec"), c.fn(rule, "ParseTo")
	if a == nil || b == nil {
		return
	}
	sa := w.callShapes(a, "ParseAddrSpec", "ParseNameAddr", "ParseGenericParam", "strings.Split", "splitUnquoted")
	sb := w.callShapes(b, "ParseAddrSpec", "ParseNameAddr", "ParseGenericParam", "strings.Split", "splitUnquoted")
	same := len(sa) == len(sb) && len(sa) >= 4
	for i := range sa {
		if i < len(sb) && sa[i] != sb[i] {
			same = false
		}
	}
	var facts []string
	if !same {
		facts = append(facts, "ParseFromSpec: "+strings.Join(sa, " ; "), "ParseTo:       "+strings.Join(sb, " ; "))
	}
	c.check(same, rule, "ParseFromSpec~ParseTo/same-pieces", w.pos(b.Pos()), "From and To headers are cut into the same pieces", "ParseFromSpec and ParseTo hand different pieces of the same header text to the address / parameter decoders: the same endpoint yields a different address (or no dialog) depending on whether it appears in From or in To, so the two directions of a dialog get different keys", facts...)
}

// c16URISplitOrder: the SIP URI decoder first cuts the user part off at the first '@' (RFC 3261 lets the user part
// contain ';' and '?'), then, in what follows, the headers at the first '?' and the parameters at the first ';'. Each
// search takes the first occurrence. Any other order or a last-occurrence search makes text of one component end up in
// another: parameters the dialog key must ignore inside the user or host, or the host inside a parameter.
func c16URISplitOrder(c *Ctx, rule string) {
	w := c.w
	f := c.fn(rule, "ParseSipURI")
	if f == nil {
		return
	}
	// a split of a text at the first occurrence of a one-byte separator, spelled Index*+slicing or strings.Cut
	type split struct {
		call  *ssa.Call
		cut   bool
		first bool
	}
	find := func(b byte) *split {
		var out *split
		n := 0
		for _, cs := range w.callsIn(f) {
			call, ok := cs.In.(*ssa.Call)
			if !ok || len(call.Call.Args) < 2 {
				continue
			}
			bb, isB := constByte(call.Call.Args[1])
			if !isB || bb != b {
				continue
			}
			switch {
			case indexFamily[cs.Name]:
				out = &split{call: call, first: !strings.Contains(cs.Name, "Last")}
				n++
			case cs.Name == "strings.Cut":
				out = &split{call: call, cut: true, first: true}
				n++
			}
		}
		if n != 1 {
			return nil
		}
		return out
	}
	q, sc, at := find('?'), find(';'), find('@')
	if q == nil || sc == nil || at == nil {
		c.bad(rule, "ParseSipURI/split-order", w.pos(f.Pos()), "ParseSipURI does not search each of '?', ';' and '@' exactly once")
		return
	}
	src := func(k *split) ssa.Value { return strip(k.call.Call.Args[0]) }
	isBefore := func(k *split, v ssa.Value) bool {
		v = strip(v)
		if k.cut {
			return isResultOf(v, k.call, 0)
		}
		sl, ok := v.(*ssa.Slice)
		return ok && strip(sl.X) == src(k) && isZeroOrNil(sl.Low) && sl.High != nil && strip(sl.High) == ssa.Value(k.call)
	}
	isAfter := func(k *split, v ssa.Value) bool {
		v = strip(v)
		if k.cut {
			return isResultOf(v, k.call, 1)
		}
		sl, ok := v.(*ssa.Slice)
		return ok && strip(sl.X) == src(k) && sl.High == nil && sl.Low != nil && isPlusOne(sl.Low, k.call)
	}
	// text is the text k searched, with one side of the split removed when k found its separator
	derived := func(text ssa.Value, k *split, part func(*split, ssa.Value) bool) bool {
		ph, ok := strip(text).(*ssa.Phi)
		if !ok || len(ph.Edges) != 2 {
			return false
		}
		for i := 0; i < 2; i++ {
			if part(k, ph.Edges[i]) && strip(ph.Edges[1-i]) == src(k) {
				return true
			}
		}
		return false
	}
	// the text searched for '@' is the URI after its scheme, not yet cut anywhere
	uncut := func(text ssa.Value) bool {
		for _, lf := range phiLeaves(text) {
			// strings.CutPrefix(uri, "sip:") / strings.TrimPrefix(uri, "sips:")
			if cc, idx := callOfResult(lf); cc != nil && idx == 0 && (w.calleeName(cc) == "strings.CutPrefix" || w.calleeName(cc) == "strings.TrimPrefix") {
				if pfx, isS := constString(callArg(cc, 1)); isS && (pfx == "sip:" || pfx == "sips:") && isParam(f, callArg(cc, 0), 0) {
					continue
				}
				return false
			}
			sl, ok := lf.(*ssa.Slice)
			if !ok || !isParam(f, sl.X, 0) || sl.High != nil {
				return false
			}
			if k, isK := constInt(sl.Low); !isK || (k != 4 && k != 5) {
				return false
			}
		}
		return true
	}
	good := q.first && sc.first && at.first && uncut(src(at)) && derived(src(q), at, isAfter) && derived(src(sc), q, isBefore)
	c.check(good, rule, "ParseSipURI/split-order", w.ipos(at.call), "user part cut at the first '@', then headers at the first '?', then parameters at the first ';'", "ParseSipURI does not cut the user part off at the first '@' of the URI and then, in the rest, the headers at the first '?' and the parameters at the first ';': text of one component is decoded as another (the host inside a parameter value, parameters inside user or host), and what the dialog key must ignore leaks into the address it is built from")
}
