package main

import (
	"fmt"
	"go/types"
	"strings"

	"golang.org/x/tools/go/ssa"
)

func init() {
	register(&propDef{ID: "C17", Run: runC17,
		Explain:    "Structural necessary conditions of 'header spelling and list layout do not change behaviour', decided on SSA/value flow of /repo: (1) comparator-discipline: every string comparison, ordering, prefix/fold call or map lookup with an operand that derives (by value flow) from Header.name occurs inside the canonical comparator isSameHeader; (2) comparator-internals: the comparator answers true exactly on EqualFold(a,b) or (compact form of b registered and EqualFold(a, compact)), and the compact table is written and read through ToLower on both sides, in both directions; (3) compact-table: every constant header name that reaches the comparator and has a compact form in the RFC 3261/IANA registry is registered by init with that letter, and no registered pair contradicts the registry; (4) layout: the Via walk leaves its loop only by exhaustion and calls the processor for every matching decodable header; PopVia/PopRoute structure is shared with C02/C13. Layout also: every element of a comma-separated Via is trimmed before it is decoded (elements-trimmed); Route.routeParams is written by its decoder and by delete-first only; ordered-lists (shared with C14): the entries of one header line do not share storage.",
		NotDecided: "the metamorphic relation on full pipelines (destination and content equality between respelled variants)."})
}

// registry of compact forms (RFC 3261 and extensions, IANA sip-parameters "Header Fields").
var compactRegistry = map[string]string{
	"accept-contact": "a", "referred-by": "b", "content-type": "c", "request-disposition": "d", "content-encoding": "e",
	"from": "f", "call-id": "i", "reject-contact": "j", "supported": "k", "content-length": "l", "contact": "m",
	"identity-info": "n", "event": "o", "refer-to": "r", "subject": "s", "to": "t", "allow-events": "u", "via": "v",
	"session-expires": "x", "identity": "y",
}

func runC17(c *Ctx) {
	w := c.w
	ruleComparatorDiscipline(c, "comparator-discipline")
	c17Internals(c)
	ruleHeaderFind(c, "comparator-internals")
	c17CompactTable(c)
	// every Via entry of every header line teaches a route (rule "learning", shared with C06); it ends with the
	// layout walk of this property (c17Layout)
	c06Learning(c)
	ruleTokenSplitting(c, "layout", "parseViaParam", "ParseCSeq", "parseRequestLine", "parseStatusLine")
	rulePurePrinters(c, "layout")
	c01ValueEffects(c)
	_ = w
	// the entries of one header line do not share storage: an edit of the top entry (the stamp) must not reach into
	// its neighbours on the same line, which it cannot reach in the split layout (shared with C14/C02)
	c14OrderedLists(c)
}

func c17Internals(c *Ctx) {
	w := c.w
	rule := "comparator-internals"
	f := c.fn(rule, comparatorFn)
	if f == nil {
		return
	}
	p1, p2 := paramOf(f, 1), paramOf(f, 2)
	isP := func(v, p ssa.Value) bool { return strip(v) == p }
	var direct, viaCompact *ssa.Call
	var gc *ssa.Call
	for _, cs := range w.callsIn(f, "(*compactHeaderNames).GetCompact") {
		gc, _ = cs.In.(*ssa.Call)
	}
	for _, cs := range w.callsIn(f, "strings.EqualFold") {
		call := cs.In.(*ssa.Call)
		a, b := call.Call.Args[0], call.Call.Args[1]
		if (isP(a, p1) && isP(b, p2)) || (isP(a, p2) && isP(b, p1)) {
			direct = call
		} else if gc != nil {
			if (isResultOf(a, gc, 0) && (isP(b, p1) || isP(b, p2))) || (isResultOf(b, gc, 0) && (isP(a, p1) || isP(a, p2))) {
				viaCompact = call
			}
		}
	}
	c.check(direct != nil, rule, "isSameHeader/direct-fold", w.pos(f.Pos()), "direct test is strings.EqualFold(a, b)", "the comparator does not compare its two arguments with strings.EqualFold (case-insensitive)")
	c.check(gc != nil && viaCompact != nil, rule, "isSameHeader/compact-fold", w.pos(f.Pos()), "compact test is EqualFold(other, GetCompact(name))", "the comparator does not compare one argument case-insensitively with the registered compact/long form of the other")
	if gc != nil && viaCompact != nil {
		// the compact operand and the compared operand are different parameters
		arg := gc.Call.Args[1]
		other := viaCompact.Call.Args[0]
		if isResultOf(other, gc, 0) {
			other = viaCompact.Call.Args[1]
		}
		c.check(strip(arg) != strip(other), rule, "isSameHeader/compact-operands", w.ipos(viaCompact), "compact form of one name is compared with the other name", "the compact form is compared with the same argument it was derived from")
	}
	// result: true iff direct || (ok && compactFold)
	if direct != nil && gc != nil && viaCompact != nil {
		selD := func(a Atom) bool { return a.Kind == "bool" && strip(a.X) == ssa.Value(direct) }
		okSel := func(a Atom) bool {
			e, isE := a.X.(*ssa.Extract)
			return a.Kind == "bool" && isE && e.Tuple == ssa.Value(gc) && e.Index == 1
		}
		selC := func(a Atom) bool { return a.Kind == "bool" && strip(a.X) == ssa.Value(viaCompact) }
		type cs struct {
			name string
			as   []assumption
			want func(ssa.Value) bool
			desc string
		}
		isTrue := func(v ssa.Value) bool { b, ok := constBool(v); return ok && b }
		isFalse := func(v ssa.Value) bool { b, ok := constBool(v); return ok && !b }
		cases := []cs{
			{"direct-match", []assumption{assumeAtom(selD, true)}, isTrue, "true"},
			{"no-compact", []assumption{assumeAtom(selD, false), assumeAtom(okSel, false)}, isFalse, "false"},
			{"compact", []assumption{assumeAtom(selD, false), assumeAtom(okSel, true)}, func(v ssa.Value) bool {
				return strip(v) == ssa.Value(viaCompact) || (isTrue(v)) || isFalse(v)
			}, "the compact comparison's result"},
		}
		for _, k := range cases {
			keep := w.under(k.as...)
			good := true
			for _, r := range returnsUnder(f, keep) {
				vs := valuesUnder(f, r.Results[0], keep)
				if k.name == "compact" {
					// either the comparison value itself is returned, or constants guarded by it
					for _, v := range vs {
						switch {
						case strip(v) == ssa.Value(viaCompact):
						case isTrue(v):
							if !w.requires(f, r, selC, true) {
								good = false
							}
						case isFalse(v):
							if !w.requires(f, r, selC, false) {
								good = false
							}
						default:
							good = false
						}
					}
				} else if !allVals(vs, k.want) {
					good = false
				}
			}
			c.check(good, rule, "isSameHeader/result/"+k.name, w.pos(f.Pos()), "result is "+k.desc, "on case "+k.name+" the comparator does not return "+k.desc)
		}
	}
	// table normaliser
	if ac := c.fn(rule, "(*compactHeaderNames).AddCompact"); ac != nil {
		n := 0
		dirs := map[string]bool{}
		eachInstr(ac, func(in ssa.Instruction) {
			mu, ok := in.(*ssa.MapUpdate)
			if !ok {
				return
			}
			n++
			k := w.resultOfCallTo(mu.Key, "strings.ToLower", 0)
			v := w.resultOfCallTo(mu.Value, "strings.ToLower", 0)
			if k != nil && v != nil {
				kp, vp := strip(k.Call.Args[0]), strip(v.Call.Args[0])
				if kp == ssa.Value(ac.Params[1]) && vp == ssa.Value(ac.Params[2]) {
					dirs["name->compact"] = true
				}
				if kp == ssa.Value(ac.Params[2]) && vp == ssa.Value(ac.Params[1]) {
					dirs["compact->name"] = true
				}
			}
		})
		c.check(n == 2 && len(dirs) == 2, rule, "AddCompact/both-directions-lowercased", w.pos(ac.Pos()), "both directions are stored under lower-cased keys", fmt.Sprintf("AddCompact must store name->compact and compact->name with strings.ToLower on keys and values (found %d updates, directions %v)", n, sortedKeys(dirs)))
	}
	if gcf := c.fn(rule, "(*compactHeaderNames).GetCompact"); gcf != nil {
		good := false
		eachInstr(gcf, func(in ssa.Instruction) {
			if lk, ok := in.(*ssa.Lookup); ok {
				if k := w.resultOfCallTo(lk.Index, "strings.ToLower", 0); k != nil && strip(k.Call.Args[0]) == ssa.Value(gcf.Params[1]) {
					if _, isL := isLoadOf(lk.X, "compactHeaderNames.compactHeaders"); isL {
						good = true
					}
				}
			}
		})
		c.check(good, rule, "GetCompact/lowercased-key", w.pos(gcf.Pos()), "lookup key is ToLower(name)", "GetCompact does not look the table up with strings.ToLower(name)")
		// results are the lookup's value and ok
		for _, r := range returnsUnder(gcf, nil) {
			okR := len(r.Results) == 2
			if okR {
				e0, ok0 := strip(r.Results[0]).(*ssa.Extract)
				e1, ok1 := strip(r.Results[1]).(*ssa.Extract)
				okR = ok0 && ok1 && e0.Tuple == e1.Tuple && e0.Index == 0 && e1.Index == 1
				if okR {
					_, okR = e0.Tuple.(*ssa.Lookup)
				}
			}
			c.check(okR, rule, "GetCompact/result", w.ipos(r), "returns (value, ok) of the lookup", "GetCompact does not return the lookup's (value, ok)")
		}
	}
	c.floor(rule, 7)
}

// registeredCompacts extracts the constant AddCompact(name, letter) calls of init.
func registeredCompacts(w *World) (map[string]string, []ssa.Instruction) {
	out := map[string]string{}
	var sites []ssa.Instruction
	for _, fn := range w.All {
		for _, cs := range w.callsIn(fn, "(*compactHeaderNames).AddCompact") {
			n, ok1 := constString(callArg(cs.In, 0))
			l, ok2 := constString(callArg(cs.In, 1))
			if ok1 && ok2 {
				out[strings.ToLower(n)] = strings.ToLower(l)
				sites = append(sites, cs.In)
			}
		}
	}
	return out, sites
}

func c17CompactTable(c *Ctx) {
	w := c.w
	rule := "compact-table"
	reg, sites := registeredCompacts(w)
	if len(reg) == 0 {
		c.bad(rule, "init/AddCompact", "-", "no compact header names are registered")
		return
	}
	for _, s := range sites {
		// registration must happen in init (before any message is handled)
		c.check(strings.HasPrefix(w.fname(s.Parent()), "init"), rule, "AddCompact-site/"+w.termKey(callArg(s.(ssa.CallInstruction), 0)), w.ipos(s), "registered during package initialisation", "compact name registered outside init: lookups before that moment miss it")
	}
	for _, name := range sortedKeys(reg) {
		letter := reg[name]
		if want, ok := compactRegistry[name]; ok {
			c.check(want == letter, rule, "registered/"+name, "-", "matches the registry", fmt.Sprintf("header %s is registered with compact form %q, the registry says %q", name, letter, want))
		} else {
			// unknown long name: the letter must not be one of the registry's
			clash := ""
			for n, l := range compactRegistry {
				if l == letter {
					clash = n
				}
			}
			c.check(clash == "", rule, "registered/"+name, "-", "no clash", fmt.Sprintf("header %s is registered with compact form %q which the registry assigns to %s", name, letter, clash))
		}
	}
	names := headerNameConsts(w)
	if len(names) < 8 {
		c.undecided(rule, "queried-names", "-", fmt.Sprintf("only %d constant header names reach the comparator (expected >= 8): %v", len(names), names))
	}
	for _, n := range names {
		ln := strings.ToLower(n)
		if want, ok := compactRegistry[ln]; ok {
			c.check(reg[ln] == want, rule, "queried/"+n, "-", "queried header has its compact form registered", fmt.Sprintf("header %q is looked up by the proxy but its compact form %q is not registered (a message using the compact spelling is treated differently)", n, want))
		} else {
			c.okTrivial(rule, "queried/"+n, "-", "no compact form in the registry")
		}
	}
	c.floor(rule, 12)
}

func c17Layout(c *Ctx) {
	c17WalkLayout(c)
	c17ElementsTrimmed(c)
	if c.Prop != "C17" {
		return
	}
	// list entries are popped only through the message-level pops, which handle "one entry per line" and
	// "several entries on one line" alike (structure shared with C02.5 / C13.4)
	w := c.w
	rule := "layout"
	for _, sp := range []popSpec{viaPop, routePop} {
		if fn := w.Fn(sp.PopFn); fn != nil {
			if node := w.CG.Nodes[fn]; node != nil {
				for _, e := range node.In {
					cn := w.fname(e.Caller.Func)
					if !w.isMain(e.Caller.Func) {
						continue
					}
					c.check(cn == sp.Fn, rule, sp.PopFn+"<-"+cn, w.ipos(e.Site), "entry pop used by the message-level pop only", cn+" pops a list entry directly with "+sp.PopFn+" instead of "+sp.Fn+": when the entry is alone on its header line an empty header line is left behind, so behaviour depends on how the list is laid out")
				}
			}
		}
		checkPopOne(c, rule, sp)
	}
	// the entries of a received Route list live in as many per-line lists as the sender chose to write lines: the only
	// list-level edits that mean the same for every layout are "drop the first entry" (the pops) and what the decoder
	// builds. An entry added to one line's list (a new adder on Route) lands in a place that depends on the layout.
	ruleRouteSetEdits(c, rule)
	c17Views(c)
}

// ruleRouteSetEdits: the entry list of a Route header line is written by its decoder and by delete-first only (shared
// with C03/C13: the Route hop is the first entry of what is left; nothing else takes entries out of, or puts entries
// into, the route set).
func ruleRouteSetEdits(c *Ctx, rule string) {
	w := c.w
	ref := "Route.routeParams"
	allowed := map[string]bool{"ParseRoute": true, "(*Route).PopRouteParam": true, "NewRoute": true}
	n := 0
	for _, fn := range w.All {
		for i, st := range w.fieldStores(fn, ref) {
			n++
			name := w.fname(fn)
			fa := st.Addr.(*ssa.FieldAddr)
			ok := allowed[name] || (isEmptyList(st.Val) && w.isFreshValue(fn, strip(fa.X), 0))
			c.check(ok, rule, fmt.Sprintf("%s<-%s#%d", ref, name, i+1), w.ipos(st), "written by its decoder and by delete-first only", name+" edits the entry list of one Route header line ("+w.termKey(st.Val)+"): the same route set written on one line or spread over several lines ends up different (an entry appended 'as the last Route value' lands behind the first line only)")
		}
	}
	c.check(n >= 2, rule, ref+"/writers", "-", "decoder and pop found", fmt.Sprintf("only %d writers of %s found", n, ref))
}

// c17Views: what GetVia()/GetRoute() hand out is a view of ONE header line (the first one), valid until the list is
// edited. (a) stale-view: after a message-level pop (PopVia/PopRoute, which removes the whole line when its last entry
// goes) a view fetched before it is not used again - the next entry may live in the next line, so code that goes on
// with the old view treats `a, b` on one line and on two lines differently; (b) view-escape: such a view, or an entry
// taken from it, is not kept in a struct field, a package variable, a map or a channel - a remembered top entry is
// not reset by the in-place pop of a joined line although the removal of a whole line does reset it.
func c17Views(c *Ctx) {
	w := c.w
	rule := "layout"
	getters := map[string]string{"(*Message).GetVia": "(*Message).PopVia", "(*Message).GetRoute": "(*Message).PopRoute"}
	nViews := 0
	for _, fn := range w.All {
		if !w.isMain(fn) || fn.Blocks == nil {
			continue
		}
		for _, g := range w.callsIn(fn, "(*Message).GetVia", "(*Message).GetRoute") {
			gc, ok := g.In.(*ssa.Call)
			if !ok {
				continue
			}
			nViews++
			// the view value: result 0
			var view ssa.Value
			for _, r := range *gc.Referrers() {
				if e, isE := r.(*ssa.Extract); isE && e.Index == 0 {
					view = e
				}
			}
			if view == nil {
				continue
			}
			pops := siteInstrs(w.callsIn(fn, getters[g.Name]))
			if len(pops) == 0 {
				continue
			}
			k := 0
			for _, use := range *view.Referrers() {
				ui, isI := use.(ssa.Instruction)
				if !isI {
					continue
				}
				if _, dbg := use.(*ssa.DebugRef); dbg {
					continue
				}
				for _, pop := range pops {
					// pop ... use, without the fetch being executed again in between
					if canReach(at(pop), nil, isInstr(ui), isInstr(gc)) && canReach(at(gc), nil, isInstr(pop), nil) {
						k++
						c.bad(rule, fmt.Sprintf("%s/stale-view#%d", w.fname(fn), k), w.ipos(ui), "the header view fetched by "+g.Name+" at "+w.ipos(gc)+" is used again after "+getters[g.Name]+" at "+w.ipos(pop)+" without being fetched anew: the view denotes one header line, the pop may have removed that line, so several entries are handled only as far as they share the first line - the same list spread over several lines is treated differently")
					}
				}
			}
			if k == 0 {
				c.ok(rule, fmt.Sprintf("%s/view-not-used-after-pop@%s", w.fname(fn), w.ipos(gc)), w.ipos(gc), "no use of the view after a pop")
			}
		}
	}
	c.check(nViews >= 3, rule, "views/floor", "-", "header views found", fmt.Sprintf("only %d GetVia/GetRoute call sites found", nViews))
	// (b) escape
	viewType := func(t types.Type) bool {
		pt, ok := t.(*types.Pointer)
		if !ok {
			return false
		}
		nt, ok := pt.Elem().(*types.Named)
		if !ok || nt.Obj().Pkg() != w.Main.Pkg {
			return false
		}
		switch nt.Obj().Name() {
		case "Via", "ViaParam", "Route", "RouteParam":
			return true
		}
		return false
	}
	nEsc := 0
	for _, fn := range w.All {
		if !w.isMain(fn) || fn.Blocks == nil {
			continue
		}
		eachInstr(fn, func(in ssa.Instruction) {
			var val ssa.Value
			where := ""
			switch x := in.(type) {
			case *ssa.Store:
				switch a := x.Addr.(type) {
				case *ssa.FieldAddr:
					val, where = x.Val, "the field "+fieldRef(a)
				case *ssa.Global:
					val, where = x.Val, "the package variable "+a.Name()
				}
			case *ssa.MapUpdate:
				val, where = x.Value, "a map"
			case *ssa.Send:
				val, where = x.X, "a channel"
			}
			if val == nil || !viewType(val.Type()) {
				return
			}
			// decoders and constructors fill the objects they build; a view is what a Message getter handed out
			fromGetter := false
			localDerives(val, func(v ssa.Value) bool {
				if cc, ok := v.(*ssa.Call); ok {
					switch w.calleeName(cc) {
					case "(*Message).GetVia", "(*Message).GetRoute", "(*Via).GetParam", "(*Route).GetRouteParam", "(*Message).GetTopViaParam":
						fromGetter = true
						return true
					}
				}
				return false
			})
			if fromGetter {
				nEsc++
				c.bad(rule, fmt.Sprintf("%s/view-escape#%d", w.fname(fn), nEsc), w.ipos(in), "an entry of a header view handed out by a Message getter is kept in "+where+": the remembered object goes stale when the list is edited in place (the pop of one entry of a comma-joined line), while the removal of a whole line replaces it - joined and split layouts of the same list then behave differently")
			}
		})
	}
	c.okTrivial(rule, "views/no-escape", "-", "no header view is kept in a field, package variable, map or channel")
}

// c17ElementsTrimmed: the elements of a comma-separated Via line may be surrounded by blanks (COMMA = SWS "," SWS); a
// Via header line of its own has its blanks trimmed by the message parser. So that both layouts decode alike, ParseVia
// trims every element before it decodes it - otherwise "a;branch=1 , b" gives the branch "1 " and the split twin "1",
// and the transaction id depends on the layout. (Repaired as D28.)
func c17ElementsTrimmed(c *Ctx) {
	w := c.w
	rule := "layout"
	f := c.fn(rule, "ParseVia")
	if f == nil {
		return
	}
	n, good := 0, true
	for _, cs := range w.callsIn(f, "parseViaParam") {
		n++
		trimmed := false
		for _, v := range phiLeaves(callArg(cs.In, 0)) {
			cc, _ := callOfResult(v)
			if cc != nil && (w.calleeName(cc) == "strings.Trim" || w.calleeName(cc) == "strings.TrimSpace") {
				if w.calleeName(cc) == "strings.Trim" {
					if cut, ok := constString(cc.Call.Args[1]); !ok || !strings.Contains(cut, " ") || !strings.Contains(cut, "\t") {
						continue
					}
				}
				trimmed = true
			} else {
				trimmed = false
				break
			}
		}
		if !trimmed {
			good = false
		}
	}
	c.check(good && n >= 1, rule, "ParseVia/elements-trimmed", w.pos(f.Pos()), "every element of a Via list is trimmed before it is decoded", "ParseVia decodes the elements of a comma-separated Via line without trimming the blanks around them: Via: a;branch=1 , b keeps the blank in the branch (\"1 \"), the same list written on two lines does not - the transaction id, and with it the connection a response returns on, depends on the layout")
}

func c17WalkLayout(c *Ctx) {
	w := c.w
	rule := "layout"
	f := c.fn(rule, "(*Message).ForEachVia")
	if f == nil {
		return
	}
	var loop *rangeLoop
	for _, rl := range rangeLoops(f) {
		if _, ok := isLoadOf(rl.Over, "Message.headers"); ok {
			loop = rl
		}
	}
	if loop == nil {
		c.bad(rule, "ForEachVia/loop", w.pos(f.Pos()), "ForEachVia does not range over the message's header list")
		return
	}
	ex := loop.earlyExits()
	c.check(len(ex) == 0, rule, "ForEachVia/no-early-exit", w.pos(f.Pos()), "the walk ends only when the header list is exhausted", fmt.Sprintf("the Via walk can leave its loop early (%d exit edges): later Via header lines are not visited", len(ex)))
	// comparator test on the element's name with "Via"
	var cmpCall *ssa.Call
	for _, cs := range w.callsIn(f, comparatorFn) {
		call := cs.In.(*ssa.Call)
		a0, a1 := callArg(call, 0), callArg(call, 1)
		b, ok := isLoadOf(a0, "Header.name")
		s, isS := constString(a1)
		if ok && loop.isElem(b) && isS && s == "Via" {
			cmpCall = call
		}
	}
	if cmpCall == nil {
		c.bad(rule, "ForEachVia/match", w.pos(f.Pos()), "headers are not selected with the comparator against \"Via\"")
		return
	}
	same := func(a Atom) bool { return a.Kind == "bool" && strip(a.X) == ssa.Value(cmpCall) }
	// processor calls
	var procs []ssa.Instruction
	for _, cs := range w.callsIn(f, "dyn") {
		if strip(cs.In.Common().Value) == ssa.Value(f.Params[1]) {
			procs = append(procs, cs.In)
		}
	}
	c.check(len(procs) >= 1, rule, "ForEachVia/processor-called", w.pos(f.Pos()), "the processor is called", "the processor is never called")
	// case A: value already *Via -> called; case B: string decodable -> called
	var viaAssert, strAssert *ssa.TypeAssert
	eachInstr(f, func(in ssa.Instruction) {
		if ta, ok := in.(*ssa.TypeAssert); ok && ta.CommaOk {
			switch ta.AssertedType.String() {
			case "*" + repoPkgPath + ".Via":
				viaAssert = ta
			case "string":
				strAssert = ta
			}
		}
	})
	okOf := func(ta *ssa.TypeAssert) func(Atom) bool {
		return func(a Atom) bool {
			e, isE := a.X.(*ssa.Extract)
			return a.Kind == "bool" && isE && e.Tuple == ssa.Value(ta) && e.Index == 1
		}
	}
	if viaAssert != nil {
		keep := w.under(assumeAtom(same, true), assumeAtom(okOf(viaAssert), true))
		mn, _, _ := countSites(blockStart(loop.Body), func(b *ssa.BasicBlock, i int) bool {
			return keep(b, i) && b != loop.Header
		}, inSet(procs))
		c.check(mn >= 1, rule, "ForEachVia/decoded-visited", w.ipos(viaAssert), "every already-decoded Via header is visited", "a matching, already decoded Via header can be skipped")
	} else {
		c.bad(rule, "ForEachVia/decoded-visited", w.pos(f.Pos()), "already-decoded Via values are not handled")
	}
	var pv *ssa.Call
	for _, cs := range w.callsIn(f, "ParseVia") {
		pv = cs.In.(*ssa.Call)
	}
	if strAssert != nil && pv != nil {
		as := []assumption{assumeAtom(same, true), assumeAtom(okOf(strAssert), true), assumeAtom(errNil(pv), true)}
		if viaAssert != nil {
			as = append(as, assumeAtom(okOf(viaAssert), false))
		}
		keep := w.under(as...)
		mn, mx, _ := countSites(blockStart(loop.Body), func(b *ssa.BasicBlock, i int) bool {
			return keep(b, i) && b != loop.Header
		}, inSet(procs))
		c.check(mn == 1 && mx == 1, rule, "ForEachVia/raw-visited", w.ipos(pv), "every raw decodable Via header is decoded and visited once", fmt.Sprintf("a matching raw Via header is visited min=%d max=%d times", mn, mx))
	} else {
		c.bad(rule, "ForEachVia/raw-visited", w.pos(f.Pos()), "raw (string) Via values are not decoded and visited")
	}
	// non-matching headers are not visited
	for i, p := range procs {
		c.check(w.requires(f, p, same, true), rule, fmt.Sprintf("ForEachVia/only-via#%d", i+1), w.ipos(p), "only Via headers are visited", "the processor can be called for a header that is not Via")
	}
	c.floor(rule, 5)
}
