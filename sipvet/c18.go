package main

import (
	"fmt"
	"go/ast"
	"go/parser"
	"go/token"
	"go/types"
	"strings"

	"golang.org/x/tools/go/ssa"
	"golang.org/x/tools/go/ssa/ssautil"
)

func init() {
	register(&propDef{ID: "C18", Run: runC18,
		Explain:    "Structural necessary conditions of 'static route lookup has fixed precedence and a stable answer', decided on SSA/CFG of /repo: (1) precedence: in FindRoute the exact-hit return is guarded by the comma-ok of items[dest] and returns that item's protocol/host/port; the wildcard scan is reachable only when the exact lookup missed; the `default` lookup happens only after the scan is exhausted; the error return comes last; a scan hit requires matched==true and returns the matching item's fields; (2) deterministic: no function in the package leaves a range over a map early with a result that depends on the iteration variables (a built-in positive example must be recognised on every run); (3) next-hop-port: NewPreRouteItem splits at the last ':', an explicit port is Atoi of the remainder with the error propagated, otherwise 5061 only under EqualFold(\"tls\", protocol) and 5060 else; (4) pattern-translation: every regular expression used for static routes is produced by a translator that anchors the pattern (^...$) and escapes '.' before expanding '*', and is matched against the looked-up host.",
		NotDecided: "regular-expression semantics for patterns containing other metacharacters (outside the stated domain)."})
}

// mapOrderExits reports early exits of map range loops whose returned/escaping values depend on the iteration variables.
func mapOrderExits(fn *ssa.Function) []ssa.Instruction {
	var out []ssa.Instruction
	for _, rl := range rangeLoops(fn) {
		if !rl.IsMap || rl.Next == nil {
			continue
		}
		exits := rl.earlyExits()
		if len(exits) == 0 {
			continue
		}
		// values derived (intraprocedurally) from the iteration tuple
		derived := map[ssa.Value]bool{rl.Next: true}
		changed := true
		for changed {
			changed = false
			for _, b := range fn.Blocks {
				for _, in := range b.Instrs {
					v, ok := in.(ssa.Value)
					if !ok || derived[v] {
						continue
					}
					for _, op := range in.Operands(nil) {
						if *op != nil && derived[*op] {
							derived[v] = true
							changed = true
							break
						}
					}
				}
			}
		}
		seen := map[ssa.Instruction]bool{}
		add := func(in ssa.Instruction) {
			if !seen[in] {
				seen[in] = true
				out = append(out, in)
			}
		}
		_ = exits
		for _, b := range fn.Blocks {
			if len(b.Instrs) == 0 {
				continue
			}
			// a return reached by leaving the loop early that returns a derived value
			if rl.inExitRegion(b) {
				if r, ok := b.Instrs[len(b.Instrs)-1].(*ssa.Return); ok {
					for _, res := range r.Results {
						if derived[res] {
							add(r)
							break
						}
					}
				}
			}
			// a phi after the loop fed, on an early-exit edge, by a derived value (break with a captured result)
			if !rl.inLoop(b) {
				for _, in := range b.Instrs {
					p, ok := in.(*ssa.Phi)
					if !ok {
						break
					}
					for i, pred := range b.Preds {
						if (rl.inLoop(pred) && pred != rl.Header || rl.inExitRegion(pred)) && derived[p.Edges[i]] {
							add(p)
						}
					}
				}
			}
		}
	}
	return out
}

const mapOrderSnippet = `package snippet

func pick(m map[string]int, want int) string {
	for k, v := range m {
		if v >= want {
			return k
		}
	}
	return ""
}

func count(m map[string]int) int {
	n := 0
	for _, v := range m {
		if v > 0 {
			n++
		}
	}
	return n
}
`

// buildSnippet compiles an import-free snippet to SSA with the same go/ssa builder.
func buildSnippet(src string) (*ssa.Package, error) {
	fset := token.NewFileSet()
	f, err := parser.ParseFile(fset, "snippet.go", src, 0)
	if err != nil {
		return nil, err
	}
	pkg := types.NewPackage("snippet", "snippet")
	sp, _, err := ssautil.BuildPackage(&types.Config{}, fset, pkg, []*ast.File{f}, ssa.InstantiateGenerics)
	return sp, err
}

func runC18(c *Ctx) {
	w := c.w
	c18Precedence(c)
	// (2) deterministic, package-wide
	rule := "deterministic"
	sp, err := buildSnippet(mapOrderSnippet)
	if err != nil {
		c.undecided(rule, "positive-example", "-", "cannot build the embedded example: "+err.Error())
	} else {
		c.check(len(mapOrderExits(sp.Func("pick"))) > 0 && len(mapOrderExits(sp.Func("count"))) == 0, rule, "positive-example", "-",
			"the detector recognises the embedded order-dependent lookup and is silent on the order-independent one", "the map-order detector fails on its embedded examples: its verdicts cannot be trusted")
	}
	nMapRanges := 0
	for _, fn := range w.All {
		for _, rl := range rangeLoops(fn) {
			if rl.IsMap {
				nMapRanges++
			}
		}
		hits := mapOrderExits(fn)
		for i, h := range hits {
			c.Fns[w.fname(fn)] = true
			c.bad(rule, fmt.Sprintf("%s/map-range-early-exit#%d", w.fname(fn), i+1), w.ipos(h), "a range over a map is left early with a result taken from the iteration variables: when several entries qualify the answer follows Go's randomised map iteration order and differs from call to call")
		}
	}
	c.ok(rule, "package/map-ranges", "-", fmt.Sprintf("%d map range loops inspected", nMapRanges))
	if nMapRanges < 4 {
		c.undecided(rule, "floor", "-", fmt.Sprintf("only %d map range loops found (expected >= 4)", nMapRanges))
	}
	c18NextHopPort(c)
	c18Pattern(c)
	c18Table(c)
	// the host looked up is the To host as received (rule shared with C01/C14)
	rulePureCapture(c, "pure-capture")
	c18Wiring(c, "next-hop-port")
}

// c18Table: a configured route is filed under exactly the destination it was configured with: AddRouteItem builds the
// item from its three arguments unmodified, stores it under the unmodified destination, and records a destination
// seen for the first time once in the ordered list; the constructor keeps protocol and destination as given.
func c18Table(c *Ctx) {
	w := c.w
	rule := "precedence"
	f := c.fn(rule, "(*PreConfigRoute).AddRouteItem")
	if f == nil {
		return
	}
	var mk ssa.CallInstruction
	for _, cs := range w.callsIn(f, "NewPreRouteItem") {
		mk = cs.In
	}
	if mk == nil {
		c.bad(rule, "AddRouteItem/item", w.pos(f.Pos()), "AddRouteItem does not build its entry with NewPreRouteItem")
		return
	}
	c.check(isParam(f, callArg(mk, 0), 1) && isParam(f, callArg(mk, 1), 2) && isParam(f, callArg(mk, 2), 3), rule, "AddRouteItem/item", w.ipos(mk), "the entry is built from (protocol, dest, nextHop) as configured", "AddRouteItem does not hand its arguments (protocol, dest, nextHop) unmodified to NewPreRouteItem: a destination is rewritten before it is filed (e.g. '*' turned into 'default'), so two configured destinations share one slot or a host loses its exact match")
	var upd *ssa.MapUpdate
	n := 0
	eachInstr(f, func(in ssa.Instruction) {
		if mu, ok := in.(*ssa.MapUpdate); ok {
			if _, isT := isLoadOf(mu.Map, "PreConfigRoute.items"); isT {
				upd = mu
				n++
			}
		}
	})
	good := false
	why := "no single store into the table"
	if upd != nil && n == 1 {
		keep := w.under(assumeAtom(errNil(mk), true))
		mn, mx, inf := countSites(entryPt(f), keep, isInstr(upd))
		good = mn == 1 && mx == 1 && !inf && isParam(f, upd.Key, 2) && isResultOf(upd.Value, mk, 0) && w.requires(f, upd, errNil(mk), true)
		why = fmt.Sprintf("key %s, value %s, executed min=%d max=%d times for a valid entry", w.termKey(upd.Key), w.termKey(upd.Value), mn, mx)
	}
	c.check(good, rule, "AddRouteItem/filed-under-dest", w.pos(f.Pos()), "items[dest] = the new entry, once, for every valid entry", "AddRouteItem does not file a valid entry exactly once under its unmodified destination ("+why+")")
	// ordered list: first sight only, the same unmodified destination
	okList := false
	for _, st := range w.fieldStores(f, "PreConfigRoute.dests") {
		if !isAppendOne(st.Val, "PreConfigRoute.dests") {
			continue
		}
		ap := strip(st.Val).(*ssa.Call)
		elems := varargs(ap.Call.Args[1])
		if len(elems) != 1 || !isParam(f, elems[0], 2) {
			continue
		}
		var lk *ssa.Lookup
		eachInstr(f, func(in ssa.Instruction) {
			if l, ok := in.(*ssa.Lookup); ok && l.CommaOk {
				if _, isT := isLoadOf(l.X, "PreConfigRoute.items"); isT && isParam(f, l.Index, 2) {
					lk = l
				}
			}
		})
		if lk == nil {
			continue
		}
		present := func(a Atom) bool {
			e, isE := a.X.(*ssa.Extract)
			return a.Kind == "bool" && isE && e.Tuple == ssa.Value(lk) && e.Index == 1
		}
		keep := w.under(assumeAtom(errNil(mk), true), assumeAtom(present, false))
		mn, mx, _ := countSites(entryPt(f), keep, isInstr(st))
		okList = mn == 1 && mx == 1 && w.requires(f, st, present, false) && mustPrecede(f, []ssa.Instruction{lk}, upd, nil)
	}
	c.check(okList, rule, "AddRouteItem/ordered-once", w.pos(f.Pos()), "a destination seen for the first time is appended once to the ordered list", "AddRouteItem does not append a destination to the configuration-order list exactly when it is not yet in the table (tested before the entry is stored)")
	if nf := c.fn(rule, "NewPreRouteItem"); nf != nil {
		okF := 0
		for _, fs := range []struct {
			ref string
			p   int
		}{{"PreRouteItem.protocol", 0}, {"PreRouteItem.dest", 1}} {
			sts := w.fieldStores(nf, fs.ref)
			if len(sts) == 1 && isParam(nf, sts[0].Val, fs.p) {
				okF++
			}
		}
		c.check(okF == 2, rule, "NewPreRouteItem/keeps-protocol-and-dest", w.pos(nf.Pos()), "protocol and destination are kept as configured", "NewPreRouteItem does not keep its protocol and dest arguments unmodified in the entry")
	}
}

func itemFieldsIn(r *ssa.Return, item func(ssa.Value) bool, want [3]string) bool {
	if len(r.Results) != 4 {
		return false
	}
	for i, ref := range want {
		b, ok := isLoadOf(r.Results[i], ref)
		if !ok || !item(b) {
			return false
		}
	}
	return isNilConst(r.Results[3])
}

// routeLookupSpec says where a static-route lookup body lives and how it reports its answer: FindRoute itself
// (table = the receiver's items, key = dest, results protocol/host/port/err), or a caller that consults the table through
// a helper of its own which the inliner has merged into it (then the caller's own results are read).
type routeLookupSpec struct {
	f       *ssa.Function
	label   string
	isTable func(ssa.Value) bool // base of the PreConfigRoute.items load
	isKey   func(ssa.Value) bool
	want    [3]string // field of the entry expected at result 0, 1, 2
}

func c18Precedence(c *Ctx) {
	rule := "precedence"
	f := c.fn(rule, "(*PreConfigRoute).FindRoute")
	if f == nil {
		return
	}
	c18PrecedenceIn(c, routeLookupSpec{f: f, label: "FindRoute",
		isTable: func(b ssa.Value) bool { return isParam(f, b, 0) },
		isKey:   func(v ssa.Value) bool { return isParam(f, v, 1) },
		want:    [3]string{"PreRouteItem.protocol", "PreRouteItem.host", "PreRouteItem.port"}})
	if sp := c03InlineLookupSpec(c.w); sp != nil {
		c18PrecedenceIn(c, *sp)
	}
	c.floor(rule, 9)
}

// c03InlineLookupSpec: the static-route hop function does not call FindRoute but consults p.preConfigRoute.items itself
// (through a helper merged into it by the inliner): the lookup rules are applied to that body too, with the hop
// function's result order host/port/transport.
func c03InlineLookupSpec(w *World) *routeLookupSpec {
	f := w.Fn("(*Proxy).getNextRequestHopByConfig")
	if f == nil || len(w.callsIn(f, "(*PreConfigRoute).FindRoute")) != 0 {
		return nil
	}
	isTable := func(b ssa.Value) bool {
		pb, ok := isLoadOf(b, "Proxy.preConfigRoute")
		return ok && isParam(f, pb, 0)
	}
	found := false
	eachInstr(f, func(in ssa.Instruction) {
		if lk, ok := in.(*ssa.Lookup); ok && lk.CommaOk {
			if b, isL := isLoadOf(lk.X, "PreConfigRoute.items"); isL && isTable(b) {
				found = true
			}
		}
	})
	if !found {
		return nil
	}
	isKey := func(v ssa.Value) bool {
		gh, _ := callOfResult(v)
		if gh == nil || w.calleeName(gh) != "(*To).GetHost" || !isResultOf(v, gh, 0) {
			return false
		}
		to, _ := callOfResult(callArg(gh, -1))
		return to != nil && w.calleeName(to) == "(*Message).GetTo" && isResultOf(callArg(gh, -1), to, 0) && isParam(f, callArg(to, -1), 1)
	}
	return &routeLookupSpec{f: f, label: "ByConfig/FindRoute", isTable: isTable, isKey: isKey,
		want: [3]string{"PreRouteItem.host", "PreRouteItem.port", "PreRouteItem.protocol"}}
}

func c18PrecedenceIn(c *Ctx, sp routeLookupSpec) {
	w := c.w
	rule := "precedence"
	f := sp.f
	L := sp.label
	itemFieldsOf := func(w *World, r *ssa.Return, item func(ssa.Value) bool) bool {
		return itemFieldsIn(r, item, sp.want)
	}
	var exact, def *ssa.Lookup
	var defs []*ssa.Lookup
	eachInstr(f, func(in ssa.Instruction) {
		lk, ok := in.(*ssa.Lookup)
		if !ok || !lk.CommaOk {
			return
		}
		if b, isL := isLoadOf(lk.X, "PreConfigRoute.items"); !isL || !sp.isTable(b) {
			return
		}
		if sp.isKey(lk.Index) {
			exact = lk
		} else if s, isS := constString(lk.Index); isS && s == "default" {
			def = lk
			defs = append(defs, lk)
		}
	})
	if exact == nil || def == nil {
		c.bad(rule, L+"/lookups", w.pos(f.Pos()), "FindRoute must consult items[dest] (exact) and items[\"default\"] with comma-ok lookups")
		return
	}
	okOf := func(lk *ssa.Lookup) func(Atom) bool {
		return func(a Atom) bool {
			e, isE := a.X.(*ssa.Extract)
			return a.Kind == "bool" && isE && e.Tuple == ssa.Value(lk) && e.Index == 1
		}
	}
	valOf := func(lk *ssa.Lookup) func(ssa.Value) bool {
		return func(v ssa.Value) bool {
			e, isE := strip(v).(*ssa.Extract)
			return isE && e.Tuple == ssa.Value(lk) && e.Index == 0
		}
	}
	// exact hit
	hitKeep := w.under(assumeAtom(okOf(exact), true))
	var rets []*ssa.Return
	for _, r := range returnsUnder(f, hitKeep) {
		if canReach(at(exact), hitKeep, isInstr(r), nil) {
			rets = append(rets, r)
		}
	}
	good := len(rets) == 1 && itemFieldsOf(w, rets[0], valOf(exact))
	c.check(good, rule, L+"/exact-hit-wins", w.ipos(exact), "a literal hit returns that entry at once", "when items[dest] exists FindRoute does not immediately return that entry's protocol/host/port")
	// wildcard scan
	var scan *rangeLoop
	for _, rl := range rangeLoops(f) {
		scan = rl
	}
	if scan == nil {
		c.bad(rule, L+"/scan", w.pos(f.Pos()), "no wildcard scan loop")
		return
	}
	c.check(w.requires(f, scan.If, okOf(exact), false), rule, L+"/scan-after-exact-miss", w.ipos(scan.If), "patterns are tried only after the literal lookup missed", "the wildcard scan is reachable although a literal entry exists (or before the literal lookup)")
	for i, d := range defs {
		c.check(scan.Done.Dominates(d.Block()) && !scan.inLoop(d.Block()), rule, fmt.Sprintf("%s/default-after-scan#%d", L, i+1), w.ipos(d), "`default` is consulted only after the scan is exhausted", "the default entry is consulted before/without exhausting the wildcard scan")
	}
	// scan hit: requires matched == true of a MatchString on (translated item pattern, dest)
	var match *ssa.Call
	for _, cs := range w.callsIn(f, "regexp.MatchString", "(*regexp.Regexp).MatchString") {
		if scan.inLoop(cs.In.Block()) {
			match = cs.In.(*ssa.Call)
		}
	}
	if match == nil {
		c.bad(rule, L+"/match", w.pos(f.Pos()), "the scan does not test patterns with a regular-expression match")
	} else {
		matched := func(a Atom) bool { return a.Kind == "bool" && isResultOf(a.X, match, 0) }
		n := 0
		for _, b := range f.Blocks {
			if !scan.inExitRegion(b) || len(b.Instrs) == 0 {
				continue
			}
			if r, ok := b.Instrs[len(b.Instrs)-1].(*ssa.Return); ok {
				n++
				c.check(w.requires(f, r, matched, true), rule, L+"/scan-hit-needs-match", w.ipos(r), "an entry is returned from the scan only when its pattern matched", "the scan returns an entry although its pattern did not match")
				// the returned fields come from the entry being tested
				// the entry whose pattern was matched
				var tested ssa.Value
				if tc, _ := callOfResult(match.Call.Args[0]); tc != nil {
					if b, ok := isLoadOf(callArg(tc, 0), "PreRouteItem.dest"); ok {
						tested = strip(b)
					}
				}
				// or the entry's own expression, compiled once from that entry's pattern where the entry is built
				if tested == nil && strings.HasSuffix(w.calleeName(match), "regexp.Regexp).MatchString") {
					if ref, base := loadedField(match.Call.Args[0]); strings.HasPrefix(ref, "PreRouteItem.") && c18CompiledFromDest(w, ref) {
						tested = strip(base)
					}
				}
				okItem := tested != nil && itemFieldsOf(w, r, func(v ssa.Value) bool { return strip(v) == tested })
				c.check(okItem, rule, L+"/scan-hit-result", w.ipos(r), "the entry whose pattern matched is returned", "the scan hit does not return protocol/host/port of the very entry whose pattern was matched")
			}
		}
		c.check(n >= 1, rule, L+"/scan-returns", w.pos(f.Pos()), "a scan hit returns", "the scan never returns a hit")
		// subject of the match is the looked-up host
		subj := match.Call.Args[len(match.Call.Args)-1]
		c.check(sp.isKey(subj), rule, L+"/match-subject", w.ipos(match), "patterns are matched against the looked-up host", "the pattern is not matched against FindRoute's dest argument")
	}
	// default and error
	defKeep := w.under(assumeAtom(okOf(exact), false), assumeAtom(okOf(def), true))
	okDef := false
	for _, r := range returnsUnder(f, defKeep) {
		if canReach(at(def), defKeep, isInstr(r), nil) {
			okDef = itemFieldsOf(w, r, valOf(def))
		}
	}
	c.check(okDef, rule, L+"/default-hit", w.ipos(def), "the default entry is returned when nothing else matched", "with a default entry and no other match FindRoute does not return the default entry's fields")
	errKeep := w.under(assumeAtom(okOf(exact), false), assumeAtom(okOf(def), false))
	okErr := false
	for _, r := range returnsUnder(f, errKeep) {
		if canReach(at(def), errKeep, isInstr(r), nil) {
			okErr = len(r.Results) == 4 && w.isFreshError(r.Results[3])
		}
	}
	c.check(okErr, rule, L+"/not-routable-last", w.ipos(def), "no entry at all yields an error", "without any matching entry FindRoute does not end in an error")
	// every hit comes from one of the three sources, in that order: nothing else (a remembered earlier match, a second
	// table) answers before the configured order was consulted
	nHit := 0
	for _, r := range returnsUnder(f, nil) {
		if len(r.Results) != 4 || !isNilConst(r.Results[3]) || !canReach(at(exact), nil, isInstr(r), nil) {
			continue
		}
		nHit++
		src := w.requires(f, r, okOf(exact), true) || scan.inExitRegion(r.Block()) || (w.requires(f, r, okOf(exact), false) && w.requires(f, r, okOf(def), true))
		c.check(src, rule, fmt.Sprintf("%s/hit-sources#%d", L, nHit), w.ipos(r), "a hit is the literal entry, a scan hit or the default entry", "FindRoute returns a route that is neither the literal entry, nor a hit of the configuration-order scan, nor the default entry (e.g. a remembered earlier match tried first): with overlapping wildcards the same host no longer always gets the first configured match")
	}
	// every error return requires the default lookup to have missed
	for _, r := range returnsUnder(f, nil) {
		if len(r.Results) == 4 && !isNilConst(r.Results[3]) && canReach(at(exact), nil, isInstr(r), nil) {
			c.check(w.requires(f, r, okOf(def), false) && w.requires(f, r, okOf(exact), false), rule, L+"/error-only-after-all", w.ipos(r), "the error return comes after exact, scan and default", "an error is returned before all three lookups were tried")
		}
	}
}

func c18NextHopPort(c *Ctx) {
	w := c.w
	rule := "next-hop-port"
	ruleNumberParsing(c, rule, 1, "NewPreRouteItem")
	f := c.fn(rule, "NewPreRouteItem")
	if f == nil {
		return
	}
	var li *ssa.Call
	for _, cs := range w.callsIn(f, "strings.LastIndex", "strings.LastIndexByte") {
		if isParam(f, cs.In.Common().Args[0], 2) {
			if b, ok := constByte(cs.In.Common().Args[1]); ok && b == ':' {
				li = cs.In.(*ssa.Call)
			}
		}
	}
	if li == nil {
		c.bad(rule, "NewPreRouteItem/split", w.pos(f.Pos()), "the next hop is not split at the last ':' (strings.LastIndex(nextHop, \":\"))")
		return
	}
	none := func(a Atom) bool { return a.Kind == "ltk" && a.K == 0 && strip(a.X) == ssa.Value(li) }
	tls := func(a Atom) bool {
		if a.Kind != "bool" {
			return false
		}
		cc := w.resultOfCallTo(a.X, "strings.EqualFold", 0)
		if cc == nil {
			return false
		}
		s0, ok0 := constString(cc.Call.Args[0])
		s1, ok1 := constString(cc.Call.Args[1])
		return (ok0 && s0 == "tls" && isParam(f, cc.Call.Args[1], 0)) || (ok1 && s1 == "tls" && isParam(f, cc.Call.Args[0], 0))
	}
	var atoi *ssa.Call
	for _, cs := range w.callsIn(f, "strconv.Atoi") {
		atoi = cs.In.(*ssa.Call)
	}
	var portStore, hostStore *ssa.Store
	for _, st := range storesIn(f) {
		if fa, ok := st.Addr.(*ssa.FieldAddr); ok {
			switch fieldRef(fa) {
			case "PreRouteItem.port":
				portStore = st
			case "PreRouteItem.host":
				hostStore = st
			}
		}
	}
	if portStore == nil || hostStore == nil || atoi == nil {
		c.bad(rule, "NewPreRouteItem/shape", w.pos(f.Pos()), "NewPreRouteItem must store host and port and convert an explicit port with strconv.Atoi")
		return
	}
	isConstK := func(k int64) func(ssa.Value) bool {
		return func(v ssa.Value) bool { x, ok := constInt(v); return ok && x == k }
	}
	pv := valuesUnder(f, portStore.Val, w.under(assumeAtom(none, true), assumeAtom(tls, false)))
	c.check(allVals(pv, isConstK(5060)), rule, "NewPreRouteItem/default-5060", w.ipos(portStore), "no port, not tls -> 5060", "without explicit port (non-tls) the port is "+describe(w, pv)+", expected 5060")
	pv = valuesUnder(f, portStore.Val, w.under(assumeAtom(none, true), assumeAtom(tls, true)))
	c.check(allVals(pv, isConstK(5061)), rule, "NewPreRouteItem/default-5061-tls", w.ipos(portStore), "no port, tls -> 5061", "without explicit port under tls the port is "+describe(w, pv)+", expected 5061")
	pv = valuesUnder(f, portStore.Val, w.under(assumeAtom(none, false)))
	c.check(allVals(pv, func(v ssa.Value) bool { return isResultOf(v, atoi, 0) }), rule, "NewPreRouteItem/explicit-port", w.ipos(portStore), "explicit port = Atoi of the text after the last ':'", "with an explicit port the port is "+describe(w, pv)+", expected the converted remainder")
	// Atoi operand = nextHop[pos+1:]
	okArg := false
	if sl, ok := strip(atoi.Call.Args[0]).(*ssa.Slice); ok && isParam(f, sl.X, 2) && sl.High == nil && isPlusOne(sl.Low, li) {
		okArg = true
	}
	c.check(okArg, rule, "NewPreRouteItem/port-text", w.ipos(atoi), "converted text is nextHop[pos+1:]", "the port text is not nextHop[pos+1:]")
	ok, why := w.errPropagated(f, atoi)
	c.check(ok, rule, "NewPreRouteItem/port-error", w.ipos(atoi), "an unparsable port is reported", "an unparsable port is not reported: "+why)
	hv := valuesUnder(f, hostStore.Val, w.under(assumeAtom(none, true)))
	c.check(allVals(hv, func(v ssa.Value) bool { return isParam(f, v, 2) }), rule, "NewPreRouteItem/host-whole", w.ipos(hostStore), "no ':' -> host is the whole next hop", "without ':' host is "+describe(w, hv))
	hv = valuesUnder(f, hostStore.Val, w.under(assumeAtom(none, false)))
	c.check(allVals(hv, func(v ssa.Value) bool {
		sl, ok := strip(v).(*ssa.Slice)
		return ok && isParam(f, sl.X, 2) && isZeroOrNil(sl.Low) && sl.High != nil && strip(sl.High) == ssa.Value(li)
	}), rule, "NewPreRouteItem/host-before-colon", w.ipos(hostStore), "host = nextHop[0:pos]", "with ':' host is "+describe(w, hv)+", expected nextHop[0:pos]")
	c.floor(rule, 7)
}

// isReplaceAll: v == strings.Replace(x, old, new, -1) or strings.ReplaceAll(x, old, new)
func (w *World) isReplaceAll(v ssa.Value) (x ssa.Value, old, new string, ok bool) {
	c, _ := callOfResult(v)
	if c == nil {
		return nil, "", "", false
	}
	switch w.calleeName(c) {
	case "strings.Replace":
		if k, isK := constInt(c.Call.Args[3]); !isK || k >= 0 {
			return nil, "", "", false
		}
	case "strings.ReplaceAll":
	default:
		return nil, "", "", false
	}
	o, ok1 := constString(c.Call.Args[1])
	n, ok2 := constString(c.Call.Args[2])
	return c.Call.Args[0], o, n, ok1 && ok2
}

func c18Pattern(c *Ctx) {
	w := c.w
	rule := "pattern-translation"
	// translator functions: return Sprintf("^%s$", Replace(Replace(p, ".", "\\."), "*", ".*"))
	isTranslator := func(fn *ssa.Function) (bool, string) {
		rets := returnsUnder(fn, nil)
		if len(rets) != 1 || len(rets[0].Results) != 1 {
			return false, "not a single-result function"
		}
		res := strip(rets[0].Results[0])
		var inner ssa.Value
		if sc := w.resultOfCallTo(res, "fmt.Sprintf", 0); sc != nil {
			format, args, _ := w.fmtArgs(sc)
			fs, _ := constString(format)
			if fs != "^%s$" || len(args) != 1 {
				return false, fmt.Sprintf("pattern is built with literal %q, expected \"^%%s$\" (anchored at both ends)", fs)
			}
			inner = args[0]
		} else if b, ok := res.(*ssa.BinOp); ok && b.Op == token.ADD {
			// "^" + x + "$"
			l, okL := strip(b.X).(*ssa.BinOp)
			s2, ok2 := constString(b.Y)
			if !okL || !ok2 || s2 != "$" {
				return false, "pattern is not anchored with '$'"
			}
			s1, ok1 := constString(l.X)
			if !ok1 || s1 != "^" {
				return false, "pattern is not anchored with '^'"
			}
			inner = l.Y
		} else {
			return false, "result is not an anchored pattern"
		}
		x, o, n, ok := w.isReplaceAll(inner)
		if !ok || o != "*" || n != ".*" {
			return false, "the last translation step is not the expansion of every '*' to '.*'"
		}
		y, o2, n2, ok2 := w.isReplaceAll(x)
		if !ok2 || o2 != "." || n2 != "\\." {
			return false, "'.' is not escaped (to '\\.') before '*' is expanded: after expansion the escape would hit the '.' of '.*', and an unescaped '.' matches any character"
		}
		if p, isP := strip(y).(*ssa.Parameter); !isP || !isStringType(p.Type()) {
			return false, "the translated text is not the function's pattern argument"
		}
		return true, ""
	}
	tr := c.fn(rule, "(*PreConfigRoute).toRegularExp")
	if tr != nil {
		ok, why := isTranslator(tr)
		c.check(ok, rule, "toRegularExp/shape", w.pos(tr.Pos()), "^ + escape('.') then expand('*') + $", "pattern translation is wrong: "+why)
	}
	// every regexp use in the static-route code takes its pattern from the translator applied to an entry's dest
	n := 0
	for _, fn := range w.All {
		recv := ""
		if fn.Signature.Recv() != nil {
			recv = namedOf(fn.Signature.Recv().Type())
		}
		if recv != "PreConfigRoute" && fn.Name() != "NewPreRouteItem" {
			continue
		}
		for _, cs := range w.callsIn(fn, "regexp.MatchString", "regexp.Compile", "regexp.MustCompile", "regexp.Match") {
			n++
			c.Fns[w.fname(fn)] = true
			pat := cs.In.Common().Args[0]
			tc, _ := callOfResult(pat)
			good := false
			if tc != nil {
				if callee := tc.Common().StaticCallee(); callee != nil && w.isMain(callee) {
					ok, _ := isTranslator(callee)
					arg := callArg(tc, 0)
					_, isDest := isLoadOf(arg, "PreRouteItem.dest")
					if p, isP := strip(arg).(*ssa.Parameter); isP && p.Name() == "dest" {
						isDest = true
					}
					good = ok && isDest
				}
			}
			c.check(good, rule, fmt.Sprintf("%s/%s#%d", w.fname(fn), cs.Name, n), w.ipos(cs.In), "pattern comes from the translator applied to a configured dest", "a regular expression for static routes is not the anchored, escaped translation of a configured pattern: "+w.termKey(pat))
		}
	}
	c.check(n >= 1, rule, "regexp-uses", "-", "regular-expression uses found", "no regular-expression use in the static-route code: wildcard patterns are not supported")
	c.floor(rule, 3)
}

// c18Wiring: the static routes are handed to the table as configured: createPreConfigRoute passes the entry's protocol,
// each of its destinations and its next hop to AddRouteItem without rewriting them (a protocol "normalised" to udp
// turns a tls next hop without port into port 5060 instead of 5061).
func c18Wiring(c *Ctx, rule string) {
	w := c.w
	f := c.fn(rule, "createPreConfigRoute")
	if f == nil {
		return
	}
	n := 0
	good := true
	why := ""
	for _, cs := range w.callsIn(f, "(*PreConfigRoute).AddRouteItem") {
		n++
		fieldOfElem := func(v ssa.Value, want string) bool {
			v = strip(v)
			if fl, ok := v.(*ssa.Field); ok {
				return fieldName(fl.X.Type(), fl.Field) == want
			}
			if a, ok := isDeref(v); ok {
				if fa, ok := a.(*ssa.FieldAddr); ok {
					return fieldName(fa.X.Type(), fa.Field) == want
				}
			}
			return false
		}
		if !fieldOfElem(callArg(cs.In, 0), "Protocol") {
			good, why = false, "the protocol argument is "+w.termKey(callArg(cs.In, 0))
		}
		if !fieldOfElem(callArg(cs.In, 2), "NextHop") {
			good, why = false, "the next-hop argument is "+w.termKey(callArg(cs.In, 2))
		}
		isDest := false
		for _, rl := range rangeLoops(f) {
			if rl.isElem(callArg(cs.In, 1)) {
				if fieldOfElem(rl.Over, "Dests") {
					isDest = true
				}
			}
		}
		if !isDest {
			good, why = false, "the destination argument is "+w.termKey(callArg(cs.In, 1))
		}
	}
	c.check(good && n == 1, rule, "createPreConfigRoute/as-configured", w.pos(f.Pos()), "AddRouteItem(entry.Protocol, each entry.Dests element, entry.NextHop)", "createPreConfigRoute does not pass the configured protocol, destination and next hop to AddRouteItem unmodified ("+why+")")
}

// c18CompiledFromDest: every store to the field ref in the package puts there the first result of regexp.Compile /
// MustCompile applied to translator(x), where x is what the same function stores into PreRouteItem.dest of the same
// object.
func c18CompiledFromDest(w *World, ref string) bool {
	n := 0
	for _, fn := range w.All {
		for _, st := range w.fieldStores(fn, ref) {
			n++
			cc, idx := callOfResult(st.Val)
			if cc == nil || idx != 0 || (w.calleeName(cc) != "regexp.Compile" && w.calleeName(cc) != "regexp.MustCompile") {
				return false
			}
			tc, _ := callOfResult(cc.Common().Args[0])
			if tc == nil || !strings.HasSuffix(w.calleeName(tc), "toRegularExp") {
				return false
			}
			same := false
			for _, ds := range w.fieldStores(fn, "PreRouteItem.dest") {
				if strip(ds.Val) == strip(callArg(tc, 0)) && ds.Addr.(*ssa.FieldAddr).X == st.Addr.(*ssa.FieldAddr).X {
					same = true
				}
			}
			if !same {
				return false
			}
		}
	}
	return n > 0
}
