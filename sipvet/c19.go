package main

import (
	"fmt"
	"go/token"
	"go/types"
	"strings"

	"golang.org/x/tools/go/ssa"
)

func init() {
	register(&propDef{ID: "C19", Run: runC19,
		Explain:    "Structural necessary conditions of 'the rotation follows name resolution, with bounded failure tolerance', decided on SSA/CFG of /repo: (1) diff-direction: in addressResolved added = strArraySub(resolved, known) and removed = strArraySub(known, resolved), both computed before the known set is replaced, and handed to the notifier in the order (added, removed), which every callback and hostIPChanged receive in that order; strArraySub(a, b) keeps the elements of a that are not in b and inStrArray is membership by equality; (2) failure-threshold: on the failure edge the counter is incremented by exactly 1, the rotation is emptied only when the counter has reached 4 and addresses are known, the counter is reset to 0 there, the known set becomes empty and the notifier gets (empty, previous set); (3) success-reset: on every success path the counter is reset to 0 and the known set replaced by the resolved one, and the notifier runs exactly when one of the two differences is non-empty; (4) membership-events: hostIPChanged creates a backend for each added address and removes RemoveBackend(createHostPort(ip, port)) for each removed one with the same address builder on both sides; resolver callbacks created in a loop capture only per-iteration variables; Add/RemoveBackend keep list, map, notification and Close in step (shared with C05.2) and the loop applies the events under Backend.GetAddress() (C04.3). The resolver reports the plain ip.String() texts (doResolve/plain-addresses): createHostPort is the one place that brackets an IPv6 address.",
		NotDecided: "DNS behaviour, timing, ordering of concurrent notify goroutines (the quantifier assumes quiescence)."})
}

func runC19(c *Ctx) {
	c19Resolved(c)
	c19Helpers(c)
	c19HostIPChanged(c)
	c19LoopCapture(c)
	// (4)/(5) shared: membership operations keep list, map, notification and Close in step
	c05Paired(c)
	c04IndexKeys(c)
	c19Addresses(c, "membership-events")
	c19BackendClose(c, "membership-events")
	c19FirstRegistration(c, "diff-direction")
}

func c04IndexKeys(c *Ctx) {
	// the address index of the proxy is written under Backend.GetAddress() for add and remove (same producer)
	w := c.w
	rule := "membership-events"
	loop := c.fn(rule, "(*Proxy).receiveAndProcessMessage")
	if loop == nil {
		return
	}
	nw := 0
	eachInstr(loop, func(in ssa.Instruction) {
		var key ssa.Value
		switch x := in.(type) {
		case *ssa.MapUpdate:
			if _, isL := isLoadOf(x.Map, "Proxy.backends"); isL {
				key = x.Key
			}
		case *ssa.Call:
			if b, ok := x.Call.Value.(*ssa.Builtin); ok && b.Name() == "delete" {
				if _, isL := isLoadOf(x.Call.Args[0], "Proxy.backends"); isL {
					key = x.Call.Args[1]
				}
			}
		}
		if key == nil {
			return
		}
		nw++
		cc, _ := callOfResult(key)
		okEv := false
		if cc != nil && w.calleeName(cc) == "Backend.GetAddress" {
			if b, ok := isLoadOf(callArg(cc, -1), "BackendChangeEvent.backend"); ok {
				_ = b
				okEv = true
			}
		}
		c.check(okEv, rule, fmt.Sprintf("loop/address-index#%d", nw), w.ipos(in), "index key = the event's backend.GetAddress()", "the proxy's backend address index is updated under "+w.termKey(key)+", not the changed backend's GetAddress(): additions and removals do not meet")
	})
	c.check(nw == 2, rule, "loop/address-index-ops", w.pos(loop.Pos()), "one insert and one delete", fmt.Sprintf("expected one insert and one delete on the address index, found %d operations", nw))
	// the action strings agree between producer and consumer
	prod := map[string]bool{}
	for _, name := range []string{"(*Proxy).HandleBackendAdded", "(*Proxy).HandleBackendRemoved"} {
		if f := w.Fn(name); f != nil {
			for _, st := range storesIn(f) {
				if fa, ok := st.Addr.(*ssa.FieldAddr); ok && fieldRef(fa) == "BackendChangeEvent.action" {
					if s, isS := constString(st.Val); isS {
						prod[name+"="+s] = true
					}
				}
			}
		}
	}
	c.check(prod["(*Proxy).HandleBackendAdded=add"] && prod["(*Proxy).HandleBackendRemoved=remove"] && len(prod) == 2, rule, "events/action-names", "-", "added -> \"add\", removed -> \"remove\"", fmt.Sprintf("the events are posted as %v; the loop consumes \"add\" and \"remove\"", sortedKeys(prod)))
	cons := map[string]string{}
	for _, a := range w.atomsOf(loop) {
		if a.Kind == "eqstr" {
			if ref, _ := loadedField(a.X); ref == "BackendChangeEvent.action" {
				cons[a.Str] = a.Key
			}
		}
	}
	// "add" guards the insert, "remove" guards the delete
	eachInstr(loop, func(in ssa.Instruction) {
		switch x := in.(type) {
		case *ssa.MapUpdate:
			if _, isL := isLoadOf(x.Map, "Proxy.backends"); isL {
				k := cons["add"]
				c.check(k != "" && w.requires(loop, in, func(a Atom) bool { return a.Key == k }, true), rule, "loop/add-inserts", w.ipos(in), "\"add\" inserts", "the insert into the address index is not guarded by action == \"add\"")
			}
		case *ssa.Call:
			if b, ok := x.Call.Value.(*ssa.Builtin); ok && b.Name() == "delete" {
				if _, isL := isLoadOf(x.Call.Args[0], "Proxy.backends"); isL {
					k := cons["remove"]
					c.check(k != "" && w.requires(loop, in, func(a Atom) bool { return a.Key == k }, true), rule, "loop/remove-deletes", w.ipos(in), "\"remove\" deletes", "the delete from the address index is not guarded by action == \"remove\"")
				}
			}
		}
	})
}

func c19Resolved(c *Ctx) {
	w := c.w
	f := c.fn("diff-direction", "(*DynamicHostResolver).addressResolved")
	if f == nil {
		return
	}
	resolved := func(v ssa.Value) bool { return isParam(f, v, 2) }
	var lk *ssa.Lookup
	eachInstr(f, func(in ssa.Instruction) {
		if l, ok := in.(*ssa.Lookup); ok && l.CommaOk && isParam(f, l.Index, 1) {
			if _, isL := isLoadOf(l.X, "DynamicHostResolver.hostIPs"); isL {
				lk = l
			}
		}
	})
	if lk == nil {
		c.bad("diff-direction", "addressResolved/entry", w.pos(f.Pos()), "the entry of the host name is not looked up in hostIPs")
		return
	}
	entry := ssa.Value(extractOf(lk, 0))
	known := func(v ssa.Value) bool {
		b, ok := isLoadOf(v, "AddressWithCallback.addrs")
		return ok && strip(b) == entry
	}
	failed := func(a Atom) bool { return a.Kind == "nil" && isParam(f, a.X, 3) } // err == nil
	okPath := []assumption{assumeAtom(failed, true)}
	failPath := []assumption{assumeAtom(failed, false)}
	_ = okPath

	// (1) diff direction
	rule := "diff-direction"
	var added, removed ssa.CallInstruction
	for _, cs := range w.callsIn(f, "strArraySub") {
		a0, a1 := callArg(cs.In, 0), callArg(cs.In, 1)
		switch {
		case resolved(a0) && known(a1):
			added = cs.In
		case known(a0) && resolved(a1):
			removed = cs.In
		default:
			c.bad(rule, "addressResolved/strArraySub-operands", w.ipos(cs.In), "a difference is computed between "+w.termKey(a0)+" and "+w.termKey(a1)+", not between the resolved and the known set")
		}
	}
	var addrStoreOK, addrStoreFail *ssa.Store
	for _, st := range w.fieldStores(f, "AddressWithCallback.addrs") {
		if resolved(st.Val) {
			addrStoreOK = st
		} else if isEmptyList(st.Val) {
			addrStoreFail = st
		} else {
			c.bad(rule, "addressResolved/known-set-store", w.ipos(st), "the known set is replaced by "+w.termKey(st.Val))
		}
	}
	if added == nil || removed == nil {
		c.bad(rule, "addressResolved/differences", w.pos(f.Pos()), "addressResolved must compute added = strArraySub(resolved, known) and removed = strArraySub(known, resolved)")
	} else {
		c.ok(rule, "addressResolved/differences", w.ipos(added), "added = resolved - known, removed = known - resolved")
		if addrStoreOK != nil {
			c.check(!canReach(at(addrStoreOK), nil, isInstr(added), nil) && !canReach(at(addrStoreOK), nil, isInstr(removed), nil) && mustPrecede(f, []ssa.Instruction{added}, addrStoreOK, nil) && mustPrecede(f, []ssa.Instruction{removed}, addrStoreOK, nil),
				rule, "addressResolved/diff-before-replace", w.ipos(addrStoreOK), "differences are taken before the known set is replaced", "the known set is replaced before both differences are computed (they would be empty)")
		}
	}
	// notifier calls
	var notifyOK, notifyFail *ssa.Go
	eachInstr(f, func(in ssa.Instruction) {
		g, ok := in.(*ssa.Go)
		if !ok {
			return
		}
		if fn := g.Call.StaticCallee(); fn == nil || w.fname(fn) != "(*DynamicHostResolver).notifyAddressChanged" {
			return
		}
		if canReach(entryPt(f), w.under(failPath...), isInstr(in), nil) && !canReach(entryPt(f), w.under(okPath...), isInstr(in), nil) {
			notifyFail = g
		} else {
			notifyOK = g
		}
	})
	if notifyOK == nil || added == nil || removed == nil {
		c.bad(rule, "addressResolved/notify", w.pos(f.Pos()), "changes are not reported to the notifier on the success path")
	} else {
		a := notifyOK.Call.Args
		c.check(len(a) == 5 && isParam(f, a[1], 1) && strip(a[2]) == entry && isResultOf(a[3], added, 0) && isResultOf(a[4], removed, 0), rule, "addressResolved/notify-arguments", w.ipos(notifyOK), "notify(host, entry, added, removed)", "the notifier is not given (hostname, entry, added, removed) in this order: additions and removals are exchanged or belong to another host")
	}
	if nf := c.fn(rule, "(*DynamicHostResolver).notifyAddressChanged"); nf != nil {
		n := 0
		for _, cs := range w.callsIn(nf, "dyn") {
			n++
			a := cs.In.Common().Args
			c.check(len(a) == 3 && isParam(nf, a[0], 1) && isParam(nf, a[1], 3) && isParam(nf, a[2], 4), rule, "notifyAddressChanged/callback-arguments", w.ipos(cs.In), "callback(host, added, removed)", "callbacks are not invoked as callback(hostname, newAddrs, removedAddrs)")
		}
		var loop *rangeLoop
		for _, rl := range rangeLoops(nf) {
			loop = rl
		}
		c.check(n == 1 && loop != nil && len(loop.earlyExits()) == 0, rule, "notifyAddressChanged/every-callback", w.pos(nf.Pos()), "every registered callback is invoked", "not every registered callback is invoked")
	}
	c.floor(rule, 5)

	// (2) failure threshold
	rule = "failure-threshold"
	var inc, reset0Fail, reset0OK *ssa.Store
	for _, st := range w.fieldStores(f, "AddressWithCallback.failed") {
		if b, ok := strip(st.Val).(*ssa.BinOp); ok && b.Op == token.ADD {
			k, isK := constInt(b.Y)
			_, isLd := isLoadOf(b.X, "AddressWithCallback.failed")
			if isK && k == 1 && isLd {
				inc = st
				continue
			}
		}
		if k, isK := constInt(st.Val); isK && k == 0 {
			if canReach(entryPt(f), w.under(okPath...), isInstr(st), nil) {
				reset0OK = st
			} else {
				reset0Fail = st
			}
			continue
		}
		c.bad(rule, "addressResolved/counter-store", w.ipos(st), "the failure counter is set to "+w.termKey(st.Val))
	}
	if inc == nil {
		c.bad(rule, "addressResolved/increment", w.pos(f.Pos()), "the failure counter is not incremented by 1 on a failed resolution")
	} else {
		keep := w.under(append([]assumption{assumeAtom(func(a Atom) bool {
			e, isE := a.X.(*ssa.Extract)
			return a.Kind == "bool" && isE && e.Tuple == ssa.Value(lk) && e.Index == 1
		}, true)}, failPath...)...)
		mn, mx, inf := countSites(entryPt(f), keep, isInstr(inc))
		c.check(mn == 1 && mx == 1 && !inf, rule, "addressResolved/increment-once-per-failure", w.ipos(inc), "each failed resolution counts once", fmt.Sprintf("a failed resolution increments the counter min=%d max=%d times", mn, mx))
		c.check(w.requires(f, inc, failed, false), rule, "addressResolved/increment-only-on-failure", w.ipos(inc), "only failures count", "the counter is incremented on a successful resolution")
	}
	thr := func(a Atom) bool {
		if a.Kind != "ltk" {
			return false
		}
		_, ok := isLoadOf(a.X, "AddressWithCallback.failed")
		return ok
	}
	var thrK int64 = -1
	for _, a := range w.atomsOf(f) {
		if thr(a) {
			thrK = a.K
		}
	}
	hasAddrs := func(a Atom) bool {
		if a.Kind != "ltk" || a.K != 1 {
			return false
		}
		x, ok := lenOf(a.X)
		return ok && known(x)
	}
	if addrStoreFail == nil || notifyFail == nil || reset0Fail == nil {
		c.bad(rule, "addressResolved/emptying-branch", w.pos(f.Pos()), "the failure path lacks the emptying branch (known set := empty, counter := 0, notify(empty, previous set))")
	} else {
		c.check(thrK == 4, rule, "addressResolved/threshold", w.ipos(addrStoreFail), "emptied when the counter has reached 4", fmt.Sprintf("the rotation is emptied when the failure counter reaches %d, expected 4 (three failures are tolerated, the fourth empties)", thrK))
		for _, x := range []struct {
			n  string
			in ssa.Instruction
		}{{"empty-known-set", addrStoreFail}, {"reset-counter", reset0Fail}, {"notify", notifyFail}} {
			c.check(w.requires(f, x.in, thr, false) && w.requires(f, x.in, hasAddrs, false) && w.requires(f, x.in, failed, false), rule, "addressResolved/emptying/"+x.n+"-guard", w.ipos(x.in), "only at the threshold with known addresses", "the emptying step "+x.n+" is not guarded by (failure, counter >= 4, known addresses present)")
			if inc != nil {
				mn, mx, _ := countSites(at(inc), w.under(assumeAtom(thr, false), assumeAtom(hasAddrs, false)), isInstr(x.in))
				c.check(mn == 1 && mx == 1, rule, "addressResolved/emptying/"+x.n+"-once", w.ipos(x.in), "exactly once at the threshold", fmt.Sprintf("at the threshold the step %s executes min=%d max=%d times", x.n, mn, mx))
			}
		}
		// the threshold is tested after the increment
		if inc != nil {
			for _, ifi := range w.ifsTesting(f, thr) {
				ld := w.atom(ifi.Cond).X.(ssa.Instruction)
				c.check(canReach(at(inc), nil, isInstr(ld), nil) && !canReach(at(ld), nil, isInstr(inc), nil), rule, "addressResolved/threshold-after-increment", w.ipos(ifi), "the counter is compared after it was incremented", "the counter is compared with the threshold before being incremented")
			}
		}
		a := notifyFail.Call.Args
		prev := false
		if len(a) == 5 {
			if ld, ok := strip(a[4]).(ssa.Instruction); ok && known(a[4]) {
				prev = canReach(at(ld), nil, isInstr(addrStoreFail), nil) && !canReach(at(addrStoreFail), nil, isInstr(ld), nil)
			}
		}
		c.check(len(a) == 5 && isEmptyList(a[3]) && prev && strip(a[2]) == entry && isParam(f, a[1], 1), rule, "addressResolved/emptying/notify-arguments", w.ipos(notifyFail), "notify(host, entry, empty, previous set)", "the emptying notification is not (hostname, entry, no additions, the set known before emptying)")
	}
	c.floor(rule, 10)

	// (3) success reset
	rule = "success-reset"
	okSel := func(a Atom) bool {
		e, isE := a.X.(*ssa.Extract)
		return a.Kind == "bool" && isE && e.Tuple == ssa.Value(lk) && e.Index == 1
	}
	succ := w.under(assumeAtom(okSel, true), assumeAtom(failed, true))
	for _, x := range []struct {
		n  string
		st *ssa.Store
	}{{"counter-reset", reset0OK}, {"known-set-replaced", addrStoreOK}} {
		if x.st == nil {
			c.bad(rule, "addressResolved/"+x.n, w.pos(f.Pos()), "a successful resolution lacks the step "+x.n)
			continue
		}
		mn, mx, inf := countSites(entryPt(f), succ, isInstr(x.st))
		c.check(mn == 1 && mx == 1 && !inf, rule, "addressResolved/"+x.n, w.ipos(x.st), x.n+" on every successful resolution", fmt.Sprintf("on a successful resolution the step %s executes min=%d max=%d times: e.g. an unchanged answer does not reset the failure counter, so non-consecutive failures add up", x.n, mn, mx))
		c.check(w.requires(f, x.st, failed, true), rule, "addressResolved/"+x.n+"-only-on-success", w.ipos(x.st), "only on success", x.n+" happens on a failed resolution")
	}
	if notifyOK != nil && added != nil && removed != nil {
		nonEmpty := func(call ssa.CallInstruction) func(Atom) bool {
			return func(a Atom) bool {
				if a.Kind != "ltk" || a.K != 1 {
					return false
				}
				x, ok := lenOf(a.X)
				return ok && isResultOf(x, call, 0)
			}
		}
		ne, nr := nonEmpty(added), nonEmpty(removed)
		cnt := func(as ...assumption) (int, int) {
			mn, mx, _ := countSites(entryPt(f), w.under(append([]assumption{assumeAtom(okSel, true), assumeAtom(failed, true)}, as...)...), isInstr(notifyOK))
			return mn, mx
		}
		mn, mx := cnt(assumeAtom(ne, false))
		c.check(mn == 1 && mx == 1, rule, "addressResolved/notify-on-additions", w.ipos(notifyOK), "additions are always reported", fmt.Sprintf("with new addresses the notifier runs min=%d max=%d times", mn, mx))
		mn, mx = cnt(assumeAtom(nr, false))
		c.check(mn == 1 && mx == 1, rule, "addressResolved/notify-on-removals", w.ipos(notifyOK), "removals are always reported", fmt.Sprintf("with vanished addresses the notifier runs min=%d max=%d times", mn, mx))
		_, mx = cnt(assumeAtom(ne, true), assumeAtom(nr, true))
		c.check(mx == 0, rule, "addressResolved/no-notify-without-change", w.ipos(notifyOK), "no report without change", "the notifier runs although nothing changed")
	}
	c.floor(rule, 7)
}

func c19Helpers(c *Ctx) {
	w := c.w
	rule := "diff-direction"
	if f := c.fn(rule, "strArraySub"); f != nil {
		var loop *rangeLoop
		for _, rl := range rangeLoops(f) {
			if isParam(f, rl.Over, 0) {
				loop = rl
			}
		}
		good := false
		if loop != nil {
			for _, cs := range w.callsIn(f, "inStrArray") {
				if loop.isElem(callArg(cs.In, 0)) && isParam(f, callArg(cs.In, 1), 1) {
					in := func(a Atom) bool { return a.Kind == "bool" && isResultOf(a.X, cs.In, 0) }
					// the append of the element happens exactly when not in b
					for _, ac := range w.callsIn(f, "builtin:append") {
						el := varargs(ac.In.Common().Args[1])
						if len(el) == 1 && loop.isElem(el[0]) {
							keep := w.under(assumeAtom(in, false))
							mn, mx, _ := countSites(blockStart(loop.Body), func(b *ssa.BasicBlock, i int) bool { return keep(b, i) && b != loop.Header }, isInstr(ac.In))
							keepIn := w.under(assumeAtom(in, true))
							_, mx2, _ := countSites(blockStart(loop.Body), func(b *ssa.BasicBlock, i int) bool { return keepIn(b, i) && b != loop.Header }, isInstr(ac.In))
							good = mn == 1 && mx == 1 && mx2 == 0 && len(loop.earlyExits()) == 0
							// the difference is built in storage of its own: addressResolved computes two differences from the
							// same two sets one after the other, and keeps the resolved one
							for _, leaf := range phiLeaves(ac.In.Common().Args[0]) {
								if leaf == ssa.Value(ac.In.(*ssa.Call)) || isNilConst(leaf) {
									continue
								}
								if _, isMk := leaf.(*ssa.MakeSlice); isMk {
									continue
								}
								if sl, isSl := leaf.(*ssa.Slice); isSl {
									if _, isAl := sl.X.(*ssa.Alloc); isAl { // make with a constant size: a view of a new array
										continue
									}
								}
								good = false
								c.bad(rule, "strArraySub/own-storage", w.ipos(ac.In), "the difference is accumulated in "+w.termKey(leaf)+" and not in a list of its own (make / nil): building it on the storage of an operand overwrites that operand while it is still needed - the second difference of addressResolved is then computed from a clobbered set and a kept address is reported as removed")
							}
						}
					}
				}
			}
		}
		// result is the accumulated list
		c.check(good, rule, "strArraySub/semantics", w.pos(f.Pos()), "keeps the elements of a that are not in b", "strArraySub(a, b) does not keep exactly the elements of a that are not members of b")
	}
	if f := c.fn(rule, "inStrArray"); f != nil {
		var loop *rangeLoop
		for _, rl := range rangeLoops(f) {
			if isParam(f, rl.Over, 1) {
				loop = rl
			}
		}
		good := false
		if loop != nil {
			eq := func(a Atom) bool {
				return a.Kind == "eq" && ((loop.isElem(a.X) && isParam(f, a.Y, 0)) || (loop.isElem(a.Y) && isParam(f, a.X, 0)))
			}
			good = true
			sawTrue := false
			for _, r := range returnsUnder(f, nil) {
				b, isB := constBool(r.Results[0])
				if !isB {
					good = false
					continue
				}
				if b {
					sawTrue = true
					if !w.requires(f, r, eq, true) {
						good = false
					}
				} else if !loop.Done.Dominates(r.Block()) {
					good = false
				}
			}
			good = good && sawTrue
		}
		c.check(good, rule, "inStrArray/semantics", w.pos(f.Pos()), "membership by string equality", "inStrArray is not 'some element equals s' (true on the first equal element, false after the whole list)")
	}
}

func c19HostIPChanged(c *Ctx) {
	w := c.w
	rule := "membership-events"
	// two host names that feed one rotation may resolve to the same address: the rotation is the union of what the names
	// resolve to, each address once, and an address leaves it when the last name that resolves to it withdraws it. That
	// takes an AddBackend that looks the address up before it appends (and counts who asked for it). The pinned
	// AddBackend appends unconditionally and RemoveBackend drops the registration at the first withdrawal: recorded as an
	// open finding (KNOWN_FINDINGS.txt), not repaired - reference counting touches the core of the pool.
	if ab := c.fn(rule, "(*RoundRobinBackend).AddBackend"); ab != nil {
		looked := false
		var app ssa.Instruction
		for _, st := range w.fieldStores(ab, "RoundRobinBackend.backends") {
			app = st
		}
		if app != nil {
			isKnown := func(a Atom) bool {
				e, isE := a.X.(*ssa.Extract)
				if a.Kind != "bool" || !isE || e.Index != 1 {
					return false
				}
				lk, isLk := e.Tuple.(*ssa.Lookup)
				if !isLk {
					return false
				}
				_, isMap := isLoadOf(lk.X, "RoundRobinBackend.backendMap")
				return isMap
			}
			looked = w.requires(ab, app, isKnown, false)
		}
		c.check(looked, rule, "AddBackend/same-address-twice", w.pos(ab.Pos()), "an address already in the rotation is not appended again", "AddBackend appends to the rotation without looking the address up: when two host names of one rotation resolve to the same address it is in the rotation twice (double share of the traffic) under one registration; the first name that withdraws it removes the registration (responses from it are no longer recognised) and one copy, the second withdrawal finds no registration and leaves the other copy in the rotation for good")
	}
	f := c.fn(rule, "(*RoundRobinBackend).hostIPChanged")
	if f == nil {
		return
	}
	// roles of hostIPChanged's inputs. The two address lists are the parameters that receive the resolver callback's
	// (added, removed) at the one call site (positions 4 and 5 on the pinned tree); protocol, local address and port are
	// "settings": a parameter, or a field of a parameter that packs them, each role filled by one and the same input at
	// all its uses
	addedIdx, removedIdx := 4, 5
	if cr := w.Fn("CreateRoundRobinBackend"); cr != nil {
		for _, cl := range cr.AnonFuncs {
			for _, cs := range w.callsIn(cl, "(*RoundRobinBackend).hostIPChanged") {
				if len(cl.Params) == 3 {
					for ai, a := range cs.In.Common().Args {
						if strip(a) == ssa.Value(cl.Params[1]) {
							addedIdx = ai
						}
						if strip(a) == ssa.Value(cl.Params[2]) {
							removedIdx = ai
						}
					}
				}
			}
		}
	}
	var setting func(v ssa.Value, d int) bool
	setting = func(v ssa.Value, d int) bool {
		v = strip(v)
		for i, p := range f.Params {
			if v == ssa.Value(p) {
				return i != 0 && i != addedIdx && i != removedIdx
			}
		}
		if ref, base := loadedField(v); ref != "" && d < 2 {
			b := strip(base)
			if al, isAl := b.(*ssa.Alloc); isAl { // a by-value struct parameter spilled to a local cell
				var src ssa.Value
				n := 0
				for _, r := range *al.Referrers() {
					if st, isSt := r.(*ssa.Store); isSt && st.Addr == ssa.Value(al) {
						src = st.Val
						n++
					}
				}
				if n == 1 {
					b = strip(src)
				}
			}
			for i, p := range f.Params {
				if b == ssa.Value(p) {
					return i != 0 && i != addedIdx && i != removedIdx
				}
			}
		}
		return false
	}
	roleKey := map[string]string{}
	inRole := func(role string, v ssa.Value) bool {
		if !setting(v, 0) {
			return false
		}
		k := w.termKey(strip(v))
		if have, ok := roleKey[role]; ok {
			return have == k
		}
		for r, have := range roleKey {
			if r != role && have == k {
				return false // one input cannot fill two roles
			}
		}
		roleKey[role] = k
		return true
	}
	var newLoop, remLoop *rangeLoop
	for _, rl := range rangeLoops(f) {
		if isParamSSA(f, rl.Over, addedIdx) {
			newLoop = rl
		}
		if isParamSSA(f, rl.Over, removedIdx) {
			remLoop = rl
		}
	}
	if newLoop == nil || remLoop == nil {
		c.bad(rule, "hostIPChanged/loops", w.pos(f.Pos()), "hostIPChanged must walk the added and the removed addresses")
		return
	}
	isHP := func(v ssa.Value, loop *rangeLoop) bool {
		cc := w.resultOfCallTo(v, "(*RoundRobinBackend).createHostPort", 0)
		return cc != nil && loop.isElem(callArg(cc, 0)) && inRole("port", callArg(cc, 1))
	}
	// additions
	nAdd := 0
	kinds := map[string]bool{}
	for _, cs := range w.callsIn(f, "(*RoundRobinBackend).AddBackend") {
		if !newLoop.inLoop(cs.In.Block()) {
			c.bad(rule, "hostIPChanged/add-outside-loop", w.ipos(cs.In), "a backend is added outside the walk over the added addresses")
			continue
		}
		nAdd++
		// the backend added: a constructor result, or several joined edge by edge with their errors (a shared
		// "create a backend of this protocol" helper); each is checked under its own error test and protocol test
		good := isParam(f, callArg(cs.In, -1), 0)
		pairs := w.okPairs(f, cs.In, callArg(cs.In, 0))
		if len(pairs) == 0 {
			good = false
		}
		for _, pr := range pairs {
			leaves := []ssa.Value{pr.Val}
			if pr.Err == nil {
				leaves = phiLeaves(pr.Val)
			}
			for _, v := range leaves {
				ctor, _ := callOfResult(v)
				if ctor == nil || (w.calleeName(ctor) != "NewUDPBackend" && w.calleeName(ctor) != "NewTCPBackend") {
					good = false
					continue
				}
				okErr := false
				if pr.Err != nil {
					okErr = isResultOf(pr.Err, ctor, errIndex(ctor))
				} else {
					okErr = w.requires(f, pr.At, errNil(ctor), true)
				}
				want := map[string]string{"NewUDPBackend": "udp", "NewTCPBackend": "tcp"}[w.calleeName(ctor)]
				proto := func(a Atom) bool { return a.Kind == "eqstr" && a.Str == want && inRole("protocol", a.X) }
				if okErr && isHP(ctor.Call.Args[1], newLoop) && inRole("local", ctor.Call.Args[0]) && w.requires(f, ctor, proto, true) {
					kinds[want] = true
				} else {
					good = false
				}
			}
		}
		c.check(good, rule, fmt.Sprintf("hostIPChanged/add#%d", nAdd), w.ipos(cs.In), "each added address becomes a backend of the configured protocol at createHostPort(ip, port)", "an added address is not turned into New<proto>Backend(local, createHostPort(ip, port)) and added on success under the matching protocol")
	}
	c.check(kinds["udp"] && kinds["tcp"] && nAdd <= 2, rule, "hostIPChanged/add-sites", w.pos(f.Pos()), "udp and tcp additions", fmt.Sprintf("expected the added addresses to become a udp backend under protocol udp and a tcp backend under protocol tcp (%d AddBackend site(s); udp %v, tcp %v)", nAdd, kinds["udp"], kinds["tcp"]))
	for i, loop := range []*rangeLoop{newLoop, remLoop} {
		c.check(len(loop.earlyExits()) == 0, rule, "hostIPChanged/every-address@"+w.ipos(loop.If), w.ipos(loop.If), "every address is processed", "the walk over the changed addresses can end early")
		// both walks happen on every call: no return can be reached without passing the head of the walk
		isRet := func(in ssa.Instruction) bool { _, ok := in.(*ssa.Return); return ok }
		skipped := canReach(entryPt(f), nil, isRet, isInstr(loop.If))
		what := []string{"added", "removed"}[i]
		c.check(!skipped, rule, "hostIPChanged/always-walks-"+what, w.ipos(loop.If), "the "+what+" addresses are walked on every notification", "hostIPChanged can return without walking the "+what+" addresses (an early return that depends on the other list): e.g. the notification that empties the rotation after repeated failures carries no added address and is dropped, so the stale members stay")
	}
	// removals
	nRem := 0
	for _, cs := range w.callsIn(f, "(*RoundRobinBackend).RemoveBackend") {
		nRem++
		good := remLoop.inLoop(cs.In.Block()) && isHP(callArg(cs.In, 0), remLoop) && isParam(f, callArg(cs.In, -1), 0)
		if good {
			mn, mx, _ := countSites(blockStart(remLoop.Body), func(b *ssa.BasicBlock, i int) bool { return b != remLoop.Header }, isInstr(cs.In))
			good = mn == 1 && mx == 1
		}
		c.check(good, rule, "hostIPChanged/remove", w.ipos(cs.In), "each vanished address is removed under createHostPort(ip, port)", "a vanished address is not removed, unconditionally, as RemoveBackend(createHostPort(ip, port)): the key differs from the one the backend was added under")
	}
	c.check(nRem == 1, rule, "hostIPChanged/remove-site", w.pos(f.Pos()), "one removal site", fmt.Sprintf("expected one RemoveBackend site, found %d", nRem))
	// backends report their address as the host:port they were created with
	for _, b := range []struct{ ctor, field string }{{"NewTCPBackend", "TCPBackend.backendAddr"}} {
		if cf := w.Fn(b.ctor); cf != nil {
			good := false
			for _, st := range w.fieldStores(cf, b.field) {
				good = isParam(cf, st.Val, 1)
			}
			c.check(good, rule, b.ctor+"/address", w.pos(cf.Pos()), "the backend's address is the host:port it was created with", b.ctor+" does not keep its hostport argument as the backend's address")
		}
	}
	// callback wiring in CreateRoundRobinBackend: closure(hostname, added, removed) -> hostIPChanged(.., added, removed, port, ..)
	if cr := c.fn(rule, "CreateRoundRobinBackend"); cr != nil {
		n := 0
		for _, cl := range cr.AnonFuncs {
			for _, cs := range w.callsIn(cl, "(*RoundRobinBackend).hostIPChanged") {
				n++
				c.Fns[w.fname(cl)] = true
				a := cs.In.Common().Args
				good := len(cl.Params) == 3 && addedIdx < len(a) && removedIdx < len(a) && addedIdx != removedIdx && strip(a[addedIdx]) == ssa.Value(cl.Params[1]) && strip(a[removedIdx]) == ssa.Value(cl.Params[2])
				// the parameter that takes `added` is a list walked by the addition loop, the other by the removal loop (above)
				c.check(good, rule, "CreateRoundRobinBackend/callback-arguments", w.ipos(cs.In), "callback(host, added, removed) forwards (host, added, removed)", "the resolver callback does not forward (hostname, newIPs, removedIPs) to hostIPChanged in this order")
			}
		}
		c.check(n == 1, rule, "CreateRoundRobinBackend/callback", w.pos(cr.Pos()), "host names are handed to the dynamic resolver with a callback", "no resolver callback feeds hostIPChanged")
	}
	c.floor(rule, 10)
}

// c19LoopCapture: a closure created inside a loop must not capture a variable that is declared outside the loop
// and assigned inside it (every closure would see the last iteration's value).
func c19LoopCapture(c *Ctx) {
	ruleLoopCaptureReaching(c, "membership-events", "every resolver callback sees the values of the last host name, e.g. its port",
		"(*RoundRobinBackend).hostIPChanged", "(*RoundRobinBackend).AddBackend", "(*RoundRobinBackend).RemoveBackend")
}

// c19NotifyCallers: the known addresses of a host are announced to ALL its subscribers only when name resolution
// changed them (addressResolved); a pool that subscribes to a host already being resolved is told the known addresses
// through its own callback alone. Re-announcing to everybody makes the earlier subscribers add a second backend for an
// address they already have: list and map fall out of step, the address gets a double share and survives its removal.
func c19NotifyCallers(c *Ctx, rule string) {
	w := c.w
	nf := w.Fn("(*DynamicHostResolver).notifyAddressChanged")
	if nf == nil {
		c.undecided(rule, "resolver/notify-callers", "-", "(*DynamicHostResolver).notifyAddressChanged not found")
		return
	}
	good := true
	who := ""
	n := 0
	for _, fn := range w.All {
		for _, cs := range w.callsIn(fn, "(*DynamicHostResolver).notifyAddressChanged") {
			n++
			if w.fname(fn) != "(*DynamicHostResolver).addressResolved" {
				good = false
				who = w.fname(fn) + " at " + w.ipos(cs.In)
			}
		}
	}
	c.check(good && n > 0, rule, "resolver/notify-callers", w.pos(nf.Pos()), "all subscribers are notified from addressResolved only", "notifyAddressChanged (every subscriber of the host) is also called from "+who+": subscribers that already hold these addresses add them a second time")
	if rh := c.fn(rule, "(*DynamicHostResolver).ResolveHost"); rh != nil {
		okDyn := true
		for _, cs := range w.callsIn(rh, "dyn") {
			if !isParam(rh, cs.In.Common().Value, 2) {
				okDyn = false
			}
		}
		c.check(okDyn, rule, "ResolveHost/only-the-new-subscriber", w.pos(rh.Pos()), "a late subscriber alone is told the known addresses", "ResolveHost invokes a callback other than the one being registered")
	}
}

// c19Addresses: the address a backend is known under (list, map, proxy index, removal) is built in one canonical way:
// a static backend uses the URL's host:port text as configured; a resolved one createHostPort(ip, port), which
// brackets exactly the IPv6 literals (isIPv6: the text contains ':'); a UDP backend answers GetAddress() with the
// canonical text of its socket address. A second spelling of the same address makes removals and the attribution of
// responses miss.
func c19Addresses(c *Ctx, rule string) {
	w := c.w
	if f := c.fn(rule, "isIPv6"); f != nil {
		good := false
		for _, r := range returnsUnder(f, nil) {
			cc := w.resultOfCallTo(r.Results[0], "strings.Contains", 0)
			if cc != nil && isParam(f, cc.Call.Args[0], 0) {
				if s, ok := constString(cc.Call.Args[1]); ok && s == ":" {
					good = true
				}
			}
		}
		c.check(good && len(returnsUnder(f, nil)) == 1, rule, "isIPv6/contains-colon", w.pos(f.Pos()), "an address is IPv6 exactly when its text contains ':'", "isIPv6 is not `strings.Contains(ip, \":\")`: createHostPort brackets addresses by it, so an IPv4 address taken for IPv6 (net.ParseIP returns 16 bytes for both) is added as [a.b.c.d]:port and never matches the key it is removed or recognised under")
	}
	// the addresses the resolver reports are the plain texts of the resolved IPs: createHostPort is the one place that
	// puts an IPv6 address into brackets. (A resolver that brackets too yields [[::1]]:5060, which cannot be resolved:
	// the IPv6 addresses of a host never join a udp rotation and are unreachable in a tcp one. Repaired as D25.)
	if f := c.fn(rule, "(*DynamicHostResolver).doResolve"); f != nil {
		good, n := true, 0
		eachInstr(f, func(in ssa.Instruction) {
			call, ok := in.(*ssa.Call)
			if !ok {
				return
			}
			b, isB := call.Call.Value.(*ssa.Builtin)
			if !isB || b.Name() != "append" || len(call.Call.Args) != 2 {
				return
			}
			if !isStringSliceType(call.Type()) {
				return
			}
			for _, e := range varargs(call.Call.Args[1]) {
				for _, v := range phiLeaves(e) {
					n++
					cc, _ := callOfResult(v)
					if cc == nil || w.calleeName(cc) != "(net.IP).String" {
						good = false
					}
				}
			}
		})
		// or a list sized by the answer and filled by index
		eachInstr(f, func(in ssa.Instruction) {
			st, ok := in.(*ssa.Store)
			if !ok {
				return
			}
			ia, ok := st.Addr.(*ssa.IndexAddr)
			if !ok || !isStringSliceType(ia.X.Type()) {
				return
			}
			if _, isMk := strip(ia.X).(*ssa.MakeSlice); !isMk {
				return
			}
			for _, v := range phiLeaves(st.Val) {
				n++
				cc, _ := callOfResult(v)
				if cc == nil || w.calleeName(cc) != "(net.IP).String" {
					good = false
				}
			}
		})
		c.check(good && n >= 1, rule, "doResolve/plain-addresses", w.pos(f.Pos()), "the resolver reports ip.String() as it is", "doResolve does not report the resolved addresses as plain ip.String() texts (it brackets or rewrites them): createHostPort brackets every address that contains ':' again, [[::1]]:5060 cannot be resolved, so the IPv6 addresses a host name resolves to never join the rotation")
	}
	if f := c.fn(rule, "(*RoundRobinBackend).createHostPort"); f != nil {
		v6 := func(a Atom) bool {
			if a.Kind != "bool" {
				return false
			}
			cc := w.resultOfCallTo(a.X, "isIPv6", 0)
			return cc != nil && isParam(f, callArg(cc, 0), 1)
		}
		okShape := true
		for _, val := range []bool{true, false} {
			keep := w.under(assumeAtom(v6, val))
			for _, r := range returnsUnder(f, keep) {
				for _, v := range valuesUnder(f, r.Results[0], keep) {
					sv := w.evalStrUnder(f, v, keep)
					txt := renderParts(sv.parts, func(x ssa.Value) string {
						for i, p := range f.Params {
							if strip(x) == ssa.Value(p) {
								if recvDropped[f] {
									i++
								}
								return fmt.Sprintf("p%d", i)
							}
						}
						return "?"
					})
					want := "{p1:%s}:{p2:%s}"
					if val {
						want = "[{p1:%s}]:{p2:%s}"
					}
					if txt != want {
						okShape = false
					}
				}
			}
		}
		c.check(okShape && len(w.ifsTesting(f, v6)) > 0, rule, "createHostPort/shape", w.pos(f.Pos()), "ip:port, [ip]:port for IPv6", "createHostPort does not build ip:port (and [ip]:port exactly for IPv6 literals)")
	}
	if f := c.fn(rule, "(*UDPBackend).GetAddress"); f != nil {
		good := false
		for _, r := range returnsUnder(f, nil) {
			cc, _ := callOfResult(r.Results[0])
			if cc != nil && strings.HasSuffix(w.calleeName(cc), "UDPAddr).String") {
				if b, ok := isLoadOf(callArg(cc, -1), "UDPBackend.backendAddr"); ok && isParam(f, b, 0) {
					good = true
				}
			}
			// or a field of the backend that holds that text: filled, wherever it is stored, with X.String() of the very
			// address stored into backendAddr of the same object, both stored only there
			if ref, b := loadedField(r.Results[0]); strings.HasPrefix(ref, "UDPBackend.") && ref != "UDPBackend.backendAddr" && isParam(f, b, 0) {
				nText, nAddr, okAll := 0, 0, true
				for _, fn := range w.All {
					texts, addrs := w.fieldStores(fn, ref), w.fieldStores(fn, "UDPBackend.backendAddr")
					nText += len(texts)
					nAddr += len(addrs)
					for _, st := range texts {
						sc, _ := callOfResult(st.Val)
						if sc == nil || !strings.HasSuffix(w.calleeName(sc), "UDPAddr).String") {
							okAll = false
							continue
						}
						same := false
						for _, ad := range addrs {
							if strip(ad.Val) == strip(callArg(sc, -1)) && ad.Addr.(*ssa.FieldAddr).X == st.Addr.(*ssa.FieldAddr).X {
								same = true
							}
						}
						if !same {
							okAll = false
						}
					}
				}
				if okAll && nText >= 1 && nText == nAddr {
					good = true
				}
			}
		}
		c.check(good, rule, "(*UDPBackend).GetAddress/canonical", w.pos(f.Pos()), "the canonical text of the backend's socket address", "UDPBackend.GetAddress does not return backendAddr.String(): the proxy recognises a backend by the canonical text of a packet's source address, so a backend configured with another spelling of its address (an IPv6 literal with capital letters or leading zeros) is not recognised - its responses bind dialogs to the whole pool")
	}
	if f := c.fn(rule, "CreateRoundRobinBackend"); f != nil {
		n := 0
		good := true
		for _, cs := range w.callsIn(f, "NewUDPBackend", "NewTCPBackend") {
			n++
			b, ok := isLoadOf(callArg(cs.In, 1), "URL.Host")
			if !ok {
				good = false
			}
			_ = b
		}
		c.check(good && n == 2, rule, "CreateRoundRobinBackend/static-address", w.pos(f.Pos()), "a static backend is created at the URL's host:port as configured", "a statically configured backend is not created at u.Host (the host:port of its URL) unmodified: an IPv6 literal that is re-bracketed becomes [[::1]]:5060, which can never be dialled")
	}
}

// c19BackendClose: removing a backend closes its connection whenever it has one: TCPBackend.Close takes the lock
// unconditionally (no TryLock that gives up while a Send is in flight) and closes conn on every path where it is set.
func c19BackendClose(c *Ctx, rule string) {
	w := c.w
	f := c.fn(rule, "(*TCPBackend).Close")
	if f == nil {
		return
	}
	var cl ssa.Instruction
	for _, cs := range w.callsIn(f) {
		if strings.HasSuffix(cs.Name, ".Close") && strings.Contains(cs.Name, "net.") {
			if b, ok := isLoadOf(cs.In.Common().Value, "TCPBackend.conn"); ok && isParam(f, b, 0) {
				cl = cs.In
			}
		}
	}
	if cl == nil {
		c.bad(rule, "(*TCPBackend).Close/closes", w.pos(f.Pos()), "TCPBackend.Close does not close t.conn")
		return
	}
	isSet := func(a Atom) bool {
		if a.Kind != "nil" {
			return false
		}
		b, ok := isLoadOf(a.X, "TCPBackend.conn")
		return ok && isParam(f, b, 0)
	}
	mn, mx, inf := countSites(entryPt(f), w.under(assumeAtom(isSet, false)), isInstr(cl))
	c.check(mn == 1 && mx == 1 && !inf, rule, "(*TCPBackend).Close/closes", w.ipos(cl), "an open connection is always closed", fmt.Sprintf("with a connection open TCPBackend.Close closes it min=%d max=%d times (e.g. it gives up when the lock is busy): a backend removed while a send to it is in flight keeps its connection open for ever", mn, mx))
}

// c19FirstRegistration: the first subscriber of a host name gets its first addresses through addressResolved, which
// records them as known; a direct call of the callback leaves the known set empty, so the next resolution announces
// every address as new a second time and a later removal takes out only one of the two copies.
func c19FirstRegistration(c *Ctx, rule string) {
	w := c.w
	f := c.fn(rule, "(*DynamicHostResolver).ResolveHost")
	if f == nil {
		return
	}
	var lk *ssa.Lookup
	eachInstr(f, func(in ssa.Instruction) {
		if l, ok := in.(*ssa.Lookup); ok && l.CommaOk && isParam(f, l.Index, 1) && lk == nil {
			if _, isT := isLoadOf(l.X, "DynamicHostResolver.hostIPs"); isT {
				lk = l
			}
		}
	})
	var ar, dr ssa.CallInstruction
	for _, cs := range w.callsIn(f, "(*DynamicHostResolver).addressResolved") {
		ar = cs.In
	}
	for _, cs := range w.callsIn(f, "(*DynamicHostResolver).doResolve") {
		dr = cs.In
	}
	if lk == nil || ar == nil || dr == nil {
		c.bad(rule, "ResolveHost/first-registration", w.pos(f.Pos()), "ResolveHost does not look the host up, resolve a new one and pass its addresses to addressResolved")
		return
	}
	known := func(a Atom) bool {
		e, isE := a.X.(*ssa.Extract)
		return a.Kind == "bool" && isE && e.Tuple == ssa.Value(lk) && e.Index == 1
	}
	good := isParam(f, callArg(ar, 0), 1) && isResultOf(callArg(ar, 1), dr, 0) && w.requires(f, ar, known, false) && w.requires(f, ar, errNil(dr), true)
	// no direct callback on the new-host side
	for _, cs := range w.callsIn(f, "dyn") {
		if !w.requires(f, cs.In, known, true) {
			good = false
		}
	}
	c.check(good, rule, "ResolveHost/first-registration", w.ipos(ar), "the first addresses of a new host go through addressResolved", "for a host name seen for the first time ResolveHost does not hand the resolved addresses to addressResolved (which records them as known before notifying): the next periodic resolution adds every address a second time, and a vanished address leaves a ghost backend in the rotation")
}

func isStringSliceType(t types.Type) bool {
	sl, ok := t.Underlying().(*types.Slice)
	if !ok {
		return false
	}
	b, ok := sl.Elem().Underlying().(*types.Basic)
	return ok && b.Kind() == types.String
}
