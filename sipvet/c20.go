package main

import (
	"fmt"
	"strings"

	"golang.org/x/tools/go/ssa"
)

func init() {
	register(&propDef{ID: "C20", Run: runC20,
		Explain:    "Structural necessary conditions of 'sending survives connection faults without loss or duplication', decided on the SSA/CFG of every Send implementation of /repo: (1) success-after-write: when every write/dispatch site of a Send function is assumed to fail (or is not executed), no return yields a nil error; (2) full-write: the payload of each connection write is exactly result 0 of msg.Bytes() (never a sub-slice or offset), obtained before the loop, and a serialisation error is returned before any write; (3) bounded-attempts: the retry loop is `for i := 0; i < K; i++` with constant K <= 2, it is the only cycle around the write, and its exhaustion ends in an error; a successful write leaves the loop with nil at once (shared with C03); (4) failure-cleanup: on the failure edge of a write the connection is closed and the cached connection field set to nil before the next attempt, so the next attempt redials; (5) dial-errors: a dial result is cached only on the success edge of the dial, a failed dial returns its error (client transport) or leaves the cache nil (backend), and a write is reachable only with a non-nil cached connection; (6) failover: the secondary is tried only when there is no primary or the primary failed, the failed primary is forgotten (set to nil) before the secondary is tried, the secondary's result is returned, and with neither an error is returned.",
		NotDecided: "what sockets do (partial writes, resets); trusted: net.Conn.Write returns a non-nil error when it writes fewer bytes than given."})
}

type sendSpec struct {
	Fn        string
	ConnField string // cached connection field ("" when none)
	Retry     bool
}

var sendFns = []sendSpec{
	{"(*TCPClientTransport).Send", "TCPClientTransport.conn", true},
	{"(*TCPBackend).Send", "TCPBackend.conn", true},
	{"(*UDPClientTransport).Send", "", false},
	{"(*UDPBackend).Send", "", false},
	{"(*UDPServerTransport).Send", "", false},
	{"(*FailOverClientTransport).Send", "", false},
	{"(*RoundRobinBackend).Send", "", false},
}

func runC20(c *Ctx) {
	w := c.w
	for _, sp := range sendFns {
		f := c.fn("success-after-write", sp.Fn)
		if f == nil {
			continue
		}
		c20Success(c, f)
		if len(w.netWriteSites(f)) > 0 {
			c20FullWrite(c, f)
		}
		if sp.Retry {
			c20Retry(c, f, sp)
		}
	}
	c20Dial(c)
	c20Failover(c)
	c.floor("success-after-write", 7)
	c.floor("full-write", 10)
	c.floor("bounded-attempts", 6)
	c.floor("failure-cleanup", 4)
	// the address dialled is the configured one (shared with C19)
	c19Addresses(c, "dial-errors")
	c20PoolSend(c, "success-after-write")
	c20WriteDeadlineOnly(c)
	ruleTypedNil(c, "dial-errors")
	ruleClockFreeAttempts(c, "bounded-attempts")
}

// c20WriteDeadlineOnly: a send path may bound its own write, and nothing else, on the connection it sends on. The TCP
// connections are shared with a receive loop (the inbound connection a response is returned on, the connection to a
// backend whose answers are read): SetDeadline or SetReadDeadline on a send path arms the reader's deadline too, the
// reader's next Read fails with a time-out although the peer is healthy, the receive loop closes the connection, and the
// next Send finds a connection that the proxy itself has torn down.
func c20WriteDeadlineOnly(c *Ctx) {
	w := c.w
	rule := "failure-cleanup"
	var roots []*ssa.Function
	for _, sp := range sendFns {
		if f := w.Fn(sp.Fn); f != nil {
			roots = append(roots, f)
		}
	}
	set := w.reachableFrom(roots, false)
	n := 0
	for _, fn := range w.All {
		if !set[fn] || !w.isMain(fn) {
			continue
		}
		for _, cs := range w.callsIn(fn) {
			if strings.HasSuffix(cs.Name, ".SetDeadline") || strings.HasSuffix(cs.Name, ".SetReadDeadline") {
				n++
				c.bad(rule, fmt.Sprintf("%s/read-deadline-on-send-path#%d", w.fname(fn), n), w.ipos(cs.In), cs.Name+" on a send path also arms the read deadline of a connection that a receive loop of the proxy reads: some time after a send the reader times out on a healthy connection, the proxy closes it and the next message to that peer fails or goes over a new connection (use SetWriteDeadline to bound a write)")
			}
		}
	}
	c.okTrivial(rule, "send-paths/write-deadline-only", "-", fmt.Sprintf("no SetDeadline/SetReadDeadline below the %d send functions", len(roots)))
}

// c20Success: with all dispatch sites failing, no nil is returned.
func c20Success(c *Ctx, f *ssa.Function) {
	w := c.w
	rule := "success-after-write"
	disp := w.dispatchSites(f)
	if len(disp) == 0 {
		c.bad(rule, w.fname(f)+"/no-write", w.pos(f.Pos()), "this Send never writes to the network")
		return
	}
	var as []assumption
	for _, d := range disp {
		if errIndex(d.In) >= 0 {
			as = append(as, assumeAtom(errNil(d.In), false))
		}
	}
	keep := w.under(as...)
	ei := f.Signature.Results().Len() - 1
	bad := ""
	for _, r := range returnsUnder(f, keep) {
		for _, v := range valuesUnder(f, r.Results[ei], keep) {
			if isNilConst(v) {
				bad = w.ipos(r)
			}
			// a forwarded error of a dispatch site is fine; an unrelated call's nil-able error is not a success indicator
		}
	}
	c.check(bad == "", rule, w.fname(f)+"/nil-only-after-a-successful-write", w.pos(f.Pos()), "nil is returned only on the success edge of a write", "Send can return nil at "+bad+" although no write succeeded (no connection, every attempt failed, or nothing was tried): the caller believes the message was sent", fmt.Sprintf("%d write/dispatch sites assumed to fail", len(disp)))
	// conversely a successful write is reported as success (shared shape with C03.4 handled there)
}

func c20FullWrite(c *Ctx, f *ssa.Function) {
	w := c.w
	rule := "full-write"
	var bc ssa.CallInstruction
	for _, cs := range w.callsIn(f, "(*Message).Bytes") {
		if bc != nil {
			c.bad(rule, w.fname(f)+"/Bytes#2", w.ipos(cs.In), "the message is serialised more than once per Send")
		}
		bc = cs.In
	}
	if bc == nil {
		c.bad(rule, w.fname(f)+"/Bytes", w.pos(f.Pos()), "the payload is not produced by msg.Bytes()")
		return
	}
	isMsgParam := false
	for _, p := range f.Params[1:] {
		if namedOf(p.Type()) == "Message" && strip(callArg(bc, -1)) == ssa.Value(p) {
			isMsgParam = true
		}
	}
	c.check(isMsgParam, rule, w.fname(f)+"/Bytes-of-msg", w.ipos(bc), "serialises the message being sent", "Bytes() is applied to another message")
	ok, why := w.errPropagated(f, bc)
	c.check(ok, rule, w.fname(f)+"/Bytes-error", w.ipos(bc), "a serialisation error is returned", "a failing Bytes() is not reported: "+why)
	for i, ws := range w.netWriteSites(f) {
		payload := ws.In.Common().Args[0]
		if !ws.In.Common().IsInvoke() && len(ws.In.Common().Args) > 1 {
			payload = ws.In.Common().Args[1]
		}
		key := fmt.Sprintf("%s/write#%d", w.fname(f), i+1)
		c.check(isResultOf(payload, bc, 0), rule, key+"/whole-message", w.ipos(ws.In), "each attempt writes the whole serialised message", "the write sends "+w.termKey(payload)+" instead of the whole result of msg.Bytes(): after a redial only part of the message would reach the fresh connection")
		c.check(w.requires(f, ws.In, errNil(bc), true), rule, key+"/after-serialisation", w.ipos(ws.In), "written only after successful serialisation", "a write is reachable although Bytes() failed")
		// Bytes() is hoisted: not re-serialised per attempt (the message could change)
		c.check(!canReach(at(ws.In), nil, isInstr(bc), nil), rule, key+"/serialised-once", w.ipos(ws.In), "serialised once, before the attempts", "the message is re-serialised between attempts")
	}
}

func c20Retry(c *Ctx, f *ssa.Function, sp sendSpec) {
	w := c.w
	ws := w.netWriteSites(f)
	if len(ws) != 1 {
		c.bad("bounded-attempts", w.fname(f)+"/write-site", w.pos(f.Pos()), fmt.Sprintf("expected one connection write site, found %d", len(ws)))
		return
	}
	wr := ws[0].In
	rule := "bounded-attempts"
	// the bounded loop header
	var hdr *ssa.BasicBlock
	var bound int64 = -1
	for _, b := range f.Blocks {
		if b.Comment != "for.loop" || !b.Dominates(wr.Block()) || len(b.Instrs) == 0 {
			continue
		}
		ifi, ok := b.Instrs[len(b.Instrs)-1].(*ssa.If)
		if !ok {
			continue
		}
		a := w.atom(ifi.Cond)
		if a.Kind != "ltk" {
			continue
		}
		ph, isPhi := a.X.(*ssa.Phi)
		if !isPhi || len(ph.Edges) != 2 {
			continue
		}
		k0, ok0 := constInt(ph.Edges[0])
		step := isPlusOne(ph.Edges[1], ph)
		if !(ok0 && k0 == 0 && step) {
			k1, ok1 := constInt(ph.Edges[1])
			if !(ok1 && k1 == 0 && isPlusOne(ph.Edges[0], ph)) {
				continue
			}
		}
		// body on the edge i < K
		if w.succOn(ifi, true).Dominates(wr.Block()) {
			hdr, bound = b, a.K
		}
	}
	c.check(hdr != nil && bound >= 1 && bound <= 2, rule, w.fname(f)+"/loop-bound", w.ipos(wr), fmt.Sprintf("attempt loop `for i := 0; i < %d; i++`", bound), fmt.Sprintf("the write is not inside a counting loop with a constant bound of at most 2 attempts (found bound %d): retries are unbounded or the count changed", bound))
	if hdr == nil {
		return
	}
	// every back edge on a cycle through the write targets that header
	okBack := true
	for _, b := range f.Blocks {
		for _, s := range b.Succs {
			if s.Dominates(b) && s != hdr { // a back edge to another header
				// is the write on that cycle?
				if s.Dominates(wr.Block()) && canReach(at(wr), nil, func(in ssa.Instruction) bool { return in.Block() == b }, nil) {
					okBack = false
				}
			}
		}
	}
	c.check(okBack, rule, w.fname(f)+"/single-cycle", w.ipos(wr), "no other cycle surrounds the write", "the write lies on another cycle than the bounded attempt loop")
	// exhaustion -> error
	ifi := hdr.Instrs[len(hdr.Instrs)-1].(*ssa.If)
	exit := w.succOn(ifi, false)
	good := false
	for _, r := range returnsUnder(f, nil) {
		if exit.Dominates(r.Block()) {
			good = allVals(phiLeaves(r.Results[0]), w.isFreshError)
		}
	}
	c.check(good, rule, w.fname(f)+"/exhaustion-is-error", w.pos(f.Pos()), "running out of attempts is an error", "after the last attempt Send does not return a fresh error")
	// nothing refuses the send before the attempts: an error return that does not lie behind the loop head carries the
	// serialisation error, nothing else (a "closed"/"disabled" flag tested up front makes the transport refuse for good,
	// although a fresh connection could be dialled)
	okEarly := true
	whereEarly := ""
	for _, r := range returnsUnder(f, nil) {
		if hdr.Dominates(r.Block()) || len(r.Results) == 0 {
			continue
		}
		for _, v := range phiLeaves(r.Results[len(r.Results)-1]) {
			cc, idx := callOfResult(v)
			if cc != nil && w.calleeName(cc) == "(*Message).Bytes" && idx == errIndex(cc) {
				continue
			}
			okEarly = false
			whereEarly = w.ipos(r)
		}
	}
	c.check(okEarly, rule, w.fname(f)+"/no-refusal-before-attempts", w.pos(f.Pos()), "before the attempts only a serialisation failure ends Send", "Send returns at "+whereEarly+" before any attempt, and not because the message could not be serialised: a state flag (closed, disabled, expired) makes the transport refuse although it could redial - every later send fails too")
	// success leaves at once with nil
	okS := false
	keep := w.under(assumeAtom(errNil(wr), true))
	for _, r := range returnsUnder(f, keep) {
		if canReach(at(wr), keep, isInstr(r), nil) {
			okS = allVals(valuesUnder(f, r.Results[0], keep), func(v ssa.Value) bool { return nilUnder(v, wr) })
		}
	}
	c.check(okS && !canReach(at(wr), keep, func(in ssa.Instruction) bool { return in.Block() == hdr }, nil), rule, w.fname(f)+"/success-returns", w.ipos(wr), "a successful write returns nil without another attempt", "after a successful write Send continues the loop or does not return nil")

	// failure cleanup
	rule = "failure-cleanup"
	fail := w.under(assumeAtom(errNil(wr), false))
	var nilStores, closes []ssa.Instruction
	for _, st := range w.fieldStores(f, sp.ConnField) {
		if isNilConst(st.Val) {
			nilStores = append(nilStores, st)
		}
	}
	for _, cs := range w.callsIn(f, "(net.Conn).Close") {
		if _, isL := isLoadOf(cs.In.Common().Value, sp.ConnField); isL {
			closes = append(closes, cs.In)
		}
	}
	toHdr := func(in ssa.Instruction) bool { return in.Block() == hdr }
	c.check(len(nilStores) > 0 && !canReach(at(wr), fail, toHdr, inSet(nilStores)), rule, w.fname(f)+"/forget-failed-connection", w.ipos(wr), "the failed connection is forgotten before the next attempt", "after a failed write the next attempt is reachable with the failed connection still cached ("+sp.ConnField+" not set to nil): the retry writes to the dead connection again and never redials")
	c.check(len(closes) > 0 && !canReach(at(wr), fail, toHdr, inSet(closes)), rule, w.fname(f)+"/close-failed-connection", w.ipos(wr), "the failed connection is closed", "after a failed write the connection is not closed before the next attempt (descriptor leak)")
	// the close precedes the forgetting (otherwise Close is called on nil)
	if len(nilStores) > 0 && len(closes) > 0 {
		c.check(!canReach(at(nilStores[0]), fail, inSet(closes), toHdr), rule, w.fname(f)+"/close-before-forget", w.ipos(closes[0]), "closed before forgotten", "the connection field is cleared before Close is called on it")
	}
	// write only with a connection
	connNil := func(a Atom) bool {
		if a.Kind != "nil" {
			return false
		}
		_, ok := isLoadOf(a.X, sp.ConnField)
		return ok
	}
	c.check(w.requires(f, wr, connNil, false), "dial-errors", w.fname(f)+"/write-needs-connection", w.ipos(wr), "a write happens only with a cached connection", "the write is reachable with "+sp.ConnField+" == nil (nil dereference when the dial failed)")
	recvB, isL := isLoadOf(wr.Common().Value, sp.ConnField)
	c.check(isL && isParam(f, recvB, 0), "dial-errors", w.fname(f)+"/write-on-cached-connection", w.ipos(wr), "the write goes to the cached connection", "the write does not use the transport's cached connection field")
}

func c20Dial(c *Ctx) {
	w := c.w
	rule := "dial-errors"
	dialNames := []string{"net.Dial", "net.DialTCP", "net.DialTimeout", "(*net.Dialer).Dial", "(*net.Dialer).DialContext"}
	for _, sp := range []struct {
		fn, field  string
		returnsErr bool
	}{
		{"(*TCPClientTransport).Send", "TCPClientTransport.conn", true},
		{"(*TCPBackend).connect", "TCPBackend.conn", false},
	} {
		f := c.fn(rule, sp.fn)
		if f == nil {
			continue
		}
		var dial ssa.CallInstruction
		for _, cs := range w.callsIn(f, dialNames...) {
			dial = cs.In
		}
		if dial == nil {
			c.bad(rule, sp.fn+"/dial", w.pos(f.Pos()), "no dial: a failed or absent connection can never be re-established")
			continue
		}
		nOK := 0
		for _, st := range w.fieldStores(f, sp.field) {
			if isNilConst(st.Val) {
				continue
			}
			if isResultOf(st.Val, dial, 0) {
				nOK++
				c.check(w.requires(f, st, errNil(dial), true), rule, sp.fn+"/cache-only-successful-dial", w.ipos(st), "the dial result is cached only when the dial succeeded", "the dial result is stored in "+sp.field+" without (or before) checking the dial error: a failed dial leaves a typed-nil connection that passes the `== nil` test and panics on use")
			} else {
				c.bad(rule, sp.fn+"/foreign-connection", w.ipos(st), sp.field+" is set to "+w.termKey(st.Val)+", which is not the result of the dial")
			}
		}
		c.check(nOK == 1, rule, sp.fn+"/dial-result-cached", w.ipos(dial), "the fresh connection is cached", fmt.Sprintf("expected the dial result to be cached once, found %d stores", nOK))
		ok, why := w.errPropagated(f, dial)
		c.check(ok, rule, sp.fn+"/dial-error-returned", w.ipos(dial), "a refused connection yields an error", "a failed dial is not reported: "+why)
		// on failure nothing but nil may be cached
		fail := w.under(assumeAtom(errNil(dial), false))
		for _, st := range w.fieldStores(f, sp.field) {
			if canReach(at(dial), fail, isInstr(st), nil) && !isNilConst(st.Val) {
				c.bad(rule, sp.fn+"/cache-on-failed-dial", w.ipos(st), "a non-nil value is cached on the failure edge of the dial")
			}
		}
	}
	// backend: the send loop gives up with an error when connect left no connection (covered by write-needs-connection + exhaustion)
	// reconnect only when allowed
	if f := w.Fn("(*TCPClientTransport).Send"); f != nil {
		for _, cs := range w.callsIn(f, dialNames...) {
			rec := func(a Atom) bool {
				if a.Kind != "bool" {
					return false
				}
				_, ok := isLoadOf(a.X, "TCPClientTransport.reconnectable")
				return ok
			}
			connNil := func(a Atom) bool {
				if a.Kind != "nil" {
					return false
				}
				_, ok := isLoadOf(a.X, "TCPClientTransport.conn")
				return ok
			}
			c.check(w.requires(f, cs.In, rec, true) && w.requires(f, cs.In, connNil, true), rule, "(*TCPClientTransport).Send/dial-guard", w.ipos(cs.In), "dials only without a cached connection and when reconnectable", "the dial is not guarded by conn == nil && reconnectable (an inbound-only transport would dial out, or a healthy connection is replaced)")
			// address dialled is the transport's own
			res := w.Flow().backward([]ssa.Value{cs.In.Common().Args[len(cs.In.Common().Args)-1]}, func(n fnode) bool {
				_, isP := n.(*ssa.Parameter)
				return isP
			})
			fv := w.field("TCPClientTransport", "addr")
			c.check(fv != nil && res.Nodes[fv], rule, "(*TCPClientTransport).Send/dial-address", w.ipos(cs.In), "dials the transport's own destination", "the address dialled does not derive from t.addr")
		}
	}
	c.floor(rule, 10)
}

func c20Failover(c *Ctx) {
	w := c.w
	rule := "failover"
	f := c.fn(rule, "(*FailOverClientTransport).Send")
	if f == nil {
		return
	}
	var prim, sec ssa.CallInstruction
	np, ns := 0, 0
	for _, cs := range w.callsIn(f, "ClientTransport.Send") {
		if _, ok := isLoadOf(cs.In.Common().Value, "FailOverClientTransport.primary"); ok {
			prim = cs.In
			np++
		}
		if _, ok := isLoadOf(cs.In.Common().Value, "FailOverClientTransport.secondary"); ok {
			sec = cs.In
			ns++
		}
	}
	if np > 1 || ns > 1 {
		c.bad(rule, "FailOver.Send/sites", w.pos(f.Pos()), fmt.Sprintf("expected one primary and one secondary send site, found %d and %d", np, ns))
		return
	}
	if prim == nil || sec == nil {
		c.bad(rule, "FailOver.Send/sites", w.pos(f.Pos()), "Send must try fct.primary and fct.secondary")
		return
	}
	isNilOf := func(ref string) func(Atom) bool {
		return func(a Atom) bool {
			if a.Kind != "nil" {
				return false
			}
			_, ok := isLoadOf(a.X, ref)
			return ok
		}
	}
	primNil, secNil := isNilOf("FailOverClientTransport.primary"), isNilOf("FailOverClientTransport.secondary")
	c.check(w.requires(f, prim, primNil, false) && w.requires(f, sec, secNil, false), rule, "FailOver.Send/nil-guards", w.pos(f.Pos()), "each transport is used only when present", "a transport is used without its nil test")
	c.check(!canReach(entryPt(f), w.under(assumeAtom(primNil, false)), isInstr(sec), isInstr(prim)) && !canReach(at(sec), nil, isInstr(prim), nil), rule, "FailOver.Send/primary-first", w.ipos(sec), "the primary is tried first", "with a primary installed the secondary can be tried before (or without) it")
	c.check(!canReach(at(prim), w.under(assumeAtom(errNil(prim), true)), isInstr(sec), nil), rule, "FailOver.Send/secondary-only-on-failure", w.ipos(sec), "the secondary is tried only when the primary failed or is absent", "the secondary is tried although the primary succeeded (the message is sent twice)")
	// a path through the primary reaches the secondary only after primary = nil
	var forget []ssa.Instruction
	for _, st := range w.fieldStores(f, "FailOverClientTransport.primary") {
		if isNilConst(st.Val) {
			forget = append(forget, st)
		} else {
			c.bad(rule, "FailOver.Send/primary-store", w.ipos(st), "Send stores a non-nil primary")
		}
	}
	fail := w.under(assumeAtom(errNil(prim), false))
	c.check(len(forget) > 0 && !canReach(at(prim), fail, func(in ssa.Instruction) bool { return in == ssa.Instruction(sec) || isReturn(in) }, inSet(forget)), rule, "FailOver.Send/forget-failed-primary", w.ipos(prim), "a failed primary is forgotten before falling back", "after the primary failed, Send can reach the secondary or return with the failed primary still installed: every later message hits the dead path first")
	for _, st := range forget {
		c.check(w.requires(f, st, errNil(prim), false), rule, "FailOver.Send/forget-only-on-failure", w.ipos(st), "the primary is dropped only after it failed", "the primary is dropped although it did not fail")
	}
	// secondary failing: its error is returned
	okRet := false
	for _, r := range returnsUnder(f, nil) {
		if canReach(at(sec), nil, isInstr(r), nil) {
			okRet = allVals(phiLeaves(r.Results[0]), func(v ssa.Value) bool { return isResultOf(v, sec, 0) })
		}
	}
	c.check(okRet, rule, "FailOver.Send/secondary-result-returned", w.ipos(sec), "the fallback's outcome is the Send's outcome", "the result of secondary.Send is not what Send returns (an error is swallowed or success invented)")
	// neither present -> error
	keep := w.under(assumeAtom(primNil, true), assumeAtom(secNil, true))
	okE := false
	for _, r := range returnsUnder(f, keep) {
		okE = allVals(valuesUnder(f, r.Results[0], keep), w.isFreshError)
		if !okE {
			break
		}
	}
	c.check(okE, rule, "FailOver.Send/no-path-is-error", w.pos(f.Pos()), "with no transport at all an error is returned", "with neither primary nor secondary Send does not return a fresh error")
	// primary failed and no secondary -> error as well
	keep = w.under(assumeAtom(errNil(prim), false), assumeAtom(secNil, true))
	okE = true
	for _, r := range returnsUnder(f, keep) {
		for _, v := range valuesUnder(f, r.Results[0], keep) {
			if isNilConst(v) {
				okE = false
			}
		}
	}
	c.check(okE, rule, "FailOver.Send/failed-primary-no-secondary", w.pos(f.Pos()), "a failed primary without fallback is an error", "when the primary fails and there is no secondary Send returns nil")
	c.floor(rule, 8)
	_ = strings.Join
}

// mustPrecedeOrAbsent: on every entry path to b, either a was executed before or a is not reachable at all afterwards.
func mustPrecedeOrAbsent(f *ssa.Function, a, b ssa.Instruction) bool {
	return !canReach(at(b), nil, isInstr(a), nil)
}

// c20PoolSend: RoundRobinBackend.Send reports what the chosen backend's Send reports: on the dispatch path its result
// is the result of that very call (a nil from an outer, shadowed variable would report success although nothing was
// written on any connection).
func c20PoolSend(c *Ctx, rule string) {
	w := c.w
	f := c.fn(rule, "(*RoundRobinBackend).Send")
	if f == nil {
		return
	}
	var bs ssa.CallInstruction
	n := 0
	for _, cs := range w.callsIn(f, "Backend.Send") {
		bs = cs.In
		n++
	}
	if bs == nil || n != 1 {
		c.bad(rule, "(*RoundRobinBackend).Send/dispatch", w.pos(f.Pos()), "RoundRobinBackend.Send does not dispatch through exactly one Backend.Send call")
		return
	}
	good := true
	nr := 0
	for _, r := range returnsUnder(f, nil) {
		if !canReach(at(bs), nil, isInstr(r), nil) || !r.Block().Dominates(r.Block()) {
			continue
		}
		// returns reachable after the dispatch without another iteration's dispatch in between
		if !mustPrecede(f, []ssa.Instruction{bs}, r, nil) {
			continue
		}
		nr++
		for _, v := range phiLeaves(r.Results[0]) {
			if !isResultOf(v, bs, 0) {
				good = false
			}
		}
	}
	c.check(good && nr > 0, rule, "(*RoundRobinBackend).Send/reports-backend-result", w.ipos(bs), "the pool reports the chosen backend's result", "after dispatching to a backend RoundRobinBackend.Send returns something other than that backend's Send result: a failed send (refused or reset connection) is reported as success although no byte was written anywhere")
}
