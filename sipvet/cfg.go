package main

import (
	"fmt"
	"go/token"
	"go/types"
	"sort"
	"strings"

	"golang.org/x/tools/go/ssa"
)

// Atom is a normalised branch condition: the condition value is true iff (Key holds) != Neg.
type Atom struct {
	Key string
	Neg bool
	// classification for rules
	Kind string    // "nil", "eqstr", "eq", "lt", "bool"
	X    ssa.Value // principal operand (nil-tested value, compared term, bool value)
	Str  string    // for eqstr
	K    int64     // for lt with constant: X < K
	Y    ssa.Value // for lt/eq between two terms
}

func (w *World) atom(c ssa.Value) Atom {
	neg := false
	for {
		c = strip(c)
		if u, ok := c.(*ssa.UnOp); ok && u.Op == token.NOT {
			neg = !neg
			c = u.X
			continue
		}
		break
	}
	if b, ok := c.(*ssa.BinOp); ok {
		switch b.Op {
		case token.EQL, token.NEQ:
			n := b.Op == token.NEQ
			x, y := b.X, b.Y
			if isNilConst(x) {
				x, y = y, x
			}
			if isNilConst(y) {
				return Atom{Key: "nil(" + w.termKey(x) + ")", Neg: neg != n, Kind: "nil", X: strip(x)}
			}
			if s, ok := constString(x); ok {
				x, y = y, x
				_ = s
			}
			if s, ok := constString(y); ok {
				return Atom{Key: fmt.Sprintf("eq(%s,%q)", w.termKey(x), s), Neg: neg != n, Kind: "eqstr", X: strip(x), Str: s}
			}
			if _, ok := constInt(x); ok {
				x, y = y, x
			}
			if k, ok := constInt(y); ok && isIntegerType(x.Type()) {
				if k == -1 && w.isIndexResult(x) {
					// strings.Index*(..) == -1 is < 0: one atom for the spellings == -1, < 0, <= -1 (and != -1, >= 0, > -1)
					return Atom{Key: fmt.Sprintf("lt(%s,%d)", w.termKey(x), 0), Neg: neg != n, Kind: "ltk", X: strip(x), K: 0}
				}
				if _, isLen := lenOf(x); isLen && k == 0 {
					// len(x) == 0 is len(x) < 1: one atom for the spellings == 0, <= 0, < 1 (and != 0, > 0, >= 1)
					return Atom{Key: fmt.Sprintf("lt(%s,%d)", w.termKey(x), 1), Neg: neg != n, Kind: "ltk", X: strip(x), K: 1}
				}
				return Atom{Key: fmt.Sprintf("eqk(%s,%d)", w.termKey(x), k), Neg: neg != n, Kind: "eqk", X: strip(x), K: k}
			}
			kx, ky := w.termKey(x), w.termKey(y)
			if ky < kx {
				kx, ky = ky, kx
				x, y = y, x
			}
			return Atom{Key: "eq(" + kx + "," + ky + ")", Neg: neg != n, Kind: "eq", X: strip(x), Y: strip(y)}
		case token.LSS, token.LEQ, token.GTR, token.GEQ:
			x, y := b.X, b.Y
			op := b.Op
			// constant on the left: flip
			if _, ok := constInt(x); ok {
				x, y = y, x
				switch op {
				case token.LSS:
					op = token.GTR
				case token.LEQ:
					op = token.GEQ
				case token.GTR:
					op = token.LSS
				case token.GEQ:
					op = token.LEQ
				}
			}
			if k, ok := constInt(y); ok && isIntegerType(x.Type()) {
				// normalise to X < K with polarity
				switch op {
				case token.LSS: // x < k
					return Atom{Key: fmt.Sprintf("lt(%s,%d)", w.termKey(x), k), Neg: neg, Kind: "ltk", X: strip(x), K: k}
				case token.LEQ: // x <= k  == x < k+1
					return Atom{Key: fmt.Sprintf("lt(%s,%d)", w.termKey(x), k+1), Neg: neg, Kind: "ltk", X: strip(x), K: k + 1}
				case token.GTR: // x > k == !(x < k+1)
					return Atom{Key: fmt.Sprintf("lt(%s,%d)", w.termKey(x), k+1), Neg: !neg, Kind: "ltk", X: strip(x), K: k + 1}
				case token.GEQ: // x >= k == !(x < k)
					return Atom{Key: fmt.Sprintf("lt(%s,%d)", w.termKey(x), k), Neg: !neg, Kind: "ltk", X: strip(x), K: k}
				}
			}
			// general: normalise to lt(a,b) / le(a,b) with the operands as written order a<b
			switch op {
			case token.LSS:
				return Atom{Key: "lt(" + w.termKey(x) + "," + w.termKey(y) + ")", Neg: neg, Kind: "lt", X: strip(x), Y: strip(y)}
			case token.GEQ: // x >= y == !(x < y)
				return Atom{Key: "lt(" + w.termKey(x) + "," + w.termKey(y) + ")", Neg: !neg, Kind: "lt", X: strip(x), Y: strip(y)}
			case token.GTR: // x > y == y < x
				return Atom{Key: "lt(" + w.termKey(y) + "," + w.termKey(x) + ")", Neg: neg, Kind: "lt", X: strip(y), Y: strip(x)}
			case token.LEQ: // x <= y == !(y < x)
				return Atom{Key: "lt(" + w.termKey(y) + "," + w.termKey(x) + ")", Neg: !neg, Kind: "lt", X: strip(y), Y: strip(x)}
			}
		}
	}
	return Atom{Key: "b(" + w.termKey(c) + ")", Neg: neg, Kind: "bool", X: c}
}

func isIntegerType(t types.Type) bool {
	b, ok := t.Underlying().(*types.Basic)
	return ok && b.Info()&types.IsInteger != 0
}

// edgeKeep decides whether the CFG edge b -> b.Succs[i] is kept.
type edgeKeep func(b *ssa.BasicBlock, i int) bool

func keepAll(*ssa.BasicBlock, int) bool { return true }

// assumption fixes the truth value of atoms: match returns (applies, value of Key).
type assumption func(a Atom, ifi *ssa.If) (bool, bool)

// under builds an edge filter keeping only If-edges consistent with all assumptions.
func (w *World) under(as ...assumption) edgeKeep {
	var keep edgeKeep
	busy := map[*ssa.If]bool{}
	// truth of a condition that is a boolean variable joined from several tests (`ok := a && b; ... if ok`): the value on
	// every incoming edge that is itself consistent with the assumptions, when they all agree
	var truth func(v ssa.Value, ifi *ssa.If, d int) (bool, bool)
	truth = func(v ssa.Value, ifi *ssa.If, d int) (bool, bool) {
		if d > 4 {
			return false, false
		}
		switch x := v.(type) {
		case *ssa.Const:
			if b, ok := constBool(x); ok {
				return b, true
			}
			return false, false
		case *ssa.UnOp:
			if x.Op == token.NOT {
				t, ok := truth(x.X, ifi, d+1)
				return !t, ok
			}
			return false, false
		case *ssa.Phi:
			val, n := false, 0
			for k, e := range x.Edges {
				pred := x.Block().Preds[k]
				feasible := false
				for si, sb := range pred.Succs {
					if sb == x.Block() && keep(pred, si) {
						feasible = true
					}
				}
				if !feasible {
					continue
				}
				t, ok := truth(e, ifi, d+1)
				if !ok || (n > 0 && t != val) {
					return false, false
				}
				val = t
				n++
			}
			return val, n > 0
		}
		a := w.atom(v)
		for _, f := range as {
			if applies, want := f(a, ifi); applies {
				if a.Neg {
					return !want, true
				}
				return want, true
			}
		}
		return false, false
	}
	keep = func(b *ssa.BasicBlock, i int) bool {
		if len(b.Instrs) == 0 {
			return true
		}
		ifi, ok := b.Instrs[len(b.Instrs)-1].(*ssa.If)
		if !ok {
			return true
		}
		if ph, isPhi := ifi.Cond.(*ssa.Phi); isPhi && !busy[ifi] {
			busy[ifi] = true
			t, known := truth(ph, ifi, 0)
			busy[ifi] = false
			if known {
				return (i == 0) == t
			}
		}
		a := w.atom(ifi.Cond)
		// key value on this edge
		keyVal := !a.Neg
		if i == 1 {
			keyVal = a.Neg
		}
		for _, f := range as {
			if applies, want := f(a, ifi); applies && want != keyVal {
				return false
			}
		}
		return true
	}
	return keep
}

// blockInCycle: b can reach itself.
func (w *World) blockInCycle(b *ssa.BasicBlock) bool {
	seen := map[*ssa.BasicBlock]bool{}
	work := append([]*ssa.BasicBlock{}, b.Succs...)
	for len(work) > 0 {
		x := work[len(work)-1]
		work = work[:len(work)-1]
		if x == b {
			return true
		}
		if seen[x] {
			continue
		}
		seen[x] = true
		work = append(work, x.Succs...)
	}
	return false
}

// pt is an instruction position.
type pt struct {
	b *ssa.BasicBlock
	i int
}

func at(in ssa.Instruction) pt {
	b := in.Block()
	for i, x := range b.Instrs {
		if x == in {
			return pt{b, i}
		}
	}
	return pt{b, -1}
}

func entryPt(fn *ssa.Function) pt { return pt{fn.Blocks[0], -1} }

// blockStart is the position just before the first instruction of b.
func blockStart(b *ssa.BasicBlock) pt { return pt{b, -1} }

// canReach reports whether some path starting just after `from` executes an instruction
// satisfying target, following kept edges and never executing an instruction satisfying avoid.
func canReach(from pt, keep edgeKeep, target func(ssa.Instruction) bool, avoid func(ssa.Instruction) bool) bool {
	return reachWitness(from, keep, target, avoid) != nil
}

func reachWitness(from pt, keep edgeKeep, target func(ssa.Instruction) bool, avoid func(ssa.Instruction) bool) ssa.Instruction {
	if keep == nil {
		keep = keepAll
	}
	seen := map[*ssa.BasicBlock]bool{}
	type item struct {
		b *ssa.BasicBlock
		i int
	}
	work := []item{{from.b, from.i + 1}}
	for len(work) > 0 {
		it := work[len(work)-1]
		work = work[:len(work)-1]
		stopped := false
		for k := it.i; k < len(it.b.Instrs); k++ {
			in := it.b.Instrs[k]
			if target != nil && target(in) {
				return in
			}
			if avoid != nil && avoid(in) {
				stopped = true
				break
			}
		}
		if stopped {
			continue
		}
		for si, s := range it.b.Succs {
			if !keep(it.b, si) || edgeDead(it.b, si) {
				continue
			}
			if !seen[s] {
				seen[s] = true
				work = append(work, item{s, 0})
			}
		}
	}
	return nil
}

func isInstr(x ssa.Instruction) func(ssa.Instruction) bool {
	return func(in ssa.Instruction) bool { return in == x }
}

func inSet(xs []ssa.Instruction) func(ssa.Instruction) bool {
	m := map[ssa.Instruction]bool{}
	for _, x := range xs {
		m[x] = true
	}
	return func(in ssa.Instruction) bool { return m[in] }
}

func siteInstrs(cs []callSite) []ssa.Instruction {
	var out []ssa.Instruction
	for _, c := range cs {
		out = append(out, c.In)
	}
	return out
}

func isReturn(in ssa.Instruction) bool {
	_, ok := in.(*ssa.Return)
	return ok
}

// guarded reports whether target is unreachable from the function entry once the assumptions hold,
// i.e. target executes only when at least one assumption is false... used as: guarded(target, assume K=false)
// == "target requires K".
func (w *World) unreachableUnder(fn *ssa.Function, target ssa.Instruction, as ...assumption) bool {
	keep := w.under(as...)
	if !canReach(entryPt(fn), keep, isInstr(target), nil) {
		return true
	}
	// the pruned graph still has a path: it may be one that answers the same test differently at two places
	// (`if m != "A" && m != "B" { return }; if m == "A" {..} else {target}`); walk the paths with the tests remembered
	return w.consistentlyUnreachable(fn, keep, target)
}

// consistentlyUnreachable: no path from the entry to target, over kept edges, on which every stable test (an atom whose
// operands are computed outside loops) has one value throughout. Bounded; gives up (false) when the bound is hit.
func (w *World) consistentlyUnreachable(fn *ssa.Function, keep edgeKeep, target ssa.Instruction) bool {
	stable := map[*ssa.If]string{}
	for _, b := range fn.Blocks {
		if len(b.Instrs) == 0 {
			continue
		}
		ifi, ok := b.Instrs[len(b.Instrs)-1].(*ssa.If)
		if !ok {
			continue
		}
		a := w.atom(ifi.Cond)
		if a.Key == "" {
			continue
		}
		okOps := true
		for _, o := range []ssa.Value{a.X, a.Y} {
			if o == nil {
				continue
			}
			switch x := strip(o).(type) {
			case *ssa.Parameter, *ssa.Const, *ssa.FreeVar:
			case *ssa.Phi:
				okOps = false
			case ssa.Instruction:
				if x.Block() == nil || w.blockInCycle(x.Block()) {
					okOps = false
				}
			default:
				okOps = false
			}
		}
		if okOps && (a.Kind == "eqstr" || a.Kind == "nil" || a.Kind == "bool" || a.Kind == "eqk") {
			stable[ifi] = a.Key
		}
	}
	if len(stable) < 2 {
		return false
	}
	type state struct {
		b   *ssa.BasicBlock
		asg string
	}
	seen := map[state]bool{}
	budget := 20000
	tb := target.Block()
	var dfs func(b *ssa.BasicBlock, asg map[string]bool) bool
	dfs = func(b *ssa.BasicBlock, asg map[string]bool) bool {
		if b == tb {
			return true
		}
		budget--
		if budget < 0 {
			return true
		}
		keys := make([]string, 0, len(asg))
		for k, v := range asg {
			if v {
				keys = append(keys, k+"=1")
			} else {
				keys = append(keys, k+"=0")
			}
		}
		sort.Strings(keys)
		stt := state{b, strings.Join(keys, ";")}
		if seen[stt] {
			return false
		}
		seen[stt] = true
		var ifi *ssa.If
		if len(b.Instrs) > 0 {
			ifi, _ = b.Instrs[len(b.Instrs)-1].(*ssa.If)
		}
		for i, sb := range b.Succs {
			if !keep(b, i) || edgeDead(b, i) {
				continue
			}
			next := asg
			if ifi != nil {
				if k, ok := stable[ifi]; ok {
					a := w.atom(ifi.Cond)
					val := (i == 0) != a.Neg
					if have, set := asg[k]; set {
						if have != val {
							continue
						}
					} else {
						next = make(map[string]bool, len(asg)+1)
						for kk, vv := range asg {
							next[kk] = vv
						}
						next[k] = val
					}
				}
			}
			if dfs(sb, next) {
				return true
			}
		}
		return false
	}
	return !dfs(fn.Blocks[0], map[string]bool{})
}

// requires reports whether every entry path to target passes an If-edge on which the atom selected by
// sel has the value val (sel returns true for the atoms of interest).
func (w *World) requires(fn *ssa.Function, target ssa.Instruction, sel func(Atom) bool, val bool) bool {
	// sanity: target must be reachable at all
	if !canReach(entryPt(fn), nil, isInstr(target), nil) {
		return false
	}
	return w.unreachableUnder(fn, target, func(a Atom, _ *ssa.If) (bool, bool) {
		if sel(a) {
			return true, !val
		}
		return false, false
	})
}

// controlAtoms lists every atom (key -> value) that must hold whenever target executes.
func (w *World) controlAtoms(fn *ssa.Function, target ssa.Instruction) map[string]bool {
	out := map[string]bool{}
	if !canReach(entryPt(fn), nil, isInstr(target), nil) {
		return out
	}
	keys := map[string]Atom{}
	for _, b := range fn.Blocks {
		if len(b.Instrs) == 0 {
			continue
		}
		if ifi, ok := b.Instrs[len(b.Instrs)-1].(*ssa.If); ok {
			a := w.atom(ifi.Cond)
			keys[a.Key] = a
		}
	}
	for k := range keys {
		kk := k
		for _, val := range []bool{true, false} {
			v := val
			if w.unreachableUnder(fn, target, func(a Atom, _ *ssa.If) (bool, bool) {
				if a.Key == kk {
					return true, !v
				}
				return false, false
			}) {
				out[kk] = v
			}
		}
	}
	return out
}

// atomsOf lists the atoms tested by the If instructions of fn.
func (w *World) atomsOf(fn *ssa.Function) []Atom {
	var out []Atom
	seen := map[string]bool{}
	for _, b := range fn.Blocks {
		if len(b.Instrs) == 0 {
			continue
		}
		if ifi, ok := b.Instrs[len(b.Instrs)-1].(*ssa.If); ok {
			a := w.atom(ifi.Cond)
			if !seen[a.Key] {
				seen[a.Key] = true
				out = append(out, a)
			}
		}
	}
	return out
}

// mustPrecede: every entry path to target executes one of `before` first.
func mustPrecede(fn *ssa.Function, before []ssa.Instruction, target ssa.Instruction, keep edgeKeep) bool {
	return !canReach(entryPt(fn), keep, isInstr(target), inSet(before))
}

// countSites computes the maximal and minimal number of executions of instructions satisfying
// isSite on any path from `from` to a function exit (Return/Panic or dead end), following kept edges.
// inf is true when a site lies on a cycle.
func countSites(from pt, keep edgeKeep, isSite func(ssa.Instruction) bool) (min, max int, inf bool) {
	if keep == nil {
		keep = keepAll
	}
	// collect reachable blocks
	type node = *ssa.BasicBlock
	succs := func(b node) []node {
		var out []node
		for i, s := range b.Succs {
			if keep(b, i) && !edgeDead(b, i) {
				out = append(out, s)
			}
		}
		return out
	}
	weight := func(b node, start int) int {
		n := 0
		for k := start; k < len(b.Instrs); k++ {
			if isSite(b.Instrs[k]) {
				n++
			}
		}
		return n
	}
	// Tarjan SCC over blocks reachable from successors of the start (full blocks)
	index := map[node]int{}
	low := map[node]int{}
	onst := map[node]bool{}
	comp := map[node]int{}
	var stack []node
	idx := 0
	ncomp := 0
	var compNodes [][]node
	var strong func(v node)
	strong = func(v node) {
		index[v] = idx
		low[v] = idx
		idx++
		stack = append(stack, v)
		onst[v] = true
		for _, s := range succs(v) {
			if _, ok := index[s]; !ok {
				strong(s)
				if low[s] < low[v] {
					low[v] = low[s]
				}
			} else if onst[s] && index[s] < low[v] {
				low[v] = index[s]
			}
		}
		if low[v] == index[v] {
			var c []node
			for {
				x := stack[len(stack)-1]
				stack = stack[:len(stack)-1]
				onst[x] = false
				comp[x] = ncomp
				c = append(c, x)
				if x == v {
					break
				}
			}
			compNodes = append(compNodes, c)
			ncomp++
		}
	}
	starts := succs(from.b)
	for _, s := range starts {
		if _, ok := index[s]; !ok {
			strong(s)
		}
	}
	// cyclic components containing a site
	cyclic := make([]bool, ncomp)
	cw := make([]int, ncomp)
	for ci, c := range compNodes {
		if len(c) > 1 {
			cyclic[ci] = true
		} else {
			for _, s := range succs(c[0]) {
				if s == c[0] {
					cyclic[ci] = true
				}
			}
		}
		for _, b := range c {
			cw[ci] += weight(b, 0)
		}
		if cyclic[ci] && cw[ci] > 0 {
			inf = true
		}
	}
	// DP over condensation (components are numbered in reverse topological order by Tarjan)
	maxv := make([]int, ncomp)
	minv := make([]int, ncomp)
	for ci := 0; ci < ncomp; ci++ {
		best, least := 0, -1
		hasExit := false
		for _, b := range compNodes[ci] {
			ss := succs(b)
			if len(ss) == 0 {
				hasExit = true
			}
			for _, s := range ss {
				cj := comp[s]
				if cj == ci {
					continue
				}
				if maxv[cj] > best {
					best = maxv[cj]
				}
				if least == -1 || minv[cj] < least {
					least = minv[cj]
				}
			}
		}
		if hasExit || least == -1 {
			least = 0
		}
		maxv[ci] = cw[ci] + best
		if cyclic[ci] {
			minv[ci] = least // a cycle may be left at once (conservative minimum)
		} else {
			minv[ci] = cw[ci] + least
		}
	}
	w0 := weight(from.b, from.i+1)
	best, least := 0, -1
	if len(starts) == 0 {
		least = 0
	}
	for _, s := range starts {
		cj := comp[s]
		if maxv[cj] > best {
			best = maxv[cj]
		}
		if least == -1 || minv[cj] < least {
			least = minv[cj]
		}
	}
	// the start block may be part of a cycle through itself
	if _, ok := comp[from.b]; ok && cyclic[comp[from.b]] && w0 > 0 {
		inf = true
	}
	return w0 + least, w0 + best, inf
}

// succOn returns the successor of the If-terminated block b on which the atom key has value val.
func (w *World) succOn(ifi *ssa.If, keyVal bool) *ssa.BasicBlock {
	a := w.atom(ifi.Cond)
	b := ifi.Block()
	if keyVal == !a.Neg {
		return b.Succs[0]
	}
	return b.Succs[1]
}

// ifsTesting lists the If instructions of fn whose atom satisfies sel.
func (w *World) ifsTesting(fn *ssa.Function, sel func(Atom) bool) []*ssa.If {
	var out []*ssa.If
	for _, b := range fn.Blocks {
		if len(b.Instrs) == 0 {
			continue
		}
		if ifi, ok := b.Instrs[len(b.Instrs)-1].(*ssa.If); ok && sel(w.atom(ifi.Cond)) {
			out = append(out, ifi)
		}
	}
	return out
}

// nilAtomOf builds a selector for "X == nil" atoms where X is result idx of call c.
func nilOfResult(c ssa.CallInstruction, idx int) func(Atom) bool {
	return func(a Atom) bool { return a.Kind == "nil" && a.X != nil && isResultOf(a.X, c, idx) }
}

// errIndex returns the index of the error result of a call (-1 if none).
func errIndex(c ssa.CallInstruction) int {
	res := c.Common().Signature().Results()
	for i := res.Len() - 1; i >= 0; i-- {
		if types.TypeString(res.At(i).Type(), nil) == "error" {
			return i
		}
	}
	return -1
}

// errNil selects the atom "error result of c == nil" (also through phis that merge only that error).
func errNil(c ssa.CallInstruction) func(Atom) bool {
	i := errIndex(c)
	return func(a Atom) bool {
		if a.Kind != "nil" || a.X == nil || i < 0 {
			return false
		}
		return isResultOf(a.X, c, i)
	}
}

var indexFamily = map[string]bool{
	"strings.Index": true, "strings.IndexByte": true, "strings.IndexRune": true, "strings.IndexAny": true,
	"strings.LastIndex": true, "strings.LastIndexByte": true, "strings.LastIndexAny": true,
	"bytes.Index": true, "bytes.IndexByte": true, "bytes.IndexRune": true, "bytes.IndexAny": true,
	"bytes.LastIndex": true, "bytes.LastIndexByte": true,
	// the package's own first-occurrence search that leaves quoted-strings alone (fix D23)
	"indexUnquoted": true,
}

// isIndexResult: v is the result of a strings/bytes Index* call (>= -1 by contract).
func (w *World) isIndexResult(v ssa.Value) bool {
	c, ok := strip(v).(*ssa.Call)
	return ok && indexFamily[w.calleeName(c)]
}

// ---- edges that can never be taken: defensive nil tests ----
//
// `if route == nil { return }` behind `route, err := m.GetRoute(); if err != nil { return }` adds a path to the graph that
// no execution takes when GetRoute returns nil only together with an error. Rules that count what happens "on every
// path" would report the defensive test as a second way out. An edge is dropped from every path query when the tested
// value provably cannot have the value that edge stands for:
//   - X == nil where X is a result of a package function that never returns nil there (nilStatus: never), or returns nil
//     only together with an error and the test is reached only behind that call's err == nil;
//   - X == nil where X was allocated in this function;
//   - err != nil where err is a result that is the constant nil at every return of the package function called.

var (
	edgeWorld     *World
	deadEdgeOf    = map[*ssa.BasicBlock]int{} // block -> 1 + index of the dead successor edge
	deadEdgesDone = map[*ssa.Function]bool{}
	deadEdgesBusy = false
)

func edgeDead(b *ssa.BasicBlock, i int) bool {
	if edgeWorld == nil || deadEdgesBusy {
		return false
	}
	fn := b.Parent()
	if !deadEdgesDone[fn] {
		deadEdgesDone[fn] = true
		deadEdgesBusy = true
		computeDeadEdges(edgeWorld, fn)
		deadEdgesBusy = false
	}
	return deadEdgeOf[b] == i+1
}

func computeDeadEdges(w *World, fn *ssa.Function) {
	if !w.isMain(fn) {
		return
	}
	for _, b := range fn.Blocks {
		if len(b.Instrs) == 0 {
			continue
		}
		ifi, ok := b.Instrs[len(b.Instrs)-1].(*ssa.If)
		if !ok {
			continue
		}
		a := w.atom(ifi.Cond)
		if a.Kind != "nil" || a.X == nil {
			continue
		}
		nilEdge, nonNilEdge := 0, 1 // cond is "X == nil"
		if a.Neg {
			nilEdge, nonNilEdge = 1, 0
		}
		x := strip(a.X)
		neverNil, alwaysNil := false, false
		switch y := x.(type) {
		case *ssa.Alloc, *ssa.MakeSlice, *ssa.MakeMap, *ssa.MakeClosure, *ssa.MakeChan:
			neverNil = true
		case *ssa.Extract:
			// the value of a comma-ok lookup, tested behind ok, in a map field whose stored values are never nil; the value
			// of a range over such a map or list
			if lk, isLk := y.Tuple.(*ssa.Lookup); isLk && lk.CommaOk && y.Index == 0 {
				if ref, _ := loadedField(lk.X); ref != "" && w.containerNeverNil(ref) {
					okAtom := func(a Atom) bool {
						e, isE := a.X.(*ssa.Extract)
						return a.Kind == "bool" && isE && e.Tuple == ssa.Value(lk) && e.Index == 1
					}
					if w.requires(fn, ifi, okAtom, true) {
						neverNil = true
					}
				}
			}
			if nx, isNx := y.Tuple.(*ssa.Next); isNx && y.Index == 2 {
				if rg, isRg := nx.Iter.(*ssa.Range); isRg {
					if ref, _ := loadedField(rg.X); ref != "" && w.containerNeverNil(ref) {
						neverNil = true
					}
				}
			}
			if call, isCall := y.Tuple.(*ssa.Call); isCall {
				if g := call.Call.StaticCallee(); g != nil && w.isMain(g) && g.Blocks != nil {
					if types.TypeString(y.Type(), nil) == "error" {
						alwaysNil = constNilAtEveryReturn(g, y.Index)
						// the error of a getter that fails exactly when it has nothing to return, behind the predicate that says
						// it has (addr.IsSIPURI() ... addr.GetSIPURI())
						if !alwaysNil && y.Index == 1 && g.Signature.Results().Len() == 2 && errorOnlyWithNilResult(g) && w.correlatedGuard(fn, ifi, call, g) {
							alwaysNil = true
						}
					} else {
						switch w.nilStatus(g, y.Index, map[string]bool{}) {
						case nilNever:
							neverNil = true
						case nilOnlyWithError:
							if errIndex(call) >= 0 && w.requires(fn, ifi, errNil(call), true) {
								neverNil = true
							} else if w.correlatedGuard(fn, ifi, call, g) {
								neverNil = true
							}
						}
					}
				}
			}
		case *ssa.UnOp:
			// an element of a list field whose every element, wherever it is put in, is never nil
			if ia, isIA := y.X.(*ssa.IndexAddr); isIA && y.Op == token.MUL {
				if ref, _ := loadedField(ia.X); ref != "" && w.containerNeverNil(ref) {
					neverNil = true
				}
			}
			// a field that every construction of its struct fills, and that is only ever given values that cannot be nil
			if fa, isFA := y.X.(*ssa.FieldAddr); isFA && y.Op == token.MUL {
				if fv := fieldVarOf(fa); fv != nil && w.fieldNeverNil(fv) {
					neverNil = true
				}
			}
		case *ssa.Call:
			if g := y.Call.StaticCallee(); g != nil && w.isMain(g) && g.Blocks != nil && g.Signature.Results().Len() == 1 {
				if types.TypeString(y.Type(), nil) == "error" {
					alwaysNil = constNilAtEveryReturn(g, 0)
				} else if _, isPtr := y.Type().Underlying().(*types.Pointer); isPtr && w.nilStatus(g, 0, map[string]bool{}) == nilNever {
					neverNil = true
				}
			}
		}
		if neverNil {
			deadEdgeOf[b] = nilEdge + 1
		} else if alwaysNil {
			deadEdgeOf[b] = nonNilEdge + 1
		}
	}
}

func constNilAtEveryReturn(g *ssa.Function, idx int) bool {
	n := 0
	for _, r := range returnsUnder(g, nil) {
		if idx >= len(r.Results) {
			return false
		}
		n++
		if !isNilConst(r.Results[idx]) {
			return false
		}
	}
	return n > 0
}

// containerNeverNil: ref is a map- or slice-typed field of pointers/interfaces into which, everywhere in the package, only
// values that cannot be nil are put: a map field is stored only as a new map and updated only with such values; a list
// field is stored only by the list idioms (empty, append-one, insert-one, delete-one, delete-first) with such elements,
// and its elements are assigned only such values.
var containerMemo = map[string]bool{}

func (w *World) containerNeverNil(ref string) bool {
	if v, ok := containerMemo[ref]; ok {
		return v
	}
	containerMemo[ref] = false
	never := func(fn *ssa.Function, at ssa.Instruction, v ssa.Value) bool {
		v = strip(v)
		if mi, ok := v.(*ssa.MakeInterface); ok {
			v = strip(mi.X)
		}
		switch x := v.(type) {
		case *ssa.Alloc:
			return x.Heap || true
		case *ssa.Call:
			g := x.Call.StaticCallee()
			return g != nil && w.isMain(g) && g.Blocks != nil && g.Signature.Results().Len() == 1 && w.nilStatus(g, 0, map[string]bool{}) == nilNever
		case *ssa.Extract:
			call, ok := x.Tuple.(*ssa.Call)
			if !ok {
				return false
			}
			g := call.Call.StaticCallee()
			if g == nil || !w.isMain(g) || g.Blocks == nil {
				return false
			}
			switch w.nilStatus(g, x.Index, map[string]bool{}) {
			case nilNever:
				return true
			case nilOnlyWithError:
				return errIndex(call) >= 0 && w.requires(fn, at, errNil(call), true)
			}
		}
		return false
	}
	good, n := true, 0
	for _, fn := range w.All {
		if !w.isMain(fn) || fn.Blocks == nil {
			continue
		}
		eachInstr(fn, func(in ssa.Instruction) {
			switch x := in.(type) {
			case *ssa.MapUpdate:
				if r, _ := loadedField(x.Map); r == ref {
					n++
					if !never(fn, x, x.Value) {
						good = false
					}
				}
			case *ssa.Store:
				if fa, ok := x.Addr.(*ssa.FieldAddr); ok && fieldRef(fa) == ref {
					switch x.Val.Type().Underlying().(type) {
					case *types.Map:
						if _, isMk := strip(x.Val).(*ssa.MakeMap); !isMk {
							good = false
						}
					case *types.Slice:
						kind, elem, _ := classifyListStore(w, x.Val, ref)
						if kind == "other" || (elem != nil && !never(fn, x, elem)) {
							good = false
						}
						n++
					default:
						good = false
					}
				}
				if ia, ok := x.Addr.(*ssa.IndexAddr); ok {
					if r, _ := loadedField(ia.X); r == ref && !never(fn, x, x.Val) {
						good = false
					}
				}
			}
		})
	}
	containerMemo[ref] = good && n > 0
	return containerMemo[ref]
}

// errorOnlyWithNilResult: every return of g (two results: value, error) has a nil constant error, or a nil constant value.
func errorOnlyWithNilResult(g *ssa.Function) bool {
	n := 0
	for _, r := range returnsUnder(g, nil) {
		if len(r.Results) != 2 {
			return false
		}
		n++
		if !isNilConst(r.Results[1]) && !isNilConst(r.Results[0]) {
			return false
		}
	}
	return n > 0
}

// fieldNeverNil: fv is a pointer- or interface-typed field of a package struct such that (1) every composite literal /
// allocation of that struct in the package stores the field, and (2) every store to it, anywhere, has a value that cannot
// be nil: a fresh allocation, a never-nil result of a package function, the receiver of the storing method (which the
// method has dereferenced), a closure's captured receiver, or a parameter that receives such a value at every call site.
var fieldNilMemo = map[*types.Var]bool{}

func (w *World) fieldNeverNil(fv *types.Var) bool {
	if v, ok := fieldNilMemo[fv]; ok {
		return v
	}
	fieldNilMemo[fv] = false
	switch fv.Type().Underlying().(type) {
	case *types.Pointer, *types.Interface:
	default:
		return false
	}
	var never func(fn *ssa.Function, v ssa.Value, d int) bool
	never = func(fn *ssa.Function, v ssa.Value, d int) bool {
		if d > 3 {
			return false
		}
		v = strip(v)
		if mi, ok := v.(*ssa.MakeInterface); ok {
			v = strip(mi.X)
		}
		switch x := v.(type) {
		case *ssa.Alloc:
			return true
		case *ssa.Call:
			g := x.Call.StaticCallee()
			return g != nil && w.isMain(g) && g.Blocks != nil && g.Signature.Results().Len() == 1 && w.nilStatus(g, 0, map[string]bool{}) == nilNever
		case *ssa.Parameter:
			pf := x.Parent()
			idx := -1
			for i, p := range pf.Params {
				if p == x {
					idx = i
				}
			}
			if idx == 0 && pf.Signature.Recv() != nil {
				// the receiver of a method that dereferences it (directly, or through the cell it is captured in)
				for _, r := range *x.Referrers() {
					if _, isFA := r.(*ssa.FieldAddr); isFA {
						return true
					}
					if st, isSt := r.(*ssa.Store); isSt && st.Val == ssa.Value(x) {
						if cell, isAl := st.Addr.(*ssa.Alloc); isAl {
							for _, cr := range *cell.Referrers() {
								if ld, isLd := cr.(*ssa.UnOp); isLd && ld.Referrers() != nil {
									for _, lr := range *ld.Referrers() {
										if _, isFA := lr.(*ssa.FieldAddr); isFA {
											return true
										}
									}
								}
							}
						}
					}
				}
				return false
			}
			node := w.CG.Nodes[pf]
			if idx < 0 || node == nil || len(node.In) == 0 {
				return false
			}
			for _, e := range node.In {
				if e.Site == nil || e.Site.Common().StaticCallee() != pf || idx >= len(e.Site.Common().Args) {
					return false
				}
				if !never(e.Site.Parent(), e.Site.Common().Args[idx], d+1) {
					return false
				}
			}
			return true
		case *ssa.FreeVar:
			// what the enclosing function bound: look at the MakeClosure sites
			cl := x.Parent()
			idx := -1
			for i, f := range cl.FreeVars {
				if f == x {
					idx = i
				}
			}
			par := cl.Parent()
			if idx < 0 || par == nil {
				return false
			}
			found, okAll := false, true
			eachInstr(par, func(in ssa.Instruction) {
				if mc, ok := in.(*ssa.MakeClosure); ok && mc.Fn == ssa.Value(cl) && idx < len(mc.Bindings) {
					found = true
					b := mc.Bindings[idx]
					// a captured variable is bound by its cell: a parameter spilled into a local cell
					if al, isAl := b.(*ssa.Alloc); isAl {
						src := cellSource(al)
						if src == ssa.Value(al) || !never(par, src, d+1) {
							okAll = false
						}
					} else if !never(par, b, d+1) {
						okAll = false
					}
				}
			})
			return found && okAll
		case *ssa.UnOp:
			// a load of a captured cell or of another never-nil field
			if x.Op == token.MUL {
				if fvv, isFV := x.X.(*ssa.FreeVar); isFV {
					return never(fn, fvv, d+1)
				}
			}
		}
		return false
	}
	owner := ""
	nStores := 0
	good := true
	for _, fn := range w.All {
		if !w.isMain(fn) || fn.Blocks == nil {
			continue
		}
		fn := fn
		eachInstr(fn, func(in ssa.Instruction) {
			switch x := in.(type) {
			case *ssa.Store:
				if fa, ok := x.Addr.(*ssa.FieldAddr); ok && fieldVarOf(fa) == fv {
					nStores++
					owner = strings.SplitN(fieldRef(fa), ".", 2)[0]
					if !never(fn, x.Val, 0) {
						good = false
					}
				}
			}
		})
	}
	if !good || nStores == 0 {
		return false
	}
	// every allocation of the owner struct stores the field
	for _, fn := range w.All {
		if !w.isMain(fn) || fn.Blocks == nil {
			continue
		}
		eachInstr(fn, func(in ssa.Instruction) {
			al, ok := in.(*ssa.Alloc)
			if !ok {
				return
			}
			nt, isN := al.Type().(*types.Pointer).Elem().(*types.Named)
			if !isN || nt.Obj().Name() != owner {
				return
			}
			set := false
			for _, r := range *al.Referrers() {
				if fa, isFA := r.(*ssa.FieldAddr); isFA && fieldVarOf(fa) == fv {
					for _, rr := range *fa.Referrers() {
						if _, isSt := rr.(*ssa.Store); isSt {
							set = true
						}
					}
				}
			}
			if !set {
				good = false
			}
		})
	}
	fieldNilMemo[fv] = good
	return good
}
