package main

import (
	"fmt"
	"go/token"
	"go/types"
	"sort"
	"strings"

	"golang.org/x/tools/go/ssa"
)

// FLOW: interprocedural, field-based, context-insensitive backward value flow.
// Nodes are SSA values, struct fields (one node per *types.Var), and global contents.
// An edge kind is "copy" or "derive:<op>".

type fnode interface{} // ssa.Value | *types.Var (field) | globalContent

type globalContent struct{ g *ssa.Global }

type fedge struct {
	to   fnode
	kind string // "copy" | "derive:<op>" | "elem"
}

type flowGraph struct {
	w           *World
	fieldStores map[*types.Var][]ssa.Value       // values stored into a field (directly or as container element/key)
	fieldSites  map[*types.Var][]ssa.Instruction // the storing instructions
	globStores  map[*ssa.Global][]ssa.Value      // values stored into a global (or into the container it holds)
	allocStores map[*ssa.Alloc][]ssa.Value       // stores into a local cell, including through closures
	closures    map[*ssa.Function][]*ssa.MakeClosure
	sends       map[*types.Var][]ssa.Value    // values sent on a channel held in a field
	fmtRecv     map[*ssa.Function][]ssa.Value // receivers reaching String()/Error()/Write methods through fmt
}

func (w *World) Flow() *flowGraph {
	if w.flow != nil {
		return w.flow
	}
	g := &flowGraph{w: w,
		fieldStores: map[*types.Var][]ssa.Value{}, fieldSites: map[*types.Var][]ssa.Instruction{},
		globStores: map[*ssa.Global][]ssa.Value{}, allocStores: map[*ssa.Alloc][]ssa.Value{},
		closures: map[*ssa.Function][]*ssa.MakeClosure{}, sends: map[*types.Var][]ssa.Value{},
		fmtRecv: map[*ssa.Function][]ssa.Value{}}
	for _, fn := range w.All {
		eachInstr(fn, func(in ssa.Instruction) {
			switch x := in.(type) {
			case *ssa.Store:
				g.recordWrite(x.Addr, x.Val, in)
			case *ssa.MapUpdate:
				for _, r := range g.containerRoots(x.Map, 0) {
					g.recordRoot(r, x.Value, in)
					g.recordRoot(r, x.Key, in)
				}
			case *ssa.MakeClosure:
				if f, ok := x.Fn.(*ssa.Function); ok {
					g.closures[f] = append(g.closures[f], x)
				}
			case *ssa.Send:
				if ref, _ := loadedFieldVar(x.Chan); ref != nil {
					g.sends[ref] = append(g.sends[ref], x.X)
				}
			}
		})
	}
	w.flow = g
	return g
}

// loadedFieldVar: v == *(&base.f) -> (f, base)
func loadedFieldVar(v ssa.Value) (*types.Var, ssa.Value) {
	v = strip(v)
	if u, ok := v.(*ssa.UnOp); ok && u.Op == token.MUL {
		if fa, ok := u.X.(*ssa.FieldAddr); ok {
			return fieldVarOf(fa), fa.X
		}
	}
	if f, ok := v.(*ssa.Field); ok {
		return fieldVarOf(f), f.X
	}
	return nil, nil
}

// recordWrite handles *addr = val.
func (g *flowGraph) recordWrite(addr, val ssa.Value, site ssa.Instruction) {
	switch a := addr.(type) {
	case *ssa.FieldAddr:
		if fv := fieldVarOf(a); fv != nil {
			g.fieldStores[fv] = append(g.fieldStores[fv], val)
			g.fieldSites[fv] = append(g.fieldSites[fv], site)
		}
	case *ssa.Global:
		g.globStores[a] = append(g.globStores[a], val)
	case *ssa.Alloc:
		g.allocStores[a] = append(g.allocStores[a], val)
	case *ssa.FreeVar:
		for _, al := range g.freeVarAllocs(a) {
			g.allocStores[al] = append(g.allocStores[al], val)
		}
	case *ssa.IndexAddr:
		// element store: attribute to the container's roots
		for _, r := range g.containerRoots(a.X, 0) {
			g.recordRoot(r, val, site)
		}
	}
}

func (g *flowGraph) recordRoot(r fnode, val ssa.Value, site ssa.Instruction) {
	switch x := r.(type) {
	case *types.Var:
		g.fieldStores[x] = append(g.fieldStores[x], val)
		g.fieldSites[x] = append(g.fieldSites[x], site)
	case globalContent:
		g.globStores[x.g] = append(g.globStores[x.g], val)
	case *ssa.Alloc:
		g.allocStores[x] = append(g.allocStores[x], val)
	}
}

// containerRoots finds where a container value lives: field, global or local cell/array.
func (g *flowGraph) containerRoots(v ssa.Value, d int) []fnode {
	if d > 6 {
		return nil
	}
	switch x := v.(type) {
	case *ssa.UnOp:
		if x.Op == token.MUL {
			switch a := x.X.(type) {
			case *ssa.FieldAddr:
				if fv := fieldVarOf(a); fv != nil {
					return []fnode{fv}
				}
			case *ssa.Global:
				return []fnode{globalContent{a}}
			case *ssa.Alloc:
				return []fnode{a}
			}
		}
	case *ssa.Alloc:
		return []fnode{x}
	case *ssa.Slice:
		return g.containerRoots(x.X, d+1)
	case *ssa.Phi:
		var out []fnode
		for _, e := range x.Edges {
			out = append(out, g.containerRoots(e, d+1)...)
		}
		return out
	case *ssa.ChangeType:
		return g.containerRoots(x.X, d+1)
	case *ssa.FieldAddr:
		if fv := fieldVarOf(x); fv != nil {
			return []fnode{fv}
		}
	case *ssa.Field:
		if fv := fieldVarOf(x); fv != nil {
			return []fnode{fv}
		}
	}
	return nil
}

func (g *flowGraph) freeVarAllocs(fv *ssa.FreeVar) []*ssa.Alloc {
	fn := fv.Parent()
	idx := -1
	for i, f := range fn.FreeVars {
		if f == fv {
			idx = i
		}
	}
	var out []*ssa.Alloc
	for _, mc := range g.closures[fn] {
		if idx >= 0 && idx < len(mc.Bindings) {
			switch b := mc.Bindings[idx].(type) {
			case *ssa.Alloc:
				out = append(out, b)
			case *ssa.FreeVar:
				out = append(out, g.freeVarAllocs(b)...)
			}
		}
	}
	return out
}

// preds returns the flow predecessors of a node.
func (g *flowGraph) preds(n fnode) (out []fedge, leaf string) {
	w := g.w
	cp := func(v ssa.Value) { out = append(out, fedge{v, "copy"}) }
	dv := func(v ssa.Value, op string) { out = append(out, fedge{v, "derive:" + op}) }
	switch x := n.(type) {
	case *types.Var:
		vs := g.fieldStores[x]
		if len(vs) == 0 {
			return nil, "field-root:" + fieldOwnerName(w, x)
		}
		for _, v := range vs {
			cp(v)
		}
		return
	case globalContent:
		vs := g.globStores[x.g]
		if len(vs) == 0 {
			return nil, "global-root:" + x.g.Name()
		}
		for _, v := range vs {
			cp(v)
		}
		return
	case *ssa.Const:
		if x.Value == nil {
			return nil, "const:nil"
		}
		return nil, "const:" + x.Value.ExactString()
	case *ssa.Parameter:
		fn := x.Parent()
		idx := -1
		for i, p := range fn.Params {
			if p == x {
				idx = i
			}
		}
		node := w.CG.Nodes[fn]
		n := 0
		if node != nil {
			for _, e := range node.In {
				if e.Site == nil {
					continue
				}
				if !w.isMain(e.Caller.Func) {
					continue
				}
				cc := e.Site.Common()
				var a ssa.Value
				if cc.IsInvoke() {
					if idx == 0 {
						a = cc.Value
					} else if idx-1 < len(cc.Args) {
						a = cc.Args[idx-1]
					}
				} else if len(cc.Args) == len(fn.Params) {
					a = cc.Args[idx]
				} else if len(cc.Args)+1 == len(fn.Params) {
					// bound method value: receiver comes from the closure; approximate by skipping it
					if idx >= 1 {
						a = cc.Args[idx-1]
					}
				}
				if a != nil {
					cp(a)
					n++
				}
			}
		}
		// receivers/arguments reaching printer methods through fmt's reflection
		for _, v := range g.fmtRecv[fn] {
			if idx == 0 {
				cp(v)
				n++
			}
		}
		if n == 0 {
			return nil, "param-root:" + w.fname(fn) + "/" + x.Name()
		}
		return
	case *ssa.FreeVar:
		fn := x.Parent()
		idx := -1
		for i, f := range fn.FreeVars {
			if f == x {
				idx = i
			}
		}
		for _, mc := range g.closures[fn] {
			if idx >= 0 && idx < len(mc.Bindings) {
				cp(mc.Bindings[idx])
			}
		}
		if len(out) == 0 {
			return nil, "freevar-root"
		}
		return
	case *ssa.Phi:
		for _, e := range x.Edges {
			cp(e)
		}
		return
	case *ssa.ChangeType:
		cp(x.X)
		return
	case *ssa.ChangeInterface:
		cp(x.X)
		return
	case *ssa.MakeInterface:
		cp(x.X)
		return
	case *ssa.Convert:
		dv(x.X, "conv")
		return
	case *ssa.TypeAssert:
		cp(x.X)
		return
	case *ssa.Extract:
		switch t := x.Tuple.(type) {
		case *ssa.Call:
			return g.callResult(t, x.Index)
		case *ssa.Lookup:
			if x.Index == 0 {
				out = append(out, fedge{t.X, "elem"})
			} else {
				dv(t.X, "has")
				dv(t.Index, "has")
			}
			return
		case *ssa.TypeAssert:
			if x.Index == 0 {
				cp(t.X)
			} else {
				dv(t.X, "typeis")
			}
			return
		case *ssa.Next:
			if rg, ok := t.Iter.(*ssa.Range); ok {
				out = append(out, fedge{rg.X, "elem"})
			}
			return
		case *ssa.UnOp: // <-ch, ok
			if t.Op == token.ARROW {
				return g.recvFrom(t.X)
			}
		case *ssa.Select:
			for _, st := range t.States {
				if st.Dir == types.RecvOnly {
					o, _ := g.recvFrom(st.Chan)
					out = append(out, o...)
				}
			}
			return
		}
		return nil, "extract-root"
	case *ssa.Call:
		return g.callResult(x, 0)
	case *ssa.UnOp:
		switch x.Op {
		case token.MUL:
			return g.load(x.X)
		case token.NOT:
			dv(x.X, "!")
			return
		case token.ARROW:
			return g.recvFrom(x.X)
		default:
			dv(x.X, x.Op.String())
			return
		}
	case *ssa.BinOp:
		dv(x.X, x.Op.String())
		dv(x.Y, x.Op.String())
		return
	case *ssa.Field:
		if fv := fieldVarOf(x); fv != nil {
			if fv.Pkg() != w.Main.Pkg {
				dv(x.X, "field")
			} else {
				out = append(out, fedge{fv, "copy"})
			}
		}
		return
	case *ssa.FieldAddr:
		if fv := fieldVarOf(x); fv != nil {
			if fv.Pkg() != w.Main.Pkg {
				dv(x.X, "field")
			} else {
				out = append(out, fedge{fv, "copy"})
			}
		}
		return
	case *ssa.Slice:
		dv(x.X, "slice")
		return
	case *ssa.Index:
		out = append(out, fedge{x.X, "elem"})
		return
	case *ssa.IndexAddr:
		out = append(out, fedge{x.X, "elem"})
		return
	case *ssa.Lookup:
		out = append(out, fedge{x.X, "elem"})
		return
	case *ssa.Alloc:
		vs := g.allocStores[x]
		for _, v := range vs {
			cp(v)
		}
		// element stores into a local array (varargs)
		for _, r := range *x.Referrers() {
			if ia, ok := r.(*ssa.IndexAddr); ok {
				for _, rr := range *ia.Referrers() {
					if st, ok := rr.(*ssa.Store); ok && st.Addr == ssa.Value(ia) {
						cp(st.Val)
					}
				}
			}
		}
		if len(out) == 0 {
			return nil, "alloc"
		}
		return
	case *ssa.MakeMap:
		for _, r := range *x.Referrers() {
			if mu, ok := r.(*ssa.MapUpdate); ok {
				cp(mu.Value)
				cp(mu.Key)
			}
		}
		if len(out) == 0 {
			return nil, "makemap"
		}
		return
	case *ssa.MakeSlice:
		return nil, "makeslice"
	case *ssa.MakeChan:
		return nil, "makechan"
	case *ssa.MakeClosure:
		return nil, "closure:" + w.fname(x.Fn.(*ssa.Function))
	case *ssa.Function:
		return nil, "func:" + w.fname(x)
	case *ssa.Global:
		return nil, "globaladdr:" + x.Name()
	case *ssa.Range:
		out = append(out, fedge{x.X, "elem"})
		return
	case *ssa.Next:
		if rg, ok := x.Iter.(*ssa.Range); ok {
			out = append(out, fedge{rg.X, "elem"})
		}
		return
	case *ssa.Builtin:
		return nil, "builtin"
	}
	return nil, fmt.Sprintf("unknown:%T", n)
}

func fieldOwnerName(w *World, fv *types.Var) string {
	// find the named struct that declares fv
	sc := w.Main.Pkg.Scope()
	for _, name := range sc.Names() {
		if tn, ok := sc.Lookup(name).(*types.TypeName); ok {
			if st, ok := tn.Type().Underlying().(*types.Struct); ok {
				if n := findFieldPath(st, fv, name, 0); n != "" {
					return n
				}
			}
		}
	}
	return "?." + fvName(fv)
}

func findFieldPath(st *types.Struct, fv *types.Var, prefix string, d int) string {
	if d > 3 {
		return ""
	}
	for i := 0; i < st.NumFields(); i++ {
		f := st.Field(i)
		if f == fv {
			return prefix + "." + fvName(f)
		}
		t := f.Type()
		if sl, ok := t.Underlying().(*types.Slice); ok {
			t = sl.Elem()
		}
		if _, named := t.(*types.Named); named {
			continue
		}
		if sub, ok := t.Underlying().(*types.Struct); ok {
			if n := findFieldPath(sub, fv, prefix+"."+fvName(f), d+1); n != "" {
				return n
			}
		}
	}
	return ""
}

func (g *flowGraph) load(addr ssa.Value) (out []fedge, leaf string) {
	switch a := addr.(type) {
	case *ssa.FieldAddr:
		if fv := fieldVarOf(a); fv != nil {
			if fv.Pkg() != g.w.Main.Pkg {
				// library struct: no stores are visible, follow the base object instead
				return []fedge{{a.X, "derive:field"}}, ""
			}
			return []fedge{{fv, "copy"}}, ""
		}
	case *ssa.Global:
		return []fedge{{globalContent{a}, "copy"}}, ""
	case *ssa.Alloc:
		return []fedge{{a, "copy"}}, ""
	case *ssa.FreeVar:
		for _, al := range g.freeVarAllocs(a) {
			out = append(out, fedge{al, "copy"})
		}
		if len(out) == 0 {
			out = append(out, fedge{a, "copy"})
		}
		return out, ""
	case *ssa.IndexAddr:
		return []fedge{{a.X, "elem"}}, ""
	case *ssa.Parameter, *ssa.Phi, *ssa.Call, *ssa.Extract, *ssa.UnOp:
		// load through a pointer value: content of whatever it points to; approximate by the pointer's flow
		return []fedge{{a, "derive:deref"}}, ""
	}
	return nil, fmt.Sprintf("load-unknown:%T", addr)
}

func (g *flowGraph) recvFrom(ch ssa.Value) (out []fedge, leaf string) {
	if fv, _ := loadedFieldVar(ch); fv != nil {
		for _, v := range g.sends[fv] {
			out = append(out, fedge{v, "copy"})
		}
		if len(out) > 0 {
			return out, ""
		}
	}
	return nil, "chan-root"
}

// library functions whose result does not carry their arguments' content forward (sources).
var libSources = map[string]bool{
	"time.Now": true, "github.com/google/uuid.NewRandom": true, "os.Getenv": true, "os.LookupEnv": true,
}

func (g *flowGraph) callResult(c *ssa.Call, idx int) (out []fedge, leaf string) {
	w := g.w
	cc := c.Common()
	if b, ok := cc.Value.(*ssa.Builtin); ok {
		for _, a := range cc.Args {
			out = append(out, fedge{a, "derive:" + b.Name()})
		}
		if len(out) == 0 {
			return nil, "builtin:" + b.Name()
		}
		return
	}
	callees := w.calleesOf(c)
	nMain := 0
	for _, fn := range callees {
		if !w.isMain(fn) || fn.Blocks == nil {
			continue
		}
		nMain++
		for _, b := range fn.Blocks {
			if r, ok := b.Instrs[len(b.Instrs)-1].(*ssa.Return); ok && idx < len(r.Results) {
				out = append(out, fedge{r.Results[idx], "copy"})
			}
		}
	}
	if nMain > 0 {
		return
	}
	name := w.calleeName(c)
	if libSources[name] {
		return nil, "lib:" + name
	}
	// library call: result derives from every argument (and the receiver)
	if cc.IsInvoke() {
		out = append(out, fedge{cc.Value, "derive:lib:" + name})
	}
	for _, a := range cc.Args {
		out = append(out, fedge{a, "derive:lib:" + name})
	}
	// varargs packed in a local array are reached through the Slice -> Alloc path
	if len(out) == 0 {
		return nil, "lib:" + name
	}
	return out, ""
}

// ---- queries ----

type flowResult struct {
	Leaves  map[string]bool // leaf descriptors, prefixed "+"/"-" by negation parity
	Through map[string]bool // derive ops seen anywhere in the closure
	Nodes   map[fnode]bool  // every node in the closure
	Calls   map[*ssa.Call]bool
}

// backward computes the backward closure of start. stop(n) cuts the traversal at n (n is still recorded).
func (g *flowGraph) backward(start []ssa.Value, stop func(fnode) bool) *flowResult {
	res := &flowResult{Leaves: map[string]bool{}, Through: map[string]bool{}, Nodes: map[fnode]bool{}, Calls: map[*ssa.Call]bool{}}
	type st struct {
		n   fnode
		neg bool
	}
	seen := map[st]bool{}
	var work []st
	for _, v := range start {
		work = append(work, st{v, false})
	}
	for len(work) > 0 {
		s := work[len(work)-1]
		work = work[:len(work)-1]
		if seen[s] {
			continue
		}
		seen[s] = true
		res.Nodes[s.n] = true
		if c, ok := s.n.(*ssa.Call); ok {
			res.Calls[c] = true
		}
		if e, ok := s.n.(*ssa.Extract); ok {
			if c, ok := e.Tuple.(*ssa.Call); ok {
				res.Calls[c] = true
			}
		}
		if stop != nil && stop(s.n) {
			continue
		}
		ps, leaf := g.preds(s.n)
		if leaf != "" {
			sign := "+"
			if s.neg {
				sign = "-"
			}
			res.Leaves[sign+leaf] = true
		}
		for _, p := range ps {
			neg := s.neg
			if strings.HasPrefix(p.kind, "derive:") {
				op := strings.TrimPrefix(p.kind, "derive:")
				res.Through[op] = true
				if op == "!" {
					neg = !neg
				}
			}
			work = append(work, st{p.to, neg})
		}
	}
	return res
}

func (r *flowResult) leafList() []string {
	var out []string
	for l := range r.Leaves {
		out = append(out, l)
	}
	sort.Strings(out)
	return out
}

// hasCallTo reports whether the closure passes through a call to one of the named callees.
func (r *flowResult) hasCallTo(w *World, names ...string) *ssa.Call {
	for c := range r.Calls {
		n := w.calleeName(c)
		for _, x := range names {
			if n == x {
				return c
			}
		}
	}
	return nil
}

// network sources: reads from the wire.
var netSourceCalls = []string{
	"(*bufio.Reader).ReadLine", "(*bufio.Reader).ReadByte", "(*bufio.Reader).ReadString", "(*bufio.Reader).ReadBytes",
	"(*bufio.Reader).ReadSlice", "(*bufio.Reader).Read", "(*bufio.Reader).Peek", "io.ReadFull", "io.ReadAll", "io.ReadAtLeast",
	"(*net.UDPConn).ReadFromUDP", "(net.Conn).Read", "(*net.TCPConn).Read",
}

// netTainted reports whether v may derive from bytes read from the network, with a witness.
func (g *flowGraph) netTainted(v ssa.Value) (bool, string) {
	r := g.backward([]ssa.Value{v}, nil)
	if c := r.hasCallTo(g.w, netSourceCalls...); c != nil {
		return true, g.w.calleeName(c) + " at " + g.w.ipos(c)
	}
	// the message body is filled in place by io.ReadFull(reader, msg.body)
	if fv := g.w.field("Message", "body"); fv != nil && r.Nodes[fv] {
		return true, "Message.body (filled by io.ReadFull)"
	}
	return false, ""
}
