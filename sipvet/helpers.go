package main

import (
	"fmt"
	"go/token"
	"go/types"
	"strings"

	"golang.org/x/tools/go/callgraph"
	"golang.org/x/tools/go/ssa"
)

// ---------- call graph helpers ----------

// calleesOf returns the functions a call site may invoke according to the VTA call graph
// (static callee when there is one).
func (w *World) calleesOf(site ssa.CallInstruction) []*ssa.Function {
	if fn := site.Common().StaticCallee(); fn != nil {
		if extra := w.implicitFormatCallees(site, fn); len(extra) > 0 {
			return append([]*ssa.Function{fn}, extra...)
		}
		return []*ssa.Function{fn}
	}
	var out []*ssa.Function
	n := w.CG.Nodes[site.Parent()]
	if n == nil {
		return nil
	}
	seen := map[*ssa.Function]bool{}
	for _, e := range n.Out {
		if e.Site == site && !seen[e.Callee.Func] {
			seen[e.Callee.Func] = true
			out = append(out, e.Callee.Func)
		}
	}
	return out
}

// isNetWriteName recognises the write primitives of package net.
func isNetWriteName(n string) bool {
	if !(strings.HasPrefix(n, "(*net.") || strings.HasPrefix(n, "(net.")) {
		return false
	}
	i := strings.LastIndex(n, ").")
	if i < 0 {
		return false
	}
	m := n[i+2:]
	return m == "Write" || m == "WriteTo" || m == "WriteToUDP" || m == "WriteMsgUDP" || m == "WriteToUDPAddrPort" || m == "ReadFrom"
}

// netWriteSites lists the network write call sites of fn.
func (w *World) netWriteSites(fn *ssa.Function) []callSite {
	var out []callSite
	for _, cs := range w.callsIn(fn) {
		if isNetWriteName(cs.Name) {
			out = append(out, cs)
		}
	}
	return out
}

// reachSet computes, once, the set of main-package functions from which a network write is reachable.
func (w *World) writers() map[*ssa.Function]bool {
	if w.writerSet != nil {
		return w.writerSet
	}
	direct := map[*ssa.Function]bool{}
	for _, fn := range w.All {
		if len(w.netWriteSites(fn)) > 0 {
			direct[fn] = true
		}
	}
	// propagate backwards over call graph edges between main-package functions
	set := map[*ssa.Function]bool{}
	var work []*ssa.Function
	for fn := range direct {
		set[fn] = true
		work = append(work, fn)
	}
	for len(work) > 0 {
		fn := work[len(work)-1]
		work = work[:len(work)-1]
		n := w.CG.Nodes[fn]
		if n == nil {
			continue
		}
		for _, e := range n.In {
			if _, isGo := e.Site.(*ssa.Go); isGo {
				continue
			}
			cf := e.Caller.Func
			if !w.isMain(cf) || set[cf] {
				continue
			}
			set[cf] = true
			work = append(work, cf)
		}
	}
	w.writerSet = set
	return set
}

// dispatchSites lists the call sites of fn that may (transitively) write to the network.
func (w *World) dispatchSites(fn *ssa.Function) []callSite {
	ws := w.writers()
	var out []callSite
	for _, cs := range w.callsIn(fn) {
		if _, isGo := cs.In.(*ssa.Go); isGo {
			continue
		}
		if isNetWriteName(cs.Name) {
			out = append(out, cs)
			continue
		}
		for _, callee := range w.calleesOf(cs.In) {
			if ws[callee] {
				out = append(out, cs)
				break
			}
		}
	}
	return out
}

// reachableFrom returns the main-package functions reachable from roots in the call graph
// (go edges followed when followGo).
func (w *World) reachableFrom(roots []*ssa.Function, followGo bool) map[*ssa.Function]bool {
	set := map[*ssa.Function]bool{}
	var work []*ssa.Function
	for _, r := range roots {
		if r != nil && !set[r] {
			set[r] = true
			work = append(work, r)
		}
	}
	for len(work) > 0 {
		fn := work[len(work)-1]
		work = work[:len(work)-1]
		n := w.CG.Nodes[fn]
		if n == nil {
			continue
		}
		for _, e := range n.Out {
			if _, isGo := e.Site.(*ssa.Go); isGo && !followGo {
				continue
			}
			cf := e.Callee.Func
			if !w.isMain(cf) || set[cf] {
				continue
			}
			set[cf] = true
			work = append(work, cf)
		}
	}
	return set
}

var _ = callgraph.CalleesOf

// ---------- phi / return helpers ----------

// blockReachable computes the blocks reachable from entry under keep.
func blocksReachable(fn *ssa.Function, keep edgeKeep) map[*ssa.BasicBlock]bool {
	if keep == nil {
		keep = keepAll
	}
	seen := map[*ssa.BasicBlock]bool{fn.Blocks[0]: true}
	work := []*ssa.BasicBlock{fn.Blocks[0]}
	for len(work) > 0 {
		b := work[len(work)-1]
		work = work[:len(work)-1]
		for i, s := range b.Succs {
			if keep(b, i) && !edgeDead(b, i) && !seen[s] {
				seen[s] = true
				work = append(work, s)
			}
		}
	}
	return seen
}

// valuesUnder resolves a value through phis, keeping only the incoming edges that are feasible
// when the CFG is restricted by keep. Non-phi values are returned as they are.
func valuesUnder(fn *ssa.Function, v ssa.Value, keep edgeKeep) []ssa.Value {
	if keep == nil {
		keep = keepAll
	}
	reach := blocksReachable(fn, keep)
	var out []ssa.Value
	seen := map[ssa.Value]bool{}
	var walk func(ssa.Value)
	walk = func(x ssa.Value) {
		x = strip(x)
		if seen[x] {
			return
		}
		seen[x] = true
		p, ok := x.(*ssa.Phi)
		if !ok {
			out = append(out, x)
			return
		}
		b := p.Block()
		for i, pred := range b.Preds {
			if !reach[pred] {
				continue
			}
			feasible := false
			for si, s := range pred.Succs {
				if s == b && keep(pred, si) && !edgeDead(pred, si) {
					feasible = true
				}
			}
			if feasible {
				walk(p.Edges[i])
			}
		}
	}
	walk(v)
	return out
}

// returnsUnder lists the Return instructions reachable under keep.
func returnsUnder(fn *ssa.Function, keep edgeKeep) []*ssa.Return {
	reach := blocksReachable(fn, keep)
	var out []*ssa.Return
	for _, b := range fn.Blocks {
		if !reach[b] || len(b.Instrs) == 0 {
			continue
		}
		if r, ok := b.Instrs[len(b.Instrs)-1].(*ssa.Return); ok {
			out = append(out, r)
		}
	}
	return out
}

// isFreshError reports whether v is a newly built non-nil error (errors.New / fmt.Errorf).
func (w *World) isFreshError(v ssa.Value) bool {
	// a sentinel error variable of a library package (io.EOF, io.ErrUnexpectedEOF, ...) is non-nil
	if u, ok := strip(v).(*ssa.UnOp); ok && u.Op == token.MUL {
		if g, ok := u.X.(*ssa.Global); ok && g.Pkg != w.Main && (strings.HasPrefix(g.Name(), "Err") || g.Name() == "EOF") {
			return true
		}
		// a sentinel error variable of the package itself: every store to it, anywhere, is a newly built error
		if g, ok := u.X.(*ssa.Global); ok && g.Pkg == w.Main {
			return w.sentinelError(g)
		}
	}
	c, _ := callOfResult(v)
	if c == nil {
		return false
	}
	n := w.calleeName(c)
	return n == "errors.New" || n == "fmt.Errorf"
}

// errIsPropagated checks that on the `err != nil` edge of call, every reachable Return carries, in
// the error result position of fn, that error or a fresh error (never nil / an unrelated value).
// It returns a diagnostic when the rule does not hold.
func (w *World) errPropagated(fn *ssa.Function, call ssa.CallInstruction) (bool, string) {
	ei := errIndex(call)
	if ei < 0 {
		return false, "callee has no error result"
	}
	res := fn.Signature.Results()
	ri := -1
	for i := 0; i < res.Len(); i++ {
		if types.TypeString(res.At(i).Type(), nil) == "error" {
			ri = i
		}
	}
	if ri < 0 {
		return false, "function has no error result"
	}
	// a callee whose error result is the constant nil at every return cannot fail: nothing to propagate
	if g := call.Common().StaticCallee(); g != nil && w.isMain(g) && g.Blocks != nil && constNilAtEveryReturn(g, ei) {
		return true, ""
	}
	used := false
	for _, ifi := range w.ifsTesting(fn, errNil(call)) {
		used = true
		_ = ifi
	}
	if !used {
		// the error may be returned unconditionally (return f()): then no return behind the call may claim success
		// (a nil constant in the error position) - the untested error would be dropped on that path
		carried := false
		for _, r := range returnsUnder(fn, nil) {
			if r.Block() != call.Block() && !canReach(at(call), nil, isInstr(r), nil) {
				continue
			}
			for _, v := range valuesAfter(fn, call, r.Results[ri], nil) {
				if isResultOf(v, call, ei) {
					carried = true
				} else if isNilConst(v) {
					return false, fmt.Sprintf("error result of %s is not tested, and the return at %s reports success behind it", w.calleeName(call), w.ipos(r))
				}
			}
		}
		if carried {
			return true, ""
		}
		return false, fmt.Sprintf("error result of %s is never tested nor returned", w.calleeName(call))
	}
	keep := w.under(func(a Atom, _ *ssa.If) (bool, bool) {
		if errNil(call)(a) {
			return true, false
		}
		return false, false
	})
	// only returns reachable *after* the call on the error edge matter
	ok := true
	why := ""
	n := 0
	for _, r := range returnsUnder(fn, keep) {
		if !canReach(at(call), keep, isInstr(r), nil) {
			continue
		}
		n++
		for _, v := range valuesAfter(fn, call, r.Results[ri], keep) {
			if isResultOf(v, call, ei) || w.isFreshError(v) {
				continue
			}
			ok = false
			why = fmt.Sprintf("return at %s yields %s as error on the failure edge of %s", w.ipos(r), w.termKey(v), w.calleeName(call))
		}
	}
	if n == 0 {
		return false, "no return reachable on the failure edge"
	}
	return ok, why
}

// assumeAtom builds an assumption fixing atoms selected by sel to val.
func assumeAtom(sel func(Atom) bool, val bool) assumption {
	return func(a Atom, _ *ssa.If) (bool, bool) {
		if sel(a) {
			return true, val
		}
		return false, false
	}
}

// boolCall selects atoms that are the boolean result of a call to one of the named callees.
func (w *World) boolCall(names ...string) func(Atom) bool {
	return func(a Atom) bool {
		if a.Kind != "bool" {
			return false
		}
		c, _ := callOfResult(a.X)
		if c == nil {
			return false
		}
		n := w.calleeName(c)
		for _, x := range names {
			if x == n {
				return true
			}
		}
		return false
	}
}

// isCallTo tells whether v is result idx of a call to the named callee and returns the call.
func (w *World) resultOfCallTo(v ssa.Value, name string, idx int) *ssa.Call {
	c, i := callOfResult(v)
	if c == nil || i != idx {
		return nil
	}
	if w.calleeName(c) != name {
		return nil
	}
	return c
}

// isLoadOf reports whether v loads field ref ("Type.field") and returns the base.
func isLoadOf(v ssa.Value, ref string) (ssa.Value, bool) {
	r, base := loadedField(v)
	if r == ref {
		return base, true
	}
	return nil, false
}

// isParam reports whether v is the i-th parameter of fn (receiver counts as 0 for methods).
func isParam(fn *ssa.Function, v ssa.Value, i int) bool {
	v = strip(v)
	if recvDropped[fn] {
		if i == 0 {
			return false
		}
		i--
	}
	return i < len(fn.Params) && v == ssa.Value(fn.Params[i])
}

// lenOf reports whether v is len(x) and returns x.
func lenOf(v ssa.Value) (ssa.Value, bool) {
	c, ok := strip(v).(*ssa.Call)
	if !ok {
		return nil, false
	}
	if b, ok := c.Call.Value.(*ssa.Builtin); ok && b.Name() == "len" {
		return c.Call.Args[0], true
	}
	return nil, false
}

// storesIn lists all Store instructions of fn.
func storesIn(fn *ssa.Function) []*ssa.Store {
	var out []*ssa.Store
	eachInstr(fn, func(in ssa.Instruction) {
		if s, ok := in.(*ssa.Store); ok {
			out = append(out, s)
		}
	})
	return out
}

// varargs flattens the variadic slice argument of a call (Alloc [N]T + IndexAddr stores + Slice)
// into its element values, unboxing interfaces.
func varargs(v ssa.Value) []ssa.Value {
	sl, ok := strip(v).(*ssa.Slice)
	if !ok {
		return nil
	}
	al, ok := sl.X.(*ssa.Alloc)
	if !ok || al.Comment != "varargs" {
		return nil
	}
	arr, ok := al.Type().Underlying().(*types.Pointer).Elem().Underlying().(*types.Array)
	if !ok {
		return nil
	}
	out := make([]ssa.Value, arr.Len())
	for _, r := range *al.Referrers() {
		ia, ok := r.(*ssa.IndexAddr)
		if !ok {
			continue
		}
		k, ok := constInt(ia.Index)
		if !ok || k < 0 || k >= arr.Len() {
			continue
		}
		for _, rr := range *ia.Referrers() {
			if st, ok := rr.(*ssa.Store); ok && st.Addr == ia {
				out[k] = strip(st.Val)
			}
		}
	}
	return out
}

// fmtArgs returns (format operand, value operands) of a fmt.Sprintf/Fprintf/Errorf style call.
func (w *World) fmtArgs(c ssa.CallInstruction) (format ssa.Value, args []ssa.Value, ok bool) {
	n := w.calleeName(c)
	cc := c.Common()
	switch n {
	case "fmt.Sprintf", "fmt.Errorf", "fmt.Printf":
		if len(cc.Args) >= 2 {
			return cc.Args[0], varargs(cc.Args[1]), true
		}
	case "fmt.Fprintf":
		if len(cc.Args) >= 3 {
			return cc.Args[1], varargs(cc.Args[2]), true
		}
	}
	return nil, nil, false
}

func isDeref(v ssa.Value) (ssa.Value, bool) {
	if u, ok := strip(v).(*ssa.UnOp); ok && u.Op == token.MUL {
		return u.X, true
	}
	return nil, false
}

func describe(w *World, vs []ssa.Value) string {
	var s []string
	for _, v := range vs {
		s = append(s, w.termKey(v))
	}
	return "{" + strings.Join(s, ", ") + "}"
}

// isMainType: t (possibly behind pointers) is a named type declared in the analysed package.
func (w *World) isMainType(t types.Type) bool {
	for {
		if p, ok := t.(*types.Pointer); ok {
			t = p.Elem()
			continue
		}
		break
	}
	n, ok := t.(*types.Named)
	return ok && n.Obj().Pkg() != nil && n.Obj().Pkg() == w.Main.Pkg
}

// sentinelError: package-level variable g of type error is assigned only newly built errors (at least once, in the
// package initialiser or elsewhere) and its address is not handed out: a load of it is non-nil.
func (w *World) sentinelError(g *ssa.Global) bool {
	if w.sentinels == nil {
		w.sentinels = map[*ssa.Global]bool{}
		stores := map[*ssa.Global]int{}
		bad := map[*ssa.Global]bool{}
		for fn := range ssautilAll(w) {
			eachInstr(fn, func(in ssa.Instruction) {
				var rands []*ssa.Value
				for _, r := range in.Operands(rands) {
					gg, ok := (*r).(*ssa.Global)
					if !ok || gg.Pkg != w.Main {
						continue
					}
					switch x := in.(type) {
					case *ssa.Store:
						if x.Addr == ssa.Value(gg) {
							c, _ := callOfResult(x.Val)
							if c != nil && (w.calleeName(c) == "errors.New" || w.calleeName(c) == "fmt.Errorf") {
								stores[gg]++
							} else {
								bad[gg] = true
							}
						} else {
							bad[gg] = true
						}
					case *ssa.UnOp:
						if x.Op != token.MUL {
							bad[gg] = true
						}
					case *ssa.DebugRef:
					default:
						bad[gg] = true
					}
				}
			})
		}
		for gg, n := range stores {
			if n > 0 && !bad[gg] {
				w.sentinels[gg] = true
			}
		}
	}
	return w.sentinels[g]
}

// ssautilAll: every function of the analysed package with a body, including its initialiser and closures.
func ssautilAll(w *World) map[*ssa.Function]bool {
	out := map[*ssa.Function]bool{}
	for _, fn := range w.All {
		out[fn] = true
	}
	if init := w.Main.Func("init"); init != nil {
		out[init] = true
	}
	return out
}

// valuesAfter: the values v can stand for on the paths that run through call (following kept edges): like valuesUnder,
// but an edge of a join whose source block cannot be reached from the call is left out - it belongs to a path on which
// the call was never made (an earlier failure that shares the return statement).
func valuesAfter(fn *ssa.Function, call ssa.CallInstruction, v ssa.Value, keep edgeKeep) []ssa.Value {
	var out []ssa.Value
	seen := map[ssa.Value]bool{}
	var walk func(x ssa.Value)
	walk = func(x ssa.Value) {
		if seen[x] {
			return
		}
		seen[x] = true
		ph, ok := x.(*ssa.Phi)
		if !ok {
			out = append(out, valuesUnder(fn, x, keep)...)
			return
		}
		for i, e := range ph.Edges {
			p := ph.Block().Preds[i]
			if p != call.Block() && !canReach(at(call), keep, isInstr(lastInstr(p)), nil) {
				continue
			}
			// the edge itself must be kept
			kept := false
			for si, s := range p.Succs {
				if s == ph.Block() && (keep == nil || keep(p, si)) {
					kept = true
				}
			}
			if !kept {
				continue
			}
			walk(e)
		}
	}
	walk(v)
	return out
}

// implicitFormatCallees: a value of a package type that has a String() or Error() method, handed to a formatting or
// logging function of a library (fmt.*, zap.Stringer/Any/Reflect/Error), has that method called while the statement
// runs - zap evaluates a Stringer field inside Info(), in the caller's thread, under whatever locks the caller holds.
// The call graph has no such edge (it goes through the library and an interface), so it is added here.
func (w *World) implicitFormatCallees(site ssa.CallInstruction, callee *ssa.Function) []*ssa.Function {
	if callee.Pkg == nil || callee.Pkg == w.Main {
		return nil
	}
	path := callee.Pkg.Pkg.Path()
	if path != "fmt" && path != "go.uber.org/zap" && path != "log" {
		return nil
	}
	var vals []ssa.Value
	for _, a := range site.Common().Args {
		if els := varargs(a); els != nil {
			vals = append(vals, els...)
		} else {
			vals = append(vals, a)
		}
	}
	var out []*ssa.Function
	seen := map[*ssa.Function]bool{}
	for _, v := range vals {
		x := v
		for i := 0; i < 4; i++ {
			if mi, ok := x.(*ssa.MakeInterface); ok {
				x = mi.X
				continue
			}
			if ci, ok := x.(*ssa.ChangeInterface); ok {
				x = ci.X
				continue
			}
			break
		}
		t := x.Type()
		if _, isIface := t.Underlying().(*types.Interface); isIface {
			continue // dynamic type unknown here
		}
		ms := w.Prog.MethodSets.MethodSet(t)
		for _, name := range []string{"String", "Error"} {
			sel := ms.Lookup(nil, name)
			if sel == nil {
				sel = ms.Lookup(w.Main.Pkg, name)
			}
			if sel == nil {
				continue
			}
			m := w.Prog.MethodValue(sel)
			if m == nil || !w.isMain(m) || seen[m] {
				continue
			}
			seen[m] = true
			out = append(out, m)
		}
	}
	return out
}

// paramOf is the i-th parameter of fn counted as on the pinned tree (receiver = 0); nil when there is none (a method
// that became a plain function has no parameter 0 any more).
func paramOf(fn *ssa.Function, i int) ssa.Value {
	if recvDropped[fn] {
		if i == 0 {
			return nil
		}
		i--
	}
	if i < 0 || i >= len(fn.Params) {
		return nil
	}
	return fn.Params[i]
}

// foldFormat gives the format of a fmt call with the constant string operands of %s / %v verbs written into it, and the
// operands that remain: Fprintf(w, "%s: %d\r\n", "Content-Length", n) reads as ("Content-Length: %d\r\n", [n]).
func (w *World) foldFormat(c ssa.CallInstruction) (string, []ssa.Value, bool) {
	format, args, ok := w.fmtArgs(c)
	if !ok {
		return "", nil, false
	}
	fs, isC := constString(format)
	if !isC {
		return "", nil, false
	}
	var out strings.Builder
	var rest []ssa.Value
	ai := 0
	for i := 0; i < len(fs); i++ {
		if fs[i] != '%' {
			out.WriteByte(fs[i])
			continue
		}
		j := i + 1
		for j < len(fs) && strings.IndexByte("+-# 0123456789.", fs[j]) >= 0 {
			j++
		}
		if j >= len(fs) {
			out.WriteString(fs[i:])
			break
		}
		if fs[j] == '%' {
			out.WriteString("%%")
			i = j
			continue
		}
		var arg ssa.Value
		if ai < len(args) {
			arg = args[ai]
		}
		ai++
		if (fs[j] == 's' || fs[j] == 'v') && j == i+1 && arg != nil {
			if k, isK := constString(arg); isK {
				out.WriteString(strings.ReplaceAll(k, "%", "%%"))
				i = j
				continue
			}
		}
		out.WriteString(fs[i : j+1])
		rest = append(rest, arg)
		i = j
	}
	return out.String(), rest, true
}

// isParamSSA: v is fn.Params[i] exactly (SSA position, receiver included when there is one).
func isParamSSA(fn *ssa.Function, v ssa.Value, i int) bool {
	v = strip(v)
	return i >= 0 && i < len(fn.Params) && v == ssa.Value(fn.Params[i])
}

// msgParamIndex: position of fn's only parameter of type *Message (receiver excluded), fallback when there is none or
// several. Rules that speak about "the message a function handles" find it by type, not by a frozen position.
func msgParamIndex(fn *ssa.Function, fallback int) int {
	idx, n := fallback, 0
	for i, p := range fn.Params {
		if i == 0 && fn.Signature.Recv() != nil {
			continue
		}
		if pt, ok := p.Type().(*types.Pointer); ok {
			if nt, ok := pt.Elem().(*types.Named); ok && nt.Obj().Name() == "Message" {
				idx = i
				n++
			}
		}
	}
	if n == 1 {
		return idx
	}
	return fallback
}

// rawMsgParam: fn's only parameter of type *RawMessage, or nil.
func rawMsgParam(fn *ssa.Function) ssa.Value {
	var out ssa.Value
	n := 0
	for _, p := range fn.Params {
		if pt, ok := p.Type().(*types.Pointer); ok {
			if nt, ok := pt.Elem().(*types.Named); ok && nt.Obj().Name() == "RawMessage" {
				out = p
				n++
			}
		}
	}
	if n == 1 {
		return out
	}
	return nil
}
