package main

import (
	_ "embed"
	"fmt"
	"go/ast"
	"go/parser"
	"go/token"
	"go/types"
	"os"
	"runtime/debug"
	"sort"
	"strings"

	"golang.org/x/tools/go/ssa"
	"golang.org/x/tools/go/ssa/ssautil"
)

// The rules are anchored on the functions of the pinned tree. A helper that did not exist there and has exactly one
// call site is a piece of its caller that was moved out (extract-function refactoring, or a bug hidden behind one):
// sipvet inlines it back before analysing, so the rules see the caller's whole behaviour whichever way it is cut.
// baselineFuncs is the frozen inventory of named functions and methods (one per line) the rules were written against.
//
//go:embed baseline_funcs.txt
var baselineFuncsTxt string

// baseline_fields.txt: the struct types of the pinned tree, one per line: Type<TAB>name:type|name:type|...
//
//go:embed baseline_fields.txt
var baselineFieldsTxt string

// fieldAliases maps a struct field that carries a new name back to its name on the pinned tree. A renamed field is
// recognised when its struct still has the same number of fields with the same types in the same order.
var fieldAliases = map[*types.Var]string{}

// fvName: the name the rules know field v under.
func fvName(v *types.Var) string {
	if n, ok := fieldAliases[v]; ok {
		return n
	}
	return v.Name()
}

func structText(st *types.Struct, pkg *types.Package) string {
	var parts []string
	for i := 0; i < st.NumFields(); i++ {
		parts = append(parts, st.Field(i).Name()+":"+types.TypeString(st.Field(i).Type(), types.RelativeTo(pkg)))
	}
	return strings.Join(parts, "|")
}

// fieldRenameAliases fills fieldAliases for the package and returns a description of what was recognised.
func fieldRenameAliases(pkg *types.Package) []string {
	fieldAliases = map[*types.Var]string{}
	var out []string
	for _, l := range strings.Split(baselineFieldsTxt, "\n") {
		if l = strings.TrimSpace(l); l == "" || strings.HasPrefix(l, "#") {
			continue
		}
		parts := strings.SplitN(l, "\t", 2)
		if len(parts) != 2 {
			continue
		}
		tn, ok := pkg.Scope().Lookup(parts[0]).(*types.TypeName)
		if !ok {
			continue
		}
		st, ok := tn.Type().Underlying().(*types.Struct)
		if !ok {
			continue
		}
		old := strings.Split(parts[1], "|")
		if len(old) != st.NumFields() {
			continue
		}
		var pend [][2]int
		okAll := true
		names := map[string]bool{}
		for i := 0; i < st.NumFields(); i++ {
			names[st.Field(i).Name()] = true
		}
		for i, o := range old {
			nt := strings.SplitN(o, ":", 2)
			if len(nt) != 2 || nt[1] != types.TypeString(st.Field(i).Type(), types.RelativeTo(pkg)) {
				okAll = false
				break
			}
			if nt[0] != st.Field(i).Name() {
				if names[nt[0]] {
					okAll = false // fields were reordered rather than renamed
					break
				}
				pend = append(pend, [2]int{i, 0})
			}
		}
		if !okAll {
			continue
		}
		for _, pi := range pend {
			i := pi[0]
			oldName := strings.SplitN(old[i], ":", 2)[0]
			fieldAliases[st.Field(i)] = oldName
			out = append(out, parts[0]+"."+oldName+" -> "+parts[0]+"."+st.Field(i).Name())
		}
	}
	out = append(out, promotedFieldAliases(pkg)...)
	out = append(out, typeRenameAliases(pkg)...)
	sort.Strings(out)
	return out
}

// typeAlias maps the name of a struct type that is new to the name of the struct type of the pinned tree it replaces:
// the old name is gone, and exactly one new struct type has, under their old names and with their old types, at least
// two of the old type's fields (the payload fields survive a rename that adds or drops a convenience field).
var typeAlias = map[string]string{}

func typeRenameAliases(pkg *types.Package) []string {
	typeAlias = map[string]string{}
	baseline := map[string]string{}
	for _, l := range strings.Split(baselineFieldsTxt, "\n") {
		if parts := strings.SplitN(strings.TrimSpace(l), "\t", 2); len(parts) == 2 && !strings.HasPrefix(parts[0], "#") {
			baseline[parts[0]] = parts[1]
		}
	}
	var out []string
	for old, fields := range baseline {
		if pkg.Scope().Lookup(old) != nil {
			continue
		}
		want := map[string]string{}
		for _, o := range strings.Split(fields, "|") {
			if nt := strings.SplitN(o, ":", 2); len(nt) == 2 {
				want[nt[0]] = nt[1]
			}
		}
		var cands []string
		for _, name := range pkg.Scope().Names() {
			tn, ok := pkg.Scope().Lookup(name).(*types.TypeName)
			if !ok || baseline[name] != "" {
				continue
			}
			st, ok := tn.Type().Underlying().(*types.Struct)
			if !ok {
				continue
			}
			hit := 0
			for i := 0; i < st.NumFields(); i++ {
				if t, ok := want[st.Field(i).Name()]; ok && t == types.TypeString(st.Field(i).Type(), types.RelativeTo(pkg)) {
					hit++
				}
			}
			if hit >= 2 && hit*2 >= len(want) {
				cands = append(cands, name)
			}
		}
		if len(cands) == 1 {
			typeAlias[cands[0]] = old
			out = append(out, "type "+old+" -> "+cands[0])
		}
	}
	return out
}

// promotedOwner: a field that moved, with its name and type, from a struct T of the pinned tree into a struct that T
// now embeds (and that did not exist before): the rules go on knowing it as T.f, and a load of it through the embedded
// struct counts as a load from the T object.
var promotedOwner = map[*types.Var]string{}

func promotedFieldAliases(pkg *types.Package) []string {
	promotedOwner = map[*types.Var]string{}
	baseline := map[string]bool{}
	lines := strings.Split(baselineFieldsTxt, "\n")
	for _, l := range lines {
		if parts := strings.SplitN(strings.TrimSpace(l), "\t", 2); len(parts) == 2 {
			baseline[parts[0]] = true
		}
	}
	var out []string
	for _, l := range lines {
		parts := strings.SplitN(strings.TrimSpace(l), "\t", 2)
		if len(parts) != 2 || strings.HasPrefix(parts[0], "#") {
			continue
		}
		tn, ok := pkg.Scope().Lookup(parts[0]).(*types.TypeName)
		if !ok {
			continue
		}
		st, ok := tn.Type().Underlying().(*types.Struct)
		if !ok {
			continue
		}
		have := map[string]bool{}
		for i := 0; i < st.NumFields(); i++ {
			have[st.Field(i).Name()] = true
		}
		for _, o := range strings.Split(parts[1], "|") {
			nt := strings.SplitN(o, ":", 2)
			if len(nt) != 2 || have[nt[0]] {
				continue
			}
			var found *types.Var
			n := 0
			for i := 0; i < st.NumFields(); i++ {
				ef := st.Field(i)
				if !ef.Embedded() {
					continue
				}
				en, isNamed := ef.Type().(*types.Named)
				if !isNamed || baseline[en.Obj().Name()] {
					continue
				}
				est, isSt := en.Underlying().(*types.Struct)
				if !isSt {
					continue
				}
				for k := 0; k < est.NumFields(); k++ {
					if est.Field(k).Name() == nt[0] && types.TypeString(est.Field(k).Type(), types.RelativeTo(pkg)) == nt[1] {
						found = est.Field(k)
						n++
					}
				}
			}
			if n == 1 {
				promotedOwner[found] = parts[0]
				out = append(out, parts[0]+"."+nt[0]+" -> (embedded) "+found.Name())
			}
		}
	}
	return out
}

func baselineFuncs() map[string]bool {
	m := map[string]bool{}
	for n := range baselineSigs() {
		m[n] = true
	}
	return m
}

// baselineSigs: name -> signature text (as printed by -listfuncs).
func baselineSigs() map[string]string {
	m := map[string]string{}
	for _, l := range strings.Split(baselineFuncsTxt, "\n") {
		if l = strings.TrimSpace(l); l == "" || strings.HasPrefix(l, "#") {
			continue
		}
		parts := strings.SplitN(l, "\t", 2)
		sig := ""
		if len(parts) == 2 {
			sig = parts[1]
		}
		m[parts[0]] = sig
	}
	return m
}

func sigText(fn *ssa.Function, pkg *types.Package) string {
	return types.TypeString(fn.Signature, types.RelativeTo(pkg))
}

// receiverPrefix: "(*T)." / "(T)." of a method's relative name, "" for a function.
func receiverPrefix(name string) string {
	if strings.HasPrefix(name, "(") {
		if i := strings.Index(name, ")."); i > 0 {
			return name[:i+2]
		}
	}
	return ""
}

// renameAliases recognises a renamed function: a baseline name that no longer exists, and exactly one function that
// is not in the baseline with the same receiver and the same signature. The rules then treat the new function as the
// old one (its obligations are those of the old name, so a different function that merely took the place is reported
// like a changed body would be). Without the alias every rule anchored on the old name would be undecided.
func (w *World) renameAliases(all map[*ssa.Function]bool) {
	sigs := baselineSigs()
	cur := map[string]*ssa.Function{}
	for fn := range all {
		if fn.Pkg == w.Main && fn.Parent() == nil && fn.Blocks != nil && fn.Synthetic == "" {
			cur[fn.RelString(w.Main.Pkg)] = fn
		}
	}
	var missing, fresh []string
	for n := range sigs {
		if _, ok := cur[n]; !ok {
			missing = append(missing, n)
		}
	}
	for n := range cur {
		if _, ok := sigs[n]; !ok {
			fresh = append(fresh, n)
		}
	}
	sort.Strings(missing)
	sort.Strings(fresh)
	used := map[string]bool{}
	w.alias = map[*ssa.Function]string{}
	for _, m := range missing {
		if sigs[m] == "" {
			continue
		}
		var cands []string
		for _, f := range fresh {
			if used[f] || receiverPrefix(f) != receiverPrefix(m) {
				continue
			}
			if typesOnlySig(sigText(cur[f], w.Main.Pkg)) == typesOnlySig(sigs[m]) {
				cands = append(cands, f)
			}
		}
		// also unique among the missing ones with that receiver and signature
		same := 0
		for _, m2 := range missing {
			if receiverPrefix(m2) == receiverPrefix(m) && typesOnlySig(sigs[m2]) == typesOnlySig(sigs[m]) {
				same++
			}
		}
		if len(cands) == 1 && same == 1 {
			used[cands[0]] = true
			w.alias[cur[cands[0]]] = m
			w.Renamed = append(w.Renamed, m+" -> "+cands[0])
		}
	}
	// a method that made no use of its receiver and became a plain function of the same name and signature: analysed
	// under the old name, its parameters counted as before (the receiver, parameter 0, matches nothing any more)
	for _, m := range missing {
		if sigs[m] == "" || receiverPrefix(m) == "" {
			continue
		}
		done := false
		for _, a := range w.alias {
			if a == m {
				done = true
			}
		}
		if done {
			continue
		}
		base := m[len(receiverPrefix(m)):]
		var cands, named []string
		for _, f := range fresh {
			if used[f] || receiverPrefix(f) != "" {
				continue
			}
			if typesOnlySig(sigText(cur[f], w.Main.Pkg)) == typesOnlySig(sigs[m]) {
				cands = append(cands, f)
				if strings.EqualFold(f, base) {
					named = append(named, f)
				}
			}
		}
		if len(named) == 1 {
			cands = named
		}
		// a differently named candidate is accepted only when nothing else in the package could be meant
		same := 0
		for _, m2 := range missing {
			if sigs[m2] != "" && typesOnlySig(sigs[m2]) == typesOnlySig(sigs[m]) {
				same++
			}
		}
		if len(cands) == 1 && (len(named) == 1 || same == 1) {
			used[cands[0]] = true
			w.alias[cur[cands[0]]] = m
			recvDropped[cur[cands[0]]] = true
			w.Renamed = append(w.Renamed, m+" -> "+cands[0]+" (receiver dropped)")
		}
	}
}

// recvDropped: functions analysed under the name of the method they used to be (see renameAliases).
var recvDropped = map[*ssa.Function]bool{}

// inlineNewHelpers inlines, to a fixpoint, every named function of the main package that is not in the baseline, is
// called statically from exactly one site of the package, is used in no other way (no function value, no go/defer,
// no interface that could dispatch to it) and can be inlined. It returns the names inlined and an error when an
// inlined caller fails go/ssa's consistency check (the caller must then reload without inlining).
func inlineNewHelpers(prog *ssa.Program, main *ssa.Package, renamed map[*ssa.Function]string) (done []string, err error) {
	// the transformation lives outside go/ssa's own tests: whatever goes wrong in it, the program is analysed as written
	defer func() {
		if r := recover(); r != nil {
			if os.Getenv("SIPVET_DEBUG") != "" {
				fmt.Fprintf(os.Stderr, "sipvet: inliner panic: %v\n%s\n", r, debug.Stack())
			}
			err = fmt.Errorf("helper inliner panicked: %v", r)
		}
	}()
	return inlineNewHelpers1(prog, main, renamed)
}

func inlineNewHelpers1(prog *ssa.Program, main *ssa.Package, renamed map[*ssa.Function]string) ([]string, error) {
	base := baselineFuncs()
	if len(base) < 200 {
		return nil, fmt.Errorf("baseline function inventory has only %d entries", len(base))
	}
	ifaceMethods := map[string]bool{}
	for _, m := range main.Members {
		if t, ok := m.(*ssa.Type); ok {
			if it, ok := t.Type().Underlying().(*types.Interface); ok {
				for i := 0; i < it.NumMethods(); i++ {
					ifaceMethods[it.Method(i).Name()] = true
				}
			}
		}
	}
	var done []string
	skip := map[*ssa.Function]bool{}
	touched := map[*ssa.Function]bool{} // functions a helper was inlined into
	for round := 0; round < 40; round++ {
		srcFns := map[*ssa.Function]bool{}
		for fn := range ssautil.AllFunctions(prog) {
			if fn.Blocks == nil {
				continue
			}
			top := fn
			for top.Parent() != nil {
				top = top.Parent()
			}
			if top.Pkg == main {
				srcFns[fn] = true
			}
		}
		type use struct {
			calls []*ssa.Call
			other int
		}
		uses := map[*ssa.Function]*use{}
		var rands []*ssa.Value
		for fn := range srcFns {
			for _, b := range fn.Blocks {
				for _, in := range b.Instrs {
					var callee *ssa.Function
					if c, ok := in.(*ssa.Call); ok {
						if f, ok := c.Call.Value.(*ssa.Function); ok && !c.Call.IsInvoke() {
							callee = f
							u := uses[f]
							if u == nil {
								u = &use{}
								uses[f] = u
							}
							u.calls = append(u.calls, c)
						}
					}
					rands = in.Operands(rands[:0])
					for i, r := range rands {
						f, ok := (*r).(*ssa.Function)
						if !ok {
							continue
						}
						if callee == f && i == 0 {
							if _, isCall := in.(*ssa.Call); isCall {
								continue // the callee operand of the call counted above
							}
						}
						u := uses[f]
						if u == nil {
							u = &use{}
							uses[f] = u
						}
						u.other++
					}
				}
			}
		}
		var cands []*ssa.Function
		for f, u := range uses {
			if !srcFns[f] || f.Parent() != nil || f.Pkg != main || f.Synthetic != "" {
				continue
			}
			name := f.RelString(main.Pkg)
			if base[name] || len(u.calls) < 1 || len(u.calls) > 4 || u.other != 0 {
				continue
			}
			if len(u.calls) > 1 {
				// several call sites: each gets a private copy, if the helper is small and simple enough
				n := 0
				for _, b := range f.Blocks {
					n += len(b.Instrs)
				}
				if n > 120 || len(f.AnonFuncs) > 0 {
					continue
				}
			}
			if _, isRenamed := renamed[f]; isRenamed {
				continue // a function of the pinned tree under a new name, not a new helper
			}
			if name == "main" || name == "init" || strings.HasPrefix(name, "init#") {
				continue
			}
			if f.Signature.Recv() != nil && (ifaceMethods[f.Name()] || f.Object() != nil && f.Object().Exported() && isWellKnownMethod(f.Name())) {
				continue
			}
			cands = append(cands, f)
		}
		sort.Slice(cands, func(i, j int) bool { return cands[i].RelString(main.Pkg) < cands[j].RelString(main.Pkg) })
		progress := false
		for _, f := range cands {
			if skip[f] {
				continue
			}
			calls := uses[f].calls
			if len(calls) > 1 {
				// copy into the first site only in this round; the next rounds see one site less, the last one is moved
				call := calls[0]
				if call.Parent() == nil || call.Parent().Blocks == nil || call.Block() == nil || call.Parent() == f {
					skip[f] = true
					continue
				}
				caller := call.Parent()
				if err := ssa.InlineStaticCallCopy(call); err != nil {
					skip[f] = true
					continue
				}
				if rep := ssa.SanityCheckFunction(caller); rep != "" {
					return done, fmt.Errorf("inlining a copy of %s into %s left inconsistent SSA: %s", f.RelString(main.Pkg), caller.RelString(main.Pkg), firstLine(rep))
				}
				touched[caller] = true
				done = append(done, f.RelString(main.Pkg)+" (copy) -> "+caller.RelString(main.Pkg))
				progress = true
				break
			}
			call := calls[0]
			if call.Parent() == nil || call.Parent().Blocks == nil || call.Block() == nil {
				continue
			}
			caller := call.Parent()
			if err := ssa.InlineStaticCall(call); err != nil {
				skip[f] = true
				continue
			}
			if rep := ssa.SanityCheckFunction(caller); rep != "" {
				return done, fmt.Errorf("inlining %s into %s left inconsistent SSA: %s", f.RelString(main.Pkg), caller.RelString(main.Pkg), firstLine(rep))
			}
			touched[caller] = true
			done = append(done, f.RelString(main.Pkg)+" -> "+caller.RelString(main.Pkg))
			progress = true
			break // use lists are stale: recompute
		}
		if !progress {
			break
		}
	}
	// struct variables of types that do not exist on the pinned tree (carriers between new helpers): one variable per
	// field, promoted to SSA values
	var fns []*ssa.Function
	for fn := range ssautil.AllFunctions(prog) {
		if fn.Blocks == nil {
			continue
		}
		top := fn
		for top.Parent() != nil {
			top = top.Parent()
		}
		if top.Pkg == main {
			fns = append(fns, fn)
		}
	}
	sort.Slice(fns, func(i, j int) bool { return fns[i].String() < fns[j].String() })
	for _, fn := range fns {
		if touched[fn] {
			// the struct parameter of an inlined helper is a second variable holding a copy of the caller's
			ssa.MergeCopiedLocals(fn)
			ssa.CleanupAfterSplit(fn)
		}
		n := ssa.ScalarReplace(fn, carrierType)
		if n == 0 && !touched[fn] {
			continue
		}
		// what inlining and splitting leave behind: blocks that only jump on, joins of equal values, flags that mirror a
		// condition, tests every predecessor already knows the outcome of
		if os.Getenv("SIPVET_DEBUG") != "" {
			fmt.Fprintln(os.Stderr, "sipvet: cleanup", fn.String())
		}
		ssa.CleanupAfterSplit(fn)
		if touched[fn] && ssa.SplitJoinedReturns(fn) > 0 {
			ssa.CleanupAfterSplit(fn)
		}
		if rep := ssa.SanityCheckFunction(fn); rep != "" {
			return done, fmt.Errorf("scalar replacement in %s left inconsistent SSA: %s", fn.RelString(main.Pkg), firstLine(rep))
		}
		if n > 0 {
			done = append(done, fmt.Sprintf("%d carrier struct variable(s) split in %s", n, fn.RelString(main.Pkg)))
		}
	}
	return done, nil
}

// carrierType: al is a variable of a named struct type that does not exist on the pinned tree.
func carrierType(al *ssa.Alloc) bool {
	pt, ok := al.Type().Underlying().(*types.Pointer)
	if !ok {
		return false
	}
	if _, isStruct := pt.Elem().Underlying().(*types.Struct); !isStruct {
		return false
	}
	nt, ok := pt.Elem().(*types.Named)
	if !ok {
		return false // unnamed struct types occur on the pinned tree (the configuration): left as written
	}
	return nt.Obj().Pkg() != nil && !isBaselineType(nt.Obj().Name())
}

// isWellKnownMethod: methods that library code calls through its own interfaces (fmt.Stringer, error, io.Writer ...).
func isWellKnownMethod(n string) bool {
	switch n {
	case "String", "Error", "Write", "Read", "Close", "Len", "Less", "Swap", "ServeHTTP", "MarshalJSON", "UnmarshalJSON", "UnmarshalYAML", "MarshalYAML", "Format", "GoString":
		return true
	}
	return false
}

func firstLine(s string) string {
	if i := strings.IndexByte(s, '\n'); i >= 0 {
		return s[:i]
	}
	return s
}

// baselineTypes: the struct types of the pinned tree (from baseline_fields.txt).
var baselineTypeSet map[string]bool

func isBaselineType(name string) bool {
	if baselineTypeSet == nil {
		baselineTypeSet = map[string]bool{}
		for _, l := range strings.Split(baselineFieldsTxt, "\n") {
			if l = strings.TrimSpace(l); l == "" || strings.HasPrefix(l, "#") {
				continue
			}
			baselineTypeSet[strings.SplitN(l, "\t", 2)[0]] = true
		}
	}
	return baselineTypeSet[name]
}

// carrierAlloc: al is a local variable of a struct type that does not exist on the pinned tree - a struct introduced
// to carry values between new helpers - and is only used through its fields or copied as a whole.
func carrierAlloc(al *ssa.Alloc) bool {
	pt, ok := al.Type().Underlying().(*types.Pointer)
	if !ok {
		return false
	}
	nt, ok := pt.Elem().(*types.Named)
	if !ok || nt.Obj().Pkg() == nil || isBaselineType(nt.Obj().Name()) {
		return false
	}
	if _, isStruct := nt.Underlying().(*types.Struct); !isStruct {
		return false
	}
	for _, r := range *al.Referrers() {
		switch x := r.(type) {
		case *ssa.FieldAddr:
			for _, rr := range *x.Referrers() {
				switch y := rr.(type) {
				case *ssa.Store:
					if y.Addr != ssa.Value(x) {
						return false
					}
				case *ssa.UnOp, *ssa.DebugRef:
				default:
					return false
				}
			}
		case *ssa.Store:
			if x.Addr != ssa.Value(al) {
				return false
			}
		case *ssa.UnOp, *ssa.DebugRef:
		case *ssa.MakeClosure:
			// captured by a function literal that only reads its fields: the writes are all here
			fn, _ := x.Fn.(*ssa.Function)
			if fn == nil {
				return false
			}
			for i, b := range x.Bindings {
				if b != ssa.Value(al) {
					continue
				}
				if i >= len(fn.FreeVars) || !readOnlyFields(fn.FreeVars[i]) {
					return false
				}
			}
		default:
			return false
		}
	}
	return true
}

// readOnlyFields: the captured struct variable fv is only read, field by field (or as a whole), in its function literal.
func readOnlyFields(fv *ssa.FreeVar) bool {
	for _, r := range *fv.Referrers() {
		switch x := r.(type) {
		case *ssa.FieldAddr:
			for _, rr := range *x.Referrers() {
				switch y := rr.(type) {
				case *ssa.UnOp:
					if y.Op != token.MUL {
						return false
					}
				case *ssa.DebugRef:
				default:
					return false
				}
			}
		case *ssa.UnOp:
			if x.Op != token.MUL {
				return false
			}
		case *ssa.DebugRef:
		default:
			return false
		}
	}
	return true
}

// carrierFieldValue: the value field idx of carrier variable al holds at instruction `at` (a load of that field, or of
// the whole struct), when one store - to the field, or of a whole struct value whose field is known in turn - is the
// only one that can reach it; nil otherwise.
func carrierFieldValue(al *ssa.Alloc, idx int, at ssa.Instruction, depth int) ssa.Value {
	if depth > 6 || !carrierAlloc(al) {
		return nil
	}
	type wr struct {
		in  ssa.Instruction
		val func() ssa.Value
	}
	var writes []wr
	for _, r := range *al.Referrers() {
		switch x := r.(type) {
		case *ssa.FieldAddr:
			if x.Field != idx {
				continue
			}
			for _, rr := range *x.Referrers() {
				if st, ok := rr.(*ssa.Store); ok {
					st := st
					writes = append(writes, wr{st, func() ssa.Value { return st.Val }})
				}
			}
		case *ssa.Store:
			st := x
			writes = append(writes, wr{st, func() ssa.Value { return structFieldOf(st.Val, idx, depth+1) }})
		}
	}
	// the last write that dominates `at` and after which no other write can reach `at`
	var pick *wr
	for i := range writes {
		w := &writes[i]
		if !dominatesInstr(w.in, at) {
			continue
		}
		last := true
		for j := range writes {
			if i != j && canReach(at2(w.in), nil, func(in ssa.Instruction) bool { return in == writes[j].in }, nil) && canReach(at2(writes[j].in), nil, func(in ssa.Instruction) bool { return in == at }, nil) {
				last = false
			}
		}
		if last {
			if pick != nil {
				return nil
			}
			pick = w
		}
	}
	if pick == nil {
		return nil
	}
	return pick.val()
}

func at2(in ssa.Instruction) pt { return at(in) }

// dominatesInstr: a is executed before b on every path to b.
func dominatesInstr(a, b ssa.Instruction) bool {
	if a.Block() == b.Block() {
		for _, in := range a.Block().Instrs {
			if in == a {
				return true
			}
			if in == b {
				return false
			}
		}
		return false
	}
	return a.Block().Dominates(b.Block())
}

// structFieldOf: field idx of struct value v (a load of a carrier variable, or a call result/parameter: unknown).
func structFieldOf(v ssa.Value, idx int, depth int) ssa.Value {
	if depth > 6 {
		return nil
	}
	if u, ok := v.(*ssa.UnOp); ok && u.Op == token.MUL {
		if al, ok := u.X.(*ssa.Alloc); ok {
			return carrierFieldValue(al, idx, u, depth+1)
		}
	}
	if ph, ok := v.(*ssa.Phi); ok && len(ph.Edges) == 1 {
		return structFieldOf(ph.Edges[0], idx, depth+1)
	}
	return nil
}

// typesOnlySig drops the parameter and result names from the text of a signature.
func typesOnlySig(sig string) string {
	e, err := parser.ParseExpr(sig)
	if err != nil {
		return sig
	}
	ft, ok := e.(*ast.FuncType)
	if !ok {
		return sig
	}
	list := func(fl *ast.FieldList) string {
		if fl == nil {
			return ""
		}
		var out []string
		for _, f := range fl.List {
			n := len(f.Names)
			if n == 0 {
				n = 1
			}
			for i := 0; i < n; i++ {
				out = append(out, types.ExprString(f.Type))
			}
		}
		return strings.Join(out, ",")
	}
	return "func(" + list(ft.Params) + ")(" + list(ft.Results) + ")"
}
