package main

import (
	_ "embed"
	"fmt"
	"go/types"
	"sort"
	"strings"

	"golang.org/x/tools/go/ssa"
	"golang.org/x/tools/go/ssa/ssautil"
)

// The rules are anchored on the functions of the pinned tree. A helper that did not exist there and has exactly one
// call site is a piece of its caller that was moved out (extract-function refactoring, or a bug hidden behind one):
// sipvet inlines it back before analysing, so the rules see the caller's whole behaviour whichever way it is cut.
// baselineFuncs is the frozen inventory of named functions and methods (one per line) the rules were written against.
//
//go:embed baseline_funcs.txt
var baselineFuncsTxt string

func baselineFuncs() map[string]bool {
	m := map[string]bool{}
	for _, l := range strings.Split(baselineFuncsTxt, "\n") {
		if l = strings.TrimSpace(l); l != "" && !strings.HasPrefix(l, "#") {
			m[l] = true
		}
	}
	return m
}

// inlineNewHelpers inlines, to a fixpoint, every named function of the main package that is not in the baseline, is
// called statically from exactly one site of the package, is used in no other way (no function value, no go/defer,
// no interface that could dispatch to it) and can be inlined. It returns the names inlined and an error when an
// inlined caller fails go/ssa's consistency check (the caller must then reload without inlining).
func inlineNewHelpers(prog *ssa.Program, main *ssa.Package) ([]string, error) {
	base := baselineFuncs()
	if len(base) < 200 {
		return nil, fmt.Errorf("baseline function inventory has only %d entries", len(base))
	}
	ifaceMethods := map[string]bool{}
	for _, m := range main.Members {
		if t, ok := m.(*ssa.Type); ok {
			if it, ok := t.Type().Underlying().(*types.Interface); ok {
				for i := 0; i < it.NumMethods(); i++ {
					ifaceMethods[it.Method(i).Name()] = true
				}
			}
		}
	}
	var done []string
	for round := 0; round < 10; round++ {
		srcFns := map[*ssa.Function]bool{}
		for fn := range ssautil.AllFunctions(prog) {
			if fn.Blocks == nil {
				continue
			}
			top := fn
			for top.Parent() != nil {
				top = top.Parent()
			}
			if top.Pkg == main {
				srcFns[fn] = true
			}
		}
		type use struct {
			calls []*ssa.Call
			other int
		}
		uses := map[*ssa.Function]*use{}
		var rands []*ssa.Value
		for fn := range srcFns {
			for _, b := range fn.Blocks {
				for _, in := range b.Instrs {
					var callee *ssa.Function
					if c, ok := in.(*ssa.Call); ok {
						if f, ok := c.Call.Value.(*ssa.Function); ok && !c.Call.IsInvoke() {
							callee = f
							u := uses[f]
							if u == nil {
								u = &use{}
								uses[f] = u
							}
							u.calls = append(u.calls, c)
						}
					}
					rands = in.Operands(rands[:0])
					for i, r := range rands {
						f, ok := (*r).(*ssa.Function)
						if !ok {
							continue
						}
						if callee == f && i == 0 {
							if _, isCall := in.(*ssa.Call); isCall {
								continue // the callee operand of the call counted above
							}
						}
						u := uses[f]
						if u == nil {
							u = &use{}
							uses[f] = u
						}
						u.other++
					}
				}
			}
		}
		var cands []*ssa.Function
		for f, u := range uses {
			if !srcFns[f] || f.Parent() != nil || f.Pkg != main || f.Synthetic != "" {
				continue
			}
			name := f.RelString(main.Pkg)
			if base[name] || len(u.calls) != 1 || u.other != 0 {
				continue
			}
			if name == "main" || name == "init" || strings.HasPrefix(name, "init#") {
				continue
			}
			if f.Signature.Recv() != nil && (ifaceMethods[f.Name()] || f.Object() != nil && f.Object().Exported() && isWellKnownMethod(f.Name())) {
				continue
			}
			cands = append(cands, f)
		}
		sort.Slice(cands, func(i, j int) bool { return cands[i].RelString(main.Pkg) < cands[j].RelString(main.Pkg) })
		progress := false
		for _, f := range cands {
			call := uses[f].calls[0]
			if call.Parent() == nil || call.Parent().Blocks == nil || call.Block() == nil {
				continue
			}
			caller := call.Parent()
			if err := ssa.InlineStaticCall(call); err != nil {
				continue
			}
			if rep := ssa.SanityCheckFunction(caller); rep != "" {
				return done, fmt.Errorf("inlining %s into %s left inconsistent SSA: %s", f.RelString(main.Pkg), caller.RelString(main.Pkg), firstLine(rep))
			}
			done = append(done, f.RelString(main.Pkg)+" -> "+caller.RelString(main.Pkg))
			progress = true
			break // use lists are stale: recompute
		}
		if !progress {
			break
		}
	}
	return done, nil
}

// isWellKnownMethod: methods that library code calls through its own interfaces (fmt.Stringer, error, io.Writer ...).
func isWellKnownMethod(n string) bool {
	switch n {
	case "String", "Error", "Write", "Read", "Close", "Len", "Less", "Swap", "ServeHTTP", "MarshalJSON", "UnmarshalJSON", "UnmarshalYAML", "MarshalYAML", "Format", "GoString":
		return true
	}
	return false
}

func firstLine(s string) string {
	if i := strings.IndexByte(s, '\n'); i >= 0 {
		return s[:i]
	}
	return s
}
