package main

import (
	"fmt"
	"go/constant"
	"go/token"
	"go/types"
	"sort"
	"strings"

	"golang.org/x/tools/go/ssa"
)

// calleeName gives a stable, resolved name for the callee of a call instruction:
//   - static main-package callee: RelString, e.g. "(*Message).PopVia", "ParseMessage"
//   - static library callee: fn.String(), e.g. "fmt.Fprintf", "(*bufio.Reader).ReadLine"
//   - interface invoke: "Iface.Method" for main-package interfaces, "(pkg.Iface).Method" otherwise
//   - builtin: "builtin:append"
//   - dynamic call of a function value: "dyn"
func (w *World) calleeName(c ssa.CallInstruction) string {
	cc := c.Common()
	if cc.IsInvoke() {
		recv := cc.Value.Type()
		name := types.TypeString(recv, func(p *types.Package) string {
			if p == w.Main.Pkg {
				return ""
			}
			return p.Name()
		})
		if strings.Contains(name, ".") || strings.Contains(name, " ") {
			return "(" + name + ")." + cc.Method.Name()
		}
		return name + "." + cc.Method.Name()
	}
	if b, ok := cc.Value.(*ssa.Builtin); ok {
		return "builtin:" + b.Name()
	}
	if fn := cc.StaticCallee(); fn != nil {
		if w.isMain(fn) {
			return w.fname(fn)
		}
		return fn.String()
	}
	// a call through a struct field or a package variable that is bound, everywhere in the package, to one and the same
	// function (an injected clock `now: time.Now`, `var dialTCP = net.DialTCP`): the call is a call of that function
	if fn := w.boundFunc(cc.Value); fn != nil {
		if w.isMain(fn) {
			return w.fname(fn)
		}
		return fn.String()
	}
	return "dyn"
}

// boundFunc: v loads a func-typed field or package variable whose every store in the package has the same function as
// value - directly, or as a parameter that receives that function at every call site of the storing function.
func (w *World) boundFunc(v ssa.Value) *ssa.Function {
	u, ok := v.(*ssa.UnOp)
	if !ok || u.Op != token.MUL {
		return nil
	}
	var key interface{}
	switch a := u.X.(type) {
	case *ssa.FieldAddr:
		if fv := fieldVarOf(a); fv != nil {
			key = fv
		}
	case *ssa.Global:
		if a.Pkg == w.Main {
			key = a
		}
	}
	if key == nil {
		return nil
	}
	if w.funcBindings == nil {
		w.funcBindings = map[interface{}][]ssa.Value{}
		for _, fn := range w.All {
			eachInstr(fn, func(in ssa.Instruction) {
				st, ok := in.(*ssa.Store)
				if !ok {
					return
				}
				if _, isSig := st.Val.Type().Underlying().(*types.Signature); !isSig {
					return
				}
				switch a := st.Addr.(type) {
				case *ssa.FieldAddr:
					if fv := fieldVarOf(a); fv != nil {
						w.funcBindings[fv] = append(w.funcBindings[fv], st.Val)
					}
				case *ssa.Global:
					w.funcBindings[a] = append(w.funcBindings[a], st.Val)
				}
			})
		}
	}
	var resolve func(x ssa.Value, d int) *ssa.Function
	resolve = func(x ssa.Value, d int) *ssa.Function {
		switch y := x.(type) {
		case *ssa.Function:
			return y
		case *ssa.ChangeType:
			return resolve(y.X, d)
		case *ssa.Parameter:
			if d > 2 {
				return nil
			}
			pf := y.Parent()
			idx := -1
			for i, p := range pf.Params {
				if p == y {
					idx = i
				}
			}
			node := w.CG.Nodes[pf]
			if idx < 0 || node == nil || len(node.In) == 0 {
				return nil
			}
			var one *ssa.Function
			for _, e := range node.In {
				if e.Site == nil || e.Site.Common().StaticCallee() != pf || idx >= len(e.Site.Common().Args) {
					return nil
				}
				f := resolve(e.Site.Common().Args[idx], d+1)
				if f == nil || (one != nil && one != f) {
					return nil
				}
				one = f
			}
			return one
		}
		return nil
	}
	var one *ssa.Function
	vals := w.funcBindings[key]
	if len(vals) == 0 {
		return nil
	}
	for _, x := range vals {
		f := resolve(x, 0)
		if f == nil || (one != nil && one != f) {
			return nil
		}
		one = f
	}
	return one
}

// callInstr is any instruction that performs a call (Call, Go, Defer).
type callSite struct {
	In   ssa.CallInstruction
	Name string
}

// callsIn lists the call sites of fn (including go/defer) whose resolved name is in names
// (all call sites when names is empty), in block/instruction order.
func (w *World) callsIn(fn *ssa.Function, names ...string) []callSite {
	var out []callSite
	if fn == nil {
		return out
	}
	want := map[string]bool{}
	for _, n := range names {
		want[n] = true
	}
	for _, b := range fn.Blocks {
		for _, in := range b.Instrs {
			c, ok := in.(ssa.CallInstruction)
			if !ok {
				continue
			}
			n := w.calleeName(c)
			if len(want) == 0 || want[n] {
				out = append(out, callSite{c, n})
			}
		}
	}
	return out
}

// callsInDeep lists matching call sites in fn and in the closures defined inside it.
func (w *World) callsInDeep(fn *ssa.Function, names ...string) []callSite {
	out := w.callsIn(fn, names...)
	if fn == nil {
		return out
	}
	for _, a := range fn.AnonFuncs {
		out = append(out, w.callsInDeep(a, names...)...)
	}
	return out
}

func callValue(c ssa.CallInstruction) ssa.Value {
	if v, ok := c.(*ssa.Call); ok {
		return v
	}
	return nil
}

// arg returns the i-th source-level argument of a call; for static method calls the receiver
// is argument -1 (Args[0] in SSA), for invokes it is Common().Value.
func callArg(c ssa.CallInstruction, i int) ssa.Value {
	cc := c.Common()
	if cc.IsInvoke() {
		if i == -1 {
			return cc.Value
		}
		if i < len(cc.Args) {
			return cc.Args[i]
		}
		return nil
	}
	off := 0
	if fn := cc.StaticCallee(); fn != nil && fn.Signature.Recv() != nil {
		off = 1
	}
	if i == -1 {
		if off == 1 {
			return cc.Args[0]
		}
		return nil
	}
	if i+off < len(cc.Args) {
		return cc.Args[i+off]
	}
	return nil
}

// strip removes value-preserving wrappers, including loads of non-escaping local cells whose
// reaching store is unambiguous (the defer-spilled results and address-taken locals of go/ssa).
func strip(v ssa.Value) ssa.Value {
	for i := 0; i < 64; i++ {
		switch x := v.(type) {
		case *ssa.ChangeType:
			v = x.X
		case *ssa.MakeInterface:
			v = x.X
		case *ssa.ChangeInterface:
			v = x.X
		case *ssa.Field:
			// a field taken out of a struct value loaded from such a carrier variable
			if r := structFieldOf(x.X, x.Field, 0); r != nil {
				v = r
				continue
			}
			return v
		case *ssa.Phi:
			// a phi with a single incoming edge (left behind by the helper inliner's jump threading) is its operand
			if len(x.Edges) != 1 || x.Edges[0] == ssa.Value(x) {
				return v
			}
			v = x.Edges[0]
		case *ssa.UnOp:
			if x.Op != token.MUL {
				return v
			}
			if fv, isFV := x.X.(*ssa.FreeVar); isFV {
				// load of a captured cell: resolve to the value the enclosing function stored, when unambiguous
				if r := freeVarStored(fv); r != nil {
					v = r
					continue
				}
				return v
			}
			if fa, isFA := x.X.(*ssa.FieldAddr); isFA {
				// a field of a local struct that only carries values between new helpers (a type absent from the pinned tree)
				if cal, isAl := fa.X.(*ssa.Alloc); isAl {
					if r := carrierFieldValue(cal, fa.Field, x, 0); r != nil {
						v = r
						continue
					}
				}
				return v
			}
			al, ok := x.X.(*ssa.Alloc)
			if !ok {
				return v
			}
			f := forwardLoad(x, al)
			if f == nil {
				return v
			}
			v = f
		default:
			return v
		}
	}
	return v
}

// forwardLoad returns the value a load of local cell al must observe, or nil when unknown.
func forwardLoad(ld *ssa.UnOp, al *ssa.Alloc) ssa.Value {
	var stores []*ssa.Store
	for _, r := range *al.Referrers() {
		switch y := r.(type) {
		case *ssa.Store:
			if y.Addr != ssa.Value(al) {
				return nil // the address itself is stored somewhere: escapes
			}
			stores = append(stores, y)
		case *ssa.UnOp:
			if y.Op != token.MUL {
				return nil
			}
		case *ssa.DebugRef:
		case *ssa.MakeClosure:
			// captured by a closure: fine as long as the closure only reads the cell
			fn, _ := y.Fn.(*ssa.Function)
			if fn == nil {
				return nil
			}
			for bi, bv := range y.Bindings {
				if bv != ssa.Value(al) || bi >= len(fn.FreeVars) {
					continue
				}
				if !freeVarReadOnly(fn.FreeVars[bi], 0) {
					return nil
				}
			}
		default:
			return nil // passed to a call, field-addressed...
		}
	}
	// latest store earlier in the same block
	b := ld.Block()
	var last *ssa.Store
	for _, in := range b.Instrs {
		if in == ssa.Instruction(ld) {
			break
		}
		if st, ok := in.(*ssa.Store); ok && st.Addr == ssa.Value(al) {
			last = st
		}
	}
	if last != nil {
		return last.Val
	}
	if len(stores) == 1 && stores[0].Block() != b && stores[0].Block().Dominates(b) {
		return stores[0].Val
	}
	return nil
}

func constString(v ssa.Value) (string, bool) {
	c, ok := strip(v).(*ssa.Const)
	if !ok || c.Value == nil || c.Value.Kind() != constant.String {
		return "", false
	}
	return constant.StringVal(c.Value), true
}

func constInt(v ssa.Value) (int64, bool) {
	if cv, ok := strip(v).(*ssa.Convert); ok {
		v = cv.X
	}
	c, ok := strip(v).(*ssa.Const)
	if !ok || c.Value == nil || c.Value.Kind() != constant.Int {
		return 0, false
	}
	i, exact := constant.Int64Val(c.Value)
	return i, exact
}

func constBool(v ssa.Value) (bool, bool) {
	c, ok := strip(v).(*ssa.Const)
	if !ok || c.Value == nil || c.Value.Kind() != constant.Bool {
		return false, false
	}
	return constant.BoolVal(c.Value), true
}

func isNilConst(v ssa.Value) bool {
	c, ok := strip(v).(*ssa.Const)
	return ok && c.Value == nil
}

// instrIndex numbers the instructions of a function (block order) for stable term names.
func instrIndex(in ssa.Instruction) int {
	n := 0
	for _, b := range in.Parent().Blocks {
		for _, x := range b.Instrs {
			if x == in {
				return n
			}
			n++
		}
	}
	return -1
}

// termKey renders a value as a hash-consable term: equal keys within one function denote
// the same computation (modulo intervening stores for loads, which callers check when needed).
func (w *World) termKey(v ssa.Value) string { return w.termKeyD(v, 0) }

func (w *World) termKeyD(v ssa.Value, d int) string {
	if v == nil {
		return "<nil>"
	}
	if d > 12 {
		return "…"
	}
	switch x := v.(type) {
	case *ssa.Const:
		if x.Value == nil {
			return "nil"
		}
		return x.Value.ExactString()
	case *ssa.Parameter:
		return "param:" + x.Name()
	case *ssa.FreeVar:
		return "free:" + x.Name()
	case *ssa.Global:
		return "global:" + x.Name()
	case *ssa.Function:
		return "func:" + w.fname(x)
	case *ssa.Builtin:
		return "builtin:" + x.Name()
	case *ssa.ChangeType:
		return w.termKeyD(x.X, d+1)
	case *ssa.MakeInterface:
		return w.termKeyD(x.X, d+1)
	case *ssa.ChangeInterface:
		return w.termKeyD(x.X, d+1)
	case *ssa.Convert:
		return "conv(" + w.termKeyD(x.X, d+1) + ")"
	case *ssa.FieldAddr:
		return "&" + w.termKeyD(x.X, d+1) + "." + fieldName(x.X.Type(), x.Field)
	case *ssa.Field:
		return w.termKeyD(x.X, d+1) + "." + fieldNameT(x.X.Type(), x.Field)
	case *ssa.UnOp:
		if x.Op == token.MUL {
			return "*" + w.termKeyD(x.X, d+1)
		}
		return x.Op.String() + "(" + w.termKeyD(x.X, d+1) + ")"
	case *ssa.BinOp:
		return "(" + w.termKeyD(x.X, d+1) + " " + x.Op.String() + " " + w.termKeyD(x.Y, d+1) + ")"
	case *ssa.Extract:
		return w.termKeyD(x.Tuple, d+1) + "#" + fmt.Sprint(x.Index)
	case *ssa.Call:
		cc := x.Common()
		if b, ok := cc.Value.(*ssa.Builtin); ok && (b.Name() == "len" || b.Name() == "cap") {
			return b.Name() + "(" + w.termKeyD(cc.Args[0], d+1) + ")"
		}
		return fmt.Sprintf("call[%s]@%d", w.calleeName(x), instrIndex(x))
	case *ssa.Alloc:
		return fmt.Sprintf("alloc@%d", instrIndex(x))
	case *ssa.Phi:
		return fmt.Sprintf("phi@%d", instrIndex(x))
	case *ssa.IndexAddr:
		return "&" + w.termKeyD(x.X, d+1) + "[" + w.termKeyD(x.Index, d+1) + "]"
	case *ssa.Index:
		return w.termKeyD(x.X, d+1) + "[" + w.termKeyD(x.Index, d+1) + "]"
	case *ssa.Lookup:
		return w.termKeyD(x.X, d+1) + "[" + w.termKeyD(x.Index, d+1) + "]" + fmt.Sprintf("@%d", instrIndex(x))
	case *ssa.Slice:
		return "slice(" + w.termKeyD(x.X, d+1) + "," + w.termKeyD(x.Low, d+1) + "," + w.termKeyD(x.High, d+1) + ")"
	case *ssa.TypeAssert:
		return fmt.Sprintf("assert[%s](%s)", types.TypeString(x.AssertedType, nil), w.termKeyD(x.X, d+1))
	case *ssa.MakeClosure:
		return "closure:" + w.fname(x.Fn.(*ssa.Function))
	}
	if in, ok := v.(ssa.Instruction); ok {
		return fmt.Sprintf("%T@%d", v, instrIndex(in))
	}
	return fmt.Sprintf("%T:%s", v, v.Name())
}

func derefStruct(t types.Type) *types.Struct {
	if p, ok := t.Underlying().(*types.Pointer); ok {
		t = p.Elem()
	}
	st, _ := t.Underlying().(*types.Struct)
	return st
}

func fieldName(ptrType types.Type, i int) string {
	st := derefStruct(ptrType)
	if st == nil || i >= st.NumFields() {
		return fmt.Sprintf("f%d", i)
	}
	return fvName(st.Field(i))
}

func fieldNameT(t types.Type, i int) string { return fieldName(t, i) }

// fieldVar returns the struct field object addressed by a FieldAddr / Field.
func fieldVarOf(v ssa.Value) *types.Var {
	switch x := v.(type) {
	case *ssa.FieldAddr:
		if st := derefStruct(x.X.Type()); st != nil && x.Field < st.NumFields() {
			return st.Field(x.Field)
		}
	case *ssa.Field:
		if st := derefStruct(x.X.Type()); st != nil && x.Field < st.NumFields() {
			return st.Field(x.Field)
		}
	}
	return nil
}

// ownerOfField names "Type.field" for a field addressed through base type t.
func ownerField(baseType types.Type, i int) string {
	t := baseType
	if p, ok := t.Underlying().(*types.Pointer); ok {
		t = p.Elem()
	}
	if st, ok := t.Underlying().(*types.Struct); ok && i < st.NumFields() {
		if owner, moved := promotedOwner[st.Field(i)]; moved {
			return owner + "." + st.Field(i).Name()
		}
	}
	name := "?"
	if n, ok := t.(*types.Named); ok {
		name = n.Obj().Name()
		if old, renamed := typeAlias[name]; renamed {
			name = old
		}
	} else {
		name = types.TypeString(t, func(*types.Package) string { return "" })
		if len(name) > 24 {
			name = "struct"
		}
	}
	return name + "." + fieldName(baseType, i)
}

// fieldRef describes a FieldAddr/Field as "Type.field" ("" when v is neither).
func fieldRef(v ssa.Value) string {
	switch x := v.(type) {
	case *ssa.FieldAddr:
		return ownerField(x.X.Type(), x.Field)
	case *ssa.Field:
		return ownerField(x.X.Type(), x.Field)
	}
	return ""
}

// loadOfField reports whether v is a load (*FieldAddr) or Field extraction and returns "Type.field".
func loadedField(v ssa.Value) (string, ssa.Value) {
	v = strip(v)
	if u, ok := v.(*ssa.UnOp); ok && u.Op == token.MUL {
		if fa, ok := u.X.(*ssa.FieldAddr); ok {
			base := fa.X
			if promotedField(fa.X.Type(), fa.Field) {
				if outer, isFA := fa.X.(*ssa.FieldAddr); isFA { // &t.E.f: the object is t
					base = outer.X
				}
			}
			return fieldRef(fa), base
		}
	}
	if f, ok := v.(*ssa.Field); ok {
		return fieldRef(f), f.X
	}
	return "", nil
}

func promotedField(baseType types.Type, i int) bool {
	t := baseType
	if p, ok := t.Underlying().(*types.Pointer); ok {
		t = p.Elem()
	}
	if st, ok := t.Underlying().(*types.Struct); ok && i < st.NumFields() {
		_, moved := promotedOwner[st.Field(i)]
		return moved
	}
	return false
}

// storesTo lists Store instructions in fn whose address is a FieldAddr of "Type.field".
func (w *World) fieldStores(fn *ssa.Function, ref string) []*ssa.Store {
	var out []*ssa.Store
	for _, b := range fn.Blocks {
		for _, in := range b.Instrs {
			if st, ok := in.(*ssa.Store); ok {
				if fa, ok := st.Addr.(*ssa.FieldAddr); ok && fieldRef(fa) == ref {
					out = append(out, st)
				}
			}
		}
	}
	return out
}

// allInstrs iterates instructions of fn.
func eachInstr(fn *ssa.Function, f func(ssa.Instruction)) {
	if fn == nil {
		return
	}
	for _, b := range fn.Blocks {
		for _, in := range b.Instrs {
			f(in)
		}
	}
}

// extractOf returns the Extract of tuple t with index i that exists in the function (nil if none).
func extractOf(t ssa.Value, i int) *ssa.Extract {
	if t == nil || t.Referrers() == nil {
		return nil
	}
	for _, r := range *t.Referrers() {
		if e, ok := r.(*ssa.Extract); ok && e.Index == i {
			return e
		}
	}
	return nil
}

// resultOf tells whether v is (after stripping) result i of call c. For single-result calls i==0 is the call value.
func isResultOf(v ssa.Value, c ssa.CallInstruction, i int) bool {
	v = strip(v)
	cv := callValue(c)
	if cv == nil {
		return false
	}
	if e, ok := v.(*ssa.Extract); ok {
		return e.Tuple == cv && e.Index == i
	}
	if v == cv {
		sig := c.Common().Signature()
		return sig.Results().Len() == 1 && i == 0
	}
	return false
}

// callOfResult returns the call (and result index) that produced v, or nil.
func callOfResult(v ssa.Value) (*ssa.Call, int) {
	v = strip(v)
	if e, ok := v.(*ssa.Extract); ok {
		if c, ok := e.Tuple.(*ssa.Call); ok {
			return c, e.Index
		}
		return nil, 0
	}
	if c, ok := v.(*ssa.Call); ok {
		return c, 0
	}
	return nil, 0
}

func sortedKeys[V any](m map[string]V) []string {
	out := make([]string, 0, len(m))
	for k := range m {
		out = append(out, k)
	}
	sort.Strings(out)
	return out
}

// phiLeaves expands phis (and value-preserving wrappers) into their non-phi operands.
func phiLeaves(v ssa.Value) []ssa.Value {
	var out []ssa.Value
	seen := map[ssa.Value]bool{}
	var walk func(ssa.Value)
	walk = func(x ssa.Value) {
		x = strip(x)
		if seen[x] {
			return
		}
		seen[x] = true
		if p, ok := x.(*ssa.Phi); ok {
			for _, e := range p.Edges {
				walk(e)
			}
			return
		}
		out = append(out, x)
	}
	walk(v)
	return out
}

// freeVarReadOnly reports whether a captured cell is only loaded (possibly re-captured read-only).
func freeVarReadOnly(fv *ssa.FreeVar, d int) bool {
	if d > 4 {
		return false
	}
	for _, r := range *fv.Referrers() {
		switch y := r.(type) {
		case *ssa.UnOp:
			if y.Op != token.MUL {
				return false
			}
		case *ssa.DebugRef:
		case *ssa.MakeClosure:
			fn, _ := y.Fn.(*ssa.Function)
			if fn == nil {
				return false
			}
			for bi, bv := range y.Bindings {
				if bv == ssa.Value(fv) && bi < len(fn.FreeVars) && !freeVarReadOnly(fn.FreeVars[bi], d+1) {
					return false
				}
			}
		default:
			return false
		}
	}
	return true
}

// freeVarStored returns the single value stored into the cell captured as fv (nil when the cell is written
// more than once, written by a closure, or cannot be found). The result belongs to the enclosing function.
func freeVarStored(fv *ssa.FreeVar) ssa.Value {
	fn := fv.Parent()
	parent := fn.Parent()
	if parent == nil {
		return nil
	}
	idx := -1
	for i, f := range fn.FreeVars {
		if f == fv {
			idx = i
		}
	}
	var cell *ssa.Alloc
	for _, b := range parent.Blocks {
		for _, in := range b.Instrs {
			mc, ok := in.(*ssa.MakeClosure)
			if !ok || mc.Fn != ssa.Value(fn) || idx < 0 || idx >= len(mc.Bindings) {
				continue
			}
			switch bnd := mc.Bindings[idx].(type) {
			case *ssa.Alloc:
				if cell != nil && cell != bnd {
					return nil
				}
				cell = bnd
			case *ssa.FreeVar:
				return freeVarStored(bnd)
			default:
				return nil
			}
		}
	}
	if cell == nil {
		return nil
	}
	var stored ssa.Value
	for _, r := range *cell.Referrers() {
		switch y := r.(type) {
		case *ssa.Store:
			if y.Addr != ssa.Value(cell) || stored != nil {
				return nil
			}
			stored = y.Val
		case *ssa.UnOp, *ssa.DebugRef:
		case *ssa.MakeClosure:
			cf, _ := y.Fn.(*ssa.Function)
			if cf == nil {
				return nil
			}
			for bi, bv := range y.Bindings {
				if bv == ssa.Value(cell) && bi < len(cf.FreeVars) && !freeVarReadOnly(cf.FreeVars[bi], 0) {
					return nil
				}
			}
		default:
			return nil
		}
	}
	return stored
}

// boolCase is one way a boolean result comes about: the value leaf, flowing to the return from instruction At
// (the return itself, or the terminator of the predecessor block whose phi edge carries the leaf).
type boolCase struct {
	At      ssa.Instruction
	Leaf    ssa.Value
	Edge    *ssa.If // when At is a conditional branch: the phi edge leaves it on successor EdgeIdx
	EdgeIdx int
}

// boolCases splits a returned boolean into its phi leaves together with the program point each comes from, so that
// `return a && b`, `if a && b { return true }; return false` and `if a { if b { return true } }` are judged alike.
func boolCases(r *ssa.Return, idx int) []boolCase {
	var out []boolCase
	seen := map[ssa.Value]bool{}
	var walk func(v ssa.Value, at ssa.Instruction, edge *ssa.If, ek int)
	walk = func(v ssa.Value, at ssa.Instruction, edge *ssa.If, ek int) {
		v = strip(v)
		if p, ok := v.(*ssa.Phi); ok {
			if seen[v] {
				return
			}
			seen[v] = true
			for i, e := range p.Edges {
				pred := p.Block().Preds[i]
				last := pred.Instrs[len(pred.Instrs)-1]
				var ei *ssa.If
				ek := 0
				if ifi, ok := last.(*ssa.If); ok && pred.Succs[0] != pred.Succs[1] {
					ei = ifi
					if pred.Succs[1] == p.Block() {
						ek = 1
					}
				}
				walk(e, last, ei, ek)
			}
			return
		}
		out = append(out, boolCase{At: at, Leaf: v, Edge: edge, EdgeIdx: ek})
	}
	walk(r.Results[idx], r, nil, 0)
	return out
}

// holdsWhenTrue: on every path on which the case yields true, the atom selected by sel has value val
// (because the path requires it, or because the returned leaf is that very condition).
func (w *World) holdsWhenTrue(fn *ssa.Function, bc boolCase, sel func(Atom) bool, val bool) bool {
	if w.requires(fn, bc.At, sel, val) {
		return true
	}
	if bc.Edge != nil {
		a := w.atom(bc.Edge.Cond)
		keyVal := !a.Neg
		if bc.EdgeIdx == 1 {
			keyVal = a.Neg
		}
		if sel(a) && keyVal == val {
			return true
		}
	}
	if _, isConst := bc.Leaf.(*ssa.Const); isConst {
		return false
	}
	a := w.atom(bc.Leaf)
	// leaf true <=> key holds != Neg, i.e. key = !Neg
	return sel(a) && (!a.Neg) == val
}
