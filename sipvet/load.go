package main

import (
	"fmt"
	"go/token"
	"go/types"
	"os"
	"sort"
	"strings"

	"golang.org/x/tools/go/callgraph"
	"golang.org/x/tools/go/callgraph/cha"
	"golang.org/x/tools/go/callgraph/vta"
	"golang.org/x/tools/go/packages"
	"golang.org/x/tools/go/ssa"
	"golang.org/x/tools/go/ssa/ssautil"
)

const repoPkgPath = "github.com/ochinchina/sipproxy"

// World is the resolved program every rule works on.
type World struct {
	Dir          string
	Fset         *token.FileSet
	Pkg          *packages.Package
	Prog         *ssa.Program
	Main         *ssa.Package
	CG           *callgraph.Graph
	funcBindings map[interface{}][]ssa.Value // func-typed fields / package variables -> values stored (boundFunc)
	Funcs        map[string]*ssa.Function    // by RelString relative to main, source functions only
	All          []*ssa.Function             // source functions of the main package, sorted by name
	Files        int
	Excluded     []string // .go files excluded from the default build configuration by a build constraint (not analysed)
	Inlined      []string // new single-call-site helpers inlined into their callers before the analysis
	Renamed      []string // baseline function -> its new name, recognised by receiver and signature
	alias        map[*ssa.Function]string

	flow      *flowGraph // lazily built
	writerSet map[*ssa.Function]bool
	effects   map[*ssa.Function]map[string]bool
	thr       *threads             // lazily built
	strKeep   edgeKeep             // evalStr: phis of strFn are resolved under this edge filter when set
	sentinels map[*ssa.Global]bool // package-level error variables that only ever hold newly built errors
	strFn     *ssa.Function
	// InlineFailure: why the helper inliner gave up (the program is then analysed as written); "" normally
	InlineFailure string
}

// Load type-checks /repo (non-test files, default build configuration), builds SSA for the
// whole program and a VTA call graph. Any failure is returned: callers fail closed.
func Load(dir string) (*World, error) {
	w, err := load(dir, true)
	if err != nil && strings.HasPrefix(err.Error(), "inline:") {
		// the helper inliner is a convenience: if it cannot keep the IR consistent, analyse the program as written
		reason := err.Error()
		if os.Getenv("SIPVET_DEBUG") != "" {
			fmt.Fprintln(os.Stderr, "sipvet:", reason)
		}
		w, err = load(dir, false)
		if w != nil {
			w.InlineFailure = reason
		}
	}
	return w, err
}

var noFlatten = os.Getenv("SIPVET_NOFLATTEN") != ""

func load(dir string, inline bool) (*World, error) {
	env := []string{}
	for _, e := range os.Environ() {
		if strings.HasPrefix(e, "GOFLAGS=") || strings.HasPrefix(e, "GOWORK=") ||
			strings.HasPrefix(e, "GOPROXY=") || strings.HasPrefix(e, "GOSUMDB=") ||
			strings.HasPrefix(e, "GOTOOLCHAIN=") {
			continue
		}
		env = append(env, e)
	}
	env = append(env, "GOFLAGS=-mod=readonly", "GOPROXY=off", "GOSUMDB=off", "GOTOOLCHAIN=local", "GOWORK=off")
	cfg := &packages.Config{
		Mode:  packages.LoadAllSyntax,
		Dir:   dir,
		Env:   env,
		Tests: false,
	}
	pkgs, err := packages.Load(cfg, ".")
	if err != nil {
		return nil, fmt.Errorf("load: %v", err)
	}
	if len(pkgs) != 1 {
		return nil, fmt.Errorf("load: expected exactly one root package, got %d", len(pkgs))
	}
	root := pkgs[0]
	if root.PkgPath != repoPkgPath {
		return nil, fmt.Errorf("load: root package is %q, expected %q", root.PkgPath, repoPkgPath)
	}
	var errs []string
	packages.Visit(pkgs, nil, func(p *packages.Package) {
		for _, e := range p.Errors {
			errs = append(errs, e.Error())
		}
	})
	if len(errs) > 0 {
		return nil, fmt.Errorf("load: %d type/list errors, first: %s", len(errs), errs[0])
	}
	var excluded []string
	for _, f := range root.IgnoredFiles {
		if strings.HasSuffix(f, ".go") && !strings.HasSuffix(f, "_test.go") {
			// not part of the default build (the one the test suite and the shipped binary use): recorded, not analysed
			if i := strings.LastIndex(f, "/"); i >= 0 {
				f = f[i+1:]
			}
			excluded = append(excluded, f)
		}
	}
	if len(root.GoFiles) < 20 {
		return nil, fmt.Errorf("load: only %d non-test files (expected >= 20)", len(root.GoFiles))
	}
	prog, spkgs := ssautil.AllPackages(pkgs, ssa.InstantiateGenerics)
	prog.Build()
	w := &World{Dir: dir, Fset: root.Fset, Pkg: root, Prog: prog, Main: spkgs[0], Files: len(root.GoFiles), Excluded: excluded}
	if w.Main == nil {
		return nil, fmt.Errorf("load: no SSA for root package")
	}
	if inline && !noFlatten {
		// results that were packed into a small struct which is not part of the pinned tree are unpacked again (the
		// rules, the function inventory and the rename recognition then see the positional results they know)
		baselineTypes := map[string]bool{}
		for _, l := range strings.Split(baselineFieldsTxt, "\n") {
			if parts := strings.SplitN(strings.TrimSpace(l), "\t", 2); len(parts) == 2 {
				baselineTypes[parts[0]] = true
			}
		}
		isNewStruct := func(nt *types.Named) bool {
			return nt.Obj().Pkg() == w.Main.Pkg && !baselineTypes[nt.Obj().Name()]
		}
		flatP, perr := ssa.FlattenStructParams(w.Main, ssautil.AllFunctions(prog), isNewStruct)
		if perr != nil {
			return nil, fmt.Errorf("inline: %v", perr)
		}
		for _, n := range flatP {
			w.Renamed = append(w.Renamed, n+": struct parameter unpacked into positional parameters")
		}
		flat, ferr := ssa.FlattenStructResults(w.Main, ssautil.AllFunctions(prog), isNewStruct)
		if ferr != nil {
			return nil, fmt.Errorf("inline: %v", ferr)
		}
		for _, n := range flat {
			w.Renamed = append(w.Renamed, n+": struct result unpacked into positional results")
		}
	}
	w.renameAliases(ssautil.AllFunctions(prog))
	w.Renamed = append(w.Renamed, fieldRenameAliases(w.Main.Pkg)...)
	if inline {
		done, err := inlineNewHelpers(prog, w.Main, w.alias)
		if err != nil {
			return nil, fmt.Errorf("inline: %v", err)
		}
		w.Inlined = done
	}
	all := ssautil.AllFunctions(prog)
	w.CG = vta.CallGraph(all, cha.CallGraph(prog))
	edgeWorld = w
	w.Funcs = map[string]*ssa.Function{}
	for fn := range all {
		if fn.Pkg != w.Main && !(fn.Pkg == nil && fn.Parent() != nil && topParent(fn).Pkg == w.Main) {
			continue
		}
		if fn.Synthetic != "" && fn.Parent() == nil && !strings.HasPrefix(fn.Synthetic, "package init") {
			continue
		}
		if fn.Blocks == nil {
			continue
		}
		name := w.fname(fn)
		w.Funcs[name] = fn
	}
	for _, fn := range w.Funcs {
		w.All = append(w.All, fn)
	}
	sort.Slice(w.All, func(i, j int) bool { return w.fname(w.All[i]) < w.fname(w.All[j]) })
	if len(w.All) < 200 {
		return nil, fmt.Errorf("load: only %d source functions (expected >= 200)", len(w.All))
	}
	return w, nil
}

func topParent(fn *ssa.Function) *ssa.Function {
	for fn.Parent() != nil {
		fn = fn.Parent()
	}
	return fn
}

func (w *World) fname(fn *ssa.Function) string {
	if fn == nil {
		return "<nil>"
	}
	if n, ok := w.alias[fn]; ok {
		return n
	}
	if p := fn.Parent(); p != nil && len(w.alias) > 0 {
		// closures of a renamed function keep its baseline name as prefix
		top := fn
		for top.Parent() != nil {
			top = top.Parent()
		}
		if n, ok := w.alias[top]; ok {
			return n + strings.TrimPrefix(fn.RelString(w.Main.Pkg), top.RelString(w.Main.Pkg))
		}
	}
	return fn.RelString(w.Main.Pkg)
}

// Fn returns the named source function or nil.
func (w *World) Fn(name string) *ssa.Function { return w.Funcs[name] }

func (w *World) pos(p token.Pos) string {
	if !p.IsValid() {
		return "-"
	}
	pp := w.Fset.Position(p)
	f := pp.Filename
	if i := strings.LastIndex(f, "/"); i >= 0 {
		f = f[i+1:]
	}
	return fmt.Sprintf("%s:%d", f, pp.Line)
}

// instrPos gives the best available position for an instruction.
func (w *World) ipos(in ssa.Instruction) string {
	if in == nil {
		return "-"
	}
	if p := in.Pos(); p.IsValid() {
		return w.pos(p)
	}
	if v, ok := in.(ssa.Value); ok {
		for _, r := range *v.Referrers() {
			if r.Pos().IsValid() {
				return w.pos(r.Pos())
			}
		}
	}
	// fall back to any positioned instruction in the block
	for _, x := range in.Block().Instrs {
		if x.Pos().IsValid() {
			return w.pos(x.Pos()) + "~"
		}
	}
	return w.pos(in.Parent().Pos()) + "~"
}

// isMain reports whether fn belongs to the analysed package (including its closures).
func (w *World) isMain(fn *ssa.Function) bool {
	if fn == nil {
		return false
	}
	return topParent(fn).Pkg == w.Main
}

// lookupType returns the named type of the main package.
func (w *World) lookupType(name string) *types.Named {
	obj := w.Main.Pkg.Scope().Lookup(name)
	if obj == nil {
		for nu, old := range typeAlias {
			if old == name {
				obj = w.Main.Pkg.Scope().Lookup(nu)
			}
		}
	}
	if obj == nil {
		return nil
	}
	n, _ := obj.Type().(*types.Named)
	return n
}

// field returns the *types.Var of Type.field in the main package (nil when absent).
func (w *World) field(typ, fld string) *types.Var {
	n := w.lookupType(typ)
	if n == nil {
		return nil
	}
	st, ok := n.Underlying().(*types.Struct)
	if !ok {
		return nil
	}
	for i := 0; i < st.NumFields(); i++ {
		if fvName(st.Field(i)) == fld {
			return st.Field(i)
		}
	}
	return nil
}
