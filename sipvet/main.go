// sipvet decides the sipproxy properties C01..C20 by static analysis of /repo's current source.
package main

import (
	"encoding/json"
	"flag"
	"fmt"
	"go/types"
	"os"
	"runtime/debug"
	"sort"
	"strconv"
	"strings"
	"time"

	"golang.org/x/tools/go/ssa"
)

type ssaFn = ssa.Function

type propDef struct {
	ID         string
	Run        func(c *Ctx)
	Explain    string // what is decided (structural part)
	NotDecided string
}

var registry = map[string]*propDef{}

var bceFile string

func register(p *propDef) { registry[p.ID] = p }

var trustedBase = []string{
	"Go type checker and go/ssa (x/tools v0.29.0) build a faithful IR of /repo's current source",
	"sipvet's own addition to the vendored go/ssa (sipvet_inline.go) inlines a function that is absent from the pinned tree and has exactly one static call site into its caller, preserving semantics; every function so changed passes go/ssa's consistency check, otherwise the program is analysed as written",
	"VTA call graph (seeded by CHA) over-approximates dynamic dispatch",
	"standard-library contracts used as facts: strings.Index*/Split/HasPrefix/Fields, bufio.Reader.ReadLine buffer lifetime, io.ReadFull reads exactly len(buf) or fails, net.Conn.Write returns a non-nil error on a short write, sync.Mutex semantics",
}

func main() {
	repo := flag.String("repo", "/repo", "repository to analyse")
	verif := flag.String("verif", "/verif", "verification directory (evidence, known findings)")
	prop := flag.String("prop", "", "property id (C01..C20) or 'all'")
	tier := flag.String("tier", "quick", "quick|thorough")
	dump := flag.String("dump", "", "debug: dump SSA of the named function")
	replay := flag.String("replay", "", "replay file: re-evaluate the obligation it names")
	listFuncs := flag.Bool("listfuncs", false, "print the named functions of the analysed package (to regenerate baseline_funcs.txt on the pinned tree)")
	listFields := flag.Bool("listfields", false, "print the struct types of the analysed package with their fields (to regenerate baseline_fields.txt on the pinned tree)")
	bce := flag.String("bce", "", "thorough/C08: file with the compiler's -d=ssa/check_bce/debug=1 listing for cross-checking the obligation inventory")
	crashed := flag.String("crashed", "", "internal: record that the analyser died with this message for -prop (fails closed: evidence + VIOLATION)")
	flag.Parse()
	if *crashed != "" && *prop != "" {
		failLoad(*verif, *prop, *tier, 0, fmt.Errorf("the analyser itself ended abnormally (%s): nothing was decided, the check fails closed", *crashed), 0)
		os.Exit(1)
	}

	seed := 0
	if s := os.Getenv("VERIF_SEED"); s != "" {
		if v, err := strconv.Atoi(s); err == nil {
			seed = v
		}
	}
	if *replay != "" {
		os.Exit(doReplay(*repo, *verif, *replay, seed))
	}
	bceFile = *bce
	t0 := time.Now()
	var w *World
	var err error
	if *listFuncs || *listFields {
		w, err = load(*repo, false) // the inventory is of the program as written: nothing inlined
	} else {
		w, err = Load(*repo)
	}
	if err != nil {
		ids := []string{*prop}
		if *prop == "all" || *prop == "" {
			ids = sortedKeys(registry)
		}
		for _, id := range ids {
			failLoad(*verif, id, *tier, seed, err, time.Since(t0).Seconds())
		}
		os.Exit(1)
	}
	if name := os.Getenv("SIPVET_DUMP"); name != "" {
		// debugging aid: the IR of one function as the rules see it (after inlining and clean-up)
		if fn := w.Fn(name); fn != nil {
			fn.WriteTo(os.Stdout)
		}
		return
	}
	if os.Getenv("SIPVET_LIST_CAPTURES") != "" {
		caps, n := loopCaptures(w)
		fmt.Println("closures in loops:", n)
		for _, lc := range caps {
			fmt.Println("capture:", w.fname(lc.Fn), lc.Name, w.ipos(lc.MC))
		}
		return
	}
	if *listFuncs {
		for _, fn := range w.All {
			if fn.Parent() == nil {
				fmt.Printf("%s\t%s\n", w.fname(fn), sigText(fn, w.Main.Pkg))
			}
		}
		return
	}
	if *listFields {
		sc := w.Main.Pkg.Scope()
		for _, n := range sc.Names() {
			if tn, ok := sc.Lookup(n).(*types.TypeName); ok {
				if st, ok := tn.Type().Underlying().(*types.Struct); ok {
					fmt.Printf("%s\t%s\n", n, structText(st, w.Main.Pkg))
				}
			}
		}
		return
	}
	if *dump != "" {
		for _, n := range strings.Split(*dump, ",") {
			if fn := w.Fn(n); fn != nil {
				fn.WriteTo(os.Stdout)
			} else {
				fmt.Println("no such function:", n)
			}
		}
		return
	}
	ids := []string{*prop}
	if *prop == "all" {
		ids = sortedKeys(registry)
	}
	sort.Strings(ids)
	code := 0
	for _, id := range ids {
		p := registry[id]
		if p == nil {
			fmt.Fprintf(os.Stderr, "unknown property %q\n", id)
			os.Exit(2)
		}
		if runProp(w, p, *verif, *tier, seed, t0) != 0 {
			code = 1
		}
	}
	os.Exit(code)
}

func runProp(w *World, p *propDef, verif, tier string, seed int, t0 time.Time) (code int) {
	c := newCtx(w, p.ID, tier)
	func() {
		defer func() {
			if r := recover(); r != nil {
				c.undecided("checker", "panic", "-", fmt.Sprintf("checker panicked: %v\n%s", r, debug.Stack()))
			}
		}()
		p.Run(c)
	}()
	return c.finish(verif, seed, time.Since(t0).Seconds(), p.Explain, p.NotDecided, trustedBase)
}

func failLoad(verif, id, tier string, seed int, err error, wall float64) {
	os.MkdirAll(verif+"/evidence/replay", 0o755)
	rp := fmt.Sprintf("%s/evidence/replay/%s-1.json", verif, id)
	b, _ := json.MarshalIndent(map[string]interface{}{"property": id, "rule": "loader", "kind": "undecided", "detail": err.Error()}, "", " ")
	os.WriteFile(rp, b, 0o644)
	ev := evidence{PropertyID: id, Tier: tier, Seed: seed, Level: "other", WallS: wall, Violations: 1,
		Coverage:    map[string]interface{}{"explanation": "the repository could not be loaded and type-checked; nothing was decided: " + err.Error(), "obligations": 1, "discharged": 0, "undecided": 1},
		Assumptions: []string{}}
	eb, _ := json.MarshalIndent(ev, "", " ")
	os.WriteFile(fmt.Sprintf("%s/evidence/%s.json", verif, id), eb, 0o644)
	fmt.Printf("VIOLATION property=%s replay=%s\n  rule    loader [undecided]\n  what    %v\n", id, rp, err)
}

func doReplay(repo, verif, path string, seed int) int {
	b, err := os.ReadFile(path)
	if err != nil {
		fmt.Fprintln(os.Stderr, err)
		return 2
	}
	var r struct {
		Property, Rule, Construct, Pos, Kind, Detail string
	}
	if err := json.Unmarshal(b, &r); err != nil {
		fmt.Fprintln(os.Stderr, err)
		return 2
	}
	p := registry[r.Property]
	if p == nil {
		fmt.Fprintln(os.Stderr, "unknown property in replay file")
		return 2
	}
	w, err := Load(repo)
	if err != nil {
		fmt.Printf("VIOLATION property=%s replay=%s\n  loader: %v\n", r.Property, path, err)
		return 1
	}
	c := newCtx(w, p.ID, "quick")
	func() {
		defer func() {
			if rr := recover(); rr != nil {
				c.undecided("checker", "panic", "-", fmt.Sprint(rr))
			}
		}()
		p.Run(c)
	}()
	found := false
	for _, o := range c.Obls {
		if o.Rule == r.Rule && o.Key == r.Construct {
			found = true
			fmt.Printf("replay %s %s:%s at %s -> %s\n  %s\n", r.Property, o.Rule, o.Key, o.Pos, o.Status, o.Detail)
			for _, f := range o.Facts {
				fmt.Printf("  fact %s\n", f)
			}
			if o.Status == stViolated || o.Status == stUndecided {
				fmt.Printf("VIOLATION property=%s replay=%s\n", r.Property, path)
				return 1
			}
		}
	}
	if !found {
		fmt.Printf("replay: obligation %s:%s no longer exists on the current tree\n", r.Rule, r.Construct)
	}
	return 0
}
