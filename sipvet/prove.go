package main

import (
	"fmt"
	"go/token"
	"sort"
	"strings"

	"golang.org/x/tools/go/ssa"
)

// PROVE: panic obligations (index, slice, make, division) discharged by linear reasoning over integer terms.
// A term is a linear form  sum(c_i * atom_i) + k ; atoms are opaque SSA integer values and len(x) terms, named by
// canonical keys so that repeated loads / len() calls of the same thing coincide.

type lin struct {
	c map[string]int64 // atom key -> coefficient
	k int64
}

func newLin() lin { return lin{c: map[string]int64{}} }

func (a lin) clone() lin {
	o := newLin()
	for k, v := range a.c {
		o.c[k] = v
	}
	o.k = a.k
	return o
}

func (a lin) add(b lin, s int64) lin {
	o := a.clone()
	for k, v := range b.c {
		o.c[k] += s * v
		if o.c[k] == 0 {
			delete(o.c, k)
		}
	}
	o.k += s * b.k
	return o
}

func (a lin) isConst() bool { return len(a.c) == 0 }

func (a lin) String() string {
	var ks []string
	for k := range a.c {
		ks = append(ks, k)
	}
	sort.Strings(ks)
	var parts []string
	for _, k := range ks {
		switch a.c[k] {
		case 1:
			parts = append(parts, k)
		case -1:
			parts = append(parts, "-"+k)
		default:
			parts = append(parts, fmt.Sprintf("%d*%s", a.c[k], k))
		}
	}
	if a.k != 0 || len(parts) == 0 {
		parts = append(parts, fmt.Sprint(a.k))
	}
	return strings.Join(parts, " + ")
}

// fact: e >= 0
type fact struct {
	e   lin
	why string
}

type prover struct {
	linDepth     int
	w            *World
	fn           *ssa.Function
	site         ssa.Instruction
	atoms        map[string]ssa.Value         // atom key -> representative value (for len atoms: the measured value)
	summaryLoads map[string][]ssa.Instruction // len-atom key -> helper calls whose summary fact mentions it (reads for the kill check)
	isLen        map[string]bool
	facts        []fact
	neq          []lin // e != 0
	seenV        map[ssa.Value]bool
	depth        int
	sub          map[ssa.Value]ssa.Value
	condFacts    []condFact
	prefSuf      []prefSuf
	lenDone      map[string]bool
}

func (w *World) newProver(fn *ssa.Function, site ssa.Instruction) *prover {
	return &prover{w: w, fn: fn, site: site, atoms: map[string]ssa.Value{}, isLen: map[string]bool{}, seenV: map[ssa.Value]bool{}, lenDone: map[string]bool{}}
}

// atomKey canonicalises an integer value that is not decomposed further.
func (p *prover) atomKey(v ssa.Value) string {
	v = strip(v)
	k := p.w.termKey(v)
	// instruction values that are not pure loads get their identity
	switch v.(type) {
	case *ssa.Phi, *ssa.Call, *ssa.Extract, *ssa.Parameter:
		// termKey already carries identity for these
	}
	if _, ok := p.atoms[k]; !ok {
		p.atoms[k] = v
	}
	return k
}

func (p *prover) lenKey(x ssa.Value) string {
	x = strip(x)
	if init := freshFieldInit(p.fn, x); init != nil {
		x = strip(init)
	}
	k := "len(" + p.w.termKey(x) + ")"
	if _, ok := p.atoms[k]; !ok {
		p.atoms[k] = x
		p.isLen[k] = true
	}
	return k
}

// linOf turns an integer SSA value into a linear form.
func (p *prover) linOf(v ssa.Value) lin {
	v = strip(v)
	// a substituted loop variable may be defined in terms of itself (i -> i + 1): past a fixed depth the value is an atom
	p.linDepth++
	defer func() { p.linDepth-- }()
	if p.linDepth > 48 {
		o := newLin()
		o.c[p.atomKey(v)] = 1
		return o
	}
	if p.sub != nil {
		if r, ok := p.sub[v]; ok {
			return p.linOf(r)
		}
	}
	if k, ok := constInt(v); ok {
		if _, isC := v.(*ssa.Const); isC {
			return lin{c: map[string]int64{}, k: k}
		}
	}
	switch x := v.(type) {
	case *ssa.BinOp:
		switch x.Op {
		case token.ADD:
			return p.linOf(x.X).add(p.linOf(x.Y), 1)
		case token.SUB:
			return p.linOf(x.X).add(p.linOf(x.Y), -1)
		case token.MUL:
			if k, ok := constInt(x.Y); ok {
				l := p.linOf(x.X)
				o := newLin()
				for a, c := range l.c {
					o.c[a] = c * k
				}
				o.k = l.k * k
				return o
			}
		}
	case *ssa.Convert:
		if isIntegerType(x.X.Type()) && isIntegerType(x.Type()) {
			return p.linOf(x.X)
		}
	case *ssa.Call:
		if b, ok := x.Call.Value.(*ssa.Builtin); ok && b.Name() == "len" {
			arg := strip(x.Call.Args[0])
			if s, isS := constString(arg); isS {
				return lin{c: map[string]int64{}, k: int64(len(s))}
			}
			o := newLin()
			o.c[p.lenKey(arg)] = 1
			return o
		}
	}
	o := newLin()
	o.c[p.atomKey(v)] = 1
	return o
}

func (p *prover) addFact(e lin, why string) {
	p.facts = append(p.facts, fact{e, why})
}

// ge adds a >= b.
func (p *prover) ge(a, b lin, why string) { p.addFact(a.add(b, -1), why) }

// collectValueFacts adds the always-true facts about every atom occurring in the forms (library contracts,
// lengths, loop indices), recursively for the atoms those facts mention.
func (p *prover) collectValueFacts() {
	w := p.w
	for changed := true; changed; {
		changed = false
		keys := sortedKeys(p.atoms)
		for _, k := range keys {
			v := p.atoms[k]
			if p.seenV[v] && !p.isLen[k] {
				continue
			}
			if p.isLen[k] && p.lenDone[k] {
				continue
			}
			n0 := len(p.atoms)
			if p.isLen[k] {
				p.lenFacts(k, v)
			} else {
				p.seenV[v] = true
				p.intFacts(k, v)
			}
			if len(p.atoms) != n0 {
				changed = true
			}
		}
	}
	_ = w
}

func (p *prover) lenFacts(k string, x ssa.Value) {
	if p.lenDone[k] {
		return
	}
	p.lenDone[k] = true
	w := p.w
	l := newLin()
	l.c[k] = 1
	p.addFact(l, "len >= 0")
	switch y := x.(type) {
	case *ssa.Slice:
		// len(x[a:b]) = b - a
		var hi, lo lin
		if y.High != nil {
			hi = p.linOf(y.High)
		} else {
			hi = newLin()
			hi.c[p.lenKey(y.X)] = 1
		}
		if y.Low != nil {
			lo = p.linOf(y.Low)
		} else {
			lo = newLin()
		}
		d := hi.add(lo, -1)
		p.ge(l, d, "F5 len(x[a:b]) = b-a")
		p.ge(d, l, "F5 len(x[a:b]) = b-a")
	case *ssa.Convert:
		// string(b) / []byte(s) keep the length
		o := newLin()
		o.c[p.lenKey(y.X)] = 1
		p.ge(l, o, "len(conversion) = len(operand)")
		p.ge(o, l, "len(conversion) = len(operand)")
	case *ssa.Call:
		switch w.calleeName(y) {
		case "strings.Split":
			if s, ok := constString(y.Call.Args[1]); ok && s != "" {
				p.addFact(l.add(lin{c: map[string]int64{}, k: 1}, -1), "F2 len(strings.Split(s, sep)) >= 1")
			}
		case "strings.TrimSpace", "strings.ToLower", "strings.ToUpper":
		}
	case *ssa.MakeSlice:
		o := p.linOf(y.Len)
		p.ge(l, o, "len(make(T, n)) = n")
		p.ge(o, l, "len(make(T, n)) = n")
	}
}

func (p *prover) intFacts(k string, v ssa.Value) {
	w := p.w
	self := newLin()
	self.c[k] = 1
	one := lin{c: map[string]int64{}, k: 1}
	switch x := v.(type) {
	case *ssa.Call:
		name := w.calleeName(x)
		switch name {
		case "strings.IndexByte", "strings.Index", "strings.LastIndex", "strings.LastIndexByte", "bytes.IndexByte", "bytes.Index":
			// F1: -1 <= r <= len(s) - len(c)
			p.addFact(self.add(one, 1), "F1 index >= -1")
			nl := int64(1)
			if s, ok := constString(x.Call.Args[1]); ok {
				nl = int64(len(s))
			}
			ls := newLin()
			if s, ok := constString(x.Call.Args[0]); ok {
				ls.k = int64(len(s))
			} else {
				ls.c[p.lenKey(x.Call.Args[0])] = 1
			}
			p.ge(ls.add(lin{c: map[string]int64{}, k: nl}, -1), self, "F1 index <= len(s) - len(needle)")
		}
		// slices.Index / IndexFunc / BinarySearch-free finders of the standard library: -1 <= r <= len(s) - 1
		if strings.HasPrefix(name, "slices.Index") && len(x.Call.Args) >= 1 {
			p.addFact(self.add(one, 1), "F1 slices.Index* >= -1")
			ls := newLin()
			ls.c[p.lenKey(x.Call.Args[0])] = 1
			p.ge(ls.add(one, -1), self, "F1 slices.Index* <= len(s) - 1")
		}
		// a finder of the package over one of its string arguments: -1, or an index it has compared with that
		// argument's length (F1 for package functions)
		if callee := x.Common().StaticCallee(); callee != nil && w.isMain(callee) {
			if pi, ok := w.strIndexSummary(callee); ok && pi < len(x.Call.Args) {
				p.addFact(self.add(one, 1), "F1s package finder >= -1")
				ls := newLin()
				if s, ok := constString(x.Call.Args[pi]); ok {
					ls.k = int64(len(s))
				} else {
					ls.c[p.lenKey(x.Call.Args[pi])] = 1
				}
				p.ge(ls.add(one, -1), self, "F1s package finder <= len(s) - 1")
			}
		}
		if w.nonNeg(v, map[ssa.Value]bool{}, 0) {
			p.addFact(self, "non-negative by construction (all producers are non-negative)")
		}
		// callee summaries: position helpers bounded by the length of a receiver field
		if x.Type() != nil && isIntegerType(x.Type()) {
			p.summaryFacts(self, x)
		}
	case *ssa.Extract:
		if w.nonNeg(v, map[ssa.Value]bool{}, 0) {
			p.addFact(self, "non-negative by construction")
		}
		if cc, ok := x.Tuple.(*ssa.Call); ok && x.Index == 0 {
			p.summaryFacts(self, cc)
		}
	case *ssa.Phi:
		// loop counters: phi(c0, phi + step) with step >= 0 and c0 constant  => phi >= c0
		var c0 *int64
		okInd := true
		for _, e := range x.Edges {
			if k, ok := constInt(e); ok {
				if c0 == nil || k < *c0 {
					kk := k
					c0 = &kk
				}
				continue
			}
			l := p.linOfNoRegister(e)
			if len(l.c) == 1 && l.c[k] == 1 && l.k >= 0 {
				continue
			}
			okInd = false
		}
		if okInd && c0 != nil {
			p.addFact(self.add(lin{c: map[string]int64{}, k: *c0}, -1), fmt.Sprintf("loop counter >= %d (induction)", *c0))
		} else if w.nonNeg(v, map[ssa.Value]bool{}, 0) {
			p.addFact(self, "non-negative by construction")
		}
	case *ssa.BinOp:
		if x.Op == token.REM {
			// 0 <= x % n < n  for x >= 0, n > 0 (n > 0 must follow from the facts; only the consequence is recorded conditionally)
			if w.nonNeg(x.X, map[ssa.Value]bool{}, 0) {
				p.addFact(self, "x % n >= 0 for x >= 0")
				n := p.linOf(x.Y)
				// r <= n - 1 holds whenever n >= 1; record as conditional fact
				p.condFacts = append(p.condFacts, condFact{need: n.add(one, -1), e: n.add(one, -1).add(self, -1), why: "x % n <= n-1 for n >= 1"})
			}
		}
		if w.nonNeg(v, map[ssa.Value]bool{}, 0) {
			p.addFact(self, "non-negative by construction")
		}
	case *ssa.UnOp, *ssa.Parameter, *ssa.Field:
		// struct invariant: a count field filled with the number of bytes read into the buffer field of the same literal
		if ref, base := loadedField(v); ref != "" {
			if bref, ok := w.pairedCount(ref); ok {
				eachInstr(p.fn, func(in ssa.Instruction) {
					if val, isV := in.(ssa.Value); isV {
						if r2, b2 := loadedField(val); r2 == bref && b2 != nil && base != nil && w.termKey(b2) == w.termKey(base) {
							o := newLin()
							o.c[p.lenKey(val)] = 1
							p.addFact(self, "invariant: "+ref+" is a received-byte count >= 0")
							p.ge(o, self, "invariant: "+ref+" <= len("+bref+") in every construction")
						}
					}
				})
			}
		}
		if w.nonNeg(v, map[ssa.Value]bool{}, 0) {
			p.addFact(self, "non-negative by construction (all stores/arguments are non-negative)")
		}
	}
	// range loop index
	for _, rl := range rangeLoops(p.fn) {
		if rl.Idx != nil && strip(rl.Idx) == v {
			p.addFact(self, "range index >= 0")
		}
	}
}

type condFact struct {
	need lin // need >= 0 must be provable
	e    lin // then e >= 0
	why  string
}

func (p *prover) linOfNoRegister(v ssa.Value) lin {
	q := p.w.newProver(p.fn, p.site)
	l := q.linOf(v)
	return l
}

// guardFacts: facts implied by the branch conditions that must hold when the site executes.
func (p *prover) guardFacts() {
	w := p.w
	ctrl := w.controlAtoms(p.fn, p.site)
	atoms := map[string]Atom{}
	for _, a := range w.atomsOf(p.fn) {
		atoms[a.Key] = a
	}
	one := lin{c: map[string]int64{}, k: 1}
	for key, val := range ctrl {
		a := atoms[key]
		switch a.Kind {
		case "ltk": // X < K
			x := p.linOf(a.X)
			kk := lin{c: map[string]int64{}, k: a.K}
			if val {
				p.ge(kk.add(one, -1), x, "guard "+key)
			} else {
				p.ge(x, kk, "guard !"+key)
			}
		case "lt": // X < Y
			if !isIntegerType(a.X.Type()) {
				continue
			}
			x, y := p.linOf(a.X), p.linOf(a.Y)
			if val {
				p.ge(y.add(one, -1), x, "guard "+key)
			} else {
				p.ge(x, y, "guard !"+key)
			}
		case "eqk":
			x := p.linOf(a.X)
			kk := lin{c: map[string]int64{}, k: a.K}
			if val {
				p.ge(x, kk, "guard "+key)
				p.ge(kk, x, "guard "+key)
			} else {
				p.neq = append(p.neq, x.add(kk, -1))
			}
		case "eq":
			if a.X == nil || a.Y == nil || !isIntegerType(a.X.Type()) {
				continue
			}
			x, y := p.linOf(a.X), p.linOf(a.Y)
			if val {
				p.ge(x, y, "guard "+key)
				p.ge(y, x, "guard "+key)
			} else {
				p.neq = append(p.neq, x.add(y, -1))
			}
		case "bool":
			cc, _ := callOfResult(a.X)
			if cc == nil {
				continue
			}
			switch w.calleeName(cc) {
			case "strings.HasPrefix", "strings.HasSuffix":
				if s, ok := constString(cc.Call.Args[1]); ok && val {
					l := newLin()
					l.c[p.lenKey(cc.Call.Args[0])] = 1
					p.ge(l, lin{c: map[string]int64{}, k: int64(len(s))}, "F3 "+w.calleeName(cc)+" true")
					p.prefSuf = append(p.prefSuf, prefSuf{str: p.w.termKey(strip(cc.Call.Args[0])), lit: s, suffix: strings.HasSuffix(w.calleeName(cc), "Suffix")})
				}
			}
		}
	}
	// F6: prefix a and suffix b, different single bytes => len >= 2
	for _, x := range p.prefSuf {
		for _, y := range p.prefSuf {
			if x.str == y.str && !x.suffix && y.suffix && len(x.lit) == 1 && len(y.lit) == 1 && x.lit != y.lit {
				l := newLin()
				l.c["len("+x.str+")"] = 1
				p.ge(l, lin{c: map[string]int64{}, k: 2}, "F6 different one-byte prefix and suffix")
			}
		}
	}
}

type prefSuf struct {
	str, lit string
	suffix   bool
}

// derived integer tightening: from e >= -? and e != value.
func (p *prover) tighten() {
	w := p.w
	// F4: indices of two different single-byte needles in the same string differ when both are found
	var idx []*ssa.Call
	for _, v := range p.atoms {
		if c, ok := v.(*ssa.Call); ok {
			switch w.calleeName(c) {
			case "strings.IndexByte", "strings.Index", "strings.LastIndex":
				idx = append(idx, c)
			default:
				// a finder of the package whose answer, when not -1, is an index at which its string argument holds
				// its needle argument (string first, needle second: the shape of strings.IndexByte)
				if callee := c.Common().StaticCallee(); callee != nil && w.isMain(callee) && len(c.Call.Args) == 2 {
					pi, ok := w.strIndexSummary(callee)
					if ok && pi == 0 && w.strIndexPointsAtNeedle(callee) {
						idx = append(idx, c)
					}
				}
			}
		}
	}
	p.tightenNeq()
	for i := 0; i < len(idx); i++ {
		for j := i + 1; j < len(idx); j++ {
			a, b := idx[i], idx[j]
			if w.termKey(strip(a.Call.Args[0])) != w.termKey(strip(b.Call.Args[0])) {
				continue
			}
			ba, oka := constByte(a.Call.Args[1])
			bb, okb := constByte(b.Call.Args[1])
			if oka && okb && ba != bb {
				// a != b unless one is -1: valid as "a - b != 0" only when both are known >= 0; keep as neq guarded by proofs of non-negativity
				la, lb := p.linOf(a), p.linOf(b)
				if p.prove(la, 2) && p.prove(lb, 2) {
					p.neq = append(p.neq, la.add(lb, -1))
				}
			}
		}
	}
	p.tightenNeq()
}

func (p *prover) tightenNeq() {
	one := lin{c: map[string]int64{}, k: 1}
	for changed, n := true, 0; changed && n < 6; n++ {
		changed = false
		for _, ne := range p.neq {
			// e >= 0 known and e != 0  => e >= 1 ;  -e >= 0 and e != 0 => -e >= 1
			if p.prove(ne, 2) && !p.prove(ne.add(one, -1), 1) {
				p.addFact(ne.add(one, -1), "integer tightening: >= 0 and != 0")
				changed = true
			}
			neg := newLin().add(ne, -1)
			if p.prove(neg, 2) && !p.prove(neg.add(one, -1), 1) {
				p.addFact(neg.add(one, -1), "integer tightening: <= 0 and != 0")
				changed = true
			}
		}
		// conditional facts
		for _, cf := range p.condFacts {
			if p.prove(cf.need, 2) && !p.prove(cf.e, 1) {
				p.addFact(cf.e, cf.why)
				changed = true
			}
		}
	}
}

// prove e >= 0 from the facts with non-negative unit combinations up to depth d.
func (p *prover) prove(e lin, d int) bool {
	if e.isConst() {
		return e.k >= 0
	}
	if d <= 0 {
		return false
	}
	for _, f := range p.facts {
		// does subtracting f make progress? only use facts sharing an atom with opposite need
		share := false
		for a, c := range f.e.c {
			if ec, ok := e.c[a]; ok && (ec > 0) == (c > 0) {
				share = true
			}
		}
		if !share {
			continue
		}
		r := e.add(f.e, -1)
		if len(r.c) > len(e.c) && d < 3 {
			continue
		}
		if p.prove(r, d-1) {
			return true
		}
	}
	return false
}

// contradictory: the fact base proves -1 >= 0.
func (p *prover) contradictory() bool {
	for _, f := range p.facts {
		neg := newLin().add(f.e, -1)
		neg.k -= 1 // -(e) - 1 >= 0  i.e. e <= -1
		if p.prove(neg, 2) {
			return true
		}
	}
	for _, ne := range p.neq {
		if p.prove(ne, 2) && p.prove(newLin().add(ne, -1), 2) {
			return true
		}
	}
	return false
}

// nonNeg: every producer of the integer value is non-negative (coinductive over phis, fields, parameters, results).
func (w *World) nonNeg(v ssa.Value, seen map[ssa.Value]bool, d int) bool {
	v = strip(v)
	if d > 12 {
		return false
	}
	if seen[v] {
		return true // coinduction: assume on cycles
	}
	seen[v] = true
	if k, ok := constInt(v); ok {
		if _, isC := v.(*ssa.Const); isC {
			return k >= 0
		}
	}
	switch x := v.(type) {
	case *ssa.Call:
		if b, ok := x.Call.Value.(*ssa.Builtin); ok {
			return b.Name() == "len" || b.Name() == "cap" || b.Name() == "copy"
		}
		callee := x.Common().StaticCallee()
		if callee != nil && w.isMain(callee) && callee.Signature.Results().Len() == 1 {
			for _, r := range returnsUnder(callee, nil) {
				if !w.nonNeg(r.Results[0], seen, d+1) {
					return false
				}
			}
			return true
		}
		return false
	case *ssa.Extract:
		c, ok := x.Tuple.(*ssa.Call)
		if !ok {
			return false
		}
		callee := c.Common().StaticCallee()
		if callee != nil && w.isMain(callee) {
			for _, r := range returnsUnder(callee, nil) {
				if x.Index >= len(r.Results) || !w.nonNeg(r.Results[x.Index], seen, d+1) {
					return false
				}
			}
			return true
		}
		switch w.calleeName(c) {
		case "(*net.UDPConn).ReadFromUDP", "io.ReadFull", "(net.Conn).Write", "(net.Conn).Read", "fmt.Fprintf":
			return x.Index == 0
		}
		return false
	case *ssa.Phi:
		for _, e := range x.Edges {
			if !w.nonNeg(e, seen, d+1) {
				return false
			}
		}
		return true
	case *ssa.BinOp:
		switch x.Op {
		case token.ADD, token.MUL:
			return w.nonNeg(x.X, seen, d+1) && w.nonNeg(x.Y, seen, d+1)
		case token.REM, token.QUO:
			return w.nonNeg(x.X, seen, d+1) && w.nonNeg(x.Y, seen, d+1)
		}
		return false
	case *ssa.Convert:
		return isIntegerType(x.X.Type()) && w.nonNeg(x.X, seen, d+1)
	case *ssa.UnOp:
		if x.Op != token.MUL {
			return false
		}
		fa, ok := x.X.(*ssa.FieldAddr)
		if !ok {
			return false
		}
		fv := fieldVarOf(fa)
		if fv == nil || fv.Pkg() != w.Main.Pkg {
			return false
		}
		g := w.Flow()
		for _, sv := range g.fieldStores[fv] {
			if !w.nonNeg(sv, seen, d+1) {
				return false
			}
		}
		return true // zero value is 0
	case *ssa.Parameter:
		fn := x.Parent()
		idx := -1
		for i, pp := range fn.Params {
			if pp == x {
				idx = i
			}
		}
		node := w.CG.Nodes[fn]
		if node == nil || len(node.In) == 0 {
			return false
		}
		for _, e := range node.In {
			if e.Site == nil || !w.isMain(e.Caller.Func) {
				return false
			}
			cc := e.Site.Common()
			var a ssa.Value
			if cc.IsInvoke() {
				if idx >= 1 && idx-1 < len(cc.Args) {
					a = cc.Args[idx-1]
				}
			} else if len(cc.Args) == len(fn.Params) {
				a = cc.Args[idx]
			}
			if a == nil || !w.nonNeg(a, seen, d+1) {
				return false
			}
		}
		return true
	}
	return false
}

// summaryFacts: the call's first result is a position helper's result: 0 <= r <= len(recv.field); when the helper
// returns (position, error) with every nil-error return a range index, r < len(recv.field) wherever the call's error
// is known to be nil at the site. The call counts as a read of the field for the kill check.
func (p *prover) summaryFacts(self lin, x *ssa.Call) {
	w := p.w
	callee := x.Common().StaticCallee()
	if callee == nil || !w.isMain(callee) {
		return
	}
	ref, ok := w.posSummary(callee, map[*ssa.Function]bool{})
	searchIdx := false
	if !ok {
		// a search helper: the index of a matching element, or -1
		if ref, ok = w.idxOrMinusOne(callee); !ok {
			return
		}
		searchIdx = true
	}
	recv := callArg(x, -1)
	if recv == nil {
		return
	}
	for _, b := range p.fn.Blocks {
		for _, in := range b.Instrs {
			u, isU := in.(*ssa.UnOp)
			if !isU || u.Op != token.MUL {
				continue
			}
			fa, isFA := u.X.(*ssa.FieldAddr)
			if !isFA || fieldRef(fa) != ref || w.termKey(fa.X) != w.termKey(recv) {
				continue
			}
			key := p.lenKey(u)
			o := newLin()
			o.c[key] = 1
			if searchIdx {
				one := lin{c: map[string]int64{}, k: 1}
				p.addFact(self.add(one, 1), "summary: "+w.fname(callee)+" >= -1")
				p.ge(o.add(one, -1), self, "summary: "+w.fname(callee)+" < len("+ref+")")
			} else {
				p.addFact(self, "summary: "+w.fname(callee)+" >= 0")
				p.ge(o, self, "summary: "+w.fname(callee)+" <= len("+ref+")")
			}
			if p.summaryLoads == nil {
				p.summaryLoads = map[string][]ssa.Instruction{}
			}
			p.summaryLoads[key] = append(p.summaryLoads[key], x)
			if w.posStrictOnNilError(callee, ref) {
				// error of this call known nil at the site?
				isErr := func(a Atom) bool {
					e, isE := a.X.(*ssa.Extract)
					return a.Kind == "nil" && isE && e.Tuple == ssa.Value(x) && e.Index == 1
				}
				if w.requires(p.fn, p.site, isErr, true) {
					p.ge(o.add(lin{c: map[string]int64{}, k: 1}, -1), self, "summary: "+w.fname(callee)+" < len("+ref+") when its error is nil")
				}
			}
			return
		}
	}
}

// posStrictOnNilError: fn returns (int, error); every return whose error may be nil returns a range index over a load
// of recv.field (so the position is a valid index).
func (w *World) posStrictOnNilError(fn *ssa.Function, ref string) bool {
	res := fn.Signature.Results()
	if res.Len() != 2 || res.At(1).Type().String() != "error" {
		return false
	}
	loops := rangeLoops(fn)
	for _, r := range returnsUnder(fn, nil) {
		allErr := allVals(phiLeaves(r.Results[1]), w.isFreshError)
		if allErr {
			continue
		}
		for _, v := range phiLeaves(r.Results[0]) {
			matched := false
			for _, rl := range loops {
				if rl.Idx != nil && strip(rl.Idx) == strip(v) && rl.Body.Dominates(r.Block()) {
					if rf, base := loadedField(rl.Over); rf == ref && isParam(fn, base, 0) {
						matched = true
					}
				}
			}
			if !matched {
				return false
			}
		}
	}
	return true
}

// idxOrMinusOne: fn (one int result, a method) returns on every path either the constant -1 or the current index of a
// range loop over a list field of its receiver, taken inside the loop body; it does not store to that field.
func (w *World) idxOrMinusOne(fn *ssa.Function) (string, bool) {
	if fn.Signature.Recv() == nil || fn.Signature.Results().Len() != 1 || !isIntegerType(fn.Signature.Results().At(0).Type()) {
		return "", false
	}
	ref := ""
	loops := rangeLoops(fn)
	nIdx := 0
	for _, r := range returnsUnder(fn, nil) {
		for _, v := range phiLeaves(r.Results[0]) {
			if k, ok := constInt(v); ok && k == -1 {
				continue
			}
			matched := false
			for _, rl := range loops {
				if rl.Idx != nil && strip(rl.Idx) == strip(v) && rl.Body.Dominates(r.Block()) {
					if rf, base := loadedField(rl.Over); rf != "" && isParam(fn, base, 0) && (ref == "" || ref == rf) {
						ref, matched = rf, true
						nIdx++
					}
				}
			}
			if !matched {
				return "", false
			}
		}
	}
	if ref == "" || nIdx == 0 || len(w.fieldStores(fn, ref)) > 0 {
		return "", false
	}
	return ref, true
}

// posSummary: fn returns a position in [0, len(recv.field)]: every return value is the constant 0, a range index over
// a load of recv.field, or the result of another such function on the same receiver.
var posMemo = map[*ssa.Function]string{}

func (w *World) posSummary(fn *ssa.Function, seen map[*ssa.Function]bool) (string, bool) {
	if r, ok := posMemo[fn]; ok {
		return r, r != ""
	}
	if seen[fn] || fn.Signature.Recv() == nil || fn.Signature.Results().Len() < 1 || !isIntegerType(fn.Signature.Results().At(0).Type()) {
		return "", false
	}
	seen[fn] = true
	r, ok := w.posSummary1(fn, seen)
	if !ok {
		r = ""
	}
	posMemo[fn] = r
	return r, ok
}

func (w *World) posSummary1(fn *ssa.Function, seen map[*ssa.Function]bool) (string, bool) {
	ref := ""
	loops := rangeLoops(fn)
	for _, r := range returnsUnder(fn, nil) {
		for _, v := range phiLeaves(r.Results[0]) {
			if k, ok := constInt(v); ok && k == 0 {
				continue
			}
			matched := false
			for _, rl := range loops {
				if rl.Idx != nil && strip(rl.Idx) == strip(v) {
					if rf, base := loadedField(rl.Over); rf != "" && isParam(fn, base, 0) {
						if ref == "" || ref == rf {
							ref = rf
							matched = true
						}
					}
				}
			}
			if matched {
				continue
			}
			if c, idx := callOfResult(v); c != nil && idx == 0 {
				if callee := c.Common().StaticCallee(); callee != nil && w.isMain(callee) && isParam(fn, callArg(c, -1), 0) {
					if rf, ok := w.posSummary(callee, seen); ok && (ref == "" || ref == rf) {
						ref = rf
						continue
					}
				}
			}
			return "", false
		}
	}
	// the function must not modify the field
	if ref == "" {
		return "", false
	}
	if len(w.fieldStores(fn, ref)) > 0 {
		return "", false
	}
	return ref, true
}

// ---- obligations ----

type obligation struct {
	In   ssa.Instruction
	Kind string
	Need []struct {
		e    lin
		desc string
	}
	Desc string
}

func isVarargsArray(v ssa.Value) bool {
	al, ok := v.(*ssa.Alloc)
	return ok && (al.Comment == "varargs" || al.Comment == "makeslice" || al.Comment == "slicelit" || al.Comment == "complit")
}

// proveSite tries to discharge "0 <= lo <= hi <= bound"-style needs at an instruction; returns undischarged needs.
func (w *World) proveSite(fn *ssa.Function, in ssa.Instruction, build func(p *prover) []need) (bool, []string, []string) {
	try := func(sub map[ssa.Value]ssa.Value) (bool, bool, []string, []string) {
		p := w.newProver(fn, in)
		p.sub = sub
		needs := build(p)
		p.guardFacts()
		p.collectValueFacts()
		p.tighten()
		p.collectValueFacts()
		if sub != nil && p.contradictory() {
			return true, true, nil, nil
		}
		if k := p.killedAtom(); k != "" {
			return false, false, []string{"the field read as " + k + " may be modified between its test and this use: the facts about it do not carry over"}, nil
		}
		var open []string
		for _, n := range needs {
			if !p.prove(n.e, 4) {
				open = append(open, n.desc+"   i.e. "+n.e.String()+" >= 0")
			}
		}
		var have []string
		for _, f := range p.facts {
			have = append(have, f.e.String()+" >= 0   ("+f.why+")")
		}
		sort.Strings(have)
		return len(open) == 0, false, open, have
	}
	ok, _, open, have := try(nil)
	if ok {
		return true, nil, have
	}
	// case split on one phi occurring in the needs
	p0 := w.newProver(fn, in)
	build(p0)
	for _, v := range p0.atoms {
		ph, isPhi := v.(*ssa.Phi)
		if !isPhi {
			continue
		}
		all := true
		for _, e := range ph.Edges {
			okE, _, _, _ := try(map[ssa.Value]ssa.Value{ph: e})
			if !okE {
				all = false
				break
			}
		}
		if all {
			return true, nil, append(have, "case split on "+w.termKey(ph))
		}
	}
	return false, open, have
}

type need struct {
	e    lin
	desc string
}

// writeEffects: field refs a function may store to, transitively.
func (w *World) writeEffects(fn *ssa.Function) map[string]bool {
	if w.effects == nil {
		w.effects = map[*ssa.Function]map[string]bool{}
		for _, f := range w.All {
			m := map[string]bool{}
			for _, st := range storesIn(f) {
				if fa, ok := st.Addr.(*ssa.FieldAddr); ok {
					m[fieldRef(fa)] = true
				}
			}
			w.effects[f] = m
		}
		for changed := true; changed; {
			changed = false
			for _, f := range w.All {
				for _, cs := range w.callsIn(f) {
					if _, isGo := cs.In.(*ssa.Go); isGo {
						continue
					}
					for _, callee := range w.calleesOf(cs.In) {
						for k := range w.effects[callee] {
							if !w.effects[f][k] {
								w.effects[f][k] = true
								changed = true
							}
						}
					}
				}
			}
		}
	}
	return w.effects[fn]
}

// killedAtom: some field-load atom is unified across a possible modification of that field before the site.
func (p *prover) killedAtom() string {
	w := p.w
	for k, v := range p.atoms {
		var ld *ssa.UnOp
		if u, ok := v.(*ssa.UnOp); ok && u.Op == token.MUL {
			ld = u
		}
		if ld == nil {
			continue
		}
		fa, ok := ld.X.(*ssa.FieldAddr)
		if !ok {
			continue
		}
		ref := fieldRef(fa)
		key := w.termKey(ld)
		// all loads with this key
		var loads []ssa.Instruction
		eachInstr(p.fn, func(in ssa.Instruction) {
			if u, ok := in.(*ssa.UnOp); ok && u.Op == token.MUL && w.termKey(u) == key {
				loads = append(loads, in)
			}
		})
		loads = append(loads, p.summaryLoads[k]...)
		if len(loads) < 2 {
			continue
		}
		// killers
		var killers []ssa.Instruction
		eachInstr(p.fn, func(in ssa.Instruction) {
			switch x := in.(type) {
			case *ssa.Store:
				if f2, ok := x.Addr.(*ssa.FieldAddr); ok && fieldRef(f2) == ref {
					killers = append(killers, in)
				}
			case ssa.CallInstruction:
				if _, isGo := in.(*ssa.Go); isGo {
					return
				}
				for _, callee := range w.calleesOf(x) {
					if w.isMain(callee) && w.writeEffects(callee)[ref] {
						killers = append(killers, in)
					}
				}
			}
		})
		for _, kl := range killers {
			if !canReach(at(kl), nil, isInstr(p.site), nil) {
				continue
			}
			for _, l := range loads {
				if canReach(at(l), nil, isInstr(kl), nil) {
					return k
				}
			}
		}
	}
	return ""
}

// pairedCount: field ref (an int) is, in every construction of its struct, result 0 of a read into the value stored
// in a sibling []byte field of the same literal; returns that sibling.
func (w *World) pairedCount(ref string) (string, bool) {
	parts := strings.SplitN(ref, ".", 2)
	if len(parts) != 2 {
		return "", false
	}
	typ := parts[0]
	sib := ""
	n := 0
	for _, fn := range w.All {
		bad := false
		eachInstr(fn, func(in ssa.Instruction) {
			al, ok := in.(*ssa.Alloc)
			if !ok || namedOf(al.Type()) != typ {
				return
			}
			vals := map[string]ssa.Value{}
			for _, r := range *al.Referrers() {
				if fa, ok := r.(*ssa.FieldAddr); ok {
					for _, rr := range *fa.Referrers() {
						if st, ok := rr.(*ssa.Store); ok && st.Addr == ssa.Value(fa) {
							vals[fieldRef(fa)] = st.Val
						}
					}
				}
				if st, ok := r.(*ssa.Store); ok && st.Addr == ssa.Value(al) {
					// whole-struct store (received from a channel / copied): not a construction
					return
				}
			}
			cnt, has := vals[ref]
			if !has {
				if len(vals) > 0 {
					bad = true
				}
				return
			}
			cc, idx := callOfResult(cnt)
			if cc == nil || idx != 0 {
				bad = true
				return
			}
			switch w.calleeName(cc) {
			case "(*net.UDPConn).ReadFromUDP", "(net.Conn).Read", "io.ReadFull":
			default:
				bad = true
				return
			}
			buf := strip(cc.Call.Args[len(cc.Call.Args)-1])
			if w.calleeName(cc) == "(*net.UDPConn).ReadFromUDP" {
				buf = strip(cc.Call.Args[1])
			}
			found := ""
			for r2, v2 := range vals {
				if r2 != ref && strip(v2) == buf {
					found = r2
				}
			}
			if found == "" || (sib != "" && sib != found) {
				bad = true
				return
			}
			sib = found
			n++
		})
		if bad {
			return "", false
		}
	}
	return sib, n > 0 && sib != ""
}

// freshFieldInit: v is a load of field f of an object allocated in fn that is still private to fn at the load (the
// object is only field-addressed and returned; never passed, stored or captured), the function stores to that field
// exactly once, and that store dominates the load: the load observes the stored value, which is returned.
func freshFieldInit(fn *ssa.Function, v ssa.Value) ssa.Value {
	ld, ok := v.(*ssa.UnOp)
	if !ok || ld.Op != token.MUL {
		return nil
	}
	fa, ok := ld.X.(*ssa.FieldAddr)
	if !ok {
		return nil
	}
	al, ok := fa.X.(*ssa.Alloc)
	if !ok || al.Parent() != fn {
		return nil
	}
	var stores []*ssa.Store
	for _, r := range *al.Referrers() {
		switch y := r.(type) {
		case *ssa.FieldAddr:
			if y.Field != fa.Field {
				continue
			}
			for _, rr := range *y.Referrers() {
				switch z := rr.(type) {
				case *ssa.Store:
					if z.Addr == ssa.Value(y) {
						stores = append(stores, z)
					} else {
						return nil
					}
				case *ssa.UnOp:
				case *ssa.DebugRef:
				default:
					return nil // the field's address is handed out
				}
			}
		case *ssa.Return, *ssa.DebugRef:
		default:
			return nil // passed to a call, stored, captured, copied as a whole
		}
	}
	// the store the load must observe: it dominates the load and no other store to the field can follow it
	var st *ssa.Store
	for _, cand := range stores {
		last := true
		for _, o := range stores {
			if o != cand && canReach(at(cand), nil, isInstr(o), nil) {
				last = false
			}
		}
		if last {
			if st != nil {
				return nil
			}
			st = cand
		}
	}
	if st == nil {
		return nil
	}
	if st.Block() == ld.Block() {
		for _, in := range st.Block().Instrs {
			if in == ssa.Instruction(st) {
				return st.Val
			}
			if in == ssa.Instruction(ld) {
				return nil
			}
		}
	}
	if st.Block().Dominates(ld.Block()) {
		return st.Val
	}
	return nil
}

var strIndexMemo = map[*ssa.Function]int{}

// strIndexSummary: fn(.., s string, ..) int answers -1 or an index i of s: every returned value is the constant -1, or
// a non-negative value that was compared `i < len(s)` on the way to the return (the return lies on the true side of
// that test), s being one and the same string parameter, which fn never reassigns (parameters are SSA values).
// Returns the index of that parameter.
func (w *World) strIndexSummary(fn *ssa.Function) (int, bool) {
	if r, ok := strIndexMemo[fn]; ok {
		return r, r >= 0
	}
	strIndexMemo[fn] = -1
	if fn.Blocks == nil || fn.Signature.Results().Len() != 1 || !isIntegerType(fn.Signature.Results().At(0).Type()) {
		return -1, false
	}
	param := -1
	nIdx := 0
	for _, r := range returnsUnder(fn, nil) {
		// the returned value itself when it is one that was compared (a loop counter is a phi: not taken apart), else the
		// values it joins
		var cands []ssa.Value
		var collect func(v ssa.Value, d int)
		collect = func(v ssa.Value, d int) {
			v = strip(v)
			compared := false
			for _, b := range fn.Blocks {
				if len(b.Instrs) == 0 {
					continue
				}
				if ifi, ok := b.Instrs[len(b.Instrs)-1].(*ssa.If); ok {
					if cmp, ok := ifi.Cond.(*ssa.BinOp); ok && cmp.Op == token.LSS && strip(cmp.X) == v {
						compared = true
					}
				}
			}
			if ph, isPhi := v.(*ssa.Phi); isPhi && !compared && d < 4 {
				for _, e := range ph.Edges {
					collect(e, d+1)
				}
				return
			}
			cands = append(cands, v)
		}
		collect(r.Results[0], 0)
		for _, v := range cands {
			if k, ok := constInt(v); ok && k == -1 {
				continue
			}
			if !w.nonNeg(v, map[ssa.Value]bool{}, 0) {
				return -1, false
			}
			found := false
			for _, b := range fn.Blocks {
				if len(b.Instrs) == 0 || len(b.Succs) != 2 {
					continue
				}
				ifi, ok := b.Instrs[len(b.Instrs)-1].(*ssa.If)
				if !ok {
					continue
				}
				cmp, ok := ifi.Cond.(*ssa.BinOp)
				if !ok || cmp.Op != token.LSS || strip(cmp.X) != strip(v) {
					continue
				}
				over, isLen := lenOf(cmp.Y)
				if !isLen || !isStringType(over.Type()) {
					continue
				}
				pi := -1
				for i, pr := range fn.Params {
					if strip(over) == ssa.Value(pr) {
						pi = i
					}
				}
				if pi < 0 || (param >= 0 && param != pi) {
					continue
				}
				if b.Succs[0] != b.Succs[1] && len(b.Succs[0].Preds) == 1 && b.Succs[0].Dominates(r.Block()) {
					param, found = pi, true
				}
			}
			if !found {
				return -1, false
			}
			nIdx++
		}
	}
	if param < 0 || nIdx == 0 {
		return -1, false
	}
	strIndexMemo[fn] = param
	return param, true
}

// strIndexPointsAtNeedle: fn(s string, c byte) int returns, when not -1, an index i with s[i] == c: every return of a
// non-constant value lies on the true side of a test `s[i] == c` of that very value, s and c being the two parameters.
func (w *World) strIndexPointsAtNeedle(fn *ssa.Function) bool {
	if len(fn.Params) != 2 {
		return false
	}
	n := 0
	for _, r := range returnsUnder(fn, nil) {
		v := strip(r.Results[0])
		if k, ok := constInt(v); ok && k == -1 {
			continue
		}
		found := false
		for _, b := range fn.Blocks {
			if len(b.Instrs) == 0 || len(b.Succs) != 2 || b.Succs[0] == b.Succs[1] {
				continue
			}
			ifi, ok := b.Instrs[len(b.Instrs)-1].(*ssa.If)
			if !ok {
				continue
			}
			cmp, ok := ifi.Cond.(*ssa.BinOp)
			if !ok || cmp.Op != token.EQL {
				continue
			}
			var lx, li ssa.Value
			switch e := strip(cmp.X).(type) {
			case *ssa.Lookup:
				lx, li = e.X, e.Index
			case *ssa.Index:
				lx, li = e.X, e.Index
			default:
				continue
			}
			if strip(lx) != ssa.Value(fn.Params[0]) || strip(li) != v || strip(cmp.Y) != ssa.Value(fn.Params[1]) {
				continue
			}
			if len(b.Succs[0].Preds) == 1 && b.Succs[0].Dominates(r.Block()) {
				found = true
			}
		}
		if !found {
			return false
		}
		n++
	}
	return n > 0
}
