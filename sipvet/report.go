package main

import (
	"bufio"
	"encoding/json"
	"fmt"
	"os"
	"path/filepath"
	"sort"
	"strings"
)

// Obligation statuses.
const (
	stOK        = "discharged"
	stViolated  = "violated"
	stUndecided = "undecided"
	stAssumed   = "assumed"
	stInfo      = "info"
)

type Obl struct {
	Property  string   `json:"property"`
	Rule      string   `json:"rule"`
	Key       string   `json:"construct"`
	Pos       string   `json:"pos"`
	Status    string   `json:"status"`
	Detail    string   `json:"detail,omitempty"`
	Facts     []string `json:"facts,omitempty"`
	Nontriv   bool     `json:"-"`
	KnownOpen bool     `json:"known_finding,omitempty"`
}

// Ctx collects the obligations of one property run.
type Ctx struct {
	w         *World
	Prop      string
	Tier      string
	Obls      []Obl
	Instances map[string]int // rule -> instances matched
	Floors    map[string]int // rule -> minimal instance count
	Fns       map[string]bool
	Sites     int
	Assumes   []string
	Notes     []string
}

func newCtx(w *World, prop, tier string) *Ctx {
	return &Ctx{w: w, Prop: prop, Tier: tier, Instances: map[string]int{}, Floors: map[string]int{}, Fns: map[string]bool{}}
}

func (c *Ctx) add(rule, key, pos, status, detail string, nontriv bool, facts ...string) {
	c.Obls = append(c.Obls, Obl{Property: c.Prop, Rule: rule, Key: key, Pos: pos, Status: status, Detail: detail, Facts: facts, Nontriv: nontriv})
	c.Instances[rule]++
}

// ok records a discharged obligation whose discharge used at least one guard/flow/lock fact.
func (c *Ctx) ok(rule, key, pos, detail string, facts ...string) {
	c.add(rule, key, pos, stOK, detail, true, facts...)
}

// okTrivial records a discharged obligation that needed no fact (presence checks).
func (c *Ctx) okTrivial(rule, key, pos, detail string) { c.add(rule, key, pos, stOK, detail, false) }

func (c *Ctx) bad(rule, key, pos, detail string, facts ...string) {
	c.add(rule, key, pos, stViolated, detail, true, facts...)
}

func (c *Ctx) undecided(rule, key, pos, detail string, facts ...string) {
	c.add(rule, key, pos, stUndecided, detail, true, facts...)
}

func (c *Ctx) assume(rule, key, pos, reason string) {
	c.add(rule, key, pos, stAssumed, reason, false)
	c.Assumes = append(c.Assumes, fmt.Sprintf("%s:%s — %s", rule, key, reason))
}

func (c *Ctx) info(rule, key, pos, detail string) {
	c.Obls = append(c.Obls, Obl{Property: c.Prop, Rule: rule, Key: key, Pos: pos, Status: stInfo, Detail: detail})
}

// check is a convenience: cond true -> ok, false -> bad.
func (c *Ctx) check(cond bool, rule, key, pos, okDetail, badDetail string, facts ...string) bool {
	if cond {
		c.ok(rule, key, pos, okDetail, facts...)
	} else {
		c.bad(rule, key, pos, badDetail, facts...)
	}
	return cond
}

func (c *Ctx) floor(rule string, n int) { c.Floors[rule] = n }

// fn resolves an anchor function; a missing anchor is an undecided obligation (fail closed).
func (c *Ctx) fn(rule, name string) *ssaFn {
	f := c.w.Fn(name)
	if f == nil {
		c.undecided(rule, "anchor:"+name, "-", "anchor function "+name+" not found in the package (renamed or removed): rule cannot be evaluated")
		return nil
	}
	c.Fns[name] = true
	return f
}

// ---- known findings ----

type known struct {
	Kind string // "finding" | "fixed"
	Prop string
	Key  string // rule:construct  (finding only)
	Text string
}

func loadKnown(path string) ([]known, error) {
	f, err := os.Open(path)
	if err != nil {
		if os.IsNotExist(err) {
			return nil, nil
		}
		return nil, err
	}
	defer f.Close()
	var out []known
	sc := bufio.NewScanner(f)
	sc.Buffer(make([]byte, 1<<20), 1<<20)
	for sc.Scan() {
		line := strings.TrimSpace(sc.Text())
		if line == "" || strings.HasPrefix(line, "#") {
			continue
		}
		var k known
		switch {
		case strings.HasPrefix(line, "finding:"):
			k.Kind = "finding"
			line = strings.TrimSpace(strings.TrimPrefix(line, "finding:"))
		case strings.HasPrefix(line, "fixed:"):
			k.Kind = "fixed"
			line = strings.TrimSpace(strings.TrimPrefix(line, "fixed:"))
		default:
			continue
		}
		fields := strings.Fields(line)
		rest := []string{}
		for _, fld := range fields {
			switch {
			case strings.HasPrefix(fld, "property=") && k.Prop == "":
				k.Prop = strings.TrimPrefix(fld, "property=")
			case strings.HasPrefix(fld, "key=") && k.Key == "" && k.Kind == "finding":
				k.Key = strings.TrimPrefix(fld, "key=")
			default:
				rest = append(rest, fld)
			}
		}
		k.Text = strings.Join(rest, " ")
		out = append(out, k)
	}
	return out, sc.Err()
}

// ---- evidence ----

type evidence struct {
	PropertyID  string                 `json:"property_id"`
	Tier        string                 `json:"tier"`
	Seed        int                    `json:"seed"`
	Level       string                 `json:"level"`
	Coverage    map[string]interface{} `json:"coverage"`
	Assumptions []string               `json:"assumptions"`
	WallS       float64                `json:"wall_s"`
	Violations  int                    `json:"violations"`
}

// finish applies floors and known findings, writes evidence and replay files, prints the
// verdict lines and returns the exit code.
func (c *Ctx) finish(verifDir string, seed int, wall float64, explanation string, notDecided string, trusted []string) int {
	// floors: a rule that matched fewer instances than confirmed by hand is undecided
	for _, rule := range sortedKeys(c.Floors) {
		if c.Instances[rule] < c.Floors[rule] {
			c.undecided(rule, "floor", "-", fmt.Sprintf("rule matched %d instances, floor is %d: the rule would pass vacuously", c.Instances[rule], c.Floors[rule]))
		}
	}
	kn, err := loadKnown(filepath.Join(verifDir, "KNOWN_FINDINGS.txt"))
	if err != nil {
		c.undecided("known-findings", "file", "-", "cannot read KNOWN_FINDINGS.txt: "+err.Error())
	}
	openKeys := map[string]string{}
	for _, k := range kn {
		if k.Kind == "finding" && k.Prop == c.Prop {
			openKeys[k.Key] = k.Text
		}
	}
	evDir := filepath.Join(verifDir, "evidence")
	repDir := filepath.Join(evDir, "replay")
	os.MkdirAll(repDir, 0o755)
	// remove stale replay files of this property
	if old, _ := filepath.Glob(filepath.Join(repDir, c.Prop+"-*.json")); old != nil {
		for _, o := range old {
			os.Remove(o)
		}
	}
	nOK, nAss, nViol, nUnd, nKnown, nontriv := 0, 0, 0, 0, 0, 0
	distinct := map[string]bool{}
	var lines []string
	k := 0
	usedKnown := map[string]bool{}
	for i := range c.Obls {
		o := &c.Obls[i]
		switch o.Status {
		case stOK:
			nOK++
			if o.Nontriv && !distinct[o.Rule+":"+o.Key] {
				distinct[o.Rule+":"+o.Key] = true
				nontriv++
			}
		case stAssumed:
			nAss++
		case stViolated, stUndecided:
			id := o.Rule + ":" + o.Key
			if txt, ok := openKeys[id]; ok && o.Status == stViolated {
				o.KnownOpen = true
				nKnown++
				if !usedKnown[id] {
					usedKnown[id] = true
					lines = append(lines, fmt.Sprintf("KNOWN-FINDING: property=%s %s [%s at %s]", c.Prop, txt, id, o.Pos))
				}
				continue
			}
			if o.Status == stViolated {
				nViol++
			} else {
				nUnd++
			}
			k++
			rp := filepath.Join(repDir, fmt.Sprintf("%s-%d.json", c.Prop, k))
			b, _ := json.MarshalIndent(map[string]interface{}{
				"property": c.Prop, "rule": o.Rule, "construct": o.Key, "pos": o.Pos,
				"kind": o.Status, "detail": o.Detail, "facts": o.Facts, "repo": c.w.Dir,
			}, "", " ")
			os.WriteFile(rp, b, 0o644)
			lines = append(lines, fmt.Sprintf("VIOLATION property=%s replay=%s", c.Prop, rp))
			lines = append(lines, fmt.Sprintf("  rule    %s  [%s]", o.Rule, o.Status))
			lines = append(lines, fmt.Sprintf("  where   %s  %s", o.Pos, o.Key))
			lines = append(lines, fmt.Sprintf("  what    %s", o.Detail))
			for _, f := range o.Facts {
				lines = append(lines, fmt.Sprintf("  fact    %s", f))
			}
		}
	}
	// samples: every violated/undecided obligation, plus up to 40 discharged ones spread over rules
	var samples []interface{}
	perRule := map[string]int{}
	for _, o := range c.Obls {
		if o.Status == stViolated || o.Status == stUndecided || o.Status == stAssumed {
			samples = append(samples, o)
		}
	}
	for _, o := range c.Obls {
		if o.Status == stOK && perRule[o.Rule] < 4 && len(samples) < 80 {
			perRule[o.Rule]++
			samples = append(samples, o)
		}
	}
	rules := map[string]interface{}{}
	for _, r := range sortedKeys(c.Instances) {
		rules[r] = map[string]int{"instances": c.Instances[r], "floor": c.Floors[r]}
	}
	fns := sortedKeys(c.Fns)
	total := nOK + nAss + nViol + nUnd + nKnown
	cov := map[string]interface{}{
		"explanation":         explanation,
		"not_decided":         notDecided,
		"obligations":         total,
		"discharged":          nOK,
		"assumed":             nAss,
		"violated":            nViol,
		"undecided":           nUnd,
		"known_findings":      nKnown,
		"evaluations":         total,
		"distinct_nontrivial": nontriv,
		"rule":                "one obligation per (rule, resolved construct) over the finite site population of /repo's current source; non-trivial = discharged using at least one guard, flow edge, lock or arithmetic fact; distinct = distinct (rule, construct) keys",
		"samples":             samples,
		"exhaustive":          true,
		"rule_instances":      rules,
		"functions_analysed":  fns,
		"package_functions":   len(c.w.All),
		"source_files":        c.w.Files,
		"checker_cmd":         fmt.Sprintf("/verif/check %s %s", c.Prop, c.Tier),
		"trusted_base":        trusted,
		"notes":               c.Notes,
		"inlined_helpers":     append([]string{}, c.w.Inlined...),
		"inliner_gave_up":     c.w.InlineFailure,
		"renamed_functions":   append([]string{}, c.w.Renamed...),
	}
	ev := evidence{PropertyID: c.Prop, Tier: c.Tier, Seed: seed, Level: "other", Coverage: cov,
		Assumptions: append([]string{}, c.Assumes...), WallS: wall, Violations: nViol + nUnd}
	ev.Assumptions = append(ev.Assumptions, trusted...)
	if len(c.w.Excluded) > 0 {
		ev.Assumptions = append(ev.Assumptions, "the default build configuration (the one the test suite and the binary use) is the one analysed; excluded by build constraints and not analysed: "+strings.Join(c.w.Excluded, ", "))
		fmt.Printf("%s note: files outside the default build configuration were not analysed: %s\n", c.Prop, strings.Join(c.w.Excluded, ", "))
	}
	b, _ := json.MarshalIndent(ev, "", " ")
	if err := os.WriteFile(filepath.Join(evDir, c.Prop+".json"), b, 0o644); err != nil {
		fmt.Printf("VIOLATION property=%s replay=%s\n  what cannot write evidence: %v\n", c.Prop, "-", err)
		return 1
	}
	if c.w.InlineFailure != "" {
		fmt.Printf("%s note: the helper inliner gave up (%s): the program was analysed as written\n", c.Prop, c.w.InlineFailure)
	}
	if len(c.w.Inlined) > 0 {
		fmt.Printf("%s note: %d helper(s) that are not part of the pinned tree and have a single call site were analysed inlined into their callers: %s\n", c.Prop, len(c.w.Inlined), strings.Join(c.w.Inlined, "; "))
	}
	if len(c.w.Renamed) > 0 {
		fmt.Printf("%s note: %d function(s)/field(s) of the pinned tree were recognised under a new name (functions: same receiver and signature; fields: same struct layout and type) and analysed under the old one: %s\n", c.Prop, len(c.w.Renamed), strings.Join(c.w.Renamed, "; "))
	}
	fmt.Printf("%s %s: %d obligations (%d discharged, %d assumed, %d known findings, %d violated, %d undecided) over %d functions, %d rules, %.1fs\n",
		c.Prop, c.Tier, total, nOK, nAss, nKnown, nViol, nUnd, len(fns), len(c.Instances), wall)
	if os.Getenv("SIPVET_VERBOSE") != "" {
		for _, o := range c.Obls {
			fmt.Printf("  [%s] %s:%s @%s  %s\n", o.Status, o.Rule, o.Key, o.Pos, o.Detail)
		}
	}
	sort.SliceStable(lines, func(i, j int) bool { return false })
	for _, l := range lines {
		fmt.Println(l)
	}
	if nViol+nUnd > 0 {
		return 1
	}
	return 0
}
