package main

import (
	"fmt"
	"go/token"
	"go/types"
	"sort"
	"strings"

	"golang.org/x/tools/go/ssa"
)

// ---------- range loops ----------

type rangeLoop struct {
	Fn     *ssa.Function
	Header *ssa.BasicBlock // rangeindex.loop / rangeiter.loop
	Body   *ssa.BasicBlock
	Done   *ssa.BasicBlock
	Over   ssa.Value // the slice/map/string value ranged over
	Idx    ssa.Value // index value used in the body (slices)
	IsMap  bool
	Next   *ssa.Next
	If     *ssa.If
	// Counting: a `for i := 0; i < len(x.f); i++` loop; any load of the same field of the same object is the list
	Counting bool
	Start    int64 // first index of a counting loop (0 for the loops rangeLoops returns)
	stable   int   // 0 unknown, 1 the walked list field is not stored to inside the loop, -1 it is
}

// sameList: x is the list the loop walks.
func (rl *rangeLoop) sameList(x ssa.Value) bool {
	if x == rl.Over {
		return true
	}
	// another load of the list field the loop walks, on the same object, while the loop does not replace the field
	r1, b1 := loadedField(x)
	r2, b2 := loadedField(rl.Over)
	if r1 == "" || r1 != r2 || strip(b1) != strip(b2) || rl.IsMap {
		return false
	}
	if rl.stable == 0 {
		rl.stable = 1
		eachInstr(rl.Fn, func(in ssa.Instruction) {
			if st, ok := in.(*ssa.Store); ok && rl.inLoop(st.Block()) {
				if fa, ok := st.Addr.(*ssa.FieldAddr); ok && fieldRef(fa) == r2 {
					rl.stable = -1
				}
			}
		})
	}
	return rl.stable == 1
}

// rangeLoops recognises go/ssa's lowering of `for ... := range X`.
func rangeLoops(fn *ssa.Function) []*rangeLoop {
	var out []*rangeLoop
	for _, b := range fn.Blocks {
		if len(b.Instrs) == 0 {
			continue
		}
		ifi, ok := b.Instrs[len(b.Instrs)-1].(*ssa.If)
		if !ok {
			continue
		}
		switch b.Comment {
		case "rangeindex.loop":
			cmp, ok := ifi.Cond.(*ssa.BinOp)
			if !ok || cmp.Op != token.LSS {
				continue
			}
			rl := &rangeLoop{Fn: fn, Header: b, Body: b.Succs[0], Done: b.Succs[1], Idx: cmp.X, If: ifi}
			if x, ok := lenOf(cmp.Y); ok {
				rl.Over = x
			}
			out = append(out, rl)
		case "rangeiter.loop":
			// t = next(range X); ok = extract t #0; if ok
			var nx *ssa.Next
			for _, in := range b.Instrs {
				if n, ok := in.(*ssa.Next); ok {
					nx = n
				}
			}
			if nx == nil {
				continue
			}
			rl := &rangeLoop{Fn: fn, Header: b, Body: b.Succs[0], Done: b.Succs[1], Next: nx, If: ifi}
			if rg, ok := nx.Iter.(*ssa.Range); ok {
				rl.Over = rg.X
				_, rl.IsMap = rg.X.Type().Underlying().(*types.Map)
			}
			out = append(out, rl)
		}
	}
	return append(out, countingLoops(fn, false)...)
}

// countingLoops recognises `for i := 0; i < len(X); i++` (also `i < n` with n := len(X)): the spelling of a forward
// range loop with an explicit index. Over is the measured list; when it is a load of a list field, any load of the
// same field of the same object is the list (sameList), provided the loop does not store to that field.
func countingLoops(fn *ssa.Function, anyStart bool) []*rangeLoop {
	var out []*rangeLoop
	for _, b := range fn.Blocks {
		if b.Comment != "for.loop" || len(b.Instrs) == 0 {
			continue
		}
		ifi, ok := b.Instrs[len(b.Instrs)-1].(*ssa.If)
		if !ok {
			continue
		}
		cmp, ok := ifi.Cond.(*ssa.BinOp)
		if !ok || cmp.Op != token.LSS {
			continue
		}
		ph, ok := cmp.X.(*ssa.Phi)
		if !ok || len(ph.Edges) != 2 || ph.Block() != b {
			continue
		}
		zero, step := false, false
		var start int64
		for _, e := range ph.Edges {
			if k, isK := constInt(e); isK && (k == 0 || anyStart && k > 0) {
				zero = true
				start = k
			} else if isPlusOne(e, ph) {
				step = true
			}
		}
		over, isLen := lenOf(cmp.Y)
		if !zero || !step || !isLen {
			continue
		}
		rl := &rangeLoop{Fn: fn, Header: b, Body: b.Succs[0], Done: b.Succs[1], Idx: ph, Over: over, If: ifi, Counting: true, Start: start}
		if ref, _ := loadedField(over); ref != "" {
			replaced := false
			eachInstr(fn, func(in ssa.Instruction) {
				if st, ok := in.(*ssa.Store); ok && rl.inLoop(st.Block()) {
					if fa, ok := st.Addr.(*ssa.FieldAddr); ok && fieldRef(fa) == ref {
						replaced = true
					}
				}
			})
			if replaced {
				continue
			}
		}
		// the index is not assigned inside the body other than by the post statement (phi has exactly the two edges)
		out = append(out, rl)
	}
	return out
}

// inLoop reports whether block b belongs to the natural loop of rl (dominated by the header and able to reach it).
func (rl *rangeLoop) inLoop(b *ssa.BasicBlock) bool {
	if b == rl.Header {
		return true
	}
	if !rl.Header.Dominates(b) {
		return false
	}
	if rl.Done.Dominates(b) {
		return false
	}
	// can b reach the header?
	seen := map[*ssa.BasicBlock]bool{}
	work := []*ssa.BasicBlock{b}
	for len(work) > 0 {
		x := work[len(work)-1]
		work = work[:len(work)-1]
		for _, s := range x.Succs {
			if s == rl.Header {
				return true
			}
			if !seen[s] && rl.Header.Dominates(s) {
				seen[s] = true
				work = append(work, s)
			}
		}
	}
	return false
}

// elem reports whether v is the current element of a slice range loop: *(&Over[Idx]).
func (rl *rangeLoop) isElem(v ssa.Value) bool {
	v = strip(v)
	if a, ok := isDeref(v); ok {
		if ia, ok := a.(*ssa.IndexAddr); ok {
			return rl.sameList(ia.X) && ia.Index == rl.Idx
		}
	}
	if ix, ok := v.(*ssa.Index); ok {
		return rl.sameList(ix.X) && ix.Index == rl.Idx
	}
	return false
}

// inExitRegion: b is reached by leaving the loop early (dominated by the header, outside the loop, not after Done).
func (rl *rangeLoop) inExitRegion(b *ssa.BasicBlock) bool {
	return rl.Header.Dominates(b) && b != rl.Header && !rl.inLoop(b) && !rl.Done.Dominates(b)
}

// exits lists the CFG edges (from-block) leaving the loop other than header->Done.
func (rl *rangeLoop) earlyExits() []*ssa.BasicBlock {
	var out []*ssa.BasicBlock
	for _, b := range rl.Fn.Blocks {
		if !rl.inLoop(b) {
			continue
		}
		for _, s := range b.Succs {
			if !rl.inLoop(s) && !(b == rl.Header && s == rl.Done) {
				out = append(out, b)
			}
		}
		if len(b.Succs) == 0 && b != rl.Header {
			out = append(out, b) // return/panic inside the loop
		}
	}
	return out
}

// ---------- shared rule: no message data as a format string ----------

func isFmtPrintf(name string) bool {
	switch name {
	case "fmt.Sprintf", "fmt.Fprintf", "fmt.Printf", "fmt.Errorf", "fmt.Fscanf", "fmt.Sscanf":
		return true
	}
	return false
}

// ruleFormatTaint: every fmt format operand in the package is a constant, or at least not network-derived.
func ruleFormatTaint(c *Ctx, rule string) {
	w := c.w
	g := w.Flow()
	nCalls, nNonConst := 0, 0
	for _, fn := range w.All {
		perFn := map[string]int{}
		for _, cs := range w.callsIn(fn) {
			if !isFmtPrintf(cs.Name) {
				continue
			}
			format, _, ok := w.fmtArgs(cs.In)
			if !ok {
				continue
			}
			nCalls++
			if _, isC := constString(format); isC {
				continue
			}
			nNonConst++
			perFn[cs.Name]++
			key := fmt.Sprintf("%s/%s#%d", w.fname(fn), cs.Name, perFn[cs.Name])
			c.Fns[w.fname(fn)] = true
			if tainted, wit := g.netTainted(format); tainted {
				c.bad(rule, key, w.ipos(cs.In), "the format operand "+w.termKey(format)+" is message data: a '%' in it is interpreted as a verb and the relayed text is rewritten (e.g. tag=%41x -> tag=%!x(MISSING))", "taint source: "+wit)
			} else {
				c.ok(rule, key, w.ipos(cs.In), "non-constant format operand does not derive from network input", "operand "+w.termKey(format))
			}
		}
	}
	c.Sites += nCalls
	c.ok(rule, "package/fmt-calls", "-", fmt.Sprintf("%d fmt format call sites inspected, %d with a non-constant format operand", nCalls, nNonConst))
	if nCalls < 60 {
		c.undecided(rule, "floor", "-", fmt.Sprintf("only %d fmt call sites found (expected >= 60): the rule would pass vacuously", nCalls))
	}
	// positive control: the detector must recognise a tainted flow on a known tainted value (Header.value printed with %v is an argument, not a format)
	if fv := w.field("Header", "value"); fv != nil {
		vals := g.fieldStores[fv]
		found := false
		for _, v := range vals {
			if t, _ := g.netTainted(v); t {
				found = true
			}
		}
		if !found {
			c.undecided(rule, "positive-control", "-", "taint engine does not see Header.value as network-derived: sources are not recognised, the rule cannot be trusted")
		} else {
			c.okTrivial(rule, "positive-control", "-", "taint engine recognises Header.value as network-derived")
		}
	}
}

// ---------- shared rule: header-name comparisons only inside the comparator ----------

const comparatorFn = "(*Message).isSameHeader"

// derivesFromHeaderName: the backward closure of v contains the field Header.name.
func derivesFromHeaderName(w *World, v ssa.Value) bool {
	fv := w.field("Header", "name")
	if fv == nil {
		return false
	}
	if _, isC := strip(v).(*ssa.Const); isC {
		return false
	}
	r := w.Flow().backward([]ssa.Value{v}, nil)
	return r.Nodes[fv]
}

func isStringType(t types.Type) bool {
	b, ok := t.Underlying().(*types.Basic)
	return ok && b.Info()&types.IsString != 0
}

var stringCompareCalls = map[string]bool{
	"strings.EqualFold": true, "strings.Compare": true, "strings.HasPrefix": true, "strings.HasSuffix": true,
	"strings.Contains": true, "strings.Index": true, "bytes.Equal": true, "strings.ContainsAny": true,
	"regexp.MatchString": true, "(*regexp.Regexp).MatchString": true, "slices.Contains[[]string string]": true,
}

// ruleComparatorDiscipline: every comparison (==, !=, <, EqualFold, map lookup, ...) with an operand that
// derives from Header.name happens inside the comparator. Returns the number of comparator call sites.
func ruleComparatorDiscipline(c *Ctx, rule string) {
	w := c.w
	cmp := c.fn(rule, comparatorFn)
	if cmp == nil {
		return
	}
	inside := map[*ssa.Function]bool{cmp: true}
	nCmpCalls, nDirect := 0, 0
	for _, fn := range w.All {
		if inside[fn] {
			continue
		}
		k := 0
		report := func(in ssa.Instruction, what string, v ssa.Value) {
			k++
			nDirect++
			c.Fns[w.fname(fn)] = true
			c.bad(rule, fmt.Sprintf("%s/direct-compare#%d", w.fname(fn), k), w.ipos(in), what+" on a value derived from Header.name ("+w.termKey(v)+") outside the comparator: other spellings (letter case, compact form) of the same header are treated differently")
		}
		eachInstr(fn, func(in ssa.Instruction) {
			switch x := in.(type) {
			case *ssa.BinOp:
				switch x.Op {
				case token.EQL, token.NEQ, token.LSS, token.GTR, token.LEQ, token.GEQ:
					if !isStringType(x.X.Type()) {
						return
					}
					for _, o := range []ssa.Value{x.X, x.Y} {
						if derivesFromHeaderName(w, o) {
							report(in, "string comparison "+x.Op.String(), o)
							return
						}
					}
				}
			case *ssa.Lookup:
				if isStringType(x.Index.Type()) && derivesFromHeaderName(w, x.Index) {
					report(in, "map lookup", x.Index)
				}
			case *ssa.Call:
				n := w.calleeName(x)
				if n == comparatorFn {
					nCmpCalls++
					c.Fns[w.fname(fn)] = true
					// one operand must be the stored name, the other the queried name
					a0, a1 := callArg(x, 0), callArg(x, 1)
					d0, d1 := derivesFromHeaderName(w, a0), derivesFromHeaderName(w, a1)
					c.check(d0 || d1, rule, fmt.Sprintf("%s/comparator-call@%s", w.fname(fn), w.termKey(a1)), w.ipos(in), "header name compared through the comparator", "comparator call does not involve a stored header name")
					return
				}
				if stringCompareCalls[n] {
					for _, o := range x.Call.Args {
						if isStringType(o.Type()) && derivesFromHeaderName(w, o) {
							report(in, "call "+n, o)
							return
						}
					}
				}
			}
		})
	}
	c.info(rule, "population", "-", fmt.Sprintf("%d comparator calls, %d direct comparisons", nCmpCalls, nDirect))
	if nCmpCalls < 3 {
		c.undecided(rule, "floor", "-", fmt.Sprintf("only %d comparator call sites (expected >= 3): lookups by name bypass the comparator", nCmpCalls))
	}
}

// headerNameConsts returns the constant header names that reach the comparator.
func headerNameConsts(w *World) []string {
	cmp := w.Fn(comparatorFn)
	if cmp == nil {
		return nil
	}
	g := w.Flow()
	set := map[string]bool{}
	for _, p := range cmp.Params[1:] {
		r := g.backward([]ssa.Value{p}, func(n fnode) bool {
			fv, ok := n.(*types.Var)
			return ok && fv.Name() == "name" && fv.IsField()
		})
		for l := range r.Leaves {
			if strings.HasPrefix(l[1:], "const:\"") {
				s := strings.TrimPrefix(l[1:], "const:")
				s = strings.Trim(s, "\"")
				set[s] = true
			}
		}
	}
	return sortedKeys(set)
}

// ---------- shared rule: closures created in a loop do not capture a variable shared by the iterations ----------

type loopCapture struct {
	Fn   *ssa.Function
	MC   *ssa.MakeClosure
	Name string
}

// onCycle reports whether block a can reach block b and b can reach a (same loop nest), a != b allowed equal.
func sameCycle(a, b *ssa.BasicBlock) bool {
	reach := func(from, to *ssa.BasicBlock) bool {
		seen := map[*ssa.BasicBlock]bool{}
		work := append([]*ssa.BasicBlock{}, from.Succs...)
		for len(work) > 0 {
			x := work[len(work)-1]
			work = work[:len(work)-1]
			if x == to {
				return true
			}
			if seen[x] {
				continue
			}
			seen[x] = true
			work = append(work, x.Succs...)
		}
		return false
	}
	return reach(a, b) && reach(b, a)
}

// escapesIteration: the closure value outlives the statement that creates it: stored, sent, started as a goroutine,
// deferred, put into a composite, returned, or handed to a function of the package (library callees that take a
// function value run it before returning: sort.Slice, strings.Map, ...).
func (w *World) escapesIteration(mc *ssa.MakeClosure) bool {
	for _, r := range *mc.Referrers() {
		switch x := r.(type) {
		case *ssa.Store, *ssa.Send, *ssa.MakeInterface, *ssa.Return, *ssa.Phi, *ssa.Go, *ssa.Defer, *ssa.ChangeType:
			return true
		case *ssa.Call:
			if x.Call.Value == ssa.Value(mc) {
				continue // called on the spot
			}
			callee := x.Common().StaticCallee()
			if callee == nil || w.isMain(callee) {
				return true
			}
		}
	}
	return false
}

// loopCaptures lists the closures created on a CFG cycle that escape the iteration and capture by reference a
// variable allocated outside that cycle and assigned on it; also returns the number of closures inspected.
func loopCaptures(w *World) ([]loopCapture, int) {
	var out []loopCapture
	n := 0
	for _, fn := range w.All {
		eachInstr(fn, func(in ssa.Instruction) {
			mc, ok := in.(*ssa.MakeClosure)
			if !ok || !sameCycle(mc.Block(), mc.Block()) {
				return
			}
			n++
			if !w.escapesIteration(mc) {
				return
			}
			for bi, bv := range mc.Bindings {
				al, ok := bv.(*ssa.Alloc)
				if !ok || sameCycle(al.Block(), mc.Block()) {
					continue
				}
				for _, r := range *al.Referrers() {
					if st, ok := r.(*ssa.Store); ok && st.Addr == ssa.Value(al) && sameCycle(st.Block(), mc.Block()) {
						name := "?"
						if cl, ok := mc.Fn.(*ssa.Function); ok && bi < len(cl.FreeVars) {
							name = cl.FreeVars[bi].Name()
						}
						out = append(out, loopCapture{fn, mc, name})
						break
					}
				}
			}
		})
	}
	return out, n
}

// ruleNoLoopCapture: the module is built with the per-loop variable semantics of Go before 1.22 (go.mod), so a closure
// created in a loop that outlives its iteration, or a pointer handed to a function that keeps it, must not refer to a
// variable the loop assigns: when it is used later it sees the value of a later (usually the last) iteration. On the
// pinned tree there is no such capture; whatever the closure is for, a new one is reported.
func ruleNoLoopCapture(c *Ctx, rule string, what string) {
	w := c.w
	caps, n := loopCaptures(w)
	for _, lc := range caps {
		c.bad(rule, fmt.Sprintf("%s/loop-capture/%s", w.fname(lc.Fn), lc.Name), w.ipos(lc.MC), "a closure created inside a loop captures variable "+lc.Name+", which is declared outside the loop and assigned in it (go.mod selects the per-loop variable semantics of Go before 1.22): when the closure runs later it sees the value of a later iteration ("+what+")")
	}
	// pointers to loop-carried variables handed to a function of the package that keeps them or lets a closure capture them
	m := 0
	for _, fn := range w.All {
		eachInstr(fn, func(in ssa.Instruction) {
			call, ok := in.(*ssa.Call)
			if !ok || !sameCycle(call.Block(), call.Block()) {
				return
			}
			callee := call.Call.StaticCallee()
			if callee == nil || !w.isMain(callee) || call.Call.IsInvoke() {
				return
			}
			for ai, a := range call.Call.Args {
				al, isAl := a.(*ssa.Alloc)
				if !isAl || sameCycle(al.Block(), call.Block()) || ai >= len(callee.Params) {
					continue
				}
				assigned := false
				for _, r := range *al.Referrers() {
					if st, ok := r.(*ssa.Store); ok && st.Addr == ssa.Value(al) && sameCycle(st.Block(), call.Block()) {
						assigned = true
					}
				}
				if !assigned {
					continue
				}
				m++
				kept := w.keepsParam(callee, ai)
				if !kept {
					// captured by a function literal of the callee that is created there (and may run any time later)
					p := callee.Params[ai]
					if p.Referrers() != nil {
						for _, r := range *p.Referrers() {
							if mc, isMC := r.(*ssa.MakeClosure); isMC {
								for _, b := range mc.Bindings {
									if b == ssa.Value(p) {
										kept = true
									}
								}
							}
							// or spilled into a cell that a closure captures
							if st, isSt := r.(*ssa.Store); isSt && st.Val == ssa.Value(p) {
								if cell, isCell := st.Addr.(*ssa.Alloc); isCell && cell.Referrers() != nil {
									for _, rr := range *cell.Referrers() {
										if _, isMC := rr.(*ssa.MakeClosure); isMC {
											kept = true
										}
									}
								}
							}
						}
					}
				}
				if kept {
					c.bad(rule, fmt.Sprintf("%s/loop-variable-address/%s", w.fname(fn), w.fname(callee)), w.ipos(call), w.fname(fn)+" hands "+w.fname(callee)+" the address of a variable its loop assigns, and "+w.fname(callee)+" keeps it (stores it, or a function literal created there captures it): what is read through it later is the value of a later iteration ("+what+")")
				}
			}
		})
	}
	c.ok(rule, "package/loop-closures", "-", fmt.Sprintf("%d closures created inside loops and %d addresses of loop variables handed to package functions inspected", n, m))
}

// ruleLoopCaptureReaching: no escaping closure created in a loop, from whose body one of the named functions is
// reachable, captures a variable shared by the iterations.
func ruleLoopCaptureReaching(c *Ctx, rule string, what string, targets ...string) {
	w := c.w
	caps, n := loopCaptures(w)
	tset := map[*ssa.Function]bool{}
	for _, t := range targets {
		if f := w.Fn(t); f != nil {
			tset[f] = true
		}
	}
	for _, lc := range caps {
		cl, ok := lc.MC.Fn.(*ssa.Function)
		if !ok {
			continue
		}
		hit := false
		for f := range w.reachableFrom([]*ssa.Function{cl}, false) {
			if tset[f] {
				hit = true
			}
		}
		if hit {
			c.bad(rule, fmt.Sprintf("%s/loop-capture/%s", w.fname(lc.Fn), lc.Name), w.ipos(lc.MC), "a closure created inside a loop captures variable "+lc.Name+", which is declared outside the loop and assigned in it: when the closure runs later it sees the value of a later iteration ("+what+")")
		}
	}
	c.ok(rule, "package/loop-closures", "-", fmt.Sprintf("%d closures created inside loops inspected", n))
}

// ---------- shared helper: who may write into the backing array of a list field ----------

// readOnlyLib: library callees that only read a slice handed to them.
func readOnlyLib(name string) bool {
	for _, p := range []string{"fmt.", "go.uber.org/zap.", "strings.Join", "strings.Contains", "bytes.Equal", "bytes.Index", "bytes.NewBuffer", "bytes.NewReader", "reflect.DeepEqual", "builtin:len", "builtin:cap"} {
		if strings.HasPrefix(name, p) {
			return true
		}
	}
	return false
}

// backingWrites lists the instructions of fn (and, through parameters, of package functions it hands the slice to,
// depth 3) that may write into the backing array of a slice obtained from a load of field ref: an element store, copy
// into it, append to a shortened view of it, or passing it to a library function that is not known to be read-only
// (sort.Slice, sort.Sort, rand.Shuffle, ...).
func (w *World) backingWrites(fn *ssa.Function, ref string) []ssa.Instruction {
	var out []ssa.Instruction
	var roots []ssa.Value
	eachInstr(fn, func(in ssa.Instruction) {
		if u, ok := in.(*ssa.UnOp); ok && u.Op == token.MUL {
			if fa, ok := u.X.(*ssa.FieldAddr); ok && fieldRef(fa) == ref {
				roots = append(roots, u)
			}
		}
	})
	for _, r := range roots {
		out = append(out, w.sliceWrites(r, false, 0, map[ssa.Value]bool{})...)
	}
	return out
}

// sliceWrites follows the uses of slice value v (shortened: v is a proper prefix/suffix view of the original).
func (w *World) sliceWrites(v ssa.Value, shortened bool, depth int, seen map[ssa.Value]bool) []ssa.Instruction {
	if seen[v] || depth > 3 {
		return nil
	}
	seen[v] = true
	var out []ssa.Instruction
	refs := v.Referrers()
	if refs == nil {
		return nil
	}
	for _, r := range *refs {
		switch x := r.(type) {
		case *ssa.DebugRef:
		case *ssa.IndexAddr:
			if x.X != v {
				continue
			}
			for _, rr := range *x.Referrers() {
				if st, ok := rr.(*ssa.Store); ok && st.Addr == ssa.Value(x) {
					out = append(out, st)
				}
			}
		case *ssa.Slice:
			if x.X == v {
				out = append(out, w.sliceWrites(x, shortened || x.High != nil, depth, seen)...)
			}
		case *ssa.Phi:
			out = append(out, w.sliceWrites(x, shortened, depth, seen)...)
		case *ssa.ChangeType:
			out = append(out, w.sliceWrites(x, shortened, depth, seen)...)
		case *ssa.MakeInterface:
			out = append(out, w.sliceWrites(x, shortened, depth, seen)...)
		case *ssa.Store:
			// kept in a local cell: follow its loads
			if x.Val != v {
				continue
			}
			if al, ok := x.Addr.(*ssa.Alloc); ok {
				for _, rr := range *al.Referrers() {
					if u, ok := rr.(*ssa.UnOp); ok && u.Op == token.MUL {
						out = append(out, w.sliceWrites(u, shortened, depth, seen)...)
					}
					if mc, ok := rr.(*ssa.MakeClosure); ok {
						// captured: the closure body may write through it
						if cl, ok := mc.Fn.(*ssa.Function); ok {
							for bi, bv := range mc.Bindings {
								if bv == ssa.Value(al) && bi < len(cl.FreeVars) {
									for _, fr := range *cl.FreeVars[bi].Referrers() {
										if u, ok := fr.(*ssa.UnOp); ok && u.Op == token.MUL {
											out = append(out, w.sliceWrites(u, shortened, depth+1, seen)...)
										}
									}
								}
							}
						}
					}
				}
			}
		case ssa.CallInstruction:
			com := x.Common()
			if b, ok := com.Value.(*ssa.Builtin); ok {
				switch b.Name() {
				case "copy":
					if len(com.Args) > 0 && com.Args[0] == v {
						out = append(out, x)
					}
				case "append":
					if len(com.Args) > 0 && com.Args[0] == v && shortened {
						out = append(out, x)
					}
				}
				continue
			}
			name := w.calleeName(x)
			callee := com.StaticCallee()
			if callee != nil && w.isMain(callee) && callee.Blocks != nil {
				for i, a := range com.Args {
					if a == v && i < len(callee.Params) {
						out = append(out, w.sliceWrites(callee.Params[i], shortened, depth+1, seen)...)
					}
				}
				continue
			}
			if !readOnlyLib(name) {
				out = append(out, x)
			}
		}
	}
	return out
}

// freshSocket: v is the result of a socket-creating library call made here, or of a package function whose every
// non-nil result is such a fresh socket that is not also kept anywhere else.
func (w *World) freshSocket(v ssa.Value, depth int) (bool, string) {
	v = strip(v)
	if isNilConst(v) {
		return true, ""
	}
	if depth > 3 {
		return false, "too deep"
	}
	if p, ok := v.(*ssa.Phi); ok {
		for _, e := range p.Edges {
			if ok, why := w.freshSocket(e, depth); !ok {
				return false, why
			}
		}
		return true, ""
	}
	call, idx := callOfResult(v)
	if call == nil {
		return false, "it is " + w.termKey(v) + ", not a connection created here"
	}
	name := w.calleeName(call)
	if strings.HasPrefix(name, "net.Dial") || strings.HasPrefix(name, "net.Listen") || strings.HasPrefix(name, "(*net.Dialer).Dial") || strings.HasPrefix(name, "(net.Dialer).Dial") {
		// not kept anywhere else: the only uses of the result are this flow (checked by the caller through stores)
		return true, ""
	}
	callee := call.Common().StaticCallee()
	if callee == nil || !w.isMain(callee) || callee.Blocks == nil {
		return false, "it comes from " + name
	}
	for _, r := range returnsUnder(callee, nil) {
		if idx >= len(r.Results) {
			return false, "result shape"
		}
		rv := r.Results[idx]
		if ok, why := w.freshSocket(rv, depth+1); !ok {
			return false, "through " + w.fname(callee) + ": " + why
		}
		// the returned socket must not also be stored into a container or another object inside the callee
		for _, lf := range phiLeaves(rv) {
			if isNilConst(lf) {
				continue
			}
			if refs := lf.Referrers(); refs != nil {
				for _, rr := range *refs {
					switch y := rr.(type) {
					case *ssa.Store:
						if y.Val == lf {
							if _, isAl := y.Addr.(*ssa.Alloc); !isAl {
								return false, "through " + w.fname(callee) + ": the connection is also kept at " + w.ipos(y)
							}
						}
					case *ssa.MapUpdate:
						return false, "through " + w.fname(callee) + ": the connection is also kept in a table at " + w.ipos(y)
					}
				}
			}
		}
	}
	return true, ""
}

// ---------- shared rule: key/value list accessors find the first entry with the given key ----------

// kvAccessors: lookup/update helpers over the KeyValue lists of the decoded header types.
var kvAccessors = []string{
	"(*ViaParam).GetParam", "(*ViaParam).HasParam", "(*ViaParam).SetParam",
	"(*FromSpec).GetParam", "(*FromSpec).SetTag", "(*To).GetParam", "(*To).AddParam",
	"(*SIPURI).GetParameter", "(*SIPURI).SetParameter", "(*SIPURI).GetHeader",
}

// ruleKVFind: each named accessor either delegates to another accessor on its own receiver, or walks the receiver's
// KeyValue list and takes its early exit at the first entry whose Key equals the wanted name and on no other condition
// (so a parameter that is present is found whatever its value, and the first of several wins).
func ruleKVFind(c *Ctx, rule string, names ...string) {
	w := c.w
	set := map[string]bool{}
	for _, n := range kvAccessors {
		set[n] = true
	}
	for _, name := range names {
		fn := w.Fn(name)
		if fn == nil {
			c.undecided(rule, name+"/kv-find", "-", "accessor "+name+" not found")
			continue
		}
		c.Fns[name] = true
		loops := w.kvLoops(fn)
		if len(loops) == 0 {
			deleg := ""
			for _, cs := range w.callsIn(fn) {
				if !isParam(fn, callArg(cs.In, -1), 0) {
					continue
				}
				if set[cs.Name] {
					deleg = cs.Name
					continue
				}
				// a private search helper on the same receiver that itself scans the list for the first matching key
				if callee := cs.In.Common().StaticCallee(); callee != nil && w.isMain(callee) && len(w.kvLoops(callee)) > 0 {
					if ok, _ := w.kvFindFirst(callee); ok {
						deleg = cs.Name
					}
				}
			}
			if deleg != "" {
				c.ok(rule, name+"/kv-find", w.pos(fn.Pos()), "delegates to "+deleg+" on its own receiver")
			} else {
				c.bad(rule, name+"/kv-find", w.pos(fn.Pos()), name+" neither walks its receiver's parameter list nor delegates to an accessor that does")
			}
			continue
		}
		good, why := w.kvFindFirst(fn)
		c.check(good, rule, name+"/kv-find", w.pos(fn.Pos()), "takes the first entry whose Key equals the wanted name, whatever its value", name+" does not simply take the first entry whose key matches ("+why+"): a parameter that is present (e.g. a valueless ;rport or ;lr) is reported absent, or a later duplicate wins")
	}
}

// ---------- shared helper: structural keys for comparing sibling functions ----------

// shapeAlt is one alternative a value can take, in a normal form in which spelling differences that do not change the
// value disappear: sums are flattened with their constants added up, a slice of a slice is one slice of the base, and
// a value joined from several paths (a phi) is expanded into its alternatives.
type shapeAlt struct {
	s     string    // rendering of an opaque term
	isSum bool      // adds + k
	adds  []string  // sorted addends
	k     int64     // constant addend
	isSl  bool      // base[low:high]
	base  string    // rendering of the sliced value
	low   *shapeAlt // nil: 0
	high  *shapeAlt // nil: open
}

func (a shapeAlt) String() string {
	switch {
	case a.isSum:
		parts := append([]string{}, a.adds...)
		if a.k != 0 || len(parts) == 0 {
			parts = append(parts, fmt.Sprint(a.k))
		}
		if len(parts) == 1 {
			return parts[0]
		}
		return "(" + strings.Join(parts, "+") + ")"
	case a.isSl:
		lo, hi := "0", "_"
		if a.low != nil {
			lo = a.low.String()
		}
		if a.high != nil {
			hi = a.high.String()
		}
		return a.base + "[" + lo + ":" + hi + "]"
	}
	return a.s
}

func shapeSum(x, y *shapeAlt) *shapeAlt {
	out := shapeAlt{isSum: true}
	for _, a := range []*shapeAlt{x, y} {
		switch {
		case a == nil:
		case a.isSum:
			out.adds = append(out.adds, a.adds...)
			out.k += a.k
		default:
			out.adds = append(out.adds, a.String())
		}
	}
	sort.Strings(out.adds)
	return &out
}

const shapeAltCap = 48

// shapeAlts: the alternatives of v (at most shapeAltCap; beyond that the value is rendered as one opaque join).
func (w *World) shapeAlts(v ssa.Value, depth int, seen map[ssa.Value]bool) []shapeAlt {
	one := func(s string) []shapeAlt { return []shapeAlt{{s: s}} }
	if v == nil {
		return nil
	}
	v = strip(v)
	if depth > 10 {
		return one("…")
	}
	if seen[v] {
		return one("loop")
	}
	switch x := v.(type) {
	case *ssa.Const:
		if s, ok := constString(x); ok {
			return one(fmt.Sprintf("%q", s))
		}
		if k, ok := constInt(x); ok {
			return []shapeAlt{{isSum: true, k: k}}
		}
		return one(x.Value.String())
	case *ssa.Parameter:
		for i, p := range x.Parent().Params {
			if p == x {
				return one(fmt.Sprintf("p%d", i))
			}
		}
		return one("p?")
	case *ssa.BinOp:
		var out []shapeAlt
		for _, a := range w.shapeAlts(x.X, depth+1, seen) {
			for _, b := range w.shapeAlts(x.Y, depth+1, seen) {
				a, b := a, b
				if x.Op == token.ADD && !isStringType(x.Type()) {
					out = append(out, *shapeSum(&a, &b))
				} else {
					out = append(out, shapeAlt{s: "(" + a.String() + x.Op.String() + b.String() + ")"})
				}
			}
		}
		return capAlts(out)
	case *ssa.Slice:
		opt := func(v ssa.Value) []*shapeAlt {
			if v == nil {
				return []*shapeAlt{nil}
			}
			var out []*shapeAlt
			for _, a := range w.shapeAlts(v, depth+1, seen) {
				a := a
				if a.isSum && len(a.adds) == 0 && a.k == 0 {
					out = append(out, nil)
					continue
				}
				out = append(out, &a)
			}
			return out
		}
		var out []shapeAlt
		for _, b := range w.shapeAlts(x.X, depth+1, seen) {
			for _, lo := range opt(x.Low) {
				for _, hi := range opt(x.High) {
					if b.isSl {
						// b.base[b.low:b.high][lo:hi] = b.base[b.low+lo : b.low+hi] (hi open: b.high)
						n := shapeAlt{isSl: true, base: b.base, low: b.low, high: b.high}
						if lo != nil {
							n.low = shapeSum(b.low, lo)
						}
						if hi != nil {
							n.high = shapeSum(b.low, hi)
						}
						out = append(out, n)
						continue
					}
					out = append(out, shapeAlt{isSl: true, base: b.String(), low: lo, high: hi})
				}
			}
		}
		return capAlts(out)
	case *ssa.Extract:
		var out []shapeAlt
		for _, a := range w.shapeAlts(x.Tuple, depth+1, seen) {
			out = append(out, shapeAlt{s: a.String() + "#" + fmt.Sprint(x.Index)})
		}
		return out
	case *ssa.Call:
		name := w.calleeName(x)
		switch name {
		case "strings.IndexByte", "strings.Index", "strings.IndexRune":
			name = "index"
		case "strings.LastIndexByte", "strings.LastIndex":
			name = "lastindex"
		}
		combos := []string{""}
		for i, a := range x.Call.Args {
			var as []string
			if b, ok := constByte(a); ok {
				as = []string{fmt.Sprintf("%q", string(b))}
			} else {
				for _, al := range w.shapeAlts(a, depth+1, seen) {
					as = append(as, al.String())
				}
			}
			var next []string
			for _, c := range combos {
				for _, s := range as {
					if i > 0 {
						next = append(next, c+","+s)
					} else {
						next = append(next, s)
					}
				}
			}
			if len(next) > shapeAltCap {
				next = next[:shapeAltCap]
			}
			combos = next
		}
		var out []shapeAlt
		for _, c := range combos {
			out = append(out, shapeAlt{s: name + "(" + c + ")"})
		}
		return out
	case *ssa.Phi:
		seen[v] = true
		var out []shapeAlt
		for _, e := range x.Edges {
			out = append(out, w.shapeAlts(e, depth+1, seen)...)
		}
		delete(seen, v)
		return capAlts(out)
	case *ssa.UnOp:
		if x.Op == token.MUL {
			if fa, ok := x.X.(*ssa.FieldAddr); ok {
				var out []shapeAlt
				for _, a := range w.shapeAlts(fa.X, depth+1, seen) {
					out = append(out, shapeAlt{s: a.String() + "." + fieldName(fa.X.Type(), fa.Field)})
				}
				return out
			}
			var out []shapeAlt
			for _, a := range w.shapeAlts(x.X, depth+1, seen) {
				out = append(out, shapeAlt{s: "*" + a.String()})
			}
			return out
		}
		var out []shapeAlt
		for _, a := range w.shapeAlts(x.X, depth+1, seen) {
			out = append(out, shapeAlt{s: x.Op.String() + a.String()})
		}
		return out
	case *ssa.Alloc:
		return one("new")
	case *ssa.Convert:
		return w.shapeAlts(x.X, depth+1, seen)
	}
	return one(fmt.Sprintf("%T", v))
}

// capAlts removes duplicates and folds an over-long list into one opaque join (sorted, so still comparable).
func capAlts(in []shapeAlt) []shapeAlt {
	seen := map[string]bool{}
	var out []shapeAlt
	for _, a := range in {
		if k := a.String(); !seen[k] {
			seen[k] = true
			out = append(out, a)
		}
	}
	if len(out) > shapeAltCap {
		var ks []string
		for _, a := range out {
			ks = append(ks, a.String())
		}
		sort.Strings(ks)
		return []shapeAlt{{s: "phi(" + strings.Join(ks, "|") + ")"}}
	}
	return out
}

// callShapes: the set of "callee(argument shapes)" over the calls of fn to the named callees, one entry per
// alternative of the arguments: decode(phi(a|b)) and the two calls decode(a), decode(b) hand over the same pieces.
func (w *World) callShapes(fn *ssa.Function, callees ...string) []string {
	set := map[string]bool{}
	for _, cs := range w.callsIn(fn, callees...) {
		combos := []string{""}
		for i, a := range cs.In.Common().Args {
			var next []string
			for _, c := range combos {
				for _, al := range w.shapeAlts(a, 0, map[ssa.Value]bool{}) {
					if i > 0 {
						next = append(next, c+", "+al.String())
					} else {
						next = append(next, al.String())
					}
				}
			}
			if len(next) > shapeAltCap {
				next = next[:shapeAltCap]
			}
			combos = next
		}
		for _, c := range combos {
			set[cs.Name+"("+c+")"] = true
		}
	}
	var out []string
	for k := range set {
		out = append(out, k)
	}
	sort.Strings(out)
	return out
}

// ---------- shared rule: package types printed through fmt have a String method in the printed type's method set ----------

// ruleFmtStringer: every operand of a package struct type (or pointer to one) handed to a fmt print call is printed by
// its own String/Error method: the method set of the operand's static type must contain it. A value of a type whose
// String has a pointer receiver falls back to fmt's default struct rendering ({key value}).
func ruleFmtStringer(c *Ctx, rule string) {
	w := c.w
	n := 0
	per := map[string]int{}
	for _, fn := range w.All {
		for _, cs := range w.callsIn(fn) {
			if !strings.HasPrefix(cs.Name, "fmt.") {
				continue
			}
			for _, a := range cs.In.Common().Args {
				for _, v := range append(varargs(a), a) {
					if v == nil {
						continue
					}
					v = strip(v)
					t := v.Type()
					if _, isIface := t.Underlying().(*types.Interface); isIface {
						continue
					}
					if !w.isMainType(t) {
						continue
					}
					el := t
					if p, ok := t.(*types.Pointer); ok {
						el = p.Elem()
					}
					if _, isStruct := el.Underlying().(*types.Struct); !isStruct {
						continue
					}
					n++
					ms := w.Prog.MethodSets.MethodSet(t)
					has := ms.Lookup(nil, "String") != nil || ms.Lookup(nil, "Error") != nil || ms.Lookup(w.Main.Pkg, "String") != nil
					if !has {
						per[w.fname(fn)]++
						c.Fns[w.fname(fn)] = true
						c.bad(rule, fmt.Sprintf("%s/fmt-operand#%d", w.fname(fn), per[w.fname(fn)]), w.ipos(cs.In), "a value of type "+types.TypeString(t, types.RelativeTo(w.Main.Pkg))+" is printed through "+cs.Name+", but that type's method set has no String method (pointer receiver?): fmt falls back to its default struct rendering and the encoded header contains {...} instead of the parameter text")
					}
				}
			}
		}
	}
	if n < 6 {
		c.undecided(rule, "fmt-operands/floor", "-", fmt.Sprintf("only %d package values printed through fmt found (expected >= 6)", n))
	} else {
		c.ok(rule, "package/fmt-operands", "-", fmt.Sprintf("%d operands of package struct types printed through fmt inspected", n))
	}
}

// ---------- shared rule: GetHeader returns the first header, in list order, that the comparator accepts ----------

// ruleHeaderFind: (*Message).GetHeader walks m.headers once, front to back, and returns the current element at the
// first one for which isSameHeader(element.name, name) holds - on no other condition, in no second pass. The top Via
// (and the top Route, the first Content-Length ...) is then the first line whatever spelling it uses.
func ruleHeaderFind(c *Ctx, rule string) {
	w := c.w
	f := w.Fn("(*Message).GetHeader")
	if f == nil {
		c.undecided(rule, "GetHeader/first-match", "-", "(*Message).GetHeader not found")
		return
	}
	c.Fns["(*Message).GetHeader"] = true
	var loops []*rangeLoop
	for _, rl := range rangeLoops(f) {
		if ref, base := loadedField(rl.Over); ref == "Message.headers" && isParam(f, base, 0) {
			loops = append(loops, rl)
		}
	}
	good := len(loops) == 1 && len(rangeLoops(f)) == 1
	why := fmt.Sprintf("%d walks over m.headers", len(loops))
	if len(loops) == 0 {
		// through a position finder of the same message: pos, err := m.finder(name); return m.headers[pos], nil
		for _, cs := range w.callsIn(f) {
			call, isCall := cs.In.(*ssa.Call)
			g := cs.In.Common().StaticCallee()
			if !isCall || g == nil || !w.isMain(g) || g.Signature.Recv() == nil || !isParam(f, callArg(call, -1), 0) || !isParam(f, callArg(call, 0), 1) || errIndex(call) != 1 {
				continue
			}
			if gok, _ := w.firstMatchIndexSelf(g, "\x00name-parameter"); !gok {
				continue
			}
			keep := w.under(assumeAtom(errNil(call), true))
			okAll, n := true, 0
			for _, r := range returnsUnder(f, keep) {
				n++
				v := strip(r.Results[0])
				hit := false
				if a, ok := isDeref(v); ok {
					if ia, ok := a.(*ssa.IndexAddr); ok && isResultOf(ia.Index, call, 0) {
						if b, ok := isLoadOf(ia.X, "Message.headers"); ok && isParam(f, b, 0) {
							hit = true
						}
					}
				}
				if !hit || !allVals(valuesUnder(f, r.Results[1], keep), isNilConst) {
					okAll = false
				}
			}
			bad := w.under(assumeAtom(errNil(call), false))
			for _, r := range returnsUnder(f, bad) {
				if !allVals(valuesUnder(f, r.Results[0], bad), isNilConst) {
					okAll = false
				}
			}
			if okAll && n > 0 {
				c.ok(rule, "GetHeader/first-match", w.pos(f.Pos()), "returns the header at the position "+w.fname(g)+" finds: the first line the comparator accepts")
				return
			}
		}
	}
	if good {
		rl := loops[0]
		bound := w.atom(rl.If.Cond).Key
		same := func(a Atom) bool {
			if a.Kind != "bool" {
				return false
			}
			cc := w.resultOfCallTo(a.X, "(*Message).isSameHeader", 0)
			if cc == nil {
				return false
			}
			b, ok := isLoadOf(callArg(cc, 0), "Header.name")
			return ok && rl.isElem(b) && isParam(f, callArg(cc, 1), 1)
		}
		atoms := map[string]Atom{}
		for _, a := range w.atomsOf(f) {
			atoms[a.Key] = a
		}
		nExit := 0
		for _, r := range returnsUnder(f, nil) {
			if !rl.Body.Dominates(r.Block()) {
				// after the walk: nothing found
				if !allVals(phiLeaves(r.Results[0]), isNilConst) || !allVals(phiLeaves(r.Results[1]), w.isFreshError) {
					good, why = false, "after the walk something other than (nil, error) is returned"
				}
				continue
			}
			nExit++
			if !rl.isElem(r.Results[0]) || !isNilConst(r.Results[1]) {
				good, why = false, "the early exit does not return the current element"
			}
			nSame := 0
			for k, val := range w.controlAtoms(f, r) {
				if k == bound {
					continue
				}
				if same(atoms[k]) && val {
					nSame++
					continue
				}
				good, why = false, "the match additionally depends on "+k
			}
			if nSame != 1 {
				good, why = false, "the early exit is not conditioned on isSameHeader(element.name, name)"
			}
		}
		if nExit != 1 {
			good, why = false, fmt.Sprintf("%d early exits", nExit)
		}
	}
	c.check(good, rule, "GetHeader/first-match", w.pos(f.Pos()), "the first header line the comparator accepts is returned", "GetHeader does not return the first header, in list order, accepted by isSameHeader ("+why+"): with mixed spellings (v: above Via:) the 'top' Via/Route is no longer the first line, so the wrong entry is stamped, popped or used as the response hop")
}

// ---------- counting loops over a list field, as an alternative spelling of a range loop ----------

// scanLoops returns the range loops of fn plus its counting loops `for i := 0; i < len(x.f); i++` over a list field
// (Over is then the load of the field measured in the loop condition; the element is x.f[i] for any load of the same
// field of the same object, provided the loop does not store to that field).
func (w *World) scanLoops(fn *ssa.Function) []*rangeLoop { return rangeLoops(fn) }

// kvLoops: the loops of fn that walk a KeyValue list field of fn's receiver.
func (w *World) kvLoops(fn *ssa.Function) []*rangeLoop {
	var loops []*rangeLoop
	for _, rl := range w.scanLoops(fn) {
		if rl.Over == nil || rl.IsMap {
			continue
		}
		if ref, base := loadedField(rl.Over); ref != "" && isParam(fn, base, 0) {
			if sl, ok := rl.Over.Type().Underlying().(*types.Slice); ok && strings.HasSuffix(sl.Elem().String(), "KeyValue") {
				loops = append(loops, rl)
			}
		}
	}
	return loops
}

// kvFindFirst: every early exit (return) taken from inside a KeyValue walk of fn is conditioned on exactly
// "current entry's Key == wanted name" (a parameter or a constant) and on nothing else.
func (w *World) kvFindFirst(fn *ssa.Function) (bool, string) {
	loops := w.kvLoops(fn)
	good, nExit := true, 0
	why := ""
	for _, rl := range loops {
		bound := w.atom(rl.If.Cond).Key
		isKey := func(v ssa.Value) bool {
			v = strip(v)
			if f, ok := v.(*ssa.Field); ok {
				return rl.isElem(f.X) && fieldName(f.X.Type(), f.Field) == "Key"
			}
			if a, ok := isDeref(v); ok {
				if fa, ok := a.(*ssa.FieldAddr); ok && fieldName(fa.X.Type(), fa.Field) == "Key" {
					if ia, ok := fa.X.(*ssa.IndexAddr); ok {
						return rl.sameList(ia.X) && ia.Index == rl.Idx
					}
					// the loop variable: a local cell holding a copy of the current element
					if al, ok := fa.X.(*ssa.Alloc); ok {
						n, okAll := 0, true
						for _, r := range *al.Referrers() {
							if st, ok := r.(*ssa.Store); ok && st.Addr == ssa.Value(al) {
								n++
								if !rl.isElem(st.Val) {
									okAll = false
								}
							}
						}
						return n == 1 && okAll
					}
				}
			}
			return false
		}
		wanted := func(v ssa.Value) bool {
			v = strip(v)
			if _, ok := constString(v); ok {
				return true
			}
			for i := 1; i < len(fn.Params); i++ {
				if v == ssa.Value(fn.Params[i]) {
					return true
				}
			}
			return false
		}
		atoms := map[string]Atom{}
		for _, a := range w.atomsOf(fn) {
			atoms[a.Key] = a
		}
		for _, b := range fn.Blocks {
			if !rl.Body.Dominates(b) || len(b.Instrs) == 0 {
				continue
			}
			ret, ok := b.Instrs[len(b.Instrs)-1].(*ssa.Return)
			if !ok {
				continue
			}
			nExit++
			ctrl := w.controlAtoms(fn, ret)
			nKey := 0
			for k, val := range ctrl {
				if k == bound {
					continue
				}
				a := atoms[k]
				if (a.Kind == "eqk" || a.Kind == "ltk") && a.K < 0 && strip(a.X) == strip(rl.Idx) {
					continue // the index of the current element compared with a negative constant: decided, not a condition
				}
				if a.Kind == "eq" && val && ((isKey(a.X) && wanted(a.Y)) || (isKey(a.Y) && wanted(a.X))) {
					nKey++
					continue
				}
				if a.Kind == "eqstr" && val && isKey(a.X) {
					nKey++
					continue
				}
				good = false
				why = "the match additionally depends on " + k
			}
			if nKey != 1 {
				good = false
				if why == "" {
					why = "the early exit is not conditioned on entry.Key == name"
				}
			}
		}
	}
	if nExit == 0 {
		good = false
		why = "no early exit at the matching entry"
	}
	return good, why
}

// ---------- shared rule: numbers on the wire and in the configuration are decimal and not narrowed ----------

// ruleNumberParsing: every strconv.ParseInt/ParseUint call of the package parses base 10 (a constant; base 0 would
// read a zero-padded Content-Length as octal and 0x.. as hexadecimal) into at least 32 bits (or 16 unsigned bits: a
// port); strconv.Atoi is both. A narrower or signed-16 parse rejects valid ports, lengths and lifetimes.
func ruleNumberParsing(c *Ctx, rule string, minSites int, only ...string) {
	w := c.w
	n := 0
	per := map[string]int{}
	want := map[string]bool{}
	for _, o := range only {
		want[o] = true
	}
	for _, fn := range w.All {
		if len(want) > 0 && !want[w.fname(fn)] {
			continue
		}
		for _, cs := range w.callsIn(fn, "strconv.ParseInt", "strconv.ParseUint", "strconv.Atoi") {
			n++
			if cs.Name == "strconv.Atoi" {
				continue
			}
			args := cs.In.Common().Args
			base, okB := constInt(args[1])
			bits, okS := constInt(args[2])
			good := okB && base == 10 && okS && (bits == 0 || bits == 32 || bits == 64 || (bits == 16 && cs.Name == "strconv.ParseUint"))
			per[w.fname(fn)]++
			c.Fns[w.fname(fn)] = true
			c.check(good, rule, fmt.Sprintf("%s/%s#%d", w.fname(fn), cs.Name, per[w.fname(fn)]), w.ipos(cs.In), "decimal, at least 32 bits (or an unsigned 16-bit port)",
				fmt.Sprintf("%s parses a number with base %s into %s bits: base 0 reads 010 as 8 and 0x10 as 16, a narrow or signed-16 size rejects valid ports (> 32767), lengths and lifetimes", w.fname(fn), w.termKey(args[1]), w.termKey(args[2])))
		}
	}
	if n < minSites {
		c.undecided(rule, "number-parsing/floor", "-", fmt.Sprintf("only %d integer parses found in %v (expected >= %d)", n, only, minSites))
	} else {
		c.ok(rule, "package/number-parsing", "-", fmt.Sprintf("%d integer parses inspected (strconv.Atoi / ParseInt / ParseUint)", n))
	}
}

// ---------- shared rule: a UDP receive buffer holds the largest datagram ----------

// ruleDatagramBuffer: the buffers ReadFromUDP reads into come from a pool whose element size is a constant of at least
// 65507 bytes (the largest UDP payload): a smaller buffer silently truncates larger datagrams, which are then
// undecodable and dropped (long Via stacks, large bodies).
func ruleDatagramBuffer(c *Ctx, rule string) {
	w := c.w
	n := 0
	for _, fn := range w.All {
		for _, cs := range w.callsIn(fn, "NewByteArrayPool") {
			// only pools whose buffers are read into from a UDP socket: the pool field of UDPServerTransport
			n++
			size, ok := constInt(callArg(cs.In, 1))
			c.Fns[w.fname(fn)] = true
			c.check(ok && size >= 65507, rule, w.fname(fn)+"/datagram-buffer-size", w.ipos(cs.In), "pooled receive buffers hold a maximal UDP datagram", fmt.Sprintf("the pooled receive buffers have size %s: a datagram longer than that is truncated on receive, cannot be decoded and is dropped (the largest UDP payload is 65507 bytes)", w.termKey(callArg(cs.In, 1))))
		}
	}
	if n == 0 {
		c.undecided(rule, "datagram-buffer-size", "-", "no NewByteArrayPool call found")
	}
	if f := w.Fn("(*ByteArrayPool).Alloc"); f != nil {
		good := false
		eachInstr(f, func(in ssa.Instruction) {
			if ms, ok := in.(*ssa.MakeSlice); ok {
				if r, base := loadedField(ms.Len); r != "" && strings.HasPrefix(r, "ByteArrayPool.") && isParam(f, base, 0) {
					// the field holds the constructor's size argument
					if ctor := w.Fn("NewByteArrayPool"); ctor != nil {
						for _, st := range w.fieldStores(ctor, r) {
							if isParam(ctor, st.Val, 1) {
								good = true
							}
						}
					}
				}
			}
		})
		c.check(good, rule, "(*ByteArrayPool).Alloc/size", w.pos(f.Pos()), "a new buffer has the pool's configured size", "Alloc does not make buffers of the pool's configured size")
	}
}

// ---------- round-4 rules (second half) ----------

// ruleBlockingHandOff: every decoded message reaches the message loop: HandleRawMessage sends on the loop's channel
// with a plain (blocking) send on every path - no select with a default that drops the message when the loop lags.
// The blocking send is the back-pressure that makes "the same bytes, however they arrive, give the same messages".
func ruleBlockingHandOff(c *Ctx, rule string) {
	w := c.w
	f := c.fn(rule, "(*Proxy).HandleRawMessage")
	if f == nil {
		return
	}
	var sends []ssa.Instruction
	selects := 0
	eachInstr(f, func(in ssa.Instruction) {
		switch x := in.(type) {
		case *ssa.Send:
			if ref, _ := loadedField(x.Chan); ref == "Proxy.msgChannel" && isParam(f, x.X, 1) {
				sends = append(sends, in)
			}
		case *ssa.Select:
			selects++
		}
	})
	good := len(sends) == 1 && selects == 0
	if good {
		isRet := func(in ssa.Instruction) bool { _, ok := in.(*ssa.Return); return ok }
		good = !canReach(entryPt(f), nil, isRet, isInstr(sends[0]))
	}
	c.check(good, rule, "HandleRawMessage/blocking-hand-off", w.pos(f.Pos()), "every message is sent to the loop with a blocking send", fmt.Sprintf("HandleRawMessage does not hand every message to the message loop with one plain blocking send on p.msgChannel (%d sends, %d select statements): when the loop lags, decoded messages are dropped, so which messages are processed depends on how fast the bytes arrive", len(sends), selects))
}

// ruleNoReadDeadline: nothing in the package sets a read deadline (SetDeadline / SetReadDeadline) on a connection: the
// connections written to are the ones a receive loop is reading, and an expired read deadline ends that loop - which
// messages are framed would then depend on the timing of the segments.
func ruleNoReadDeadline(c *Ctx, rule string) {
	w := c.w
	n := 0
	for _, fn := range w.All {
		for _, cs := range w.callsIn(fn) {
			if strings.HasSuffix(cs.Name, ".SetDeadline") || strings.HasSuffix(cs.Name, ".SetReadDeadline") {
				if strings.Contains(cs.Name, "net.") {
					n++
					c.Fns[w.fname(fn)] = true
					c.bad(rule, fmt.Sprintf("%s/read-deadline#%d", w.fname(fn), n), w.ipos(cs.In), w.fname(fn)+" calls "+cs.Name+": the deadline also applies to the receive loop reading the same connection, whose read then fails after that time although the peer is only slow - the connection is closed and the rest of the stream is lost (SetWriteDeadline bounds a write alone)")
				}
			}
		}
	}
	if n == 0 {
		c.ok(rule, "package/no-read-deadline", "-", "no SetDeadline/SetReadDeadline call on a network connection in the package")
	}
}

// ruleTokenSplitting: the decoders of blank-separated start lines and header values (request line, status line, CSeq,
// the sent-protocol/sent-by pair of a Via entry) cut their input with strings.Fields, which tolerates runs of blanks,
// tabs and blanks at the edges (an entry that follows ", " in a comma-separated list starts with one); a Split/Cut
// at a single space makes the result depend on the layout.
func ruleTokenSplitting(c *Ctx, rule string, fns ...string) {
	w := c.w
	for _, name := range fns {
		f := c.fn(rule, name)
		if f == nil {
			continue
		}
		hasFields := false
		bad := ""
		for _, cs := range w.callsIn(f) {
			switch cs.Name {
			case "strings.Fields":
				hasFields = true
			case "strings.Split", "strings.SplitN", "strings.Cut", "strings.Index", "strings.IndexByte":
				if b, ok := constByte(cs.In.Common().Args[1]); ok && (b == ' ' || b == '\t') {
					bad = cs.Name + " at " + w.ipos(cs.In)
				}
			}
		}
		c.check(hasFields && bad == "", rule, name+"/blank-separated-tokens", w.pos(f.Pos()), "blank-separated tokens are cut with strings.Fields", name+" does not cut its blank-separated tokens with strings.Fields ("+bad+"): a second blank, a tab or a blank after the comma of a list makes the entry undecodable or leaves the blank inside a token, so the same header in another layout is treated differently")
	}
}

// ruleSplitRemainder: a decoder that takes fixed parts out of strings.Split(s, sep) - parts[0], parts[1] - instead of
// ranging over them loses whatever follows a further separator (a tag or a base64 value containing '='), unless the
// number of parts is tested or the split is limited (SplitN). Every such Split in a decoder is guarded by a length test
// on its result.
func ruleSplitRemainder(c *Ctx, rule string) {
	w := c.w
	n := 0
	for fn := range decoderSet(w) {
		per := 0
		for _, cs := range w.callsIn(fn, "strings.Split") {
			call, ok := cs.In.(*ssa.Call)
			if !ok {
				continue
			}
			indexed, ranged := false, false
			var maxK int64 = -1
			var useSites []ssa.Instruction
			for _, u := range *call.Referrers() {
				switch x := u.(type) {
				case *ssa.IndexAddr:
					if k, isK := constInt(x.Index); isK {
						indexed = true
						if k > maxK {
							maxK = k
						}
						useSites = append(useSites, x)
					} else {
						ranged = true
					}
				case *ssa.Index:
					indexed = true
				case *ssa.Slice:
					ranged = true // the rest of the parts is walked (parts[1:])
				}
			}
			if !indexed || ranged {
				continue
			}
			n++
			per++
			// wherever a fixed part is taken, the number of parts is known not to exceed the parts that are used
			bounded := func(a Atom) (bool, bool) { // matches, required value
				x, isLen := lenOf(a.X)
				if !isLen || strip(x) != ssa.Value(call) {
					return false, false
				}
				switch a.Kind {
				case "eqk":
					// a smaller count (the case 1 of a switch over the number of parts) bounds the parts as well
					return a.K >= 1 && a.K <= maxK+1, true
				case "ltk":
					return a.K <= maxK+2, true
				}
				return false, false
			}
			lenTested := len(useSites) > 0
			for _, us := range useSites {
				// every path to the use passes a test that bounds the number of parts (one of several: case 1, 2)
				okSite := canReach(entryPt(fn), nil, isInstr(us), nil) && w.unreachableUnder(fn, us, func(a Atom, _ *ssa.If) (bool, bool) {
					if m, val := bounded(a); m {
						return true, !val
					}
					return false, false
				})
				if !okSite {
					lenTested = false
				}
			}
			c.Fns[w.fname(fn)] = true
			// every part the count test lets through is taken: a part that is cut off and never looked at is text
			// the decoder drops (the protocol name of a Via replaced by a constant)
			usedIdx := map[int64]bool{}
			for _, us := range useSites {
				if k, isK := constInt(us.(*ssa.IndexAddr).Index); isK {
					usedIdx[k] = true
				}
			}
			var unused []string
			for k := int64(0); k <= maxK; k++ {
				if !usedIdx[k] {
					unused = append(unused, fmt.Sprint(k))
				}
			}
			c.check(len(unused) == 0, rule, fmt.Sprintf("%s/split-parts-used#%d", w.fname(fn), per), w.ipos(call), "every part up to the highest one taken is used", w.fname(fn)+" cuts its text with strings.Split(..., "+w.termKey(call.Call.Args[1])+") and never looks at part "+strings.Join(unused, ", ")+": that piece of the header is dropped by the decoder and cannot be re-encoded")
			c.check(lenTested, rule, fmt.Sprintf("%s/split-parts#%d", w.fname(fn), per), w.ipos(call), "the number of parts is bounded where fixed parts are taken", w.fname(fn)+" takes fixed parts of strings.Split(..., "+w.termKey(call.Call.Args[1])+") without having excluded further parts: what follows a further separator is silently dropped (a tag such as dGFnLTE= or b2b7f3a1=1 is cut at its '=')")
		}
	}
	c.ok(rule, "package/split-parts", "-", fmt.Sprintf("%d fixed-part uses of strings.Split in decoders inspected", n))
}

// rulePurePrinters: the printers of the decoded types (String / Write / ToString methods) do not write to the value
// they print: a printer that remembers its text (or anything else) in the value makes what is encoded depend on
// whether and when it was printed before - a debug log line then changes the relayed message.
func rulePurePrinters(c *Ctx, rule string) {
	w := c.w
	n := 0
	for _, typ := range decodedTypes {
		for _, pf := range printerFns(w, typ) {
			n++
			if len(pf.Params) == 0 {
				continue
			}
			var bad ssa.Instruction
			ref := ""
			eachInstr(pf, func(in ssa.Instruction) {
				st, ok := in.(*ssa.Store)
				if !ok {
					return
				}
				if fa, ok := st.Addr.(*ssa.FieldAddr); ok && isParam(pf, fa.X, 0) {
					bad, ref = in, fieldRef(fa)
				}
			})
			c.Fns[w.fname(pf)] = true
			c.check(bad == nil, rule, w.fname(pf)+"/pure", w.pos(pf.Pos()), "the printer does not modify the value it prints", w.fname(pf)+" writes "+ref+" of the value it prints: a cached encoding is not invalidated by every later change of the value (an entry popped, a parameter set), so the relayed text shows an older state - and only when something (a log line) printed the value before")
		}
	}
	if n < 8 {
		c.undecided(rule, "pure-printers/floor", "-", fmt.Sprintf("only %d printers found (expected >= 8)", n))
	}
}

// ---- (value, error) pairs joined by phi nodes ------------------------------------------------------------------
//
// A helper with several `return value, err` statements, once inlined (or a switch that assigns value and err in
// each arm), leaves two phi nodes in one block: the values and the errors, edge by edge. A use of the joined value that
// is guarded by `joined error == nil` is, edge by edge, a use of one value under "its own error is nil".

// okPair is one value a joined value can stand for at a site guarded by the nil test of the joined error; Err is the
// error that travelled with it (nil when the value is not such a join: the site's own guards apply as they are).
type okPair struct {
	Val, Err ssa.Value
	At       ssa.Instruction // where the guards of this value are to be evaluated (the site itself, or the end of the edge the value came in on)
}

func (w *World) okPairs(fn *ssa.Function, site ssa.Instruction, v ssa.Value) []okPair {
	return w.okPairsD(fn, site, v, 0)
}

func (w *World) okPairsD(fn *ssa.Function, site ssa.Instruction, v ssa.Value, depth int) []okPair {
	ph, ok := strip(v).(*ssa.Phi)
	if !ok || len(ph.Edges) < 2 || depth > 3 {
		return []okPair{{Val: v, At: site}}
	}
	// the error joined in the same block whose nil test guards the site
	var eph *ssa.Phi
	for _, in := range ph.Block().Instrs {
		e, isPhi := in.(*ssa.Phi)
		if !isPhi {
			break
		}
		if e == ph || !isErrorType(e.Type()) || len(e.Edges) != len(ph.Edges) {
			continue
		}
		sel := func(a Atom) bool { return a.Kind == "nil" && strip(a.X) == ssa.Value(e) }
		if w.requires(fn, site, sel, true) {
			eph = e
			break
		}
	}
	if eph == nil {
		// a plain join: each edge value is used at the site only when control came in over that edge, so its guards
		// are those that hold at the end of that edge
		var out []okPair
		for i, e := range ph.Edges {
			out = append(out, w.okPairsD(fn, lastInstr(ph.Block().Preds[i]), e, depth+1)...)
		}
		return out
	}
	var out []okPair
	for i, e := range ph.Edges {
		ev := eph.Edges[i]
		if w.isFreshError(ev) {
			continue // this edge never passes the nil test
		}
		end := lastInstr(ph.Block().Preds[i])
		evv := ev
		if w.requires(fn, end, func(a Atom) bool { return a.Kind == "nil" && strip(a.X) == strip(evv) }, false) {
			continue // `if err != nil { return nil, err }`: neither does this one
		}
		if c, isC := ev.(*ssa.Const); isC && c.Value == nil {
			// `return value, nil`: the value as it is on that edge (which may be a join itself)
			out = append(out, w.okPairsD(fn, end, e, depth+1)...)
			continue
		}
		out = append(out, okPair{Val: e, Err: ev, At: end})
	}
	return out
}

func lastInstr(b *ssa.BasicBlock) ssa.Instruction { return b.Instrs[len(b.Instrs)-1] }

func isErrorType(t types.Type) bool {
	n, ok := t.(*types.Named)
	return ok && n.Obj().Pkg() == nil && n.Obj().Name() == "error"
}

// statCounterGlobal: g is a statistics counter as far as the functions in `observers` are concerned: everywhere in the
// package its address (or the address of one of its fields) is only handed to sync/atomic Add functions / Add methods
// whose result is dropped, or to atomic Load functions / Load methods in functions outside `observers`. Code in
// `observers` therefore only ever adds to it and nothing it computes can depend on it.
func (w *World) statCounterGlobal(g *ssa.Global, observers map[*ssa.Function]bool) bool {
	okAll := true
	var addrUse func(v ssa.Value, fn *ssa.Function, d int) bool
	addrUse = func(v ssa.Value, fn *ssa.Function, d int) bool {
		if v.Referrers() == nil || d > 3 {
			return false
		}
		for _, r := range *v.Referrers() {
			switch x := r.(type) {
			case *ssa.DebugRef:
			case *ssa.FieldAddr:
				if !addrUse(x, fn, d+1) {
					return false
				}
			case *ssa.Call:
				callee := x.Call.StaticCallee()
				if callee == nil || len(x.Call.Args) == 0 || x.Call.Args[0] != v {
					return false
				}
				name := callee.String()
				isAdd := strings.HasPrefix(name, "sync/atomic.Add") || (strings.HasPrefix(name, "(*sync/atomic.") && strings.HasSuffix(name, ").Add"))
				isLoad := strings.HasPrefix(name, "sync/atomic.Load") || (strings.HasPrefix(name, "(*sync/atomic.") && strings.HasSuffix(name, ").Load"))
				switch {
				case isAdd:
					for _, rr := range *x.Referrers() {
						if _, dbg := rr.(*ssa.DebugRef); !dbg {
							return false
						}
					}
				case isLoad && !observers[fn]:
				default:
					return false
				}
			default:
				return false
			}
		}
		return true
	}
	for _, fn := range w.All {
		fn := fn
		eachInstr(fn, func(in ssa.Instruction) {
			var rands []*ssa.Value
			for _, r := range in.Operands(rands) {
				if gg, ok := (*r).(*ssa.Global); ok && gg == g {
					switch x := in.(type) {
					case *ssa.FieldAddr:
						if !addrUse(x, fn, 0) {
							okAll = false
						}
					case *ssa.Call:
						// the global's own address handed to an atomic function
						tmp := map[ssa.Instruction]bool{in: true}
						_ = tmp
						callee := x.Call.StaticCallee()
						name := ""
						if callee != nil {
							name = callee.String()
						}
						isAdd := strings.HasPrefix(name, "sync/atomic.Add") || (strings.HasPrefix(name, "(*sync/atomic.") && strings.HasSuffix(name, ").Add"))
						isLoad := strings.HasPrefix(name, "sync/atomic.Load") || (strings.HasPrefix(name, "(*sync/atomic.") && strings.HasSuffix(name, ").Load"))
						if len(x.Call.Args) == 0 || x.Call.Args[0] != ssa.Value(g) {
							okAll = false
						} else if isAdd {
							for _, rr := range *x.Referrers() {
								if _, dbg := rr.(*ssa.DebugRef); !dbg {
									okAll = false
								}
							}
						} else if !(isLoad && !observers[fn]) {
							okAll = false
						}
					case *ssa.DebugRef:
					default:
						okAll = false
					}
				}
			}
		})
	}
	return okAll
}

// resultExit is one way a function leaves with result ri: the value on that way and the last instruction of the way
// (the return itself, or the end of the predecessor block when the returned value is joined in the returning block, as in
// the tail `return msg, err` of a body that was merged behind a common epilogue).
type resultExit struct {
	Val ssa.Value
	At  ssa.Instruction
}

func resultExits(fn *ssa.Function, ri int) []resultExit {
	var out []resultExit
	for _, r := range returnsUnder(fn, nil) {
		if ri >= len(r.Results) {
			continue
		}
		var expand func(v ssa.Value, at ssa.Instruction, d int)
		expand = func(v ssa.Value, at ssa.Instruction, d int) {
			if p, ok := strip(v).(*ssa.Phi); ok && d < 3 && p.Block().Dominates(at.Block()) {
				for k, e := range p.Edges {
					pred := p.Block().Preds[k]
					expand(e, pred.Instrs[len(pred.Instrs)-1], d+1)
				}
				return
			}
			out = append(out, resultExit{v, at})
		}
		expand(r.Results[ri], r, 0)
	}
	return out
}

// ruleTypedNil: a pointer that may be nil is not put into an interface-typed field before the error that accompanies
// it has been tested. `t.conn, err = dial()` with dial() returning (*net.TCPConn, error) stores, on failure, a non-nil
// net.Conn holding a nil *TCPConn: every later `t.conn == nil` test says "connected", and the first method call on it
// dereferences nil (a panic on the message loop instead of an error).
func ruleTypedNil(c *Ctx, rule string) {
	w := c.w
	n := 0
	for _, fn := range w.All {
		if !w.isMain(fn) || fn.Blocks == nil {
			continue
		}
		for _, st := range storesIn(fn) {
			fa, ok := st.Addr.(*ssa.FieldAddr)
			if !ok {
				continue
			}
			mi, ok := st.Val.(*ssa.MakeInterface)
			if !ok {
				continue
			}
			if _, isPtr := mi.X.Type().Underlying().(*types.Pointer); !isPtr {
				continue
			}
			// a nil pointer constant (the failure return of a merged helper, after the paths were separated)
			if k, isK := mi.X.(*ssa.Const); isK && k.IsNil() {
				n++
				c.bad(rule, fmt.Sprintf("%s/typed-nil@%s", w.fname(fn), fieldRef(fa)), w.ipos(st), "a nil pointer ("+types.TypeString(k.Type(), nil)+") is stored into the interface field "+fieldRef(fa)+": the field then holds a non-nil interface around a nil pointer, `== nil` tests on it pass, and the next method call through it dereferences nil - a panic where an error was due (a failed dial must leave the field nil)")
				continue
			}
			// the tail of a merged helper: the pointer and its error are joined from the helper's returns
			if ph, isPhi := mi.X.(*ssa.Phi); isPhi {
				hasNil := false
				for _, leaf := range phiLeaves(ph) {
					if isNilConst(leaf) {
						hasNil = true
					}
				}
				if !hasNil {
					continue
				}
				var pe *ssa.Phi
				for _, in := range ph.Block().Instrs {
					if q, isQ := in.(*ssa.Phi); isQ && q != ph && types.TypeString(q.Type(), nil) == "error" {
						pe = q
					}
				}
				n++
				guarded := pe != nil && w.requires(fn, st, func(a Atom) bool { return a.Kind == "nil" && strip(a.X) == ssa.Value(pe) }, true)
				c.check(guarded, rule, fmt.Sprintf("%s/typed-nil@%s", w.fname(fn), fieldRef(fa)), w.ipos(st), "the pointer is stored into the interface field only after its error was tested", "a pointer that is nil on the failure paths of the (merged) helper that produced it is stored into the interface field "+fieldRef(fa)+" before the accompanying error is tested: on failure the field holds a non-nil interface around a nil pointer, `== nil` tests on it pass, and the next method call through it dereferences nil - a panic where an error was due")
				continue
			}
			ex, ok := mi.X.(*ssa.Extract)
			if !ok {
				continue
			}
			call, ok := ex.Tuple.(*ssa.Call)
			if !ok || errIndex(call) < 0 || errIndex(call) == ex.Index {
				continue
			}
			if g := call.Call.StaticCallee(); g != nil && w.isMain(g) && g.Blocks != nil && w.nilStatus(g, ex.Index, map[string]bool{}) == nilNever {
				continue
			}
			n++
			guarded := w.requires(fn, st, errNil(call), true)
			if reason, named := c08Assumed[w.calleeName(call)]; named && !guarded {
				// the constructor's nil result is one of the named, re-validated assumptions of C08 (nil-escape at this very site)
				c.assume(rule, fmt.Sprintf("%s/typed-nil@%s", w.fname(fn), fieldRef(fa)), w.ipos(st), reason)
				continue
			}
			c.check(guarded, rule, fmt.Sprintf("%s/typed-nil@%s", w.fname(fn), fieldRef(fa)), w.ipos(st), "the pointer is stored into the interface field only after its error was tested", "result "+fmt.Sprint(ex.Index)+" of "+w.calleeName(call)+" (a pointer that is nil when the call fails) is stored into the interface field "+fieldRef(fa)+" before the call's error is tested: on failure the field holds a non-nil interface around a nil pointer, `== nil` tests on it pass, and the next method call through it dereferences nil - a panic where an error was due")
		}
	}
	if n == 0 {
		c.okTrivial(rule, "typed-nil/none", "-", "no pointer result is stored into an interface field next to an untested error")
	}
}

// ruleReadLockWrites: a map or list field is not written in a critical section that was entered with RLock. A read lock
// lets other readers - another goroutine ranging over the same map - run at the same time: the runtime ends the process
// with "concurrent map iteration and map write", which cannot be recovered.
func ruleReadLockWrites(c *Ctx, rule string) {
	w := c.w
	n := 0
	for _, fn := range w.All {
		if !w.isMain(fn) || fn.Blocks == nil {
			continue
		}
		var rlocks []ssa.CallInstruction
		for _, cs := range w.callsIn(fn, "(*sync.RWMutex).RLock") {
			if _, isDefer := cs.In.(*ssa.Defer); !isDefer {
				rlocks = append(rlocks, cs.In)
			}
		}
		if len(rlocks) == 0 {
			continue
		}
		n++
		for _, rl := range rlocks {
			class, _, _ := w.lockClass(rl)
			release := func(in ssa.Instruction) bool {
				cc, ok := in.(ssa.CallInstruction)
				if !ok {
					return false
				}
				if _, isDefer := in.(*ssa.Defer); isDefer {
					return false
				}
				k, acq, isLock := w.lockClass(cc)
				return isLock && k == class && !acq
			}
			isWrite := func(in ssa.Instruction) bool {
				switch x := in.(type) {
				case *ssa.MapUpdate:
					r, _ := loadedField(x.Map)
					return r != ""
				case *ssa.Call:
					if b, ok := x.Call.Value.(*ssa.Builtin); ok && b.Name() == "delete" {
						r, _ := loadedField(x.Call.Args[0])
						return r != ""
					}
				case *ssa.Store:
					if fa, ok := x.Addr.(*ssa.FieldAddr); ok {
						switch fa.Type().Underlying().(*types.Pointer).Elem().Underlying().(type) {
						case *types.Map, *types.Slice:
							return true
						}
						// any field of the object the lock belongs to (the rotation cursor next to the list)
						if i := strings.Index(class, "."); i > 0 && strings.HasPrefix(fieldRef(fa), class[:i+1]) {
							return true
						}
					}
				}
				return false
			}
			wit := reachWitness(at(rl), nil, isWrite, release)
			c.check(wit == nil, rule, fmt.Sprintf("%s/write-under-read-lock@%s", w.fname(fn), class), w.ipos(rl), "nothing is written under the read lock", "a field of the locked object (a map, a list, or a word such as the rotation cursor) is written at "+w.ipos(wit)+" while only the read lock "+class+" is held: other readers run at the same time - two of them advance the same cursor, or one ranges over the map that is being written (the runtime then ends the process: concurrent map iteration and map write)")
		}
	}
	if n == 0 {
		c.okTrivial(rule, "read-locks/none", "-", "no read-locked critical section in the package")
	}
}

// ruleSingleParser: the datagrams of a UDP listener reach the message loop in the order they arrived: one goroutine
// runs the parse loop of a transport, started once (several workers let a short datagram overtake a longer one: the first
// in-dialog request overtakes the response that pins its dialog).
func ruleSingleParser(c *Ctx, rule string) {
	w := c.w
	n, bad := 0, false
	var where ssa.Instruction
	for _, fn := range w.All {
		if !w.isMain(fn) || fn.Blocks == nil {
			continue
		}
		eachInstr(fn, func(in ssa.Instruction) {
			g, ok := in.(*ssa.Go)
			if !ok || w.calleeName(g) != "(*UDPServerTransport).startParseMessage" {
				return
			}
			n++
			where = in
			if canReach(at(in), nil, isInstr(in), nil) {
				bad = true
			}
		})
	}
	c.check(n == 1 && !bad, rule, "UDPServerTransport/one-parser", w.ipos(where), "one parse goroutine per UDP listener", fmt.Sprintf("the parse loop of a UDP listener is started %d time(s)%s: with several parsers two datagrams received back to back can reach the message loop in the opposite order - a request that follows the response which pins its dialog is routed before the pin exists", n, map[bool]string{true: " (in a loop)", false: ""}[bad]))
}

// ruleClockFreeAttempts: whether a send attempt dials or writes is decided by the outcome of the previous dial/write,
// never by the clock: a test on time.Now/Since in a send function (a connect-rate limit) makes Send give up, while the
// destination accepts connections, for as long as the last attempt is recent.
func ruleClockFreeAttempts(c *Ctx, rule string) {
	w := c.w
	var roots []*ssa.Function
	for _, sp := range sendFns {
		if f := w.Fn(sp.Fn); f != nil {
			roots = append(roots, f)
		}
	}
	set := w.reachableFrom(roots, false)
	for _, fn := range w.All {
		if !set[fn] || !w.isMain(fn) || fn.Blocks == nil {
			continue
		}
		k := 0
		for _, b := range fn.Blocks {
			if len(b.Instrs) == 0 {
				continue
			}
			ifi, ok := b.Instrs[len(b.Instrs)-1].(*ssa.If)
			if !ok {
				continue
			}
			clock := localDerives(ifi.Cond, func(v ssa.Value) bool {
				cc, ok := v.(*ssa.Call)
				if !ok {
					return false
				}
				switch w.calleeName(cc) {
				case "time.Now", "time.Since", "time.Until":
					return true
				}
				return false
			})
			if clock {
				k++
				c.bad(rule, fmt.Sprintf("%s/clock-test#%d", w.fname(fn), k), w.ipos(ifi), "a send path decides by the clock (time.Now/Since) whether to go on: a reconnect that is skipped because the last attempt is recent makes Send fail although the destination accepts connections")
			}
		}
	}
	c.okTrivial(rule, "send-paths/clock-free", "-", "no test on the clock below the send functions")
}

// ruleTextFieldsStayText: a field of a decoded type that holds received text on the pinned tree (type string) still has
// type string: a field turned into an enumeration or a number keeps a canonical form and prints that, not what was
// received (`SIP/2.0/udp` comes back as `SIP/2.0/UDP`).
func ruleTextFieldsStayText(c *Ctx, rule string) {
	w := c.w
	n := 0
	for _, l := range strings.Split(baselineFieldsTxt, "\n") {
		parts := strings.SplitN(strings.TrimSpace(l), "\t", 2)
		if len(parts) != 2 || !isDecodedType(parts[0]) {
			continue
		}
		tn, ok := w.Main.Pkg.Scope().Lookup(parts[0]).(*types.TypeName)
		if !ok {
			continue
		}
		st, ok := tn.Type().Underlying().(*types.Struct)
		if !ok {
			continue
		}
		for _, o := range strings.Split(parts[1], "|") {
			nt := strings.SplitN(o, ":", 2)
			if len(nt) != 2 || nt[1] != "string" {
				continue
			}
			for i := 0; i < st.NumFields(); i++ {
				f := st.Field(i)
				if fvName(f) != nt[0] {
					continue
				}
				n++
				isStr := types.TypeString(f.Type(), nil) == "string"
				c.check(isStr, rule, parts[0]+"."+nt[0]+"/keeps-text", "-", "still holds the received text", fmt.Sprintf("%s.%s held the received text (string) on the pinned tree and now has type %s: the decoder keeps a canonical form instead of the bytes received, and the printer writes that form", parts[0], nt[0], types.TypeString(f.Type(), types.RelativeTo(w.Main.Pkg))))
			}
		}
	}
	if n < 10 {
		c.undecided(rule, "text-fields/floor", "-", fmt.Sprintf("only %d text fields of decoded types found in the field inventory", n))
	}
}

// ruleAtomicReadModifyWrite: a table published through an atomic.Value (copy-on-write) is replaced under a lock that
// is already held when the old table is read: load, copy and store form one critical section. A load taken before
// the writers' lock (or with no lock at all) lets two writers start from the same snapshot; the second store drops what
// the first one added (a learned route, a registered entry) without any data race for the race detector to see.
func ruleAtomicReadModifyWrite(c *Ctx, rule string) {
	w := c.w
	isAtomic := func(cs callSite, op string) (string, bool) {
		if !(strings.HasPrefix(cs.Name, "(*sync/atomic.") && strings.HasSuffix(cs.Name, ")."+op)) {
			return "", false
		}
		args := cs.In.Common().Args
		if len(args) == 0 {
			return "", false
		}
		if fa, ok := args[0].(*ssa.FieldAddr); ok {
			return fieldRef(fa), true
		}
		return "", false
	}
	// accessors: package functions that return what Load() of a field of their receiver gives
	accessor := map[*ssa.Function]string{}
	for _, fn := range w.All {
		if !w.isMain(fn) || fn.Blocks == nil || len(fn.Blocks) > 2 {
			continue
		}
		for _, cs := range w.callsIn(fn) {
			if ref, ok := isAtomic(cs, "Load"); ok {
				accessor[fn] = ref
			}
		}
	}
	n := 0
	for _, fn := range w.All {
		if !w.isMain(fn) || fn.Blocks == nil {
			continue
		}
		for _, st := range w.callsIn(fn) {
			ref, ok := isAtomic(st, "Store")
			if !ok {
				continue
			}
			// constructors publish the first table
			if fa := st.In.Common().Args[0].(*ssa.FieldAddr); w.isFreshValue(fn, strip(fa.X), 0) {
				continue
			}
			n++
			var locks []ssa.Instruction
			for _, cs := range w.callsIn(fn) {
				if _, isDefer := cs.In.(*ssa.Defer); isDefer {
					continue
				}
				if _, acq, isLock := w.lockClass(cs.In); isLock && acq && !strings.HasSuffix(cs.Name, ".RLock") {
					locks = append(locks, cs.In)
				}
			}
			k := 0
			for _, ld := range w.callsIn(fn) {
				lref, isLd := isAtomic(ld, "Load")
				if !isLd {
					if g := ld.In.Common().StaticCallee(); g != nil && accessor[g] != "" {
						lref, isLd = accessor[g], true
					}
				}
				if !isLd || lref != ref || !canReach(at(ld.In), nil, isInstr(st.In), nil) {
					continue
				}
				k++
				held := len(locks) > 0 && mustPrecede(fn, locks, ld.In, nil)
				c.check(held, rule, fmt.Sprintf("%s/%s/load-under-writer-lock#%d", w.fname(fn), ref, k), w.ipos(ld.In), "the old table is read under the lock the new one is stored under", "the table published through "+ref+" is read at "+w.ipos(ld.In)+" before (or without) the lock under which its replacement is stored at "+w.ipos(st.In)+": two writers can copy the same snapshot and the later store drops the other's entry - a lost update that is no data race")
			}
		}
	}
	if n == 0 {
		c.okTrivial(rule, "atomic-tables/none", "-", "no table is published through an atomic value")
	}
}
