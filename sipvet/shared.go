package main

import (
	"fmt"
	"go/token"
	"go/types"
	"strings"

	"golang.org/x/tools/go/ssa"
)

// ---------- range loops ----------

type rangeLoop struct {
	Fn     *ssa.Function
	Header *ssa.BasicBlock // rangeindex.loop / rangeiter.loop
	Body   *ssa.BasicBlock
	Done   *ssa.BasicBlock
	Over   ssa.Value // the slice/map/string value ranged over
	Idx    ssa.Value // index value used in the body (slices)
	IsMap  bool
	Next   *ssa.Next
	If     *ssa.If
}

// rangeLoops recognises go/ssa's lowering of `for ... := range X`.
func rangeLoops(fn *ssa.Function) []*rangeLoop {
	var out []*rangeLoop
	for _, b := range fn.Blocks {
		if len(b.Instrs) == 0 {
			continue
		}
		ifi, ok := b.Instrs[len(b.Instrs)-1].(*ssa.If)
		if !ok {
			continue
		}
		switch b.Comment {
		case "rangeindex.loop":
			cmp, ok := ifi.Cond.(*ssa.BinOp)
			if !ok || cmp.Op != token.LSS {
				continue
			}
			rl := &rangeLoop{Fn: fn, Header: b, Body: b.Succs[0], Done: b.Succs[1], Idx: cmp.X, If: ifi}
			if x, ok := lenOf(cmp.Y); ok {
				rl.Over = x
			}
			out = append(out, rl)
		case "rangeiter.loop":
			// t = next(range X); ok = extract t #0; if ok
			var nx *ssa.Next
			for _, in := range b.Instrs {
				if n, ok := in.(*ssa.Next); ok {
					nx = n
				}
			}
			if nx == nil {
				continue
			}
			rl := &rangeLoop{Fn: fn, Header: b, Body: b.Succs[0], Done: b.Succs[1], Next: nx, If: ifi}
			if rg, ok := nx.Iter.(*ssa.Range); ok {
				rl.Over = rg.X
				_, rl.IsMap = rg.X.Type().Underlying().(*types.Map)
			}
			out = append(out, rl)
		}
	}
	return out
}

// inLoop reports whether block b belongs to the natural loop of rl (dominated by the header and able to reach it).
func (rl *rangeLoop) inLoop(b *ssa.BasicBlock) bool {
	if b == rl.Header {
		return true
	}
	if !rl.Header.Dominates(b) {
		return false
	}
	if rl.Done.Dominates(b) {
		return false
	}
	// can b reach the header?
	seen := map[*ssa.BasicBlock]bool{}
	work := []*ssa.BasicBlock{b}
	for len(work) > 0 {
		x := work[len(work)-1]
		work = work[:len(work)-1]
		for _, s := range x.Succs {
			if s == rl.Header {
				return true
			}
			if !seen[s] && rl.Header.Dominates(s) {
				seen[s] = true
				work = append(work, s)
			}
		}
	}
	return false
}

// elem reports whether v is the current element of a slice range loop: *(&Over[Idx]).
func (rl *rangeLoop) isElem(v ssa.Value) bool {
	v = strip(v)
	if a, ok := isDeref(v); ok {
		if ia, ok := a.(*ssa.IndexAddr); ok {
			return ia.X == rl.Over && ia.Index == rl.Idx
		}
	}
	if ix, ok := v.(*ssa.Index); ok {
		return ix.X == rl.Over && ix.Index == rl.Idx
	}
	return false
}

// inExitRegion: b is reached by leaving the loop early (dominated by the header, outside the loop, not after Done).
func (rl *rangeLoop) inExitRegion(b *ssa.BasicBlock) bool {
	return rl.Header.Dominates(b) && b != rl.Header && !rl.inLoop(b) && !rl.Done.Dominates(b)
}

// exits lists the CFG edges (from-block) leaving the loop other than header->Done.
func (rl *rangeLoop) earlyExits() []*ssa.BasicBlock {
	var out []*ssa.BasicBlock
	for _, b := range rl.Fn.Blocks {
		if !rl.inLoop(b) {
			continue
		}
		for _, s := range b.Succs {
			if !rl.inLoop(s) && !(b == rl.Header && s == rl.Done) {
				out = append(out, b)
			}
		}
		if len(b.Succs) == 0 && b != rl.Header {
			out = append(out, b) // return/panic inside the loop
		}
	}
	return out
}

// ---------- shared rule: no message data as a format string ----------

func isFmtPrintf(name string) bool {
	switch name {
	case "fmt.Sprintf", "fmt.Fprintf", "fmt.Printf", "fmt.Errorf", "fmt.Fscanf", "fmt.Sscanf":
		return true
	}
	return false
}

// ruleFormatTaint: every fmt format operand in the package is a constant, or at least not network-derived.
func ruleFormatTaint(c *Ctx, rule string) {
	w := c.w
	g := w.Flow()
	nCalls, nNonConst := 0, 0
	for _, fn := range w.All {
		perFn := map[string]int{}
		for _, cs := range w.callsIn(fn) {
			if !isFmtPrintf(cs.Name) {
				continue
			}
			format, _, ok := w.fmtArgs(cs.In)
			if !ok {
				continue
			}
			nCalls++
			if _, isC := constString(format); isC {
				continue
			}
			nNonConst++
			perFn[cs.Name]++
			key := fmt.Sprintf("%s/%s#%d", w.fname(fn), cs.Name, perFn[cs.Name])
			c.Fns[w.fname(fn)] = true
			if tainted, wit := g.netTainted(format); tainted {
				c.bad(rule, key, w.ipos(cs.In), "the format operand "+w.termKey(format)+" is message data: a '%' in it is interpreted as a verb and the relayed text is rewritten (e.g. tag=%41x -> tag=%!x(MISSING))", "taint source: "+wit)
			} else {
				c.ok(rule, key, w.ipos(cs.In), "non-constant format operand does not derive from network input", "operand "+w.termKey(format))
			}
		}
	}
	c.Sites += nCalls
	c.ok(rule, "package/fmt-calls", "-", fmt.Sprintf("%d fmt format call sites inspected, %d with a non-constant format operand", nCalls, nNonConst))
	if nCalls < 60 {
		c.undecided(rule, "floor", "-", fmt.Sprintf("only %d fmt call sites found (expected >= 60): the rule would pass vacuously", nCalls))
	}
	// positive control: the detector must recognise a tainted flow on a known tainted value (Header.value printed with %v is an argument, not a format)
	if fv := w.field("Header", "value"); fv != nil {
		vals := g.fieldStores[fv]
		found := false
		for _, v := range vals {
			if t, _ := g.netTainted(v); t {
				found = true
			}
		}
		if !found {
			c.undecided(rule, "positive-control", "-", "taint engine does not see Header.value as network-derived: sources are not recognised, the rule cannot be trusted")
		} else {
			c.okTrivial(rule, "positive-control", "-", "taint engine recognises Header.value as network-derived")
		}
	}
}

// ---------- shared rule: header-name comparisons only inside the comparator ----------

const comparatorFn = "(*Message).isSameHeader"

// derivesFromHeaderName: the backward closure of v contains the field Header.name.
func derivesFromHeaderName(w *World, v ssa.Value) bool {
	fv := w.field("Header", "name")
	if fv == nil {
		return false
	}
	if _, isC := strip(v).(*ssa.Const); isC {
		return false
	}
	r := w.Flow().backward([]ssa.Value{v}, nil)
	return r.Nodes[fv]
}

func isStringType(t types.Type) bool {
	b, ok := t.Underlying().(*types.Basic)
	return ok && b.Info()&types.IsString != 0
}

var stringCompareCalls = map[string]bool{
	"strings.EqualFold": true, "strings.Compare": true, "strings.HasPrefix": true, "strings.HasSuffix": true,
	"strings.Contains": true, "strings.Index": true, "bytes.Equal": true, "strings.ContainsAny": true,
	"regexp.MatchString": true, "(*regexp.Regexp).MatchString": true, "slices.Contains[[]string string]": true,
}

// ruleComparatorDiscipline: every comparison (==, !=, <, EqualFold, map lookup, ...) with an operand that
// derives from Header.name happens inside the comparator. Returns the number of comparator call sites.
func ruleComparatorDiscipline(c *Ctx, rule string) {
	w := c.w
	cmp := c.fn(rule, comparatorFn)
	if cmp == nil {
		return
	}
	inside := map[*ssa.Function]bool{cmp: true}
	nCmpCalls, nDirect := 0, 0
	for _, fn := range w.All {
		if inside[fn] {
			continue
		}
		k := 0
		report := func(in ssa.Instruction, what string, v ssa.Value) {
			k++
			nDirect++
			c.Fns[w.fname(fn)] = true
			c.bad(rule, fmt.Sprintf("%s/direct-compare#%d", w.fname(fn), k), w.ipos(in), what+" on a value derived from Header.name ("+w.termKey(v)+") outside the comparator: other spellings (letter case, compact form) of the same header are treated differently")
		}
		eachInstr(fn, func(in ssa.Instruction) {
			switch x := in.(type) {
			case *ssa.BinOp:
				switch x.Op {
				case token.EQL, token.NEQ, token.LSS, token.GTR, token.LEQ, token.GEQ:
					if !isStringType(x.X.Type()) {
						return
					}
					for _, o := range []ssa.Value{x.X, x.Y} {
						if derivesFromHeaderName(w, o) {
							report(in, "string comparison "+x.Op.String(), o)
							return
						}
					}
				}
			case *ssa.Lookup:
				if isStringType(x.Index.Type()) && derivesFromHeaderName(w, x.Index) {
					report(in, "map lookup", x.Index)
				}
			case *ssa.Call:
				n := w.calleeName(x)
				if n == comparatorFn {
					nCmpCalls++
					c.Fns[w.fname(fn)] = true
					// one operand must be the stored name, the other the queried name
					a0, a1 := callArg(x, 0), callArg(x, 1)
					d0, d1 := derivesFromHeaderName(w, a0), derivesFromHeaderName(w, a1)
					c.check(d0 || d1, rule, fmt.Sprintf("%s/comparator-call@%s", w.fname(fn), w.termKey(a1)), w.ipos(in), "header name compared through the comparator", "comparator call does not involve a stored header name")
					return
				}
				if stringCompareCalls[n] {
					for _, o := range x.Call.Args {
						if isStringType(o.Type()) && derivesFromHeaderName(w, o) {
							report(in, "call "+n, o)
							return
						}
					}
				}
			}
		})
	}
	c.info(rule, "population", "-", fmt.Sprintf("%d comparator calls, %d direct comparisons", nCmpCalls, nDirect))
	if nCmpCalls < 5 {
		c.undecided(rule, "floor", "-", fmt.Sprintf("only %d comparator call sites (confirmed by hand: >= 5): lookups by name bypass the comparator", nCmpCalls))
	}
}

// headerNameConsts returns the constant header names that reach the comparator.
func headerNameConsts(w *World) []string {
	cmp := w.Fn(comparatorFn)
	if cmp == nil {
		return nil
	}
	g := w.Flow()
	set := map[string]bool{}
	for _, p := range cmp.Params[1:] {
		r := g.backward([]ssa.Value{p}, func(n fnode) bool {
			fv, ok := n.(*types.Var)
			return ok && fv.Name() == "name" && fv.IsField()
		})
		for l := range r.Leaves {
			if strings.HasPrefix(l[1:], "const:\"") {
				s := strings.TrimPrefix(l[1:], "const:")
				s = strings.Trim(s, "\"")
				set[s] = true
			}
		}
	}
	return sortedKeys(set)
}
