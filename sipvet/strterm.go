package main

import (
	"go/token"
	"strings"

	"golang.org/x/tools/go/ssa"
)

// A small symbolic evaluator for string-building code: a value is rendered as a sequence of literal
// segments and leaves (SSA values of the function under analysis), inlining single-return helpers,
// constructors that only copy parameters into a fresh struct, and field loads from such structs.

type spart struct {
	Lit  string
	Leaf ssa.Value // nil for literals
	Verb string    // verb used to render the leaf ("s", "q", "v", "d", "+" for concatenation)
}

type sval struct {
	parts []spart
	obj   map[string]sval // struct carrier: field name -> value
	isObj bool
}

type senv map[ssa.Value]sval

func leafVal(v ssa.Value) sval { return sval{parts: []spart{{Leaf: v, Verb: "+"}}} }

func (w *World) evalStr(v ssa.Value, env senv, depth int) sval {
	if depth > 8 || v == nil {
		return leafVal(v)
	}
	v = strip(v)
	if b, ok := env[v]; ok {
		return b
	}
	switch x := v.(type) {
	case *ssa.Const:
		if s, ok := constString(x); ok {
			return sval{parts: []spart{{Lit: s}}}
		}
		return leafVal(v)
	case *ssa.BinOp:
		if x.Op == token.ADD && isStringType(x.Type()) {
			l, r := w.evalStr(x.X, env, depth+1), w.evalStr(x.Y, env, depth+1)
			return sval{parts: mergeLits(append(append([]spart{}, l.parts...), r.parts...))}
		}
		return leafVal(v)
	case *ssa.Alloc:
		// struct literal: collect field stores
		o := sval{isObj: true, obj: map[string]sval{}}
		n := 0
		for _, r := range *x.Referrers() {
			fa, ok := r.(*ssa.FieldAddr)
			if !ok {
				continue
			}
			for _, rr := range *fa.Referrers() {
				if st, ok := rr.(*ssa.Store); ok && st.Addr == ssa.Value(fa) {
					o.obj[fieldName(fa.X.Type(), fa.Field)] = w.evalStr(st.Val, env, depth+1)
					n++
				}
			}
		}
		if n == 0 {
			return leafVal(v)
		}
		return o
	case *ssa.UnOp:
		if x.Op == token.MUL {
			if fa, ok := x.X.(*ssa.FieldAddr); ok {
				base := w.evalStr(fa.X, env, depth+1)
				if base.isObj {
					if fv, ok := base.obj[fieldName(fa.X.Type(), fa.Field)]; ok {
						return fv
					}
				}
			}
		}
		return leafVal(v)
	case *ssa.Phi:
		if w.strKeep != nil && x.Parent() == w.strFn {
			if vals := valuesUnder(w.strFn, x, w.strKeep); len(vals) == 1 {
				if _, still := vals[0].(*ssa.Phi); !still {
					return w.evalStr(vals[0], env, depth+1)
				}
			}
		}
		return leafVal(v)
	case *ssa.Call:
		name := w.calleeName(x)
		if name == "fmt.Sprintf" {
			format, args, ok := w.fmtArgs(x)
			fs, isC := constString(format)
			if !ok || !isC {
				return leafVal(v)
			}
			return sval{parts: mergeLits(w.renderFormat(fs, args, env, depth))}
		}
		// strconv.Quote(x) is the text %q prints for a string
		if name == "strconv.Quote" && len(x.Call.Args) == 1 {
			sub := w.evalStr(x.Call.Args[0], env, depth+1)
			if len(sub.parts) == 1 && sub.parts[0].Leaf != nil {
				pp := sub.parts[0]
				pp.Verb = "q"
				return sval{parts: []spart{pp}}
			}
			return sval{parts: []spart{{Leaf: x.Call.Args[0], Verb: "q"}}}
		}
		// decimal rendering of an integer: the same text as %d
		if (name == "strconv.Itoa" || name == "strconv.FormatInt" || name == "strconv.FormatUint") && len(x.Call.Args) >= 1 {
			base10 := name == "strconv.Itoa"
			if !base10 {
				if k, ok := constInt(x.Call.Args[1]); ok && k == 10 {
					base10 = true
				}
			}
			if base10 {
				arg := strip(x.Call.Args[0])
				if cv, ok := arg.(*ssa.Convert); ok && isIntegerType(cv.X.Type()) {
					arg = strip(cv.X)
				}
				return sval{parts: []spart{{Leaf: arg, Verb: "d"}}}
			}
		}
		callee := x.Common().StaticCallee()
		if callee != nil && w.isMain(callee) && callee.Blocks != nil {
			rets := returnsUnder(callee, nil)
			if len(rets) == 1 && len(rets[0].Results) == 1 && len(callee.Blocks) <= 2 {
				ne := senv{}
				for i, p := range callee.Params {
					if i < len(x.Call.Args) {
						ne[p] = w.evalStr(x.Call.Args[i], env, depth+1)
					}
				}
				return w.evalStr(rets[0].Results[0], ne, depth+1)
			}
		}
		return leafVal(v)
	}
	return leafVal(v)
}

func (w *World) renderFormat(format string, args []ssa.Value, env senv, depth int) []spart {
	var out []spart
	ai := 0
	lit := strings.Builder{}
	flush := func() {
		if lit.Len() > 0 {
			out = append(out, spart{Lit: lit.String()})
			lit.Reset()
		}
	}
	for i := 0; i < len(format); i++ {
		ch := format[i]
		if ch != '%' {
			lit.WriteByte(ch)
			continue
		}
		i++
		for i < len(format) && strings.IndexByte("+-# 0123456789.", format[i]) >= 0 {
			i++
		}
		if i >= len(format) {
			break
		}
		if format[i] == '%' {
			lit.WriteByte('%')
			continue
		}
		verb := string(format[i])
		flush()
		if ai < len(args) && args[ai] != nil {
			sub := w.evalStr(args[ai], env, depth+1)
			if verb == "s" || verb == "v" {
				for _, p := range sub.parts {
					if p.Leaf != nil && p.Verb == "+" {
						p.Verb = verb
					}
					out = append(out, p)
				}
			} else {
				// %q, %d ... of a composite: keep as a group only when it is a single leaf
				if len(sub.parts) == 1 && sub.parts[0].Leaf != nil {
					p := sub.parts[0]
					p.Verb = verb
					out = append(out, p)
				} else {
					out = append(out, spart{Leaf: args[ai], Verb: verb})
				}
			}
		} else {
			out = append(out, spart{Lit: "%!" + verb + "(MISSING)"})
		}
		ai++
	}
	flush()
	return out
}

// renderParts prints a term with leaves named by role.
func renderParts(parts []spart, role func(ssa.Value) string) string {
	var b strings.Builder
	for _, p := range parts {
		if p.Leaf == nil {
			b.WriteString(p.Lit)
		} else {
			verb := p.Verb
			if (verb == "+" || verb == "v") && isStringType(p.Leaf.Type()) {
				verb = "s" // concatenation, %v and %s print a string alike
			}
			b.WriteString("{" + role(p.Leaf) + ":%" + verb + "}")
		}
	}
	return b.String()
}

// mergeLits joins adjacent literal parts, so that "a" + ":" + b and Sprintf("a:%s", b) evaluate to the same term.
func mergeLits(parts []spart) []spart {
	var out []spart
	for _, p := range parts {
		if p.Leaf == nil && len(out) > 0 && out[len(out)-1].Leaf == nil {
			out[len(out)-1].Lit += p.Lit
			continue
		}
		if p.Leaf == nil && p.Lit == "" {
			continue
		}
		out = append(out, p)
	}
	return out
}

// evalStrUnder evaluates a string term of fn with the phis of fn resolved under keep.
func (w *World) evalStrUnder(fn *ssa.Function, v ssa.Value, keep edgeKeep) sval {
	w.strKeep, w.strFn = keep, fn
	defer func() { w.strKeep, w.strFn = nil, nil }()
	return w.evalStr(v, senv{}, 0)
}
