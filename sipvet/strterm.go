package main

import (
	"go/token"
	"go/types"
	"strings"

	"golang.org/x/tools/go/ssa"
)

// A small symbolic evaluator for string-building code: a value is rendered as a sequence of literal
// segments and leaves (SSA values of the function under analysis), inlining single-return helpers,
// constructors that only copy parameters into a fresh struct, and field loads from such structs.

type spart struct {
	Lit  string
	Leaf ssa.Value // nil for literals
	Verb string    // verb used to render the leaf ("s", "q", "v", "d", "+" for concatenation)
}

type sval struct {
	parts []spart
	obj   map[string]sval // struct carrier: field name -> value
	isObj bool
}

type senv map[ssa.Value]sval

func leafVal(v ssa.Value) sval { return sval{parts: []spart{{Leaf: v, Verb: "+"}}} }

func (w *World) evalStr(v ssa.Value, env senv, depth int) sval {
	if depth > 8 || v == nil {
		return leafVal(v)
	}
	v = strip(v)
	if b, ok := env[v]; ok {
		return b
	}
	switch x := v.(type) {
	case *ssa.Const:
		if s, ok := constString(x); ok {
			return sval{parts: []spart{{Lit: s}}}
		}
		return leafVal(v)
	case *ssa.BinOp:
		if x.Op == token.ADD && isStringType(x.Type()) {
			l, r := w.evalStr(x.X, env, depth+1), w.evalStr(x.Y, env, depth+1)
			return sval{parts: mergeLits(append(append([]spart{}, l.parts...), r.parts...))}
		}
		return leafVal(v)
	case *ssa.Alloc:
		// struct literal: collect field stores
		o := sval{isObj: true, obj: map[string]sval{}}
		n := 0
		for _, r := range *x.Referrers() {
			fa, ok := r.(*ssa.FieldAddr)
			if !ok {
				continue
			}
			for _, rr := range *fa.Referrers() {
				if st, ok := rr.(*ssa.Store); ok && st.Addr == ssa.Value(fa) {
					o.obj[fieldName(fa.X.Type(), fa.Field)] = w.evalStr(st.Val, env, depth+1)
					n++
				}
			}
		}
		if n == 0 {
			return leafVal(v)
		}
		return o
	case *ssa.UnOp:
		if x.Op == token.MUL {
			if fa, ok := x.X.(*ssa.FieldAddr); ok {
				base := w.evalStr(fa.X, env, depth+1)
				if base.isObj {
					if fv, ok := base.obj[fieldName(fa.X.Type(), fa.Field)]; ok {
						return fv
					}
				}
			}
		}
		return leafVal(v)
	case *ssa.Convert:
		if isStringType(x.Type()) && isByteSlice(x.X.Type()) {
			if parts, ok := w.evalBytes(x.X, env, depth+1); ok {
				return sval{parts: mergeLits(parts)}
			}
		}
		return leafVal(v)
	case *ssa.Phi:
		if w.strKeep != nil && x.Parent() == w.strFn {
			if vals := valuesUnder(w.strFn, x, w.strKeep); len(vals) == 1 {
				if _, still := vals[0].(*ssa.Phi); !still {
					return w.evalStr(vals[0], env, depth+1)
				}
			}
		}
		return leafVal(v)
	case *ssa.Call:
		name := w.calleeName(x)
		if name == "fmt.Sprintf" {
			format, args, ok := w.fmtArgs(x)
			fs, isC := constString(format)
			if !ok || !isC {
				return leafVal(v)
			}
			return sval{parts: mergeLits(w.renderFormat(fs, args, env, depth))}
		}
		// text accumulated in a local strings.Builder / bytes.Buffer by straight-line writes
		if (name == "(*strings.Builder).String" || name == "(*bytes.Buffer).String") && len(x.Call.Args) == 1 {
			if parts, ok := w.evalBuilder(x, env, depth); ok {
				return sval{parts: mergeLits(parts)}
			}
			return leafVal(v)
		}
		// strconv.Quote(x) is the text %q prints for a string
		if name == "strconv.Quote" && len(x.Call.Args) == 1 {
			sub := w.evalStr(x.Call.Args[0], env, depth+1)
			if len(sub.parts) == 1 && sub.parts[0].Leaf != nil {
				pp := sub.parts[0]
				pp.Verb = "q"
				return sval{parts: []spart{pp}}
			}
			return sval{parts: []spart{{Leaf: x.Call.Args[0], Verb: "q"}}}
		}
		// decimal rendering of an integer: the same text as %d
		if (name == "strconv.Itoa" || name == "strconv.FormatInt" || name == "strconv.FormatUint") && len(x.Call.Args) >= 1 {
			base10 := name == "strconv.Itoa"
			if !base10 {
				if k, ok := constInt(x.Call.Args[1]); ok && k == 10 {
					base10 = true
				}
			}
			if base10 {
				arg := strip(x.Call.Args[0])
				if cv, ok := arg.(*ssa.Convert); ok && isIntegerType(cv.X.Type()) {
					arg = strip(cv.X)
				}
				return sval{parts: []spart{{Leaf: arg, Verb: "d"}}}
			}
		}
		callee := x.Common().StaticCallee()
		if callee != nil && w.isMain(callee) && callee.Blocks != nil {
			rets := returnsUnder(callee, nil)
			if len(rets) == 1 && len(rets[0].Results) == 1 && len(callee.Blocks) <= 2 {
				ne := senv{}
				for i, p := range callee.Params {
					if i < len(x.Call.Args) {
						ne[p] = w.evalStr(x.Call.Args[i], env, depth+1)
					}
				}
				return w.evalStr(rets[0].Results[0], ne, depth+1)
			}
		}
		return leafVal(v)
	}
	return leafVal(v)
}

func (w *World) renderFormat(format string, args []ssa.Value, env senv, depth int) []spart {
	var out []spart
	ai := 0
	lit := strings.Builder{}
	flush := func() {
		if lit.Len() > 0 {
			out = append(out, spart{Lit: lit.String()})
			lit.Reset()
		}
	}
	for i := 0; i < len(format); i++ {
		ch := format[i]
		if ch != '%' {
			lit.WriteByte(ch)
			continue
		}
		i++
		for i < len(format) && strings.IndexByte("+-# 0123456789.", format[i]) >= 0 {
			i++
		}
		if i >= len(format) {
			break
		}
		if format[i] == '%' {
			lit.WriteByte('%')
			continue
		}
		verb := string(format[i])
		flush()
		if ai < len(args) && args[ai] != nil {
			sub := w.evalStr(args[ai], env, depth+1)
			if verb == "s" || verb == "v" {
				for _, p := range sub.parts {
					if p.Leaf != nil && p.Verb == "+" {
						p.Verb = verb
					}
					out = append(out, p)
				}
			} else {
				// %q, %d ... of a composite: keep as a group only when it is a single leaf
				if len(sub.parts) == 1 && sub.parts[0].Leaf != nil {
					p := sub.parts[0]
					p.Verb = verb
					out = append(out, p)
				} else {
					out = append(out, spart{Leaf: args[ai], Verb: verb})
				}
			}
		} else {
			out = append(out, spart{Lit: "%!" + verb + "(MISSING)"})
		}
		ai++
	}
	flush()
	return out
}

// renderParts prints a term with leaves named by role.
func renderParts(parts []spart, role func(ssa.Value) string) string {
	var b strings.Builder
	for _, p := range parts {
		if p.Leaf == nil {
			b.WriteString(p.Lit)
		} else {
			verb := p.Verb
			if (verb == "+" || verb == "v") && isStringType(p.Leaf.Type()) {
				verb = "s" // concatenation, %v and %s print a string alike
			}
			b.WriteString("{" + role(p.Leaf) + ":%" + verb + "}")
		}
	}
	return b.String()
}

// mergeLits joins adjacent literal parts, so that "a" + ":" + b and Sprintf("a:%s", b) evaluate to the same term.
func mergeLits(parts []spart) []spart {
	var out []spart
	for _, p := range parts {
		if p.Leaf == nil && len(out) > 0 && out[len(out)-1].Leaf == nil {
			out[len(out)-1].Lit += p.Lit
			continue
		}
		if p.Leaf == nil && p.Lit == "" {
			continue
		}
		out = append(out, p)
	}
	return out
}

// evalStrUnder evaluates a string term of fn with the phis of fn resolved under keep.
func (w *World) evalStrUnder(fn *ssa.Function, v ssa.Value, keep edgeKeep) sval {
	w.strKeep, w.strFn = keep, fn
	defer func() { w.strKeep, w.strFn = nil, nil }()
	return w.evalStr(v, senv{}, 0)
}

func isByteSlice(t types.Type) bool {
	sl, ok := t.Underlying().(*types.Slice)
	if !ok {
		return false
	}
	b, ok := sl.Elem().Underlying().(*types.Basic)
	return ok && b.Kind() == types.Uint8
}

// evalBytes renders a []byte built by a chain of appends: make([]byte, 0, n), append(b, 'c'...), append(b, s...),
// strconv.AppendQuote(b, s), strconv.AppendInt(b, i, 10).
func (w *World) evalBytes(v ssa.Value, env senv, depth int) ([]spart, bool) {
	if depth > 12 {
		return nil, false
	}
	v = strip(v)
	switch x := v.(type) {
	case *ssa.MakeSlice:
		if k, ok := constInt(x.Len); ok && k == 0 {
			return nil, true
		}
	case *ssa.Const:
		if x.IsNil() {
			return nil, true
		}
	case *ssa.Slice:
		// make([]byte, 0, K) with constant sizes is a view [:0] of a new array
		if _, isAl := x.X.(*ssa.Alloc); isAl && x.High != nil {
			if k, ok := constInt(x.High); ok && k == 0 {
				return nil, true
			}
		}
	case *ssa.Convert:
		if isStringType(x.X.Type()) {
			return w.evalStr(x.X, env, depth+1).parts, true
		}
	case *ssa.Call:
		name := w.calleeName(x)
		a := x.Call.Args
		switch {
		case name == "strconv.AppendQuote" && len(a) == 2:
			pre, ok := w.evalBytes(a[0], env, depth+1)
			if !ok {
				return nil, false
			}
			sub := w.evalStr(a[1], env, depth+1)
			if len(sub.parts) == 1 && sub.parts[0].Leaf != nil {
				pp := sub.parts[0]
				pp.Verb = "q"
				return append(pre, pp), true
			}
			return append(pre, spart{Leaf: a[1], Verb: "q"}), true
		case name == "strconv.AppendInt" && len(a) == 3:
			pre, ok := w.evalBytes(a[0], env, depth+1)
			if k, isK := constInt(a[2]); !ok || !isK || k != 10 {
				return nil, false
			}
			arg := strip(a[1])
			if cv, isCv := arg.(*ssa.Convert); isCv && isIntegerType(cv.X.Type()) {
				arg = strip(cv.X)
			}
			return append(pre, spart{Leaf: arg, Verb: "d"}), true
		case name == "builtin:append" && len(a) == 2:
			pre, ok := w.evalBytes(a[0], env, depth+1)
			if !ok {
				return nil, false
			}
			// append(b, s...) with a string or a []byte conversion of one
			if isStringType(a[1].Type()) {
				return append(pre, w.evalStr(a[1], env, depth+1).parts...), true
			}
			if els := varargs(a[1]); len(els) > 0 {
				for _, e := range els {
					k, isK := constInt(e)
					if !isK || k < 0 || k > 127 {
						return nil, false
					}
					pre = append(pre, spart{Lit: string(rune(k))})
				}
				return pre, true
			}
			if rest, ok := w.evalBytes(a[1], env, depth+1); ok {
				return append(pre, rest...), true
			}
		}
	}
	return nil, false
}

// evalBuilder renders the text a local strings.Builder (or bytes.Buffer) holds at a String() call: every write to it
// that is reachable (under the current pruning) must lie on all paths to the call and outside loops, the builder must not
// escape; the writes are taken in control-flow order.
func (w *World) evalBuilder(strCall *ssa.Call, env senv, depth int) ([]spart, bool) {
	recv := strip(strCall.Call.Args[0])
	al, ok := recv.(*ssa.Alloc)
	if !ok {
		return nil, false
	}
	fn := strCall.Parent()
	var keep edgeKeep
	if w.strKeep != nil && w.strFn == fn {
		keep = w.strKeep
	}
	type wr struct {
		call  *ssa.Call
		parts []spart
	}
	var writes []wr
	for _, r := range *al.Referrers() {
		switch y := r.(type) {
		case *ssa.DebugRef:
		case *ssa.Call:
			if len(y.Call.Args) == 0 || y.Call.Args[0] != ssa.Value(al) || y.Call.IsInvoke() {
				return nil, false
			}
			n := w.calleeName(y)
			dot := strings.LastIndex(n, ").")
			if dot < 0 || !(strings.HasPrefix(n, "(*strings.Builder).") || strings.HasPrefix(n, "(*bytes.Buffer).")) {
				return nil, false
			}
			switch n[dot+2:] {
			case "String", "Len", "Grow", "Cap":
			case "WriteString":
				writes = append(writes, wr{y, w.evalStr(y.Call.Args[1], env, depth+1).parts})
			case "WriteByte", "WriteRune":
				k, isK := constInt(y.Call.Args[1])
				if !isK || k < 0 || k > 127 {
					return nil, false
				}
				writes = append(writes, wr{y, []spart{{Lit: string(rune(k))}}})
			case "Write":
				bp, ok := w.evalBytes(y.Call.Args[1], env, depth+1)
				if !ok {
					return nil, false
				}
				writes = append(writes, wr{y, bp})
			default:
				return nil, false
			}
		default:
			return nil, false // address taken, stored, passed on: somebody else may write
		}
	}
	var live []wr
	for _, x := range writes {
		if !canReach(entryPt(fn), keep, isInstr(x.call), nil) || !canReach(at(x.call), keep, isInstr(strCall), nil) {
			continue
		}
		if canReach(at(x.call), keep, isInstr(x.call), nil) { // in a loop
			return nil, false
		}
		if !mustPrecede(fn, []ssa.Instruction{x.call}, strCall, keep) {
			return nil, false
		}
		live = append(live, x)
	}
	// control-flow order: a precedes b when b is reachable from a
	for i := 1; i < len(live); i++ {
		for j := i; j > 0 && canReach(at(live[j].call), keep, isInstr(live[j-1].call), nil); j-- {
			live[j], live[j-1] = live[j-1], live[j]
		}
	}
	var out []spart
	for _, x := range live {
		out = append(out, x.parts...)
	}
	return out, true
}
