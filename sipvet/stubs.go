package main

type threads struct{}
