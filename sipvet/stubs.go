package main

type flowGraph struct{}
type threads struct{}
