package main

import (
	"fmt"
	"go/token"
	"go/types"
	"sort"
	"strings"

	"golang.org/x/tools/go/ssa"
)

// THREADS: goroutine roots, per-function thread sets, must-hold locksets.

type threads struct {
	w         *World
	Roots     []*ssa.Function                   // goroutine entry functions of the main package, plus main and init
	GoSites   map[*ssa.Function][]*ssa.Go       // root -> go statements starting it
	Of        map[*ssa.Function]map[string]bool // function -> names of roots reaching it
	entry     map[*ssa.Function]map[string]bool // must-hold lockset on entry
	intra     map[ssa.Instruction]map[string]bool
	hasCaller map[*ssa.Function]bool
}

func (w *World) Threads() *threads {
	if w.thr != nil {
		return w.thr
	}
	t := &threads{w: w, GoSites: map[*ssa.Function][]*ssa.Go{}, Of: map[*ssa.Function]map[string]bool{}, entry: map[*ssa.Function]map[string]bool{}, intra: map[ssa.Instruction]map[string]bool{}, hasCaller: map[*ssa.Function]bool{}}
	rootSet := map[*ssa.Function]bool{}
	for _, fn := range w.All {
		eachInstr(fn, func(in ssa.Instruction) {
			g, ok := in.(*ssa.Go)
			if !ok {
				return
			}
			for _, callee := range w.goTargets(g) {
				if w.isMain(callee) {
					rootSet[callee] = true
					t.GoSites[callee] = append(t.GoSites[callee], g)
				}
			}
		})
	}
	if m := w.Main.Func("main"); m != nil {
		rootSet[m] = true
	}
	if i := w.Main.Func("init"); i != nil {
		rootSet[i] = true
	}
	for r := range rootSet {
		t.Roots = append(t.Roots, r)
	}
	sort.Slice(t.Roots, func(i, j int) bool { return w.fname(t.Roots[i]) < w.fname(t.Roots[j]) })
	for _, r := range t.Roots {
		name := w.fname(r)
		for fn := range t.reachThrough(r) {
			if t.Of[fn] == nil {
				t.Of[fn] = map[string]bool{}
			}
			t.Of[fn][name] = true
		}
	}
	t.computeLocksets()
	w.thr = t
	return t
}

// goTargets resolves the function(s) started by a go statement.
func (w *World) goTargets(g *ssa.Go) []*ssa.Function {
	if fn := g.Call.StaticCallee(); fn != nil {
		return []*ssa.Function{fn}
	}
	if mc, ok := g.Call.Value.(*ssa.MakeClosure); ok {
		return []*ssa.Function{mc.Fn.(*ssa.Function)}
	}
	return w.calleesOf(g)
}

// reachThrough: main-package functions reachable from root, passing through library code, not following go edges.
func (t *threads) reachThrough(root *ssa.Function) map[*ssa.Function]bool {
	w := t.w
	seen := map[*ssa.Function]bool{root: true}
	out := map[*ssa.Function]bool{}
	work := []*ssa.Function{root}
	for len(work) > 0 {
		fn := work[len(work)-1]
		work = work[:len(work)-1]
		if w.isMain(fn) {
			out[fn] = true
		}
		n := w.CG.Nodes[fn]
		if n == nil {
			continue
		}
		for _, e := range n.Out {
			if _, isGo := e.Site.(*ssa.Go); isGo {
				continue
			}
			cf := e.Callee.Func
			if seen[cf] {
				continue
			}
			// library code calling back into the package is followed only for plain calls of function values and
			// interface methods the package passes in; printing callbacks (String/Error/Format) are not thread-relevant
			if !w.isMain(cf) && !w.isMain(fn) {
				// library -> library: follow, but stay out of fmt/reflect printing machinery
				if p := cf.Pkg; p != nil && (p.Pkg.Path() == "reflect") {
					continue
				}
			}
			seen[cf] = true
			work = append(work, cf)
		}
	}
	return out
}

func (t *threads) threadNames(fn *ssa.Function) []string {
	return sortedKeys(t.Of[fn])
}

// ---- locksets ----

// lockClass names the mutex a Lock/Unlock call operates on: "Type.field".
func (w *World) lockClass(c ssa.CallInstruction) (class string, acquire bool, ok bool) {
	name := w.calleeName(c)
	switch name {
	case "(*sync.Mutex).Lock", "(*sync.RWMutex).Lock", "(*sync.RWMutex).RLock":
		acquire = true
	case "(*sync.Mutex).Unlock", "(*sync.RWMutex).Unlock", "(*sync.RWMutex).RUnlock":
		acquire = false
	default:
		return "", false, false
	}
	args := c.Common().Args
	if len(args) == 0 {
		return "", false, false
	}
	if fa, isFA := args[0].(*ssa.FieldAddr); isFA {
		return fieldRef(fa), acquire, true
	}
	if g, isG := args[0].(*ssa.Global); isG {
		return "global." + g.Name(), acquire, true
	}
	return "unknown(" + w.termKey(args[0]) + ")", acquire, true
}

func copySet(m map[string]bool) map[string]bool {
	o := map[string]bool{}
	for k := range m {
		o[k] = true
	}
	return o
}

func intersect(a, b map[string]bool) map[string]bool {
	o := map[string]bool{}
	for k := range a {
		if b[k] {
			o[k] = true
		}
	}
	return o
}

func sameSet(a, b map[string]bool) bool {
	if len(a) != len(b) {
		return false
	}
	for k := range a {
		if !b[k] {
			return false
		}
	}
	return true
}

// intraLocks computes, for every instruction of fn, the locks acquired in fn and still held (must analysis);
// deferred unlocks keep the lock until the function returns.
func (t *threads) intraLocks(fn *ssa.Function) {
	w := t.w
	if len(fn.Blocks) == 0 {
		return
	}
	in := map[*ssa.BasicBlock]map[string]bool{}
	out := map[*ssa.BasicBlock]map[string]bool{}
	var universe map[string]bool
	universe = map[string]bool{}
	eachInstr(fn, func(i ssa.Instruction) {
		if c, ok := i.(ssa.CallInstruction); ok {
			if cls, _, ok := w.lockClass(c); ok {
				universe[cls] = true
			}
		}
	})
	if len(universe) == 0 {
		return
	}
	for _, b := range fn.Blocks {
		out[b] = copySet(universe)
	}
	transfer := func(b *ssa.BasicBlock, s map[string]bool, record bool) map[string]bool {
		s = copySet(s)
		for _, i := range b.Instrs {
			if record {
				t.intra[i] = copySet(s)
			}
			c, ok := i.(ssa.CallInstruction)
			if !ok {
				continue
			}
			cls, acq, ok := w.lockClass(c)
			if !ok {
				continue
			}
			if _, isDefer := i.(*ssa.Defer); isDefer {
				continue // runs at exit
			}
			if _, isGo := i.(*ssa.Go); isGo {
				continue
			}
			if acq {
				s[cls] = true
			} else {
				delete(s, cls)
			}
		}
		return s
	}
	changed := true
	for iter := 0; changed && iter < 50; iter++ {
		changed = false
		for _, b := range fn.Blocks {
			var s map[string]bool
			if b == fn.Blocks[0] {
				s = map[string]bool{}
			} else if len(b.Preds) == 0 {
				s = map[string]bool{} // recover block etc.
			} else {
				for i, p := range b.Preds {
					if i == 0 {
						s = copySet(out[p])
					} else {
						s = intersect(s, out[p])
					}
				}
			}
			in[b] = s
			o := transfer(b, s, false)
			if !sameSet(o, out[b]) {
				out[b] = o
				changed = true
			}
		}
	}
	for _, b := range fn.Blocks {
		transfer(b, in[b], true)
	}
}

func (t *threads) computeLocksets() {
	w := t.w
	for _, fn := range w.All {
		t.intraLocks(fn)
	}
	// entry locksets: intersection over call sites in the package (fixpoint, optimistic start = universe)
	allLocks := map[string]bool{}
	for _, s := range t.intra {
		for k := range s {
			allLocks[k] = true
		}
	}
	for _, fn := range w.All {
		eachInstr(fn, func(i ssa.Instruction) {
			if c, ok := i.(ssa.CallInstruction); ok {
				if cls, _, ok := w.lockClass(c); ok {
					allLocks[cls] = true
				}
			}
		})
	}
	rootSet := map[*ssa.Function]bool{}
	for _, r := range t.Roots {
		rootSet[r] = true
	}
	for _, fn := range w.All {
		t.entry[fn] = copySet(allLocks)
	}
	changed := true
	for iter := 0; changed && iter < 100; iter++ {
		changed = false
		for _, fn := range w.All {
			var s map[string]bool
			n := w.CG.Nodes[fn]
			nCallers := 0
			if rootSet[fn] {
				s = map[string]bool{}
				nCallers++
			}
			if n != nil {
				for _, e := range n.In {
					if e.Site == nil {
						continue
					}
					if _, isGo := e.Site.(*ssa.Go); isGo {
						if s == nil {
							s = map[string]bool{}
						} else {
							s = map[string]bool{}
						}
						nCallers++
						continue
					}
					caller := e.Caller.Func
					var at map[string]bool
					if w.isMain(caller) {
						at = t.locksAt(e.Site)
						if _, isDefer := e.Site.(*ssa.Defer); isDefer {
							at = map[string]bool{} // deferred call: locks at exit unknown
						}
					} else {
						at = map[string]bool{} // called from library code: nothing known to be held
					}
					nCallers++
					if s == nil {
						s = copySet(at)
					} else {
						s = intersect(s, at)
					}
				}
			}
			if s == nil {
				s = map[string]bool{}
			}
			t.hasCaller[fn] = nCallers > 0
			if !sameSet(s, t.entry[fn]) {
				t.entry[fn] = s
				changed = true
			}
		}
	}
}

// locksAt: locks that must be held when instruction i executes.
func (t *threads) locksAt(i ssa.Instruction) map[string]bool {
	s := copySet(t.entry[i.Parent()])
	for k := range t.intra[i] {
		s[k] = true
	}
	return s
}

// ---- container subjects and accesses ----

type access struct {
	In      ssa.Instruction
	Fn      *ssa.Function
	Write   bool
	Fresh   bool // base object allocated in this function (constructor context)
	Locks   map[string]bool
	Threads []string
	What    string
}

type subject struct {
	Name     string // "Type.field" or "global.name"
	Accesses []access
	Type     string
	IsGlobal bool
}

func isContainerType(t types.Type) bool {
	switch t.Underlying().(type) {
	case *types.Map, *types.Slice:
		return true
	}
	return false
}

// payload / configuration types are not "shared routing state": they are handed off, or single-threaded.
var payloadTypes = map[string]bool{"Message": true, "Header": true, "RawMessage": true, "SizedByteArray": true, "BackendChangeEvent": true,
	"Via": true, "ViaParam": true, "Route": true, "RouteParam": true, "RecordRoute": true, "RecRoute": true, "FromSpec": true, "To": true,
	"SIPURI": true, "NameAddr": true, "AddrSpec": true, "KeyValue": true, "CSeq": true, "Dialog": true, "RequestLine": true, "StatusLine": true}

// usesOfLoaded classifies how a loaded container value is used: returns true when some use mutates it.
func containerMutations(v ssa.Value, depth int) []ssa.Instruction {
	var out []ssa.Instruction
	if depth > 3 || v.Referrers() == nil {
		return out
	}
	for _, r := range *v.Referrers() {
		switch x := r.(type) {
		case *ssa.MapUpdate:
			if x.Map == v {
				out = append(out, r)
			}
		case *ssa.Call:
			if b, ok := x.Call.Value.(*ssa.Builtin); ok {
				switch b.Name() {
				case "delete":
					if len(x.Call.Args) > 0 && x.Call.Args[0] == v {
						out = append(out, r)
					}
				case "append":
					// append(v, ..) may write into v's backing array
					if len(x.Call.Args) > 0 && x.Call.Args[0] == v {
						out = append(out, r)
					}
				case "copy":
					if len(x.Call.Args) > 0 && x.Call.Args[0] == v {
						out = append(out, r)
					}
				}
			}
		case *ssa.IndexAddr:
			if x.X == v {
				for _, rr := range *x.Referrers() {
					if st, ok := rr.(*ssa.Store); ok && st.Addr == ssa.Value(x) {
						out = append(out, rr)
					}
					if fa, ok := rr.(*ssa.FieldAddr); ok {
						for _, r3 := range *fa.Referrers() {
							if st, ok := r3.(*ssa.Store); ok && st.Addr == ssa.Value(fa) {
								out = append(out, r3)
							}
						}
					}
				}
			}
		case *ssa.Slice:
			if x.X == v {
				out = append(out, containerMutations(x, depth+1)...)
			}
		}
	}
	return out
}

// Subjects enumerates every map/slice-typed field of package struct types and every package-level map/slice variable,
// with all accesses.
func (t *threads) Subjects() []*subject {
	w := t.w
	subs := map[string]*subject{}
	get := func(name, typ string, global bool) *subject {
		s := subs[name]
		if s == nil {
			s = &subject{Name: name, Type: typ, IsGlobal: global}
			subs[name] = s
		}
		return s
	}
	// declare all subjects first (so that never-accessed ones are listed too)
	sc := w.Main.Pkg.Scope()
	for _, n := range sc.Names() {
		switch o := sc.Lookup(n).(type) {
		case *types.TypeName:
			if st, ok := o.Type().Underlying().(*types.Struct); ok {
				for i := 0; i < st.NumFields(); i++ {
					if isContainerType(st.Field(i).Type()) {
						get(n+"."+fvName(st.Field(i)), n, false)
					}
				}
			}
		case *types.Var:
			if isContainerType(o.Type()) {
				get("global."+n, "", true)
			}
		}
	}
	add := func(s *subject, in ssa.Instruction, write, fresh bool, what string) {
		s.Accesses = append(s.Accesses, access{In: in, Fn: in.Parent(), Write: write, Fresh: fresh, Locks: t.locksAt(in), Threads: t.threadNames(in.Parent()), What: what})
	}
	for _, fn := range w.All {
		eachInstr(fn, func(in ssa.Instruction) {
			switch x := in.(type) {
			case *ssa.FieldAddr:
				fv := fieldVarOf(x)
				if fv == nil || !isContainerType(fv.Type()) {
					return
				}
				ref := fieldRef(x)
				s := subs[ref]
				if s == nil {
					return
				}
				fresh := w.isFreshValue(fn, x.X, 0)
				for _, r := range *x.Referrers() {
					switch y := r.(type) {
					case *ssa.Store:
						if y.Addr == ssa.Value(x) {
							add(s, r, true, fresh, "store")
						}
					case *ssa.UnOp:
						if y.Op == token.MUL {
							muts := containerMutations(y, 0)
							if len(muts) > 0 {
								for _, m := range muts {
									add(s, m, true, fresh, "element/map update")
								}
							} else {
								add(s, r, false, fresh, "read")
							}
						}
					}
				}
			case *ssa.UnOp:
				if x.Op != token.MUL {
					return
				}
				g, ok := x.X.(*ssa.Global)
				if !ok || !w.isMain(fn) || g.Pkg != w.Main {
					return
				}
				if !isContainerType(x.Type()) {
					return
				}
				s := subs["global."+g.Name()]
				if s == nil {
					return
				}
				muts := containerMutations(x, 0)
				if len(muts) > 0 {
					for _, m := range muts {
						add(s, m, true, false, "element/map update")
					}
				} else {
					add(s, in, false, false, "read")
				}
			case *ssa.Store:
				if g, ok := x.Addr.(*ssa.Global); ok && g.Pkg == w.Main && isContainerType(x.Val.Type()) {
					if s := subs["global."+g.Name()]; s != nil {
						add(s, in, true, false, "store")
					}
				}
			}
		})
	}
	var out []*subject
	for _, k := range sortedKeys(subs) {
		out = append(out, subs[k])
	}
	return out
}

func fmtSet(m map[string]bool) string { return "{" + strings.Join(sortedKeys(m), ",") + "}" }

func (a access) String(w *World) string {
	k := "read"
	if a.Write {
		k = "write"
	}
	return fmt.Sprintf("%s %s in %s [threads %v, locks %s]", k, w.ipos(a.In), w.fname(a.Fn), a.Threads, fmtSet(a.Locks))
}

// ---- scalar / pointer / interface fields ----

// FieldSubjects enumerates the non-container fields of package struct types (payload and configuration types
// excepted; mutexes excepted) with their accesses. An access through sync/atomic is marked "atomic".
func (t *threads) FieldSubjects() []*subject {
	w := t.w
	subs := map[string]*subject{}
	sc := w.Main.Pkg.Scope()
	for _, n := range sc.Names() {
		tn, ok := sc.Lookup(n).(*types.TypeName)
		if !ok {
			continue
		}
		st, ok := tn.Type().Underlying().(*types.Struct)
		if !ok || payloadTypes[n] || configTypes[n] {
			continue
		}
		for i := 0; i < st.NumFields(); i++ {
			f := st.Field(i)
			if isContainerType(f.Type()) {
				continue
			}
			ts := types.TypeString(f.Type(), nil)
			if ts == "sync.Mutex" || ts == "sync.RWMutex" {
				continue
			}
			if _, isChan := f.Type().Underlying().(*types.Chan); isChan {
				continue // channels synchronise themselves; the field is set at construction
			}
			subs[n+"."+fvName(f)] = &subject{Name: n + "." + fvName(f), Type: n}
		}
	}
	for _, fn := range w.All {
		eachInstr(fn, func(in ssa.Instruction) {
			fa, ok := in.(*ssa.FieldAddr)
			if !ok {
				return
			}
			s := subs[fieldRef(fa)]
			if s == nil {
				return
			}
			fresh := w.isFreshValue(fn, fa.X, 0)
			for _, r := range *fa.Referrers() {
				switch y := r.(type) {
				case *ssa.Store:
					if y.Addr == ssa.Value(fa) {
						s.Accesses = append(s.Accesses, access{In: r, Fn: fn, Write: true, Fresh: fresh, Locks: t.locksAt(r), Threads: t.threadNames(fn), What: "store"})
					}
				case *ssa.UnOp:
					if y.Op == token.MUL {
						s.Accesses = append(s.Accesses, access{In: r, Fn: fn, Write: false, Fresh: fresh, Locks: t.locksAt(r), Threads: t.threadNames(fn), What: "load"})
					}
				case ssa.CallInstruction:
					name := w.calleeName(y)
					if strings.HasPrefix(name, "sync/atomic.") {
						wr := !strings.Contains(name, "Load")
						s.Accesses = append(s.Accesses, access{In: r, Fn: fn, Write: wr, Fresh: fresh, Locks: map[string]bool{"atomic": true}, Threads: t.threadNames(fn), What: "atomic"})
					}
				case *ssa.FieldAddr:
					// a field of an embedded struct value: accounted to the inner field
				}
			}
		})
	}
	var out []*subject
	for _, k := range sortedKeys(subs) {
		out = append(out, subs[k])
	}
	return out
}

var configTypes = map[string]bool{"ProxyConfig": true, "ProxiesConfigure": true, "HostIp": true, "PreRouteItem": true}

// mutexClass names the mutex of a struct type as lockClass does ("Type.field"): the one field whose type is sync.Mutex or
// sync.RWMutex, embedded or named; fallback when there is none or several.
func (w *World) mutexClass(typeName, fallback string) string {
	n := w.lookupType(typeName)
	if n == nil {
		return fallback
	}
	st, ok := n.Underlying().(*types.Struct)
	if !ok {
		return fallback
	}
	found, cnt := "", 0
	for i := 0; i < st.NumFields(); i++ {
		ts := types.TypeString(st.Field(i).Type(), nil)
		if ts == "sync.Mutex" || ts == "sync.RWMutex" {
			found = typeName + "." + fvName(st.Field(i))
			cnt++
		}
	}
	if cnt == 1 {
		return found
	}
	return fallback
}
