#!/usr/bin/env python3
"""Sensitivity run of the thorough tier: applies the property's seeded variants (selftest/*.jsonl and the kept sub-agent
changes under seeded/) to scratch copies of /repo's CURRENT tree created under mktemp (outside /repo and /verif), runs the
checker on each, and records in the evidence file how many fired. It never changes the verdict: exit code and VIOLATION
lines come from the analysis of /repo alone; a variant that is not detected prints a SENSITIVITY-WARNING line."""
import json, os, sys, glob, shutil, subprocess, tempfile, concurrent.futures as cf

V = os.path.dirname(os.path.abspath(__file__))
sys.path.insert(0, os.path.join(V, "selftest"))
import run as st

def seeded_variant(d, prop):
    tmp, dst, vd = st.scratch_copy()
    res = {"id": os.path.basename(d), "prop": prop, "expect": "", "kind": "seeded"}
    try:
        subprocess.run(["git", "init", "-q"], cwd=dst, capture_output=True)
        r = subprocess.run(["git", "apply", os.path.join(d, "patch.diff")], cwd=dst, capture_output=True, text=True)
        if r.returncode != 0:
            r = subprocess.run(["patch", "-p1", "--fuzz=3", "-s", "-i", os.path.join(d, "patch.diff")], cwd=dst, capture_output=True, text=True)
        if r.returncode != 0:
            res["status"] = "skipped"; res["why"] = "patch does not apply to the current tree"
            return res
        shutil.rmtree(os.path.join(dst, ".git"), ignore_errors=True)
        # the checker's loader type-checks the copy itself (and fails closed): a separate compiler run is not needed
        r = subprocess.run([st.BIN, "-repo", dst, "-verif", vd, "-prop", prop], env=st.ENV, capture_output=True, text=True)
        out = r.stdout
        if "  rule    loader" in out:
            res["status"] = "skipped"; res["why"] = "does not type-check on the current tree"
            return res
        res["rules"] = sorted(set(l.split()[1] for l in out.splitlines() if l.startswith("  rule ")))
        res["status"] = "fired" if (r.returncode == 1 and "VIOLATION property=" + prop in out) else "MISSED"
        return res
    finally:
        shutil.rmtree(tmp, ignore_errors=True)

def benign_variant(d, prop):
    """a behaviour-preserving refactoring from /verif/benign: this property's check must stay silent on it"""
    tmp, dst, vd = st.scratch_copy()
    res = {"id": os.path.basename(d), "prop": prop, "kind": "benign"}
    try:
        subprocess.run(["git", "init", "-q"], cwd=dst, capture_output=True)
        r = subprocess.run(["git", "apply", os.path.join(d, "patch.diff")], cwd=dst, capture_output=True, text=True)
        if r.returncode != 0:
            r = subprocess.run(["patch", "-p1", "--fuzz=3", "-s", "-i", os.path.join(d, "patch.diff")], cwd=dst, capture_output=True, text=True)
        if r.returncode != 0:
            res["status"] = "skipped"
            return res
        shutil.rmtree(os.path.join(dst, ".git"), ignore_errors=True)
        r = subprocess.run([st.BIN, "-repo", dst, "-verif", vd, "-prop", prop], env=st.ENV, capture_output=True, text=True)
        if "  rule    loader" in r.stdout:
            res["status"] = "skipped"
            return res
        alarm = r.returncode != 0 or ("VIOLATION property=" in r.stdout)
        if not alarm:
            res["status"] = "silent"
        elif os.path.exists(os.path.join(d, "EXPECTED_ALARM")):
            res["status"] = "known-alarm"
        else:
            res["status"] = "ALARM"
            res["rules"] = sorted(set(l.split()[1] for l in r.stdout.splitlines() if l.startswith("  rule ")))
        return res
    finally:
        shutil.rmtree(tmp, ignore_errors=True)

def main():
    prop = sys.argv[1]
    evp = os.path.join(V, "evidence", prop + ".json")
    ev = json.load(open(evp))
    if ev.get("violations", 0) > 0:
        ev["coverage"]["sensitivity"] = {"skipped_all": True, "reason": "the decision on /repo is already a violation"}
        json.dump(ev, open(evp, "w"), indent=1)
        return
    vs = [v for v in st.load_variants() if v["prop"] == prop]
    seeded = []
    for mp in sorted(glob.glob(os.path.join(V, "seeded", "*", "meta.json"))):
        try:
            m = json.load(open(mp))
        except Exception:
            continue
        if m.get("property") == prop:
            seeded.append(os.path.dirname(mp))
    results = []
    with cf.ThreadPoolExecutor(max_workers=16) as ex:
        futs = [ex.submit(st.run_variant, v, True) for v in vs] + [ex.submit(seeded_variant, d, prop) for d in seeded]
        for f in futs:
            results.append(f.result())
    n = {"applied": 0, "fired": 0, "silent_benign": 0, "skipped": 0, "failed": 0}
    out = []
    for r in results:
        s = r["status"]
        if s in ("skipped", "nocompile"):
            n["skipped"] += 1
        else:
            n["applied"] += 1
            if s in ("fired", "fired-other"):
                n["fired"] += 1
            elif s == "silent-ok":
                n["silent_benign"] += 1
            else:
                n["failed"] += 1
                print(f"SENSITIVITY-WARNING property={prop} variant={r['id']} status={s} (the seeded change was not handled as expected; the verdict on /repo is unaffected)")
        out.append({"id": r["id"], "status": s, "expected_rule": r.get("expect", ""), "rules_fired": r.get("rules")})
    # specificity: behaviour-preserving refactorings written by others must not make this check fire
    bdirs = sorted(os.path.dirname(p) for p in glob.glob(os.path.join(V, "benign", "*", "patch.diff")))
    with cf.ThreadPoolExecutor(max_workers=16) as ex:
        bres = list(ex.map(lambda d: benign_variant(d, prop), bdirs))
    b = {"applied": 0, "silent": 0, "known_alarm": 0, "alarm": 0, "skipped": 0}
    balarms = []
    for r in bres:
        if r["status"] == "skipped":
            b["skipped"] += 1
            continue
        b["applied"] += 1
        if r["status"] == "silent":
            b["silent"] += 1
        elif r["status"] == "known-alarm":
            b["known_alarm"] += 1
            balarms.append({"id": r["id"], "status": "known-alarm"})
        else:
            b["alarm"] += 1
            balarms.append({"id": r["id"], "status": "ALARM", "rules_fired": r.get("rules")})
            print(f"SPECIFICITY-WARNING property={prop} refactoring={r['id']} rules={r.get('rules')} (a behaviour-preserving refactoring makes this check fire; the verdict on /repo is unaffected)")
    ev["coverage"]["specificity"] = dict(b, alarms=balarms, note="behaviour-preserving refactorings (/verif/benign, written by independent sub-agents) applied to scratch copies of the current tree; this property's check must stay silent")
    print(f"{prop} specificity: {b}")
    ev["coverage"]["sensitivity"] = dict(n, variants=out, note="seeded single-construct changes applied to scratch copies of the current tree; exit code and VIOLATION lines depend on /repo alone")
    json.dump(ev, open(evp, "w"), indent=1)
    print(f"{prop} sensitivity: {n}")

if __name__ == "__main__":
    main()
